#!/usr/bin/env python3
"""Trace-corruption self-test for spec/sys/ParReadTrace.tla (C07): an unchanged run is accepted, every
single-field corruption is rejected with the named verdict, a reference that is not the written table
makes the rest of its execution unjudged.   Run:  PYTHONPATH=/verif python3 selftest/c07_trace_selftest.py"""
import copy
import sys
from vlib import common

table = [["01000000", "N", "03000000"], ["-", "61", "N"]]
calls = [{"st": 0, "rows": 2, "ns": [2, 2], "cols": ["01,01000000", "00,00000000"]},
         {"st": 0, "rows": 1, "ns": [1, 1], "cols": ["0,03000000", "1,-"]},
         {"st": 63, "rows": -1, "ns": [], "cols": []}]
toks = [[["01000000", "N"], ["-", "61"]], [["03000000"], ["N"]]]
fx = {"id": "t", "e": "Fixture", "table": table}
seq = {"id": "t", "e": "Seq", "proj": [0, 1], "calls": calls, "toks": toks}
run = {"id": "r_ok", "e": "Run", "threads": 4, "forced": False, "realised": False, "bad": 0, "lockv": 0, "calls": calls}


def mut(name, f):
    r = copy.deepcopy(run)
    r["id"] = name
    f(r)
    return r


runs = [run,
        mut("r_value", lambda r: r["calls"][0]["cols"].__setitem__(0, "01,02000000")),
        mut("r_bitmap", lambda r: r["calls"][1]["cols"].__setitem__(1, "0,-")),
        mut("r_rows", lambda r: r["calls"][0].update(rows=1, ns=[1, 1])),
        mut("r_misaligned", lambda r: r["calls"][0].update(ns=[2, 1])),
        mut("r_status", lambda r: r["calls"].__setitem__(1, {"st": 40, "rows": -1, "ns": [], "cols": []})),
        mut("r_dropped_call", lambda r: r["calls"].pop(1)),
        mut("r_forced_drift", lambda r: r.update(forced=True, realised=False, lockv=0))]
bad_seq = copy.deepcopy(seq)
bad_seq["id"] = "t2"
bad_seq["toks"][0][0][0] = "ff000000"
execs = [[fx, seq] + runs, [dict(fx, id="t2"), bad_seq, dict(run, id="after_bad_seq")],
         [{"id": "s", "e": "Solo", "prog": "I", "out": "I=01"}, {"id": "c1", "e": "Conc", "prog": "I", "out": "I=01", "n": 2, "i": 0},
          {"id": "c2", "e": "Conc", "prog": "I", "out": "I=00|01", "n": 2, "i": 1}, {"id": "c3", "e": "Conc", "prog": "K", "out": "K=1", "n": 2, "i": 1}]]
want = {"r_value": ["content-differs"], "r_bitmap": ["content-differs"], "r_rows": ["rows-differ"], "r_misaligned": ["misaligned-batch"],
        "r_status": ["status-differs"], "r_dropped_call": ["status-differs"], "r_forced_drift": ["drift:lock-admitted-not-realised"],
        "t2": ["seq:not-the-table-written"], "c2": ["differs-from-solo"], "c3": ["differs-from-solo"]}
v, st, _ = common.validate_traces("ParReadTrace", execs, nproc=1)
got = {x["id"]: sorted(x["why"]) for x in v}
print(got)
sys.exit(0 if got == want else 1)
