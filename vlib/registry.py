"""Single source of truth for MANIFEST.json. `python3 -m vlib.registry` rewrites the manifest."""
import json, os

VERIF = os.path.dirname(os.path.dirname(os.path.abspath(__file__)))

HOOK_COMMITS = []

CHECKS = {
 "C20": dict(level="model_checking", design="6/C20",
   technique="TLC model checking of BloomSys/Bloom/XxHash64 TLA+ specs + replay of every TLC-generated history on the implementation (exact filter bytes)",
   text="TLC exhaustively explores the Bloom-filter state machine (sizes x typed values x insert/merge/reload, bounded depth) checking no-false-negative, size rounding, fresh-empty and merge=union on the specification, and every explored history is replayed on carquet with the exact filter bytes and probe answers compared; XXH64 for every length 0..100+ x seeds against the byte-limb TLA+ transcription of the xxHash spec.",
   note="Trusted: TLC; the TLA+ transcriptions of XXH64 and SBBF (validated against published vectors in MC_LibSelf); the replayer copies bytes only. Bounded depth (3 ops) and the listed sizes."),

 "C01": dict(level="model_checking", design="6/C01",
   technique="TLC explores Writer.tla to generate write histories; replay on carquet; TLC trace validation (WriterTrace.tla) of statuses, re-open metadata and full read-back against the table the history promised",
   text="Write histories are the reachable Close states of the Writer state machine explored by TLC (schema catalogue over all 7 writable types x all null patterns for <= 5 rows / run-structured patterns beyond x all splits into write_batch calls x row-group cuts x def levels given/omitted), multiplied by codecs and page sizes; each is executed on the real library and the recorded trace must be a behaviour of Writer.tla whose read-back equals TableWritten. Byte arrays are dereferenced after the call and again before the next call under ASan.",
   note="Trusted: TLC, Writer.tla/WriterTrace.tla, h_file (copies bytes only). Bounded row counts (<= 24), <= 3 batches per column and row group, <= 3 row groups; values from per-type token tables (extremes, NaN payloads, -0.0, empty/long strings)."),
 "C05": dict(level="model_checking", design="6/C05",
   technique="TLA+ reference reader (ParquetFile.tla + ThriftCompact + Hybrid + Crc32, executed by TLC) parses every file carquet wrote from TLC-generated histories; structural predicates and table equality evaluated in WriterTrace.tla",
   text="The independent reader demanded by the property is the TLA+ specification of the file format itself: TLC evaluates ParseFile on the produced bytes and checks magic, footer length, required Thrift fields, tiling of chunks, page-size chaining, value/row counts, encoding tags, IEEE CRC of the stored page bytes, uncompressed sizes, and that the parsed table equals the one the history promised; byte-identical output on a second run with a perturbed heap.",
   note="Trusted: TLC and the TLA+ format modules (self-checked: MC_ThriftSelf, MC_HybridSelf, MC_LibSelf). Page bodies are judged for the codecs the TLA+ reader can decompress (evidence lists them); files <= a few KB."),
 "C14": dict(level="fault_enumeration", design="6/C14",
   technique="Crc32.tla (TLC) supplies CRC values and checks the composition law; damage positions come from the TLA+ reference reader's page map; outcomes of reading each damaged file validated by TLC against DamageTrace.tla",
   text="CRC function: every length/split/pattern against the table-driven TLA+ CRC-32 (IEEE) incl. update composition, at several alignments. Damage: every byte of every page body of every fixture file x damage kinds (single bit, 0xff, 32-bit burst) x {fread, mmap, buffer} x verify on/off; with verification on the trace checker requires an error at the damaged page, no row of it delivered, earlier rows unchanged, and no spurious error on intact chunks or undamaged files; with verification off only memory safety.",
   note="Trusted: TLC, Crc32.tla (published check value), ParquetFile.tla page map, ASan/LSan as fault observers. Fixtures are carquet-written files of a few hundred bytes with several pages per chunk."),
}

PENDING_REASON = "check not built yet (work in progress; planned per DESIGN.md section 6)"
NOT_APPLICABLE = {}


def build():
    props = [json.loads(l) for l in open(os.path.join(VERIF, "properties.jsonl"))]
    checks = []
    na = []
    for p in props:
        pid = p["id"]
        if pid in CHECKS:
            c = CHECKS[pid]
            checks.append({
                "property_id": pid,
                "quick_cmd": "bin/vcheck %s --tier quick" % pid,
                "thorough_cmd": "bin/vcheck %s --tier thorough" % pid,
                "evidence_file": "evidence/%s.json" % pid,
                "replay_cmd_template": "bin/vcheck %s --replay {path}" % pid,
                "engine": "vcheck",
                "level_claimed": {"category": c["level"], "text": c["text"], "design_ref": c["design"]},
                "level_note": c["note"],
                "technique": c["technique"],
            })
        else:
            na.append({"property_id": pid, "reason": NOT_APPLICABLE.get(pid, PENDING_REASON)})
    m = {"version": 1,
         "setup_cmd": "bin/vsetup",
         "hooks": {"guard": "CARQUET_VERIF",
                   "enable": "bin/vcheck builds /repo's working tree itself: cmake -DCMAKE_C_FLAGS='-O1 -g -fsanitize=address -DNDEBUG -DCARQUET_VERIF' into a scratch dir keyed by a content hash of /repo/src,include,CMakeLists.txt",
                   "baseline_off_cmd": "bin/vbaseline",
                   "source_commits": HOOK_COMMITS, "add_only": True},
         "engines": [{"name": "vcheck", "path": "bin/vcheck", "serves_properties": sorted(CHECKS),
                      "kind_free_text": "Python driver: TLC (explicit TLA+ specs under spec/) generates behaviours/cases with expected results or validates recorded traces; C harnesses under harness/ replay them on libcarquet.a built from /repo with ASan"}],
         "checks": checks,
         "notes": "See DESIGN.md. Exit 0 = held (KNOWN-FINDING lines possible), 1 = VIOLATION, 2 = infrastructure error.",
         "not_applicable": na}
    with open(os.path.join(VERIF, "MANIFEST.json"), "w") as fh:
        json.dump(m, fh, indent=1)
    return m


if __name__ == "__main__":
    m = build()
    print("manifest: %d checks, %d not claimed" % (len(m["checks"]), len(m["not_applicable"])))
