"""Single source of truth for MANIFEST.json. `python3 -m vlib.registry` rewrites the manifest."""
import json, os

VERIF = os.path.dirname(os.path.dirname(os.path.abspath(__file__)))

HOOK_COMMITS = []

CHECKS = {
 "C20": dict(level="model_checking", design="6/C20",
   technique="TLC model checking of BloomSys/Bloom/XxHash64 TLA+ specs + replay of every TLC-generated history on the implementation (exact filter bytes)",
   text="TLC exhaustively explores the Bloom-filter state machine (sizes x typed values x insert/merge/reload, bounded depth) checking no-false-negative, size rounding, fresh-empty and merge=union on the specification, and every explored history is replayed on carquet with the exact filter bytes and probe answers compared; XXH64 for every length 0..100+ x seeds against the byte-limb TLA+ transcription of the xxHash spec.",
   note="Trusted: TLC; the TLA+ transcriptions of XXH64 and SBBF (validated against published vectors in MC_LibSelf); the replayer copies bytes only. Bounded depth (3 ops) and the listed sizes."),
}

PENDING_REASON = "check not built yet (work in progress; planned per DESIGN.md section 6)"
NOT_APPLICABLE = {}


def build():
    props = [json.loads(l) for l in open(os.path.join(VERIF, "properties.jsonl"))]
    checks = []
    na = []
    for p in props:
        pid = p["id"]
        if pid in CHECKS:
            c = CHECKS[pid]
            checks.append({
                "property_id": pid,
                "quick_cmd": "bin/vcheck %s --tier quick" % pid,
                "thorough_cmd": "bin/vcheck %s --tier thorough" % pid,
                "evidence_file": "evidence/%s.json" % pid,
                "replay_cmd_template": "bin/vcheck %s --replay {path}" % pid,
                "engine": "vcheck",
                "level_claimed": {"category": c["level"], "text": c["text"], "design_ref": c["design"]},
                "level_note": c["note"],
                "technique": c["technique"],
            })
        else:
            na.append({"property_id": pid, "reason": NOT_APPLICABLE.get(pid, PENDING_REASON)})
    m = {"version": 1,
         "setup_cmd": "bin/vsetup",
         "hooks": {"guard": "CARQUET_VERIF",
                   "enable": "bin/vcheck builds /repo's working tree itself: cmake -DCMAKE_C_FLAGS='-O1 -g -fsanitize=address -DNDEBUG -DCARQUET_VERIF' into a scratch dir keyed by a content hash of /repo/src,include,CMakeLists.txt",
                   "baseline_off_cmd": "bin/vbaseline",
                   "source_commits": HOOK_COMMITS, "add_only": True},
         "engines": [{"name": "vcheck", "path": "bin/vcheck", "serves_properties": sorted(CHECKS),
                      "kind_free_text": "Python driver: TLC (explicit TLA+ specs under spec/) generates behaviours/cases with expected results or validates recorded traces; C harnesses under harness/ replay them on libcarquet.a built from /repo with ASan"}],
         "checks": checks,
         "notes": "See DESIGN.md. Exit 0 = held (KNOWN-FINDING lines possible), 1 = VIOLATION, 2 = infrastructure error.",
         "not_applicable": na}
    with open(os.path.join(VERIF, "MANIFEST.json"), "w") as fh:
        json.dump(m, fh, indent=1)
    return m


if __name__ == "__main__":
    m = build()
    print("manifest: %d checks, %d not claimed" % (len(m["checks"]), len(m["not_applicable"])))
