"""Single source of truth for MANIFEST.json. `python3 -m vlib.registry` rewrites the manifest."""
import json, os

VERIF = os.path.dirname(os.path.dirname(os.path.abspath(__file__)))

HOOK_COMMITS = [l.strip() for l in open(os.path.join(os.path.dirname(os.path.abspath(__file__)), 'hook_commits.txt')) if l.strip()]

def _load():
    d = os.path.join(os.path.dirname(os.path.abspath(__file__)), "registry.d")
    out = {}
    for fn in sorted(os.listdir(d)):
        if fn.endswith(".json"):
            out[fn[:-5]] = json.load(open(os.path.join(d, fn)))
    return out


CHECKS = _load()     # one JSON file per claimed property under vlib/registry.d/

PENDING_REASON = "check not built yet (work in progress; planned per DESIGN.md section 6)"
NOT_APPLICABLE = {}


def build():
    props = [json.loads(l) for l in open(os.path.join(VERIF, "properties.jsonl"))]
    checks = []
    na = []
    for p in props:
        pid = p["id"]
        if pid in CHECKS:
            c = CHECKS[pid]
            checks.append({
                "property_id": pid,
                "quick_cmd": "bin/vcheck %s --tier quick" % pid,
                "thorough_cmd": "bin/vcheck %s --tier thorough" % pid,
                "evidence_file": "evidence/%s.json" % pid,
                "replay_cmd_template": "bin/vcheck %s --replay {path}" % pid,
                "engine": "vcheck",
                "level_claimed": {"category": c["level"], "text": c["text"], "design_ref": c["design"]},
                "level_note": c["note"],
                "technique": c["technique"],
            })
        else:
            na.append({"property_id": pid, "reason": NOT_APPLICABLE.get(pid, PENDING_REASON)})
    m = {"version": 1,
         "setup_cmd": "bin/vsetup",
         "hooks": {"guard": "CARQUET_VERIF",
                   "enable": "bin/vcheck builds /repo's working tree itself: cmake -DCMAKE_C_FLAGS='-O1 -g -fsanitize=address -DNDEBUG -DCARQUET_VERIF' into a scratch dir keyed by a content hash of /repo/src,include,CMakeLists.txt",
                   "baseline_off_cmd": "bin/vbaseline",
                   "source_commits": HOOK_COMMITS, "add_only": True},
         "engines": [{"name": "vcheck", "path": "bin/vcheck", "serves_properties": sorted(CHECKS),
                      "kind_free_text": "Python driver: TLC (explicit TLA+ specs under spec/) generates behaviours/cases with expected results or validates recorded traces; C harnesses under harness/ replay them on libcarquet.a built from /repo with ASan"}],
         "checks": checks,
         "notes": "See DESIGN.md. Exit 0 = held (KNOWN-FINDING lines possible), 1 = VIOLATION, 2 = infrastructure error.",
         "not_applicable": na}
    with open(os.path.join(VERIF, "MANIFEST.json"), "w") as fh:
        json.dump(m, fh, indent=1)
    return m


if __name__ == "__main__":
    m = build()
    print("manifest: %d checks, %d not claimed" % (len(m["checks"]), len(m["not_applicable"])))
