"""Shared machinery for /verif checks: build /repo, run TLC, drive C harnesses, write evidence.

Everything here is glue. Verdicts come from the TLA+ specifications (expected results emitted by
TLC, or traces accepted/rejected by TLC); this file never decides a property by itself.
"""
import fcntl
import hashlib
import json
import os
import re
import shutil
import signal
import subprocess
import sys
import tempfile
import time

VERIF = os.path.dirname(os.path.dirname(os.path.abspath(__file__)))
REPO = os.environ.get("VERIF_REPO", "/repo")
SPEC = os.path.join(VERIF, "spec")
TLA_JAR = "/opt/veriftools/tla/tla2tools.jar:/opt/veriftools/tla/CommunityModules-deps.jar"
NCPU = os.cpu_count() or 4
GUARD = "CARQUET_VERIF"

SAN_FLAGS = "-O1 -g -fsanitize=address -fno-omit-frame-pointer -DNDEBUG -D" + GUARD
PLAIN_FLAGS = "-O2 -g -DNDEBUG -D" + GUARD


class InfraError(Exception):
    """Machinery failure (build, TLC parse...). Exit code 2, never a VIOLATION."""


def log(*a):
    print("[vcheck]", *a, file=sys.stderr, flush=True)


def seed():
    try:
        return int(os.environ.get("VERIF_SEED", "1"))
    except ValueError:
        return 1


# --------------------------------------------------------------------------------------
# building /repo
# --------------------------------------------------------------------------------------

def _tree_hash(paths):
    h = hashlib.sha1()
    for root in paths:
        if os.path.isfile(root):
            files = [root]
        else:
            files = []
            for d, _, fs in os.walk(root):
                for f in fs:
                    files.append(os.path.join(d, f))
        for f in sorted(files):
            h.update(f.encode())
            with open(f, "rb") as fh:
                h.update(fh.read())
    return h.hexdigest()[:16]


def repo_hash():
    return _tree_hash([os.path.join(REPO, "src"), os.path.join(REPO, "include"),
                       os.path.join(REPO, "CMakeLists.txt")])


def scratch_root():
    d = os.environ.get("VERIF_SCRATCH", "/tmp/carquet-verif")
    os.makedirs(d, exist_ok=True)
    return d


class _Lock:
    def __init__(self, path):
        self.path = path

    def __enter__(self):
        self.fh = open(self.path, "w")
        fcntl.flock(self.fh, fcntl.LOCK_EX)
        return self

    def __exit__(self, *a):
        fcntl.flock(self.fh, fcntl.LOCK_UN)
        self.fh.close()


def _gc_builds(keep):
    """Remove stale build dirs (other tree hashes) so /tmp does not fill up."""
    root = scratch_root()
    for name in os.listdir(root):
        p = os.path.join(root, name)
        if name.startswith("build-") and keep not in name and os.path.isdir(p):
            try:
                if time.time() - os.path.getmtime(p) > 1800:
                    shutil.rmtree(p, ignore_errors=True)
            except OSError:
                pass


def build_lib(variant="asan"):
    """Build libcarquet.a from /repo's *current working tree* with the hooks on.

    The build directory is keyed by a content hash of the sources, so an edit to /repo always
    triggers a rebuild and an unchanged tree is rebuilt at most once per scratch directory.
    Returns the build directory.
    """
    flags = {"asan": SAN_FLAGS, "plain": PLAIN_FLAGS}[variant]
    h = repo_hash()
    root = scratch_root()
    bdir = os.path.join(root, "build-%s-%s" % (variant, h))
    with _Lock(os.path.join(root, "build-%s.lock" % variant)):
        if os.path.exists(os.path.join(bdir, "libcarquet.a")) and os.path.exists(os.path.join(bdir, ".ok")):
            os.utime(bdir)
            return bdir
        _gc_builds(h)
        shutil.rmtree(bdir, ignore_errors=True)
        t0 = time.time()
        cmd = ["cmake", "-G", "Ninja", "-S", REPO, "-B", bdir,
               "-DCMAKE_BUILD_TYPE=", "-DCMAKE_C_FLAGS=" + flags,
               "-DCARQUET_BUILD_TESTS=OFF", "-DCARQUET_BUILD_EXAMPLES=OFF",
               "-DCARQUET_BUILD_BENCHMARKS=OFF"]
        r = subprocess.run(cmd, stdout=subprocess.PIPE, stderr=subprocess.STDOUT, text=True)
        if r.returncode != 0:
            raise InfraError("cmake configure failed:\n" + r.stdout[-3000:])
        r = subprocess.run(["cmake", "--build", bdir, "--target", "carquet"],
                           stdout=subprocess.PIPE, stderr=subprocess.STDOUT, text=True)
        if r.returncode != 0:
            raise InfraError("build of /repo failed:\n" + r.stdout[-3000:])
        open(os.path.join(bdir, ".ok"), "w").close()
        log("built libcarquet.a (%s) in %.1fs -> %s" % (variant, time.time() - t0, bdir))
    return bdir


def build_harness(name, sources=None, variant="asan", extra=()):
    """Compile /verif/harness/<name>.c (+ sources) against the freshly built library."""
    bdir = build_lib(variant)
    hdir = os.path.join(VERIF, "harness")
    srcs = [os.path.join(hdir, s) for s in (sources or [name + ".c"])]
    deps = srcs + [os.path.join(hdir, f) for f in os.listdir(hdir) if f.endswith(".h")]
    hh = _tree_hash(deps) + hashlib.sha1(" ".join(extra).encode()).hexdigest()[:6]
    out = os.path.join(bdir, "%s-%s" % (name, hh))
    with _Lock(os.path.join(bdir, name + ".lock")):
        if os.path.exists(out):
            return out
        flags = {"asan": SAN_FLAGS, "plain": PLAIN_FLAGS}[variant].split()
        cmd = (["gcc", "-std=gnu11"] + flags + ["-fopenmp", "-Wall", "-Wno-unused-function",
               "-I", os.path.join(REPO, "include"), "-I", os.path.join(REPO, "src"), "-I", hdir]
               + srcs + list(extra) + [os.path.join(bdir, "libcarquet.a"), "-lzstd", "-lz", "-lm", "-lpthread",
               "-o", out + ".tmp"])
        r = subprocess.run(cmd, stdout=subprocess.PIPE, stderr=subprocess.STDOUT, text=True)
        if r.returncode != 0:
            raise InfraError("harness %s failed to build:\n%s" % (name, r.stdout[-4000:]))
        os.rename(out + ".tmp", out)
    return out


# --------------------------------------------------------------------------------------
# TLC
# --------------------------------------------------------------------------------------

class TlcResult:
    def __init__(self):
        self.out = ""
        self.rc = None
        self.states = 0
        self.distinct = 0
        self.depth = 0
        self.wall = 0.0
        self.violated = None      # name of violated invariant / property, if any
        self.cases = []           # JSON objects printed by the spec
        self.error = None


_re_states = re.compile(r"(\d+) states generated, (\d+) distinct states found")
_re_depth = re.compile(r"The depth of the complete state graph search is (\d+)")
_re_inv = re.compile(r"Invariant (\S+) is violated")


def spec_dirs():
    return [os.path.join(SPEC, d) for d in ("lib", "fmt", "sys", "mc")]


def run_tlc(module, cfg=None, workers=None, simulate=None, depth=None, env=None, timeout=1100,
            extra_args=(), constants_text=None, heap="8g", dfs=False, want_cases=True,
            coverage=False, tseed=None):
    """Run TLC on spec/mc/<module>.tla (or an absolute path). Returns TlcResult.

    TLC's metadata goes to a private scratch dir which is removed afterwards.
    `constants_text` (optional) is written as the cfg instead of an existing file.
    """
    path = module if os.path.isabs(module) else None
    if path is None:
        for d in spec_dirs():
            p = os.path.join(d, module + ".tla")
            if os.path.exists(p):
                path = p
                break
    if path is None:
        raise InfraError("spec module not found: " + module)
    meta = tempfile.mkdtemp(prefix="tlc-", dir=scratch_root())
    try:
        if constants_text is not None:
            cfgpath = os.path.join(meta, "gen.cfg")
            with open(cfgpath, "w") as fh:
                fh.write(constants_text)
        else:
            cfgpath = cfg if (cfg and os.path.isabs(cfg)) else os.path.join(os.path.dirname(path), (cfg or os.path.basename(path)[:-4]) + ("" if (cfg or "").endswith(".cfg") else ".cfg"))
        jopts = ["-XX:+UseParallelGC", "-Xss512m", "-Xmx" + heap,
                 "-DTLA-Library=" + ":".join(spec_dirs())]
        if dfs:
            jopts.append("-Dtlc2.tool.queue.IStateQueue=StateDeque")
        cmd = ["java"] + jopts + ["-cp", TLA_JAR, "tlc2.TLC", "-metadir", os.path.join(meta, "states"),
               "-workers", str(workers or NCPU), "-config", cfgpath, "-noGenerateSpecTE"]
        if simulate:
            cmd += ["-simulate", "num=%d" % simulate]
            cmd += ["-seed", str(tseed if tseed is not None else seed())]
        elif tseed is not None:
            cmd += ["-seed", str(tseed)]
        if depth:
            cmd += ["-depth", str(depth)]
        if coverage:
            cmd += ["-coverage", "1"]
        cmd += list(extra_args) + [path]
        e = dict(os.environ)
        e.pop("JAVA_TOOL_OPTIONS", None)
        if env:
            e.update(env)
        t0 = time.time()
        res = TlcResult()
        try:
            r = subprocess.run(cmd, stdout=subprocess.PIPE, stderr=subprocess.STDOUT, text=True,
                               env=e, timeout=timeout, cwd=meta)
            res.out, res.rc = r.stdout, r.returncode
        except subprocess.TimeoutExpired as ex:
            res.out = (ex.stdout or b"").decode() if isinstance(ex.stdout, bytes) else (ex.stdout or "")
            res.rc = -9
            res.error = "timeout"
        res.wall = time.time() - t0
        for m in _re_states.finditer(res.out):
            res.states, res.distinct = int(m.group(1)), int(m.group(2))
        m = _re_depth.search(res.out)
        if m:
            res.depth = int(m.group(1))
        m = _re_inv.search(res.out)
        if m:
            res.violated = m.group(1)
        if want_cases:
            for line in res.out.splitlines():
                if line.startswith('"{') or line.startswith('"['):
                    try:
                        res.cases.append(json.loads(json.loads(line)))
                    except Exception as ex:
                        res.unparsed = getattr(res, "unparsed", []) + [line[:400]]
        if res.rc not in (0, 12, 13) and res.error is None:
            # 12 = safety violation, 13 = liveness violation; anything else is infrastructure
            if "Parsing or semantic analysis failed" in res.out or "Error:" in res.out or res.rc != 0:
                res.error = "tlc rc=%s" % res.rc
        return res
    finally:
        shutil.rmtree(meta, ignore_errors=True)


def tlc_ok(res, what):
    """Raise InfraError unless TLC finished model checking without error."""
    if res.error or res.rc != 0:
        # show TLC's own error message (it precedes the error trace), then the tail
        k = res.out.find("Error:")
        head = res.out[k:k + 1500] if k >= 0 else ""
        raise InfraError("%s: TLC failed (%s)\n%s\n...\n%s" % (what, res.error or res.rc, head, res.out[-2000:]))
    return res


# --------------------------------------------------------------------------------------
# C harness driver (line protocol, crash isolation)
# --------------------------------------------------------------------------------------

ASAN_ENV = {
    "ASAN_OPTIONS": "detect_leaks=1:abort_on_error=0:exitcode=77:allocator_may_return_null=1:"
                    "detect_stack_use_after_return=0:handle_segv=1:print_summary=1:malloc_context_size=8:max_allocation_size_mb=2048",
    "LSAN_OPTIONS": "exitcode=78:print_suppressions=0",
    "OMP_NUM_THREADS": "4",
}


def hexs(bs):
    return bytes(bs).hex() if len(bs) else "-"


def unhex(s):
    return b"" if s == "-" else bytes.fromhex(s)


class Fault:
    def __init__(self, case_id, kind, detail):
        self.case_id, self.kind, self.detail = case_id, kind, detail

    def signature(self):
        return "%s:%s" % (self.kind, self.detail)


_re_asan = re.compile(r"ERROR: AddressSanitizer: (\S+)")
_re_frame = re.compile(r"#\d+ 0x[0-9a-f]+ in (\S+) (\S+)")


def asan_signature(stderr):
    kind = "crash"
    m = _re_asan.search(stderr)
    if m:
        kind = m.group(1)
    elif "LeakSanitizer" in stderr:
        kind = "leak"
    frame = "?"
    for fm in _re_frame.finditer(stderr):
        fn, loc = fm.group(1), fm.group(2)
        if "/src/" in loc and "harness" not in loc and "libsanitizer" not in loc and "sysdeps" not in loc:
            frame = "%s@%s" % (fn, os.path.basename(loc).rsplit(":", 1)[0] if loc.count(":") > 1 else os.path.basename(loc))
            break
    if frame == "?":
        # no library frame on the stack: the access happened in the harness itself (on a pointer / length the library
        # handed out, or a harness defect - triage starts there)
        for fm in _re_frame.finditer(stderr):
            fn, loc = fm.group(1), fm.group(2)
            if "/harness/" in loc:
                frame = "in-harness:%s" % fn
                break
    return kind, frame


def run_harness(binary, lines, per_case_timeout=20.0, env=None, args=()):
    """Feed `lines` (each starts with a case id token) to the harness one process at a time.

    The harness echoes `BEGIN <id>` before executing a case and `<id> <result...>` after. If the
    process dies or hangs inside a case, that case becomes a Fault and the harness is restarted
    on the remaining lines. Returns (results: {id: [tokens]}, faults: [Fault]).
    """
    results, faults = {}, []
    idx = 0
    e = dict(os.environ)
    e.update(ASAN_ENV)
    if env:
        e.update(env)
    # (callers whose cases are known to be tiny may set VH_CASE_TIMEOUT in env: the harness then kills itself inside a
    # case that exceeds it - vh.h - and the hang is detected without waiting for the whole chunk's budget)
    lines = list(lines)
    # a change that breaks progress makes MANY cases hang, each costing a full time budget: after a few hangs in one
    # call the remaining lines are left unexecuted (the hangs themselves are reported; missing results are not judged)
    max_hangs = int(os.environ.get("VERIF_MAX_HANGS", "4"))
    nhang = 0
    while idx < len(lines):
        if nhang >= max_hangs:
            break
        chunk = lines[idx:]
        errf = tempfile.TemporaryFile(mode="w+")
        p = subprocess.Popen([binary] + list(args), stdin=subprocess.PIPE, stdout=subprocess.PIPE,
                             stderr=errf, text=True, env=e)
        budget = max(30.0, per_case_timeout * 2 + 0.002 * len(chunk))
        try:
            out, _ = p.communicate("\n".join(chunk) + "\n", timeout=budget + len(chunk) * 0.01)
            hung = False
        except subprocess.TimeoutExpired:
            p.kill()
            out, _ = p.communicate()
            hung = True
        errf.seek(0)
        err = errf.read()
        errf.close()
        current = None
        done = 0
        for ln in out.splitlines():
            if ln.startswith("BEGIN "):
                current = ln[6:].strip()
            elif ln and current is not None and ln.split(" ", 1)[0] == current:
                toks = ln.split(" ")
                results[toks[0]] = toks[1:]
                current = None
                done += 1
        if p.returncode == 0 and not hung and current is None:
            idx += len(chunk)
            continue
        if current is None:
            # died outside a case (e.g. leak report at exit)
            if p.returncode == 78 or "LeakSanitizer" in err:
                faults.append(Fault("<exit>", "leak", asan_signature(err)[1]))
                idx += len(chunk)
                continue
            if done == 0:
                raise InfraError("harness %s failed outside any case rc=%s\n%s" % (binary, p.returncode, err[-2000:]))
            idx += done
            continue
        if p.returncode == -14:          # SIGALRM: the harness's own per-case watchdog
            hung = True
        kind, frame = ("hang", "?") if hung else asan_signature(err)
        if hung:
            nhang += 1
        f = Fault(current, kind, frame)
        f.stderr = err[-6000:]
        faults.append(f)
        # skip past the faulting case
        for j, ln in enumerate(chunk):
            if ln.split(" ", 1)[0] == current:
                idx += j + 1
                break
        else:
            idx += max(done, 1)
    return results, faults


def run_harness_leaks(binary, lines, leak_every=64, **kw):
    """run_harness + attribution of leaks: the harness checks for leaks every `leak_every`
    cases; a window that reports LEAK is re-run with a check after every case.
    Returns (results, faults, leaky_ids)."""
    lines = list(lines)
    env = dict(kw.pop("env", None) or {})
    env["VH_LEAK_EVERY"] = str(leak_every)
    results, faults = run_harness(binary, lines, env=env, **kw)
    leaky = []
    ids = [ln.split(" ", 1)[0] for ln in lines]
    for i, cid in enumerate(ids):
        r = results.get(cid)
        if r and r[-1] == "LEAK":
            r.pop()
            window = lines[max(0, i - leak_every + 1):i + 1]
            env1 = dict(env)
            env1["VH_LEAK_EVERY"] = "1"
            r2, _ = run_harness(binary, window, env=env1, **kw)
            for wid, toks in r2.items():
                if toks and toks[-1] == "LEAK":
                    leaky.append(wid)
    return results, faults, leaky


def parallel_chunks(items, nchunks):
    items = list(items)
    if not items:
        return []
    nchunks = max(1, min(nchunks, len(items)))
    size = (len(items) + nchunks - 1) // nchunks
    return [items[i:i + size] for i in range(0, len(items), size)]


def run_harness_parallel(binary, lines, nproc=None, leaks=True, line_for_chunk=None, **kw):
    """Run the harness on `lines` split over nproc processes. `line_for_chunk(i, line)` may
    rewrite a line per chunk (e.g. to give each process its own scratch file name).
    Returns (results, faults, leaky_ids)."""
    from concurrent.futures import ThreadPoolExecutor
    nproc = nproc or NCPU
    chunks = parallel_chunks(lines, nproc)
    def work(args):
        i, ch = args
        if line_for_chunk:
            ch = [line_for_chunk(i, ln) for ln in ch]
        if leaks:
            return run_harness_leaks(binary, ch, **kw)
        r, f = run_harness(binary, ch, **kw)
        return r, f, []
    results, faults, leaky = {}, [], []
    with ThreadPoolExecutor(max_workers=nproc) as ex:
        for r, f, lk in ex.map(work, list(enumerate(chunks))):
            results.update(r)
            faults.extend(f)
            leaky.extend(lk)
    return results, faults, leaky


def validate_traces(module, events, nproc=None, cfg=None, timeout=1500, heap="3g"):
    """Trace validation: `events` is a list of executions (each a list of event dicts; a Reset
    event is prepended to each). The executions are split over nproc TLC processes running the
    deterministic trace spec `module`; every process prints one JSON report
    {verdicts: [{l,id,e,why,detail}], stats, lines}. Returns (verdicts, stats, tlc_results)."""
    from concurrent.futures import ThreadPoolExecutor
    nproc = nproc or NCPU
    tdir = tempfile.mkdtemp(prefix="trace-", dir=scratch_root())
    # the executions are written to at least nproc trace files of bounded size (one TLC process reads a whole file
    # into memory: a trace of a gigabyte does not fit its heap and shows up as a JSON parse failure)
    max_bytes = int(os.environ.get("VERIF_TRACE_BYTES", 96 * 1024 * 1024))
    per_file = max(1, (len(events) + nproc - 1) // nproc)
    paths, fh, size, count = [], None, 0, 0
    for ex_ in events:
        if fh is None or count >= per_file or size >= max_bytes:
            if fh:
                fh.close()
            paths.append(os.path.join(tdir, "t%d.ndjson" % len(paths)))
            fh, size, count = open(paths[-1], "w"), 0, 0
        lines = [json.dumps({"e": "Reset", "id": ex_[0].get("id", "")})] + [json.dumps(ev) for ev in ex_]
        txt = "\n".join(lines) + "\n"
        fh.write(txt)
        size += len(txt)
        count += 1
    if fh:
        fh.close()
    def work(path):
        return run_tlc(module, cfg=cfg, workers=1, env={"TRACE": path}, timeout=timeout, heap=heap)
    chunks = paths
    verdicts, stats, ress = [], {"execs": 0, "events": 0, "failed": 0}, []
    try:
        with ThreadPoolExecutor(max_workers=nproc) as ex:
            for res in ex.map(work, chunks):
                ress.append(res)
                if res.error or res.rc != 0 or not res.cases:
                    if getattr(res, "unparsed", None):
                        raise InfraError("trace validation with %s: report line is not valid JSON: %s" % (module, res.unparsed[0]))
                    i = res.out.find("Error:")
                    raise InfraError("trace validation with %s failed (rc=%s %s)\n%s\n...\n%s" % (
                        module, res.rc, res.error, res.out[max(0, i - 200):i + 2500] if i >= 0 else "", res.out[-1500:]))
                rep = res.cases[-1]
                verdicts.extend(rep["verdicts"])
                for k in stats:
                    stats[k] += rep["stats"].get(k, 0)
    finally:
        if not os.environ.get("VERIF_KEEP_TRACES"):
            shutil.rmtree(tdir, ignore_errors=True)
    return verdicts, stats, ress


# --------------------------------------------------------------------------------------
# findings, evidence, verdict
# --------------------------------------------------------------------------------------

def load_findings():
    p = os.path.join(VERIF, "known_findings.json")
    if not os.path.exists(p):
        return []
    with open(p) as fh:
        return json.load(fh)


class Check:
    """Collects coverage + violations for one property run and produces the final verdict."""

    def __init__(self, pid, tier, level):
        self.pid, self.tier, self.level = pid, tier, level
        self.t0 = time.time()
        self.cov = {"evaluations": 0, "distinct_nontrivial": 0, "rule": "", "samples": [],
                    "states": 0, "transitions": 0, "traces_validated_against_impl": 0}
        self.assumptions = []
        self.violations = []     # (signature, description, replay_obj)
        self.known_hit = {}
        self.parts = {}
        self._distinct = set()
        rdir = os.path.join(VERIF, "replays", pid)
        if os.path.isdir(rdir):
            shutil.rmtree(rdir, ignore_errors=True)

    def add_tlc(self, res):
        self.cov["states"] += res.distinct
        self.cov["transitions"] += res.states

    def count(self, key_obj, nontrivial=True):
        self.cov["evaluations"] += 1
        if nontrivial:
            k = hashlib.sha1(json.dumps(key_obj, sort_keys=True, default=str).encode()).digest()[:8]
            self._distinct.add(k)

    def sample(self, obj, limit=6):
        if len(self.cov["samples"]) < limit:
            self.cov["samples"].append(obj)

    def violation(self, signature, what, replay_obj):
        self.violations.append((signature, what, replay_obj))

    def part(self, name, **kv):
        self.parts.setdefault(name, {}).update(kv)

    def finish(self):
        self.cov["distinct_nontrivial"] = len(self._distinct)
        if self.parts:
            self.cov["parts"] = self.parts
        findings = [f for f in load_findings() if f.get("property") == self.pid and f.get("status") == "known"]
        known_sigs = {f["signature"]: f for f in findings}
        new, seen_known = [], {}
        for sig, what, rep in self.violations:
            if sig in known_sigs:
                seen_known.setdefault(sig, []).append(what)
            else:
                new.append((sig, what, rep))
        rc = 0
        for sig, f in known_sigs.items():
            # a listed finding is printed on every run (whether or not this tier reached it)
            n = len(seen_known.get(sig, []))
            print("KNOWN-FINDING: property=%s %s [%s] (%d occurrences this run)" % (self.pid, f["what"], sig, n))
        rdir = os.path.join(VERIF, "replays", self.pid)
        reported = set()
        for sig, what, rep in new:
            if sig in reported:
                continue
            reported.add(sig)
            os.makedirs(rdir, exist_ok=True)
            name = re.sub(r"[^A-Za-z0-9_.-]+", "_", sig)[:80] + ".json"
            path = os.path.join(rdir, name)
            with open(path, "w") as fh:
                json.dump({"property": self.pid, "signature": sig, "what": what, "case": rep}, fh, indent=1, default=str)
            print("VIOLATION property=%s replay=%s" % (self.pid, path))
            print("  " + what[:600])
            rc = 1
        ev = {"property_id": self.pid, "tier": self.tier, "seed": seed(), "level": self.level,
              "coverage": self.cov, "assumptions": self.assumptions,
              "wall_s": round(time.time() - self.t0, 2),
              "violations": len(reported),
              "known_findings_matched": {k: len(v) for k, v in seen_known.items()}}
        os.makedirs(os.path.join(VERIF, "evidence"), exist_ok=True)
        with open(os.path.join(VERIF, "evidence", self.pid + ".json"), "w") as fh:
            json.dump(ev, fh, indent=1, default=str)
        # run ledger (last run per tier on the real /repo; DESIGN.md 10.2 is generated from it by bin/vtiertable)
        if REPO == "/repo" and not os.environ.get("VERIF_NO_LEDGER"):
            try:
                os.makedirs(os.path.join(VERIF, "notes", "runs"), exist_ok=True)
                with open(os.path.join(VERIF, "notes", "runs", "%s-%s.json" % (self.pid, self.tier)), "w") as fh:
                    json.dump({"property": self.pid, "tier": self.tier, "seed": seed(), "wall_s": ev["wall_s"],
                               "evaluations": self.cov["evaluations"], "distinct_nontrivial": self.cov["distinct_nontrivial"],
                               "tlc_states": self.cov["states"], "violations": len(reported),
                               "parts": {k: v for k, v in self.parts.items() if len(json.dumps(v, default=str)) < 400}}, fh, indent=1, default=str)
            except OSError:
                pass
        log("%s %s: evaluations=%d distinct=%d states=%d violations=%d wall=%.1fs" % (
            self.pid, self.tier, self.cov["evaluations"], self.cov["distinct_nontrivial"],
            self.cov["states"], len(reported), time.time() - self.t0))
        return rc
