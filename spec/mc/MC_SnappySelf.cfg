CONSTANTS
  MaxToks = 3
INIT Init
NEXT Next
INVARIANTS RoundTrip DecodeLaw PrefixLaw Fixed
CHECK_DEADLOCK FALSE
