-------------------------- MODULE MC_PageCodecSelf --------------------------
(* Self-check of spec/fmt/PageCodecFull.tla (page-body codecs for the file-level reference   *)
(* reader / writer) and emission of its blocks as extra C10 decode cases: the blocks the      *)
(* reference compressors produce must be decoded back by the spec's own decoders, obey the    *)
(* LZ4 end-of-block rules, and (replayed by checks/c10.py) by libsnappy / liblz4 and carquet. *)
EXTENDS PageCodecFull, TLC, Json
LOCAL INSTANCE Lz
CONSTANTS Lens, Kinds
VARIABLE c

Input(kind, n) ==
    CASE kind = "zeros"  -> [i \in 1..n |-> 0]
      [] kind = "int32"  -> [i \in 1..n |-> <<7, 1, 0, 0>>[((i - 1) % 4) + 1]]
      [] kind = "int64"  -> [i \in 1..n |-> <<9, 2, 3, 0, 0, 0, 0, 128>>[((i - 1) % 8) + 1]]
      [] kind = "noise"  -> Pat(n, 5)
      [] kind = "mixed"  -> [i \in 1..n |-> IF i <= n \div 3 THEN Pat(n, 3)[i]
                                            ELSE IF i <= (2 * n) \div 3 THEN 65 + ((i \div 2) % 2) ELSE Pat(n, 4)[i]]

Init == c = [k |-> "start"]
Next == \/ c.k = "start" /\ c' \in [k : {"grp"}, n : Lens]
        \/ c.k = "grp" /\ c' \in [k : {"case"}, n : {c.n}, kind : Kinds]

Laws(x) ==
    LET n  == Len(x)
        sl == SnappyCompressLit(x)
        sc == SnappyCompress(x)
        zl == Lz4CompressLit(x)
        zc == Lz4Compress(x)
    IN /\ SnappyDecompress(sl) = [ok |-> TRUE, v |-> x]
       /\ SnappyDecompress(sc) = [ok |-> TRUE, v |-> x]
       /\ Lz4Decompress(zl, n) = [ok |-> TRUE, v |-> x]
       /\ Lz4Decompress(zc, n) = [ok |-> TRUE, v |-> x]
       /\ Z!Decode(zl).strict /\ Z!Decode(zc).strict          \* end-of-block rules hold
       /\ Len(sc) <= Len(sl) /\ Len(zc) <= Len(zl)
       /\ ~Lz4Decompress(zc, n + 1).ok /\ (n > 0 => ~Lz4Decompress(zc, n - 1).ok)
       /\ (n > 0 => ~SnappyDecompress(SubSeq(sc, 1, Len(sc) - 1)).ok)
Compresses == \* the greedy compressor really finds the copies
    /\ Len(SnappyCompress(Input("zeros", 300))) < 30
    /\ Len(Lz4Compress(Input("int64", 300))) < 60
    /\ \E t \in {SnappyTokens(Input("int32", 100))[k] : k \in 1..Len(SnappyTokens(Input("int32", 100)))} : t.k = "c2" /\ t.off = 4

Emit(x) == PrintT(ToJson([n |-> Len(x), x |-> x, sl |-> SnappyCompressLit(x), sc |-> SnappyCompress(x),
                          zl |-> Lz4CompressLit(x), zc |-> Lz4Compress(x)]))
EmitInv == CASE c.k = "start" -> Compresses
             [] c.k = "grp" -> TRUE
             [] OTHER -> LET x == Input(c.kind, c.n) IN Laws(x) /\ Emit(x)
=============================================================================
