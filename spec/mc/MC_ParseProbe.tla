--------------------------- MODULE MC_ParseProbe ---------------------------
EXTENDS ParquetFile, TLC, Json, IOUtils
VARIABLE i
Files == ndJsonDeserialize(IOEnv.TRACE)
Init == i = 0
Next == i < Len(Files) /\ i' = i + 1
Show == i = 0 \/ LET f == ParseFile(Files[i].bytes) IN
          IF f.ok THEN PrintT(<<"OK", f.leaves, TableOf(f), Tiling(f), PageChain(f), CountsAddUp(f), TagsConsistent(f), CrcOk(f), SizesOk(f), RowGroupSizesOk(f), ValuesExact(f), OffsetsOk(f), PathsOk(f)>>)
          ELSE PrintT(<<"BAD", f.why>>)
=============================================================================
