----------------------------- MODULE MC_EncFuzz -----------------------------
(* Input generator for the decoder-safety exploration (encodings part of C08).               *)
(*   alpha  every byte string of length <= MaxAlpha over an alphabet of boundary bytes (varint *)
(*          continuation, run-header kinds, sign bits, 0xfc..0xff), i.e. the format grammars    *)
(*          driven as byte-consuming machines over every short input;                           *)
(*   sub / cut / ext  mutations of valid streams written by the format modules: every byte      *)
(*          replaced by every alphabet byte, truncation after every byte, one garbage byte      *)
(*          appended.                                                                           *)
(* Each input is classified by the format modules: the set of (family, parameters) tags under   *)
(* which it is a valid and complete stream (so the harness can tell hostile from valid input).  *)
EXTENDS Naturals, Sequences, SequencesExt, FiniteSets, TLC, Json, Hybrid
P == INSTANCE Plain
D == INSTANCE DeltaBP
DL == INSTANCE DeltaLen
DS == INSTANCE DeltaStr
DE == INSTANCE DictEnc
CONSTANTS Thorough
VARIABLE c
C == INSTANCE MC_EncCases WITH Families <- {}, Thorough <- FALSE, c <- c

Alphabet == {0, 1, 2, 3, 15, 16, 127, 128, 240, 252, 253, 254, 255}
MaxAlpha == IF Thorough THEN 4 ELSE 3

\* ---- seeds: <<family tag, parameters, bytes>> ----
G8(a, b) == <<a, b, a, a, b, b, a, b>>
HybSeed(bw, a, b) == Ser(<<[k |-> "rle", n |-> 9, v |-> a], [k |-> "bp", vals |-> G8(a, b) \o G8(b, a)],
                           [k |-> "rle", n |-> 0, v |-> b], [k |-> "rle", n |-> 2, v |-> b]>>, bw)
StrSeed == <<<<97, 98>>, <<>>, <<97, 98, 99, 100>>, <<97>>, <<255, 0>>>>
NSeeds == 16
Seed(sx) ==
    CASE sx = 1 -> [f |-> "hyb", bw |-> 1, n |-> 27, bytes |-> HybSeed(1, 1, 0)]
      [] sx = 2 -> [f |-> "hyb", bw |-> 3, n |-> 27, bytes |-> HybSeed(3, 7, 2)]
      [] sx = 3 -> [f |-> "hyb", bw |-> 9, n |-> 27, bytes |-> HybSeed(9, 511, 3)]
      [] sx = 4 -> [f |-> "hyb", bw |-> 32, n |-> 10, bytes |-> SerW(<<[k |-> "rle", n |-> 2, v |-> Ones(4)], [k |-> "bp", vals |-> [i \in 1..8 |-> IF i % 2 = 0 THEN Ones(4) ELSE <<1, 0, 0, 128>>]]>>, 32)]
      [] sx = 5 -> [f |-> "lvlp", bw |-> 2, n |-> 27, bytes |-> LET b == HybSeed(2, 3, 1) IN LE(Len(b), 4) \o b \o <<9, 9>>]
      [] sx = 6 -> [f |-> "d32", bw |-> 0, n |-> 2, bytes |-> D!Ser(C!DeltaSeq(3, 4, 0, 2, FromNat(5, 4)), 4, D!StdOpts)]
      [] sx = 7 -> [f |-> "d32", bw |-> 0, n |-> 34, bytes |-> D!Ser(C!DeltaSeq(9, 4, 1, 34, C!MinW(4)), 4, D!StdOpts)]
      [] sx = 8 -> [f |-> "d32", bw |-> 0, n |-> 130, bytes |-> D!Ser(C!DeltaSeq(32, 4, 0, 130, FromNat(5, 4)), 4, [bs |-> 128, m |-> 4, widen |-> 0, unused |-> 255])]
      [] sx = 9 -> [f |-> "d64", bw |-> 0, n |-> 34, bytes |-> D!Ser(C!DeltaSeq(40, 8, 0, 34, FromNat(5, 8)), 8, D!StdOpts)]
      [] sx = 10 -> [f |-> "d64", bw |-> 0, n |-> 3, bytes |-> D!Ser(C!SpecialSeq(8, 0, 3), 8, D!StdOpts)]
      [] sx = 11 -> [f |-> "dlen", bw |-> 0, n |-> 5, bytes |-> DL!Ser(StrSeed, D!StdOpts)]
      [] sx = 12 -> [f |-> "dstr", bw |-> 0, n |-> 5, bytes |-> DS!Ser(StrSeed, D!StdOpts, "max")]
      [] sx = 13 -> [f |-> "dstr", bw |-> 0, n |-> 40, bytes |-> DS!Ser(C!Strs(2, 40), D!StdOpts, "max")]
      [] sx = 14 -> [f |-> "plain6", bw |-> 0, n |-> 5, bytes |-> P!Ser(6, 0, StrSeed)]
      [] sx = 15 -> [f |-> "dictidx", bw |-> 0, n |-> 27, bytes |-> <<3>> \o HybSeed(3, 7, 2)]
      [] sx = 16 -> [f |-> "dictidx", bw |-> 0, n |-> 10, bytes |-> <<32>> \o SerW(<<[k |-> "bp", vals |-> [i \in 1..8 |-> IF i % 2 = 0 THEN Ones(4) ELSE <<1, 0, 0, 128>>]], [k |-> "rle", n |-> 2, v |-> <<0, 0, 0, 128>>]>>, 32)]

\* ---- classification: under which readings is the input a valid, complete stream ----
HybOk(bs, bw) == WellFormed(bs, 1, Len(bs), bw)
Tags(bs) ==
    {"hyb0" : x \in {1} \cap (IF HybOk(bs, 0) THEN {1} ELSE {})}
    \cup {"hyb1" : x \in {1} \cap (IF HybOk(bs, 1) THEN {1} ELSE {})}
    \cup {"hyb8" : x \in {1} \cap (IF HybOk(bs, 8) THEN {1} ELSE {})}
    \cup {"d32" : x \in {1} \cap (IF LET r == D!Parse(bs, 1, 4) IN r.ok /\ r.p = Len(bs) + 1 THEN {1} ELSE {})}
    \cup {"d64" : x \in {1} \cap (IF LET r == D!Parse(bs, 1, 8) IN r.ok /\ r.p = Len(bs) + 1 THEN {1} ELSE {})}
    \cup {"dlen" : x \in {1} \cap (IF LET r == DL!Parse(bs, 1) IN r.ok /\ r.p = Len(bs) + 1 THEN {1} ELSE {})}
    \cup {"dstr" : x \in {1} \cap (IF LET r == DS!Parse(bs, 1) IN r.ok /\ r.p = Len(bs) + 1 THEN {1} ELSE {})}
SeedOk(s, bs) ==
    CASE s.f = "hyb" -> IF s.bw <= 31 THEN LET r == Parse(bs, 1, Len(bs), s.bw, s.n) IN r.ok /\ r.p = Len(bs) + 1
                        ELSE LET r == ParseW(bs, 1, Len(bs), s.bw, s.n) IN r.ok /\ r.p = Len(bs) + 1
      [] s.f = "lvlp" -> LET r == ParsePrefixed(bs, 1, s.bw, s.n) IN r.ok
      [] s.f = "d32" -> LET r == D!Parse(bs, 1, 4) IN r.ok /\ r.p = Len(bs) + 1 /\ r.total = s.n
      [] s.f = "d64" -> LET r == D!Parse(bs, 1, 8) IN r.ok /\ r.p = Len(bs) + 1 /\ r.total = s.n
      [] s.f = "dlen" -> LET r == DL!Parse(bs, 1) IN r.ok /\ r.p = Len(bs) + 1 /\ Len(r.vals) = s.n
      [] s.f = "dstr" -> LET r == DS!Parse(bs, 1) IN r.ok /\ r.p = Len(bs) + 1 /\ Len(r.vals) = s.n
      [] s.f = "plain6" -> LET r == P!Parse(6, 0, bs, 1, s.n) IN r.ok /\ r.p = Len(bs) + 1
      [] OTHER -> FALSE        \* dictidx: needs the dictionary, never counted as valid here

\* positions whose byte is replaced: all of them (thorough) or the header region, the tail and every 11th byte
MutPos(n) == IF Thorough THEN 1..n ELSE {i \in 1..n : i <= 20 \/ i > n - 4 \/ i % 11 = 0}
\* 4-byte little-endian length prefixes around the true body length n (level blocks)
LenPrefixes(n) == {LE(x, 4) : x \in {0, 1, n - 1, n, n + 1, n + 2, 255, 65536}}
               \cup {<<255, 255, 255, 127>>, <<0, 0, 0, 128>>, <<252, 255, 255, 255>>, <<253, 255, 255, 255>>,
                     <<254, 255, 255, 255>>, <<255, 255, 255, 255>>, <<251, 255, 255, 255>>}
\* ---- "lens": streams whose inner DELTA_BINARY_PACKED blocks are perfectly well formed but carry hostile
\* NUMBERS (lengths / prefix lengths at the 32-bit boundaries, negative, larger than the data), followed by a few
\* bytes of string data: the grammar is satisfied, only the arithmetic on the decoded lengths can protect the reader
HostileLens == {<<0, 0, 0, 0>>, <<1, 0, 0, 0>>, <<3, 0, 0, 0>>, <<0, 0, 1, 0>>, <<253, 255, 255, 127>>, <<255, 255, 255, 127>>,
                <<255, 255, 255, 255>>, <<0, 0, 0, 128>>}
LensData == {<<>>, <<97>>, <<97, 98, 99>>, <<97, 98, 99, 100, 101, 102, 103, 104>>}
DlenLens == {[f |-> "dlen", n |-> Len(ls), bytes |-> D!Ser(ls, 4, D!StdOpts) \o dt] :
                ls \in UNION {[1..k -> HostileLens] : k \in 1..2}, dt \in LensData}
DstrLens == {[f |-> "dstr", n |-> 1, bytes |-> D!Ser(<<p>>, 4, D!StdOpts) \o D!Ser(<<sf>>, 4, D!StdOpts) \o dt] :
                p \in HostileLens, sf \in HostileLens, dt \in LensData}
            \cup {[f |-> "dstr", n |-> 2, bytes |-> D!Ser(<<<<0, 0, 0, 0>>, p>>, 4, D!StdOpts) \o D!Ser(<<f1, sf>>, 4, D!StdOpts) \o dt] :
                p \in HostileLens, sf \in HostileLens, f1 \in {<<1, 0, 0, 0>>, <<3, 0, 0, 0>>}, dt \in LensData}
Init == c = [lvl |-> 0]
Next ==
    \/ c.lvl = 0 /\ c' \in [lvl : {1}, o : {"alpha"}, b : Alphabet] \cup [lvl : {1}, o : {"mut"}, s : 1..NSeeds]
                          \cup {[lvl |-> 2, o |-> "alpha", bytes |-> <<>>]} \cup {[lvl |-> 1, o |-> "lens"]}
    \/ c.lvl = 1 /\ c.o = "lens"
       /\ c' \in {[lvl |-> 2, o |-> "lens", s |-> [f |-> x.f, bw |-> 0, n |-> x.n], bytes |-> x.bytes] : x \in DlenLens \cup DstrLens}
    \/ c.lvl = 1 /\ c.o = "alpha"
       /\ c' \in {[lvl |-> 2, o |-> "alpha", bytes |-> <<c.b>> \o t] : t \in UNION {[1..k -> Alphabet] : k \in 0..(MaxAlpha - 1)}}
    \/ c.lvl = 1 /\ c.o = "mut"
       /\ LET sd == Seed(c.s)
              sb == sd.bytes
              par == [f |-> sd.f, bw |-> sd.bw, n |-> sd.n]
          IN c' \in {[lvl |-> 2, o |-> "sub", s |-> par, bytes |-> [sb EXCEPT ![i] = b]] : i \in MutPos(Len(sb)), b \in Alphabet}
                    \cup {[lvl |-> 2, o |-> "cut", s |-> par, bytes |-> SubSeq(sb, 1, k)] : k \in 0..(Len(sb) - 1)}
                    \cup {[lvl |-> 2, o |-> "ext", s |-> par, bytes |-> Append(sb, b)] : b \in Alphabet}
                    \cup {[lvl |-> 2, o |-> "seed", s |-> par, bytes |-> sb]}
                    \cup (IF sd.f # "lvlp" THEN {}
                          ELSE {[lvl |-> 2, o |-> "pre", s |-> par, bytes |-> pf \o SubSeq(sb, 5, Len(sb) - cut)] :
                                    pf \in LenPrefixes(Len(sb) - 6), cut \in {0, 2, 3, Len(sb) - 4}})

Emit == IF c.o = "alpha" THEN PrintT(ToJson([kind |-> "fuzz", o |-> "alpha", bytes |-> c.bytes, tags |-> Tags(c.bytes)]))
        ELSE LET s == c.s
             IN PrintT(ToJson([kind |-> "fuzz", o |-> c.o, f |-> s.f, bw |-> s.bw, n |-> s.n, bytes |-> c.bytes,
                               valid |-> SeedOk(s, c.bytes)]))
EmitInv == c.lvl < 2 \/ Emit
\* the seeds themselves must be valid under their own parameters (oracle self-check)
SeedsValid == \A i \in 1..NSeeds : Seed(i).f = "dictidx" \/ SeedOk(Seed(i), Seed(i).bytes)
ASSUME SeedsValid
=============================================================================
