----------------------------- MODULE MC_RefGen -----------------------------
(* Reference-writer file generator (C06, C02, C03, C04, C16 fixtures): tables x layouts.   *)
(* Every emitted case carries the file bytes and the content every chunk must decode to.   *)
EXTENDS RefWriter, Values, TLC, Json, Randomization
CONSTANTS Tables, Mode, Seed,       \* Mode: "valid" | "unsupported"
          PerGroup                  \* how many layouts are drawn (RandomSubset, TLC -seed) per (table, pages, extras, long, groups)
VARIABLE st

LeafRec(type, tlen, maxDef, maxRep, path) == [type |-> type, tlen |-> tlen, maxDef |-> maxDef, maxRep |-> maxRep, path |-> path]
Tk(type, tlen, k) == TokenAt(type, tlen, k)

\* ---- table 1: flat, all eight physical types, REQUIRED / OPTIONAL alternating, 5 rows
\* (the first column's name "xb" has the last column's name "x" as a proper prefix: name lookups must be exact)
T1Elems == << Root(8), Leaf(<<120, 98>>, 0, 0, 0), Leaf(<<105>>, 1, 1, 0), Leaf(<<108>>, 2, 0, 0), Leaf(<<110>>, 3, 1, 0),
              Leaf(<<102>>, 4, 0, 0), Leaf(<<100>>, 5, 1, 0), Leaf(<<115>>, 6, 1, 0), Leaf(<<120>>, 7, 0, 3) >>
T1Leaves == << LeafRec(0, 0, 0, 0, <<<<120, 98>>>>), LeafRec(1, 0, 1, 0, <<<<105>>>>), LeafRec(2, 0, 0, 0, <<<<108>>>>),
               LeafRec(3, 0, 1, 0, <<<<110>>>>), LeafRec(4, 0, 0, 0, <<<<102>>>>), LeafRec(5, 0, 1, 0, <<<<100>>>>),
               LeafRec(6, 0, 1, 0, <<<<115>>>>), LeafRec(7, 3, 0, 0, <<<<120>>>>) >>
T1Defs(c) == IF T1Leaves[c].maxDef = 0 THEN <<0, 0, 0, 0, 0>>
             ELSE IF c = 2 THEN <<1, 0, 1, 1, 0>> ELSE IF c = 4 THEN <<0, 0, 0, 0, 0>> ELSE IF c = 6 THEN <<1, 1, 1, 1, 1>> ELSE <<0, 1, 1, 0, 1>>
T1Cont(c, g) == LET defs == T1Defs(c)
                 nn == Len(SelectSeq(defs, LAMBDA d : d = T1Leaves[c].maxDef))
             IN [defs |-> defs, reps |-> <<0, 0, 0, 0, 0>>,
                 \* column 3 (REQUIRED INT64) holds one value only: a dictionary of a single entry (index width 0 or 1)
                 vals |-> [i \in 1..nn |-> Tk(T1Leaves[c].type, T1Leaves[c].tlen, IF c = 3 THEN c + Seed + g ELSE i + c + Seed + 3 * g)]]

\* ---- table 2: nested. l: OPTIONAL group { list: REPEATED group { e: OPTIONAL INT64 } } ; r: REQUIRED group { x: OPTIONAL DOUBLE ; y: REQUIRED FLBA(2) }
\* rows: l = [1, null, 3] ; null ; [] ; [null]
T2Elems == << Root(2), Group(<<108>>, 1, 1), Group(<<108, 105, 115, 116>>, 2, 1), Leaf(<<101>>, 2, 1, 0),
              Group(<<114>>, 0, 2), Leaf(<<120>>, 5, 1, 0), Leaf(<<121>>, 7, 0, 2) >>
T2Leaves == << LeafRec(2, 0, 3, 1, <<<<108>>, <<108, 105, 115, 116>>, <<101>>>>), LeafRec(5, 0, 1, 0, <<<<114>>, <<120>>>>),
               LeafRec(7, 2, 0, 0, <<<<114>>, <<121>>>>) >>
T2Cont(c, g) == IF c = 1 THEN [defs |-> <<3, 2, 3, 0, 1, 2>>, reps |-> <<0, 1, 1, 0, 0, 0>>, vals |-> <<Tk(2, 0, 1 + Seed + g), Tk(2, 0, 5 + Seed)>>]
             ELSE IF c = 2 THEN [defs |-> <<1, 0, 1, 1>>, reps |-> <<0, 0, 0, 0>>, vals |-> <<Tk(5, 0, 2 + Seed + g), Tk(5, 0, 6 + Seed), Tk(5, 0, 7)>>]
             ELSE [defs |-> <<0, 0, 0, 0>>, reps |-> <<0, 0, 0, 0>>, vals |-> <<Tk(7, 2, 0), Tk(7, 2, 1), Tk(7, 2, 2), Tk(7, 2, 1)>>]
\* record-aligned cut positions (level entries) for two pages
T2Cut(c) == IF c = 1 THEN <<3, 6>> ELSE <<1, 4>>

\* ---- table 3: one REQUIRED INT32 and one OPTIONAL BYTE_ARRAY column, 20 rows with long runs (multi-page, run structure)
T3Elems == << Root(2), Leaf(<<97>>, 1, 0, 0), Leaf(<<115>>, 6, 1, 0) >>
T3Leaves == << LeafRec(1, 0, 0, 0, <<<<97>>>>), LeafRec(6, 0, 1, 0, <<<<115>>>>) >>
T3Defs == <<1, 0, 0, 0, 0, 0, 0, 0, 0, 1, 1, 1, 1, 1, 1, 1, 1, 1, 0, 1>>
T3Cont(c, g) == IF c = 1 THEN [defs |-> [i \in 1..20 |-> 0], reps |-> [i \in 1..20 |-> 0], vals |-> [i \in 1..20 |-> Tk(1, 0, (i \div 3) + Seed + g)]]
             ELSE [defs |-> T3Defs, reps |-> [i \in 1..20 |-> 0], vals |-> [i \in 1..11 |-> Tk(6, 0, (i % 4) + Seed + g)]]

\* ---- table 4: maximum levels that are exact powers of two (level bit widths 2 and 3), repetition depth 2
\* o: OPTIONAL group { p: OPTIONAL INT32 } ; a: REPEATED group { b: REPEATED group { q: OPTIONAL group { z: OPTIONAL INT64 } } }
\* rows: o.p = 7 ; o = {p: null} ; o = null.   a = [{b:[{q:{z:1}}, {q:null}]}, {b:[]}] ; [] ; [{b:[{q:{z:null}}, {q:{z:5}}]}]
T4Elems == << Root(2), Group(<<111>>, 1, 1), Leaf(<<112>>, 1, 1, 0),
              Group(<<97>>, 2, 1), Group(<<98>>, 2, 1), Group(<<113>>, 1, 1), Leaf(<<122>>, 2, 1, 0) >>
T4Leaves == << LeafRec(1, 0, 2, 0, <<<<111>>, <<112>>>>), LeafRec(2, 0, 4, 2, <<<<97>>, <<98>>, <<113>>, <<122>>>>) >>
T4Cont(c, g) == IF c = 1 THEN [defs |-> <<2, 1, 0>>, reps |-> <<0, 0, 0>>, vals |-> <<Tk(1, 0, 3 + Seed + g)>>]
                ELSE [defs |-> <<4, 2, 1, 0, 3, 4>>, reps |-> <<0, 2, 1, 0, 0, 2>>, vals |-> <<Tk(2, 0, 1 + Seed + g), Tk(2, 0, 5 + Seed)>>]

\* ---- table 5: long columns (LongRows rows): definition levels in runs of many lengths (beat of two periods), a
\* REQUIRED INT32 column with 300 distinct values (dictionary index width 9), OPTIONAL BYTE_ARRAY / DOUBLE / BOOLEAN
LongRows == 600
T5Elems == << Root(4), Leaf(<<98, 120>>, 1, 0, 0), Leaf(<<115>>, 6, 1, 0), Leaf(<<100>>, 5, 1, 0), Leaf(<<98>>, 0, 1, 0) >>
T5Leaves == << LeafRec(1, 0, 0, 0, <<<<98, 120>>>>), LeafRec(6, 0, 1, 0, <<<<115>>>>), LeafRec(5, 0, 1, 0, <<<<100>>>>), LeafRec(0, 0, 1, 0, <<<<98>>>>) >>
Beat(i, l1, l2) == (((i - 1) \div l1) + ((i - 1) \div l2)) % 2
T5Defs(c) == [i \in 1..LongRows |-> CASE c = 1 -> 0 [] c = 2 -> Beat(i, 7, 64) [] c = 3 -> Beat(i, 1, 9) [] c = 4 -> Beat(i, 63, 100)]
T5Cont(c, g) == LET defs == T5Defs(c)
                    nn == Len(SelectSeq(defs, LAMBDA d : d = T5Leaves[c].maxDef))
                IN [defs |-> defs, reps |-> [i \in 1..LongRows |-> 0],
                    vals |-> [j \in 1..nn |-> CASE c = 1 -> WideAt(1, 0, (j * 37 + Seed + g) % 300)
                                                 [] c = 2 -> WideAt(6, 0, (j * 11 + Seed + g) % 40)
                                                 [] c = 3 -> WideAt(5, 0, (j + g) % 1000)
                                                 [] c = 4 -> WideAt(0, 0, (j \div 3) + g)]]

Elems(t) == CASE t = 1 -> T1Elems [] t = 2 -> T2Elems [] t = 3 -> T3Elems [] t = 4 -> T4Elems [] t = 5 -> T5Elems
Leaves(t) == CASE t = 1 -> T1Leaves [] t = 2 -> T2Leaves [] t = 3 -> T3Leaves [] t = 4 -> T4Leaves [] t = 5 -> T5Leaves
Cont(t, c, g) == CASE t = 1 -> T1Cont(c, g) [] t = 2 -> T2Cont(c, g) [] t = 3 -> T3Cont(c, g) [] t = 4 -> T4Cont(c, g) [] t = 5 -> T5Cont(c, g)
NRows(t) == CASE t = 1 -> 5 [] t = 2 -> 4 [] t = 3 -> 20 [] t = 4 -> 3 [] t = 5 -> LongRows
Cuts(t, c, np) == LET n == Len(Cont(t, c, 1).defs)
                  IN IF np = 1 THEN <<n>>
                     ELSE IF t = 2 THEN T2Cut(c)
                     ELSE IF t = 4 THEN (IF c = 1 THEN <<1, 3>> ELSE <<3, 6>>)
                     ELSE IF np = 2 THEN <<n \div 2, n>> ELSE <<1, n \div 2, n - 1, n>>

Styles == {"rle", "bp", "bp1", "mix", "zero", "pad1"}
OptSpace == [style : Styles, idxStyle : {"rle", "bp", "mix"}, useDict : BOOLEAN, dictOffsetField : BOOLEAN,
             dictEnc : {0, 2}, dataEnc : {2, 8}, crc : {"none", "good"}, codec : {0, 1, 5, 2, 6}, stats : {NoStatsW}, extraWidth : {0, 2},
             v2 : {FALSE}, encTag : {255}, codecTag : {255}, hmutPage : {0}, hmut : {[kind |-> "none"]},
             mixEnc : {"all", "fallback", "reverse"}, minW0 : BOOLEAN, emptyDict : BOOLEAN]
\* unsupported features: data page v2, encodings carquet does not implement (tag only differs; the payload
\* is PLAIN, so a reader that ignores the tag returns *these* values - which would be wrong for a
\* delta-encoded page; here a wrong answer cannot be told from a right one, hence only v2 and codec tags
\* are judged on values), unknown codecs
UnsOpts == { [DefaultOpt EXCEPT !.v2 = TRUE, !.style = s] : s \in {"rle", "bp"} }
           \cup { [DefaultOpt EXCEPT !.codecTag = c] : c \in {3, 4, 9} }
           \cup { [DefaultOpt EXCEPT !.encTag = e] : e \in {5, 6, 7, 9, 4} }

Desc(t, o, np, extras, long, ng) ==
    [elements |-> Elems(t), createdBy |-> <<114, 101, 102>>, extras |-> extras,
     sty |-> [longField |-> long, longList |-> long, padVarint |-> long, falseByte |-> 2],
     rgs |-> [g \in 1..ng |->
                [numRows |-> NRows(t),
                 cols |-> [c \in 1..Len(Leaves(t)) |->
                             MkChunk(Leaves(t)[c], Cont(t, c, g), Cuts(t, c, np),
                                     \* BOOLEAN columns cannot be dictionary encoded
                                     IF Leaves(t)[c].type = 0 THEN [o EXCEPT !.useDict = FALSE] ELSE o)]]]]

Init == st = [lvl |-> 0]
Next == \/ st.lvl = 0 /\ st' \in [lvl : {1}, t : Tables, np : {1, 2, 4}, extras : BOOLEAN, long : BOOLEAN, ng : {1, 2}]
        \/ st.lvl = 1 /\ st' \in [lvl : {2}, t : {st.t}, np : {st.np}, extras : {st.extras}, long : {st.long}, ng : {st.ng},
                                  o : IF Mode = "valid" THEN RandomSubset(PerGroup, OptSpace) ELSE UnsOpts]

Emit == st.lvl = 2 =>
    LET d == Desc(st.t, st.o, st.np, st.extras, st.long, st.ng)
    IN PrintT(ToJson([mode |-> Mode, t |-> st.t, np |-> st.np, extras |-> st.extras, long |-> st.long, opt |-> st.o,
                      bytes |-> SerFile(d),
                      leaves |-> Leaves(st.t),
                      chunks |-> [c \in 1..Len(Leaves(st.t)) |-> Cont(st.t, c, 1)],
                      rgs |-> [g \in 1..st.ng |-> [c \in 1..Len(Leaves(st.t)) |-> Cont(st.t, c, g)]]]))
=============================================================================
