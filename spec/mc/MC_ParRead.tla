----------------------------- MODULE MC_ParRead -----------------------------
(* Model checking of ParRead on synthetic page layouts: NTasks columns, MCPre pages loaded in *)
(* the prefetch loop and MCMain pages in the main loop per column, pages laid out back to     *)
(* back as carquet's writer does (header 20 bytes, body 80 bytes, header window 256 bytes).   *)
(*   MC_ParRead_nolock.cfg : Lock = FALSE - TLC finds the interleaving that makes a read      *)
(*                           return another column's bytes (the code as found)                *)
(*   MC_ParRead_lock*.cfg  : Lock = TRUE  - all invariants + NoLostTask under weak fairness   *)
EXTENDS ParRead
CONSTANTS MCPre, MCMain
PagesPer == MCPre + MCMain
Off(t, p) == 4 + ((t - 1) * PagesPer + (p - 1)) * 100
Load(t, p) == << [k |-> "SH", a |-> Off(t, p)], [k |-> "RH", a |-> 256],
                 [k |-> "SB", a |-> Off(t, p) + 20], [k |-> "RB", a |-> 80],
                 [k |-> "DEC", a |-> 0], [k |-> "PUB", a |-> 0] >>
RECURSIVE Loads(_, _, _)
Loads(t, from, to) == IF from > to THEN <<>> ELSE Load(t, from) \o Loads(t, from + 1, to)
MCPreSteps  == [t \in 1..NTasks |-> Loads(t, 1, MCPre)]
MCMainSteps == [t \in 1..NTasks |-> Loads(t, MCPre + 1, PagesPer)]

NoLostTask == <>AllDone
AllInv == /\ TypeOK /\ EveryReadReturnsItsOwnBytes /\ ReadsAreTheSequentialReads
          /\ ResultIndependentOfSchedule /\ QueueOK /\ PhaseOrder /\ MutexOK
\* without the lock everything except the two content invariants must still hold
StructInv == TypeOK /\ ReadsAreTheSequentialReads /\ QueueOK /\ PhaseOrder /\ LockNecessary
=============================================================================
