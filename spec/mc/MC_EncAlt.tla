----------------------------- MODULE MC_EncAlt -----------------------------
(* Case generator for C12 direction specification -> carquet: streams written by the format  *)
(* modules' Ser over the *alternative legal encodings* of a value sequence, with the values   *)
(* a conforming decoder must return.                                                          *)
(*   hyb    run lists: RLE and bit-packed runs mixed, multi-group bit-packed runs, zero-length *)
(*          runs of both kinds (an RLE run of length 0 still carries its value bytes), final   *)
(*          group padded (value count smaller than the expansion)                              *)
(*   delta  DELTA_BINARY_PACKED with wider-than-minimal widths, arbitrary width bytes for      *)
(*          unused miniblocks, wide (33..64 bit) deltas bit-packed, other block geometries     *)
(*   dlen, dstr  the same options for the length blocks; shorter-than-possible prefixes        *)
(*   dict   index streams at wider bit widths and alternative run lists                        *)
EXTENDS Naturals, Sequences, SequencesExt, FiniteSets, TLC, Json, Hybrid
D == INSTANCE DeltaBP
DL == INSTANCE DeltaLen
DS == INSTANCE DeltaStr
DE == INSTANCE DictEnc
CONSTANTS Families, Thorough
VARIABLE c
C == INSTANCE MC_EncCases WITH Families <- {}, Thorough <- Thorough, c <- c

\* ------------------------------------------------------------------ hybrid run lists
RleW(n, v) == [k |-> "rle", n |-> n, v |-> v]
BpW(vals) == [k |-> "bp", vals |-> vals]
TokA(bw) == MaxW(bw, 4)
TokB(bw) == IF bw <= 1 THEN Zero(4) ELSE MaskW(<<165, 90, 60, 1>>, bw)
\* value bytes of a zero-length RLE run: 3 reads as a literal-run header, 2 as an RLE header
TokZ(bw, j) == MaskW(IF j = 0 THEN <<3, 3, 3, 3>> ELSE <<2, 255, 255, 255>>, bw)
Grp(bw, g, flip) == [i \in 1..(8 * g) |-> IF (i + flip) % 3 = 0 THEN TokA(bw) ELSE IF (i + flip) % 3 = 1 THEN TokB(bw) ELSE Zero(4)]
RunSet(bw) ==
    {RleW(n, v) : n \in {1, 2, 8, 9, 20}, v \in {TokA(bw), TokB(bw)}}
    \cup {RleW(0, TokZ(bw, j)) : j \in {0, 1}}
    \cup {BpW(Grp(bw, g, f)) : g \in {0, 1, 2, 3}, f \in {0, 1}}
RunSetSmall(bw) ==
    {RleW(n, TokA(bw)) : n \in {2, 9}} \cup {RleW(0, TokZ(bw, 0)), BpW(Grp(bw, 1, 0)), BpW(Grp(bw, 2, 1)), BpW(<<>>)}
ValsOf(r) == IF r.k = "rle" THEN [i \in 1..r.n |-> r.v] ELSE r.vals
ExpandW(runs) == Flatten([i \in 1..Len(runs) |-> ValsOf(runs[i])])
AltWidths == IF Thorough THEN 1..32 ELSE {1, 2, 3, 7, 8, 9, 16, 17, 31, 32}

\* ------------------------------------------------------------------ delta options
AltOpts == {[bs |-> 128, m |-> 4, widen |-> 0, unused |-> 0]} \cup
           (IF Thorough THEN {[bs |-> 128, m |-> 4, widen |-> 0, unused |-> 255]} ELSE {}) \cup {
            [bs |-> 128, m |-> 4, widen |-> 2, unused |-> 33],
            [bs |-> 128, m |-> 4, widen |-> 9, unused |-> 7]}
OtherGeom == {[bs |-> 128, m |-> 2, widen |-> 0, unused |-> 1],
              [bs |-> 128, m |-> 1, widen |-> 0, unused |-> 64],
              [bs |-> 256, m |-> 8, widen |-> 0, unused |-> 0],
              [bs |-> 256, m |-> 4, widen |-> 1, unused |-> 9]}
AltLens == IF Thorough THEN C!DeltaLens ELSE {0, 1, 2, 33, 130, 257}

\* ------------------------------------------------------------------ dictionary index streams
\* encode an index sequence as runs: style 0 = literal groups only (padded), 1 = RLE for equal
\* stretches of >= 2 and literal groups otherwise, 2 = one RLE run per value
IdxRuns(idx, style) ==
    LET n == Len(idx)
        pad(vs) == vs \o [i \in 1..((8 - (Len(vs) % 8)) % 8) |-> 0]
    IN IF style = 0 THEN (IF n = 0 THEN <<>> ELSE <<[k |-> "bp", vals |-> pad(idx)]>>)
       ELSE IF style = 2 THEN [i \in 1..n |-> [k |-> "rle", n |-> 1, v |-> idx[i]]]
       ELSE LET half == n \div 2
                a == SubSeq(idx, 1, half - (half % 8))
                b == SubSeq(idx, Len(a) + 1, n)
            IN (IF a = <<>> THEN <<>> ELSE <<[k |-> "bp", vals |-> a]>>)
               \o <<[k |-> "rle", n |-> 0, v |-> 1]>>
               \o [i \in 1..Len(b) |-> [k |-> "rle", n |-> 1, v |-> b[i]]]

\* ------------------------------------------------------------------ state machine
Init == c = [lvl |-> 0]
Groups ==
    (IF "hyb" \in Families THEN UNION {[lvl : {1}, f : {"hyb"}, bw : {b}, k1 : 1..Cardinality(RunSet(b))] : b \in AltWidths} ELSE {})
    \cup (IF "delta" \in Families THEN [lvl : {1}, f : {"delta"}, L : {4, 8}, n : AltLens] ELSE {})
    \cup (IF "str" \in Families THEN [lvl : {1}, f : {"str"}, k : 0..6] ELSE {})
    \cup (IF "dict" \in Families THEN [lvl : {1}, f : {"dict"}, t : {1, 2, 4, 5}] ELSE {})
Cases(g) ==
    CASE g.f = "hyb" ->
            LET R == RunSet(g.bw)
                first == SetToSeq(R)[g.k1]
            IN {[lvl |-> 2, f |-> "hyb", bw |-> g.bw, runs |-> <<first>> \o rest, pad |-> pad] :
                    rest \in {<<>>} \cup {<<a>> : a \in R} \cup {<<a, b>> : a \in RunSetSmall(g.bw), b \in RunSetSmall(g.bw)},
                    pad \in {0, 3, 7}}
      [] g.f = "delta" -> [lvl : {2}, f : {"delta"}, L : {g.L}, n : {g.n}, w : C!DeltaWidths(g.L), shape : {0, 1}, sp : {99}, o : AltOpts]
                          \cup [lvl : {2}, f : {"delta"}, L : {g.L}, n : {g.n}, w : {0}, shape : {0}, sp : 0..4, o : AltOpts]
                          \cup [lvl : {2}, f : {"delta"}, L : {g.L}, n : {g.n}, w : {0, 9, 32}, shape : {0}, sp : {99}, o : OtherGeom]
      [] g.f = "str" -> [lvl : {2}, f : {"str"}, k : {g.k}, n : C!StrCounts, o : {x \in AltOpts : x.widen \in {0, 2}}, pm : {"max", "zero", "short"}]
      [] g.f = "dict" -> [lvl : {2}, f : {"dict"}, t : {g.t}, D : C!DictSizes, pat : 0..2, style : 0..2, extra : {0, 3, 23}]
Next == \/ c.lvl = 0 /\ c' \in Groups
        \/ c.lvl = 1 /\ c' \in Cases(c)

\* padding only makes sense when the last run is a non-empty literal run
PadOk == c.pad = 0 \/ (LET r == c.runs[Len(c.runs)] IN r.k = "bp" /\ Len(r.vals) >= 8)
NatSeq(ws) == [i \in 1..Len(ws) |-> ToNat(ws[i])]
Emit ==
    CASE c.f = "hyb" ->
            IF ~PadOk THEN TRUE
            ELSE LET full == ExpandW(c.runs)
                     n == Len(full) - c.pad
                     want == SubSeq(full, 1, n)
                     bs == SerW(c.runs, c.bw)
                     feat == [zero |-> \E i \in 1..Len(c.runs) : ValsOf(c.runs[i]) = <<>>,
                              multi |-> \E i \in 1..Len(c.runs) : c.runs[i].k = "bp" /\ Len(c.runs[i].vals) > 8,
                              pad |-> c.pad, nruns |-> Len(c.runs)]
                     \* the oracle checks itself on this very case before it may blame the implementation
                     pr == ParseW(bs, 1, Len(bs), c.bw, n)
                     selfok == pr.ok /\ pr.vals = want
                     zrle == \E i \in 1..Len(c.runs) : c.runs[i].k = "rle" /\ c.runs[i].n = 0 /\ c.runs[i].v # Zero(4)
                 IN IF c.bw <= 31 THEN PrintT(ToJson([kind |-> "hyb", bw |-> c.bw, bytes |-> bs, vals |-> NatSeq(want), feat |-> feat, selfok |-> selfok, zrle |-> zrle]))
                    ELSE PrintT(ToJson([kind |-> "hyb", bw |-> c.bw, bytes |-> bs, w |-> want, feat |-> feat, selfok |-> selfok, zrle |-> zrle]))
      [] c.f = "delta" ->
            LET v == IF c.sp = 99 THEN C!DeltaSeq(c.w, c.L, c.shape, c.n, IF c.shape = 1 THEN C!MinW(c.L) ELSE FromNat(5, c.L))
                     ELSE C!SpecialSeq(c.L, c.sp, c.n)
                bs == D!Ser(v, c.L, c.o)
                pr == D!Parse(bs, 1, c.L)
                std == c.o.bs = 128 /\ c.o.m = 4
            IN PrintT(ToJson([kind |-> "delta", L |-> c.L, vals |-> v, bytes |-> bs, o |-> c.o, w |-> c.w, sp |-> c.sp, std |-> std,
                              selfok |-> (pr.ok /\ pr.vals = v /\ pr.p = Len(bs) + 1), maxw |-> (IF pr.ok THEN pr.maxw ELSE 0)]))
      [] c.f = "str" ->
            LET v == C!Strs(c.k, c.n)
                b1 == DL!Ser(v, c.o)
                b2 == DS!Ser(v, c.o, c.pm)
                p1 == DL!Parse(b1, 1)
                p2 == DS!Parse(b2, 1)
            IN PrintT(ToJson([kind |-> "str", strs |-> v, dlen |-> b1, dstr |-> b2, o |-> c.o, pm |-> c.pm,
                              selfok |-> (p1.ok /\ p1.vals = v /\ p1.p = Len(b1) + 1 /\ p2.ok /\ p2.vals = v /\ p2.p = Len(b2) + 1),
                              maxw |-> (IF p1.ok /\ p2.ok THEN Max2(p1.maxw, p2.maxw) ELSE 0)]))
      [] c.f = "dict" ->
            LET idx0 == C!DictIdx(c.D, c.pat)
                v == [i \in 1..Len(idx0) |-> C!DictVal(c.t, idx0[i])]
                d == DE!FirstOcc(v)
                idx == [i \in 1..Len(v) |-> DE!IndexOf(d, v[i]) - 1]
                bw == Min2(32, WidthOf(Len(d) - 1) + c.extra)
                runs == IdxRuns(idx, c.style)
            IN IF bw > 31 \/ (bw = 0 /\ c.style = 1) THEN TRUE
               ELSE LET db == DE!SerDict(c.t, 0, d)
                        ib == DE!SerIndices(runs, bw)
                        pr == DE!Decode(c.t, 0, db, Len(d), ib, Len(v))
                    IN PrintT(ToJson([kind |-> "dict", t |-> c.t, vals |-> v, dict |-> db, dcount |-> Len(d),
                                      idx |-> ib, bw |-> bw, style |-> c.style, selfok |-> (pr.ok /\ pr.vals = v)]))
EmitInv == c.lvl < 2 \/ Emit
=============================================================================
