--------------------------- MODULE MC_SnappyTrace ---------------------------
(* C10, direction carquet-compress -> spec-decode, Snappy (trace validation style).        *)
(* The recorder compressed inputs with carquet and logged, one JSON object per line,        *)
(*     {"id": .., "x": [input bytes], "c": [compressed bytes]}                               *)
(* (file name in the environment variable CASES). Every logged block must be a valid raw     *)
(* Snappy block by Snappy.Decode and decode to exactly the logged input.                    *)
EXTENDS Snappy, TLC, Json, IOUtils
CONSTANT Group          \* cases per work group (TLC workers share groups)
VARIABLE i

Cases == ndJsonDeserialize(IOEnv.CASES)
N == Len(Cases)

Init == i = [k |-> "start"]
Next == \/ /\ i.k = "start" /\ N > 0
           /\ i' \in [k : {"grp"}, g : 0..((N - 1) \div Group)]
        \/ /\ i.k = "grp"
           /\ i' \in [k : {"case"}, n : ((i.g * Group) + 1)..(IF (i.g + 1) * Group < N THEN (i.g + 1) * Group ELSE N)]

Kinds(toks) == [lit0 |-> Cardinality({j \in 1..Len(toks) : IsLit(toks[j]) /\ toks[j].x = 0}),
                lit1 |-> Cardinality({j \in 1..Len(toks) : IsLit(toks[j]) /\ toks[j].x = 1}),
                lit2 |-> Cardinality({j \in 1..Len(toks) : IsLit(toks[j]) /\ toks[j].x >= 2}),
                c1 |-> Cardinality({j \in 1..Len(toks) : toks[j].k = "c1"}),
                c2 |-> Cardinality({j \in 1..Len(toks) : toks[j].k = "c2"}),
                c4 |-> Cardinality({j \in 1..Len(toks) : toks[j].k = "c4"})]
NoKinds == [lit0 |-> 0, lit1 |-> 0, lit2 |-> 0, c1 |-> 0, c2 |-> 0, c4 |-> 0]

(* Large inputs: judged element by element with Snappy.Against (same verdicts as the full   *)
(* decode, linear time): the block must parse, declare |x|, every copy must refer to output  *)
(* already produced with a non-zero offset, and the elements must reproduce x.               *)
VerdictBig(r) ==
    LET p == Parse(r.c) IN
    IF ~p.ok THEN [id |-> r.id, v |-> "invalid-block", why |-> p.why, kinds |-> NoKinds]
    ELSE IF Check(p.toks) # "ok" THEN [id |-> r.id, v |-> "invalid-block", why |-> Check(p.toks), kinds |-> Kinds(p.toks)]
    ELSE IF OutLen(p.toks) > p.n THEN [id |-> r.id, v |-> "invalid-block", why |-> "output-longer-than-declared", kinds |-> Kinds(p.toks)]
    ELSE IF OutLen(p.toks) < p.n THEN [id |-> r.id, v |-> "invalid-block", why |-> "output-shorter-than-declared", kinds |-> Kinds(p.toks)]
    ELSE LET a == Against(p.toks, r.x) IN
         IF a # "ok" THEN [id |-> r.id, v |-> "decodes-to-different-bytes", why |-> a, kinds |-> Kinds(p.toks)]
         ELSE [id |-> r.id, v |-> "ok", why |-> "", kinds |-> Kinds(p.toks)]

BigLimit == 4096
Verdict(r) ==
    IF Len(r.x) > BigLimit THEN VerdictBig(r) ELSE
    LET p == Parse(r.c)
        d == Decode(r.c)
    IN IF ~d.ok THEN [id |-> r.id, v |-> "invalid-block", why |-> d.why, kinds |-> NoKinds]
       ELSE IF d.out # r.x THEN [id |-> r.id, v |-> "decodes-to-different-bytes", why |-> "", kinds |-> Kinds(p.toks)]
       ELSE [id |-> r.id, v |-> "ok", why |-> "", kinds |-> Kinds(p.toks)]

EmitInv == i.k # "case" \/ PrintT(ToJson(Verdict(Cases[i.n])))
=============================================================================
