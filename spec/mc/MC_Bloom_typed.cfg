CONSTANTS
  Sizes <- SizesTyped
  Values <- ValTyped
  MaxOps = 2
INIT Init
NEXT Next
INVARIANTS NoFalseNegative SizeRounded FreshIsEmpty EmitInv
CHECK_DEADLOCK FALSE
