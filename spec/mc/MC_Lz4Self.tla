---------------------------- MODULE MC_Lz4Self ----------------------------
(* Self-check of spec/fmt/Lz4.tla; runs without the implementation.                        *)
EXTENDS Lz4, TLC
CONSTANT MaxSeqs
VARIABLE c

Lits == { B(<<>>), B(Pat(1, 1)), B(Pat(4, 2)), B(Pat(5, 2)), B(Pat(12, 9)), B(Pat(14, 3)), B(Pat(15, 4)), B(Pat(16, 5)),
          B(Pat(269, 6)), B(Pat(270, 7)), B(Pat(271, 7)), F(525, 8, 3) }
Matches == {<<o, m>> : o \in {0, 1, 2, 7, 8, 15, 300, 65535}, m \in {4, 5, 18, 19, 20, 273, 274, 275, 529}}

Lits3 == { B(<<>>), B(Pat(5, 2)), B(Pat(12, 9)) }
Matches3 == {<<o, m>> : o \in {1, 8}, m \in {4, 19}}
Init == c = <<>>
\* a list under construction always ends in a match-less sequence; extending gives it a match
Next == /\ Len(c) < MaxSeqs
        /\ \/ \E l \in Lits : c = <<>> /\ c' = <<LastLits(l)>>
           \/ \E om \in (IF Len(c) = 1 THEN Matches ELSE Matches3), l \in (IF Len(c) = 1 THEN Lits ELSE Lits3) :
                 /\ c # <<>>
                 /\ c' = Append([c EXCEPT ![Len(c)] = Sq(@.lit, om[1], om[2])], LastLits(l))

SameSeqs(a, b) == /\ Len(a) = Len(b)
                  /\ \A i \in 1..Len(a) : a[i].off = b[i].off /\ a[i].ml = b[i].ml /\ CBytes(a[i].lit) = CBytes(b[i].lit)

RoundTrip == c # <<>> =>
    LET s == Ser(c)
        p == Parse(s)
    IN /\ p.ok /\ p.nib = 0 /\ SameSeqs(p.seqs, c)
       \* dropping the final literal-only sequence leaves a block that ends in a match
       /\ Len(c) > 1 => LET h == SubSeq(c, 1, Len(c) - 1)
                            q == Parse(Ser(h))
                        IN q.ok /\ SameSeqs(q.seqs, h) /\ ~EndRule1(q.seqs)
DecodeLaw == c # <<>> =>
    LET s == Ser(c)
        d == Decode(s)
    IN IF Valid(c) THEN /\ d.ok /\ d.out = Apply(c) /\ Len(d.out) = OutLen(c) /\ d.strict = EndRules(c)
                        /\ Flat(ApplyR(c)) = Apply(c)
                        /\ Against(c, d.out) = "ok"
                        /\ (d.out # <<>> => Against(c, [d.out EXCEPT ![Len(d.out)] = (@ + 1) % 256]) # "ok")
                        /\ Against(c, Append(d.out, 0)) = "output-shorter-than-input"
                        /\ (d.out # <<>> => Against(c, SubSeq(d.out, 1, Len(d.out) - 1)) = "output-longer-than-input")
                        /\ (OutLen(c) > 0 => ~DecodeInto(s, OutLen(c) - 1).ok)
       ELSE /\ ~d.ok /\ d.why = Check(c)
            /\ Against(c, [i \in 1..OutLen(c) |-> 0]) # "ok"

\* cutting a block inside a length extension, the literals, the offset or the match-length
\* extension gives an invalid block
TruncLaw == (c # <<>> /\ Len(c) <= 2) =>
    LET s == Ser(c)
        h1 == Len(SeqHeader(c[1]))
        l1 == CLen(c[1].lit)
    IN /\ \A k \in 1..(h1 - 1) : ~Parse(SubSeq(s, 1, k)).ok /\ Parse(SubSeq(s, 1, k)).why = "truncated-literal-length"
       /\ \A k \in h1..(h1 + l1 - 1) : (k < h1 + 3 \/ k > h1 + l1 - 3) => Parse(SubSeq(s, 1, k)).why = "truncated-literal"
       /\ Len(c) = 2 => /\ Parse(SubSeq(s, 1, h1 + l1 + 1)).why = "truncated-offset"
                        /\ \A k \in (h1 + l1 + 2)..(h1 + l1 + Len(SeqTrailer(c[1])) - 1) :
                              Parse(SubSeq(s, 1, k)).why = "truncated-match-length"

Vectors ==
    /\ Decode(<<0>>) = [ok |-> TRUE, out |-> <<>>, strict |-> TRUE]
    /\ Decode(<<16, 97>>).out = <<97>>
    /\ LenExt(0) = <<0>> /\ LenExt(254) = <<254>> /\ LenExt(255) = <<255, 0>> /\ LenExt(510) = <<255, 255, 0>>
    \* 1 literal 'a', match offset 1 length 14 (nibble 10), then 5 literals: a x 15, then "bcdef"
    /\ Decode(<<26, 97, 1, 0, 80, 98, 99, 100, 101, 102>>).out = [i \in 1..15 |-> 97] \o <<98, 99, 100, 101, 102>>
    /\ Decode(<<26, 97, 1, 0, 80, 98, 99, 100, 101, 102>>).strict
    \* match length 19 needs the extension byte 0; 4 literals "abcd", offset 4
    /\ Decode(<<79, 97, 98, 99, 100, 4, 0, 0, 80, 1, 2, 3, 4, 5>>).out = [i \in 1..23 |-> 97 + ((i - 1) % 4)] \o <<1, 2, 3, 4, 5>>
    /\ Decode(<<26, 97, 0, 0, 80, 98, 99, 100, 101, 102>>).why = "offset-zero"
    /\ Decode(<<26, 97, 2, 0, 80, 98, 99, 100, 101, 102>>).why = "offset-beyond-output"
    /\ Decode(<<26, 97, 1>>).why = "truncated-offset"
    /\ Decode(<<31, 97, 1, 0>>).why = "truncated-match-length"
    /\ Decode(<<31, 97, 1, 0, 255>>).why = "truncated-match-length"
    /\ Decode(<<240>>).why = "truncated-literal-length"
    /\ Decode(<<32, 97>>).why = "truncated-literal"
    /\ ~Decode(<<26, 97, 1, 0>>).strict /\ Decode(<<26, 97, 1, 0>>).out = [i \in 1..15 |-> 97]
    /\ ~Decode(<<26, 97, 1, 0, 64, 98, 99, 100, 101>>).strict           \* only 4 last literals
    /\ FirstBrokenEndRule(Parse(<<26, 97, 1, 0, 64, 98, 99, 100, 101>>).seqs) = "last-literals-shorter-than-5"
    \* 1 literal + match of 4 + 7 literals = 12 bytes: match starts at 1, 1 + 12 > 12
    /\ FirstBrokenEndRule(Parse(<<16, 97, 1, 0, 112, 1, 2, 3, 4, 5, 6, 7>>).seqs) = "last-match-within-12-of-end"
    /\ EndRules(Parse(<<16, 97, 1, 0, 128, 1, 2, 3, 4, 5, 6, 7, 8>>).seqs)
Fixed == Len(c) > 0 \/ Vectors
=============================================================================
