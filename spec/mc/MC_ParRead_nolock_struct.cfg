CONSTANTS
  NTasks = 3
  PreThreads = 2
  MainThreads = 3
  MCPre = 1
  MCMain = 1
  Lock = FALSE
  Record = FALSE
  PreSteps <- MCPreSteps
  MainSteps <- MCMainSteps
SPECIFICATION Spec
INVARIANTS StructInv
PROPERTIES NoLostTask Termination
