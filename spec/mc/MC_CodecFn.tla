----------------------------- MODULE MC_CodecFn -----------------------------
(* Inputs for "the page compressors are functions of their input" (C05, determinism):       *)
(* page-like data - int64 columns cycling through few values (DC), runs, short literals -   *)
(* low-cardinality int32 columns in random order (DV) -                                     *)
(* in every combination of up to MaxSegs segments. Such inputs share long stretches of      *)
(* content at the same positions and are full of matches, so any state a compressor keeps   *)
(* between calls (match tables, contexts) steers its choices on the next input.             *)
EXTENDS CodecDesc, TLC, Json
CONSTANTS Counts, Mods, VCounts, VSeeds, LitLens, RepOffs, RepLens, MaxSegs
VARIABLE d
Init == d = [stage |-> "build", segs |-> <<>>]
Next == \/ /\ d.stage = "build" /\ Len(d.segs) < MaxSegs
           /\ \/ \E n \in Counts, m \in Mods : d' = [d EXCEPT !.segs = Append(@, DC(n, m))]
              \/ \E n \in VCounts, sd \in VSeeds : d' = [d EXCEPT !.segs = Append(@, DV(n, sd))]
              \/ \E n \in LitLens : d.segs # <<>> /\ d.segs[Len(d.segs)].t # "L" /\ d' = [d EXCEPT !.segs = Append(@, DL(n, Len(d.segs)))]
              \/ \E o \in RepOffs, l \in RepLens : o <= DescLen(d.segs) /\ d' = [d EXCEPT !.segs = Append(@, DR(o, l))]
        \/ d.stage = "build" /\ d.segs # <<>> /\ d' = [stage |-> "emit", segs |-> d.segs]
EmitInv == DescOk(d.segs) /\ (d.stage # "emit" \/ PrintT(ToJson([desc |-> d.segs, n |-> DescLen(d.segs)])))
=============================================================================
