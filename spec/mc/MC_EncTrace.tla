---------------------------- MODULE MC_EncTrace ----------------------------
(* Trace validation for the encoders (C12 direction carquet -> specification, and the exact  *)
(* consumed length used by C11). The harness recorded, one ndjson line per encoder call, the  *)
(* values it passed in and the bytes carquet wrote. Every event is accepted iff the format    *)
(* module parses the bytes back to exactly those values and the parse ends exactly at the     *)
(* end of the bytes. One verdict is printed per event; nothing is taken from carquet but the  *)
(* bytes.                                                                                     *)
EXTENDS Naturals, Sequences, SequencesExt, TLC, Json, IOUtils, Hybrid
P == INSTANCE Plain
B == INSTANCE Bss
D == INSTANCE DeltaBP
DL == INSTANCE DeltaLen
DS == INSTANCE DeltaStr
DE == INSTANCE DictEnc
CONSTANT Groups
VARIABLE s
Tr == ndJsonDeserialize(IOEnv.TRACE)
N == Len(Tr)

V(ok, why, p, extra) == [ok |-> ok, why |-> why, p |-> p, x |-> extra]
Judge(r, want, bytes) ==          \* r: a parse result with fields ok, vals, p
    IF ~r.ok THEN V(FALSE, "parse:" \o r.why, 0, 0)
    ELSE IF r.vals # want THEN V(FALSE, "values-differ", r.p - 1, 0)
    ELSE IF r.p # Len(bytes) + 1 THEN V(FALSE, "length:parse-ends-before-end-of-output", r.p - 1, 0)
    ELSE V(TRUE, "", r.p - 1, 0)

Accept(e) ==
    CASE e.kind = "hyb" ->
            IF e.bw <= 31 THEN Judge(Parse(e.bytes, 1, Len(e.bytes), e.bw, Len(e.vals)), e.vals, e.bytes)
            ELSE Judge(ParseW(e.bytes, 1, Len(e.bytes), e.bw, Len(e.w)), e.w, e.bytes)
      [] e.kind = "bp" ->
            IF Len(e.bytes) # PackedSize(Len(e.w), e.bw) THEN V(FALSE, "length:packed-size", Len(e.bytes), 0)
            ELSE IF UnpackW(e.bytes, 1, e.bw, Len(e.w), 4) # e.w THEN V(FALSE, "values-differ", Len(e.bytes), 0)
            ELSE IF e.bytes # PackW(e.w, e.bw) THEN V(FALSE, "padding-bits-not-zero", Len(e.bytes), 0)
            ELSE V(TRUE, "", Len(e.bytes), 0)
      [] e.kind = "bitw" ->
            LET ws == [i \in 1..Len(e.items) |-> e.items[i].w]
                want == [i \in 1..Len(e.items) |-> e.items[i].v]
                bits == FoldLeft(LAMBDA a, w : a + w, 0, ws)
            IN IF Len(e.bytes) # (bits + 7) \div 8 THEN V(FALSE, "length:bit-stream-size", Len(e.bytes), 0)
               ELSE IF UnpackItems(e.bytes, ws) # want THEN V(FALSE, "values-differ", Len(e.bytes), 0)
               ELSE V(TRUE, "", Len(e.bytes), 0)
      [] e.kind = "plain" -> Judge(P!Parse(e.t, e.tlen, e.bytes, 1, Len(e.vals)), e.vals, e.bytes)
      [] e.kind = "delta" ->
            LET r == D!Parse(e.bytes, 1, e.L)
            IN IF r.ok /\ r.total # Len(e.vals) THEN V(FALSE, "header-count-differs", r.p - 1, r.total)
               ELSE LET j == Judge(r, e.vals, e.bytes) IN [j EXCEPT !.x = IF r.ok THEN r.maxw ELSE 0]
      [] e.kind = "dlen" -> Judge(DL!Parse(e.bytes, 1), e.strs, e.bytes)
      [] e.kind = "dstr" -> Judge(DS!Parse(e.bytes, 1), e.strs, e.bytes)
      [] e.kind = "bss" -> Judge(B!Parse(e.bytes, 1, e.K, Len(e.vals)), e.vals, e.bytes)
      [] e.kind = "dict" ->
            LET dc == IF e.t = 6 THEN e.dcount ELSE Len(e.dict) \div P!Width(e.t, 0)
                r == DE!Decode(e.t, 0, e.dict, dc, e.idx, Len(e.vals))
            IN IF ~r.ok THEN V(FALSE, "parse:" \o r.why, 0, 0)
               ELSE IF r.vals # e.vals THEN V(FALSE, "values-differ", r.p - 1, 0)
               ELSE IF Len(e.vals) > 0 /\ r.p # Len(e.idx) + 1 THEN V(FALSE, "length:parse-ends-before-end-of-output", r.p - 1, 0)
               ELSE V(TRUE, "", r.p - 1, 0)
      [] OTHER -> V(FALSE, "unknown-event-kind", 0, 0)

Init == s = [lvl |-> 0]
Next == \/ s.lvl = 0 /\ s' \in [lvl : {1}, g : 0..(Groups - 1)]
        \/ s.lvl = 1 /\ s' \in {[lvl |-> 2, i |-> i] : i \in {j \in 1..N : j % Groups = s.g}}

Verdict == s.lvl < 2 \/ LET v == Accept(Tr[s.i])
                        IN PrintT(ToJson([id |-> Tr[s.i].id, ok |-> v.ok, why |-> v.why, p |-> v.p, x |-> v.x]))
\* every event must have been judged: distinct states = 1 + Groups + N
Complete == TLCGet("distinct") = 1 + Groups + N
=============================================================================
