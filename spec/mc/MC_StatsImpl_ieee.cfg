CONSTANTS
  Types = {4, 5}
  NanGuard = TRUE
  OrdersChecked = {"ieee"}
INIT Init
NEXT Next
INVARIANTS ImplSound
CHECK_DEADLOCK FALSE
