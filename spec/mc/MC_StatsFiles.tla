--------------------------- MODULE MC_StatsFiles ---------------------------
(* C16 part (c): reference-written files (RefWriter / ParquetWrite.SerFile) whose chunk     *)
(* statistics are true bounds computed by Stats.MinMax, for the pruning API of the reader. *)
(* File = decoy column k (REQUIRED INT32, own statistics) + test column v (OPTIONAL, type  *)
(* t) ; 2-3 row groups whose value ranges are ascending/overlapping, descending, nested,   *)
(* identical, all-null; statistics in the new fields, the deprecated fields, both, absent, *)
(* null_count only, or mixed per group.  For FLOAT/DOUBLE a layout with NaNs among the     *)
(* data, statistics computed in each admissible order; for BYTE_ARRAY one with the empty   *)
(* string and a 300-byte value.  Every case carries the probes (all domain values + the    *)
(* specials) so that all order types of (probe, min, max) occur for every group.           *)
EXTENDS RefWriter, ParquetFile, Stats, MC_StatsDom, TLC, Json
CONSTANTS Types, Modes, Layouts
VARIABLE st

TLen(t) == IF t = 7 THEN 2 ELSE 0

\* ---- layouts: per row group the rows as domain indices, 0 = null
RgLayout(k) == CASE k = 1 -> << <<2, 3, 4>>, <<4, 0, 6>>, <<7>> >>
               [] k = 2 -> << <<6, 7>>, <<1, 2, 0>>, <<3, 3>> >>
               [] k = 3 -> << <<1, 7>>, <<4>> >>
               [] k = 4 -> << <<3, 5>>, <<5, 3>>, <<3, 0, 5>> >>
               [] k = 5 -> << <<0, 0>>, <<2, 5>>, <<5>> >>
               [] k = 6 -> << <<6, 8>>, <<8, 0>>, <<2, 8, 6, 9>> >>      \* specials among the data
LayoutsOf(t) == {k \in Layouts : k # 6 \/ t \in {4, 5, 6}}
\* orders in which the statistics of the file are computed
StatOrders(t, k) == IF k = 6 THEN Orders(t) ELSE {Canon(t)}

ModeOf(mode, g) == IF mode = "mixed" THEN (CASE g = 1 -> "new" [] g = 2 -> "absent" [] OTHER -> "old") ELSE mode

\* statistics record of ParquetWrite.StatsTree for values `data` with `nulls` nulls
StatW(t, o, mode, data, nulls) ==
    LET m == MinMax(t, o, data)
        pair == m.hasMin
    IN CASE mode = "absent" -> [has |-> FALSE, useOld |-> FALSE, useNew |-> FALSE, hasNulls |-> FALSE, nulls |-> 0, min |-> <<>>, max |-> <<>>]
         [] mode = "nullsonly" -> [has |-> TRUE, useOld |-> FALSE, useNew |-> FALSE, hasNulls |-> TRUE, nulls |-> nulls, min |-> <<>>, max |-> <<>>]
         [] mode = "new" -> [has |-> TRUE, useOld |-> FALSE, useNew |-> pair, hasNulls |-> TRUE, nulls |-> nulls, min |-> m.min, max |-> m.max]
         [] mode = "old" -> [has |-> TRUE, useOld |-> pair, useNew |-> FALSE, hasNulls |-> FALSE, nulls |-> 0, min |-> m.min, max |-> m.max]
         [] mode = "both" -> [has |-> TRUE, useOld |-> pair, useNew |-> pair, hasNulls |-> TRUE, nulls |-> nulls, min |-> m.min, max |-> m.max]

Sty == [longField |-> FALSE, longList |-> FALSE, padVarint |-> FALSE, falseByte |-> 2]
\* even layouts nest the decoy column in a REQUIRED group (levels unchanged): leaf index + 1 is then no longer the
\* schema element index of a column, so a reader that confuses the two compares with the wrong type
Nested(k) == k % 2 = 0
LeafK == [type |-> 1, tlen |-> 0, maxDef |-> 0, maxRep |-> 0, path |-> <<<<107>>>>]
LeafKOf(k) == IF Nested(k) THEN [LeafK EXCEPT !.path = <<<<103>>, <<107>>>>] ELSE LeafK
LeafV(t) == [type |-> t, tlen |-> TLen(t), maxDef |-> 1, maxRep |-> 0, path |-> <<<<118>>>>]
\* decoy values: 1000 + g (so a reader that looks at the wrong column or group answers differently)
KVal(g) == <<(232 + g) % 256, 3, 0, 0>>

Rows(t, k, g) == RgLayout(k)[g]
DataOf(t, k, g) == LET r == SelectSeq(Rows(t, k, g), LAMBDA i : i # 0) IN [j \in 1..Len(r) |-> D(t)[r[j]]]
NullsOf(t, k, g) == Len(SelectSeq(Rows(t, k, g), LAMBDA i : i = 0))
CellV(t, k, g, mode, o) ==
    [data |-> DataOf(t, k, g), nulls |-> NullsOf(t, k, g), nvals |-> Len(Rows(t, k, g)),
     st |-> LET w == StatW(t, o, ModeOf(mode, g), DataOf(t, k, g), NullsOf(t, k, g)) IN w @@ [omin |-> w.min, omax |-> w.max]]
CellK(t, k, g) ==
    LET n == Len(Rows(t, k, g))
        w == StatW(1, "std", "new", [i \in 1..n |-> KVal(g)], 0)
    IN [data |-> [i \in 1..n |-> KVal(g)], nulls |-> 0, nvals |-> n, st |-> w @@ [omin |-> w.min, omax |-> w.max]]
WStat(cell) == [has |-> cell.st.has, useOld |-> cell.st.useOld, useNew |-> cell.st.useNew, hasNulls |-> cell.st.hasNulls,
                nulls |-> cell.st.nulls, min |-> cell.st.min, max |-> cell.st.max]

Desc(t, k, mode, o) ==
    [elements |-> IF Nested(k) THEN << Root(2), Group(<<103>>, 0, 1), Leaf(<<107>>, 1, 0, 0), Leaf(<<118>>, t, 1, TLen(t)) >>
                  ELSE << Root(2), Leaf(<<107>>, 1, 0, 0), Leaf(<<118>>, t, 1, TLen(t)) >>,
     createdBy |-> <<114, 101, 102>>, extras |-> FALSE, sty |-> Sty,
     rgs |-> [g \in 1..Len(RgLayout(k)) |->
                LET n == Len(Rows(t, k, g))
                IN [numRows |-> n,
                    cols |-> << MkChunk(LeafKOf(k), [defs |-> [i \in 1..n |-> 0], reps |-> [i \in 1..n |-> 0], vals |-> CellK(t, k, g).data],
                                        <<n>>, [DefaultOpt EXCEPT !.stats = WStat(CellK(t, k, g))]),
                                MkChunk(LeafV(t), [defs |-> [i \in 1..n |-> IF Rows(t, k, g)[i] = 0 THEN 0 ELSE 1],
                                                   reps |-> [i \in 1..n |-> 0], vals |-> DataOf(t, k, g)],
                                        <<n>>, [DefaultOpt EXCEPT !.stats = WStat(CellV(t, k, g, mode, o))]) >>]]]

\* the reference reader finds in the file exactly the content and the statistics that were put in
SelfOk(t, k, mode, o, bs) ==
    LET f == ParseFile(bs)
    IN /\ f.ok /\ Len(f.rgs) = Len(RgLayout(k))
       /\ \A g \in 1..Len(RgLayout(k)) :
             LET ch == f.rgs[g].cols[2]
                 c == CellV(t, k, g, mode, o)
             IN /\ ChunkVals(ch) = c.data /\ ch.numValues = c.nvals
                /\ ch.hasStats = c.st.has
                /\ (c.st.has => /\ ch.stats.hasMin = c.st.useNew /\ ch.stats.hasMax = c.st.useNew
                                /\ ch.stats.hasMinOld = c.st.useOld /\ ch.stats.hasMaxOld = c.st.useOld
                                /\ (c.st.useNew => ch.stats.min = c.st.min /\ ch.stats.max = c.st.max)
                                /\ (c.st.useOld => ch.stats.minOld = c.st.min /\ ch.stats.maxOld = c.st.max)
                                /\ ch.stats.hasNulls = c.st.hasNulls
                                /\ (c.st.hasNulls => ch.stats.nulls = c.st.nulls))
                \* generated statistics are true bounds in the order they were computed in
                /\ IsBound(t, o, MinMax(t, o, c.data), c.data)

Init == st = [lvl |-> 0]
Next == \/ st.lvl = 0 /\ \E t \in Types : \E k \in LayoutsOf(t) : st' = [lvl |-> 1, t |-> t, k |-> k]
        \/ st.lvl = 1 /\ \E mode \in Modes : \E o \in StatOrders(st.t, st.k) :
              st' = [lvl |-> 2, t |-> st.t, k |-> st.k, mode |-> mode, o |-> o]

Emit == st.lvl = 2 =>
    LET bs == SerFile(Desc(st.t, st.k, st.mode, st.o))
    IN PrintT(ToJson([t |-> st.t, tlen |-> TLen(st.t), layout |-> st.k, mode |-> st.mode, order |-> st.o,
                      bytes |-> bs, selfok |-> SelfOk(st.t, st.k, st.mode, st.o, bs),
                      cols |-> << [t |-> 1, tlen |-> 0], [t |-> st.t, tlen |-> TLen(st.t)] >>,
                      rgs |-> [g \in 1..Len(RgLayout(st.k)) |-> << CellK(st.t, st.k, g), CellV(st.t, st.k, g, st.mode, st.o) >>],
                      probes |-> D(st.t)]))
=============================================================================
