----------------------------- MODULE MC_IndepGen -----------------------------
(* Independent readers: N threads are released from one barrier in a fresh process; TLC       *)
(* chooses which API each thread calls first (the programs of harness/h_par.c, see LazyInit   *)
(* for what each first call initialises lazily). Threads are interchangeable, so assignments  *)
(* are emitted as non-decreasing sequences (multisets) over the first NProgs programs.        *)
(*   I cpu info   K crc32   D dispatch kernels   O<mode>C/B<t> open + column API / batch      *)
(*   reader with t OpenMP threads (1 in fread mode: the shared-stream question is ParRead's)   *)
(*   V... the same with verify_checksums (carquet_crc32 per page)                             *)
EXTENDS Naturals, Sequences, TLC, Json
CONSTANTS Ns, NProgs
VARIABLE st
AllProgs == <<"I", "K", "D", "OfC", "OfB1", "VfC", "VfB1", "OmC", "VmB2", "ObC", "VbB2">>
RECURSIVE Multisets(_, _)
Multisets(n, lo) ==     \* non-decreasing index sequences of length n over lo..NProgs
    IF n = 0 THEN {<<>>}
    ELSE UNION { { <<p>> \o rest : rest \in Multisets(n - 1, p) } : p \in lo..NProgs }
Init == \E n \in Ns : st \in [n : {n}, first : 1..NProgs]
Next == /\ "progs" \notin DOMAIN st
        /\ \E a \in Multisets(st.n - 1, st.first) :
              st' = [n |-> st.n, first |-> st.first, progs |-> [j \in 1..st.n |-> AllProgs[(<<st.first>> \o a)[j]]]]
Emit == "progs" \in DOMAIN st => PrintT(ToJson([progs |-> st.progs]))
=============================================================================
