INIT Init
NEXT Next
INVARIANT WOk
INVARIANT CrcOk
INVARIANT XxhOk
CHECK_DEADLOCK FALSE
