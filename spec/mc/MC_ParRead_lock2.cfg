CONSTANTS
  NTasks = 3
  PreThreads = 1
  MainThreads = 2
  MCPre = 1
  MCMain = 2
  Lock = TRUE
  Record = FALSE
  PreSteps <- MCPreSteps
  MainSteps <- MCMainSteps
SPECIFICATION Spec
INVARIANTS AllInv
PROPERTIES NoLostTask Termination
