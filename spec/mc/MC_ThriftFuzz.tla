---------------------------- MODULE MC_ThriftFuzz ----------------------------
(* C08, Thrift part: inputs for parquet_parse_file_metadata / parquet_parse_page_header and  *)
(* the thrift_read_X / thrift_skip primitives, derived from the Thrift grammar:              *)
(*   bases   - valid encodings (TSer of ParquetThrift values of MC_ThriftGen, several        *)
(*             styles, with unknown fields) and generic trees                               *)
(*   Mutants(b) = truncations after every byte, substitution of every byte by the boundary  *)
(*             bytes SubsAt, inflation of the varint ending at every position to a huge     *)
(*             value (InflExts), one appended byte                                          *)
(* For the *small* bases every mutant is emitted explicitly together with the spec's        *)
(* verdict `valid` (TParse accepts it, consumes all of it, TypeErrs = {}); for the large    *)
(* bases the base and the number of mutants per class are emitted and the replayer          *)
(* enumerates the same set (the count is compared).                                         *)
(*   bombs   - pre ++ rep^n ++ post, rep in 0x19 (list of lists), 0x1a, 0x1c (struct field), *)
(*             0x1b (maps), n = 10^2..10^6, bare and behind an unknown-field header           *)
(*   huge    - list / map / binary headers with sizes around 2^31, 2^32, 2^63, 2^64           *)
(*   random  - seeded random bytes, bare and behind a valid prefix                          *)
EXTENDS MC_ThriftGen
CONSTANT Part        \* "explicit" | "bulk" | "misc"

FixedSubs == {0, 1, 15, 16, 21, 25, 28, 127, 128, 240, 255}
SubsAt(b) == (FixedSubs \cup {((b \div 16) * 16) + t : t \in 0..15} \cup {(b % 16) + (16 * s) : s \in {0, 1, 14, 15}}) \ {b}
InflExts == << <<127>>, <<255, 255, 255, 7>>, <<255, 255, 255, 15>>, <<255, 255, 255, 255, 255, 255, 255, 255, 1>>, Rep(255, 10) >>
Trunc(bs, k) == SubSeq(bs, 1, k)
Subst(bs, i, b) == [bs EXCEPT ![i] = b]
Inflate(bs, i, e) == SubSeq(bs, 1, i - 1) \o <<(bs[i] % 128) + 128>> \o InflExts[e] \o SubSeq(bs, i + 1, Len(bs))
NMutants(bs) == [T |-> Len(bs), S |-> FoldLeft(LAMBDA acc, i : acc + Cardinality(SubsAt(bs[i])), 0, [i \in 1..Len(bs) |-> i]),
                 I |-> Len(bs) * Len(InflExts), A |-> Cardinality(FixedSubs)]
\* the mutants that touch position i (explicit family: one state per position)
MutantsAt(bs, i) ==
       {[cls |-> "T", pos |-> i - 1, arg |-> 0, bytes |-> Trunc(bs, i - 1)]}
  \cup {[cls |-> "S", pos |-> i - 1, arg |-> b, bytes |-> Subst(bs, i, b)] : b \in SubsAt(bs[i])}
  \cup {[cls |-> "I", pos |-> i - 1, arg |-> e - 1, bytes |-> Inflate(bs, i, e)] : e \in 1..Len(InflExts)}
  \cup (IF i = Len(bs) THEN {[cls |-> "A", pos |-> Len(bs), arg |-> b, bytes |-> bs \o <<b>>] : b \in FixedSubs} ELSE {})

Enc(kind, a, k, plan) == TSer(ToTreeX(kind, a, [explicit |-> ExplicitOf(k), unk |-> plan]), StyleOf(k))
TinyPage(ty) == MkPage([ty |-> ty, crc |-> 2, iv |-> 1, st |-> IF ty = 0 THEN 2 ELSE 0, b |-> TRUE])
TinyFile == MkFile([ns |-> 2, nm |-> 1, iv |-> 1, opt |-> 2, ll |-> 1, st |-> 2, nrg |-> 1])
ExplicitBases == << [name |-> "page-data", kind |-> "PageHeader", bytes |-> Enc("PageHeader", TinyPage(0), 0, <<>>)],
                    [name |-> "page-dict-long", kind |-> "PageHeader", bytes |-> Enc("PageHeader", TinyPage(2), 31, <<>>)],
                    [name |-> "page-v2", kind |-> "PageHeader", bytes |-> Enc("PageHeader", TinyPage(3), 0, <<>>)],
                    [name |-> "file-tiny", kind |-> "FileMetaData", bytes |-> Enc("FileMetaData", TinyFile, 0, <<>>)] >>
ExplicitSel == IF Quick THEN <<1>> ELSE <<1, 2, 3, 4>>

BigFile(ns, ll) == MkFile([ns |-> ns, nm |-> 3, iv |-> 3, opt |-> 1, ll |-> ll, st |-> 5, nrg |-> 2])
BulkBases ==
    << [name |-> "page-data-real", kind |-> "PageHeader", bytes |-> Enc("PageHeader", UnkBasePage(0), 0, RealPlan)],
       [name |-> "page-v2-alt", kind |-> "PageHeader", bytes |-> Enc("PageHeader", UnkBasePage(3), 63, MixPlan(5, PageKinds))],
       [name |-> "file-base", kind |-> "FileMetaData", bytes |-> Enc("FileMetaData", MkFile(BaseP), 0, <<>>)],
       [name |-> "file-unk-real", kind |-> "FileMetaData", bytes |-> Enc("FileMetaData", UnkBaseFile, 0, RealPlan)],
       [name |-> "file-unk-alt", kind |-> "FileMetaData", bytes |-> Enc("FileMetaData", UnkBaseFile, 63, MixPlan(11, FileKinds))],
       [name |-> "generic-nested", kind |-> "generic", bytes |-> TSer(NestedStruct, DefaultStyle)],
       [name |-> "generic-all-types", kind |-> "generic", bytes |-> TSer(Struct([i \in 1..Len(UnkVals) |-> F(i * 3, UnkVals[i])]), StyleOf(6))],
       [name |-> "page-dict", kind |-> "PageHeader", bytes |-> Enc("PageHeader", UnkBasePage(2), 16, <<>>)],
       [name |-> "file-logical", kind |-> "FileMetaData", bytes |-> Enc("FileMetaData", LogicalFile, 0, <<>>)],
       [name |-> "file-16", kind |-> "FileMetaData", bytes |-> Enc("FileMetaData", BigFile(16, 15), 2, RealPlan)],
       [name |-> "file-mix", kind |-> "FileMetaData", bytes |-> Enc("FileMetaData", MkFile(RandP(3)), 21, MixPlan(7, FileKinds))] >>
BulkSel == IF Quick THEN 1..6 ELSE 1..Len(BulkBases)

\* ---- nesting bombs, huge sizes, random bytes
BombReps == << <<25>>, <<26>>, <<28>>, <<27>>, <<27, 27, 27>>, <<25, 28>>, <<251, 255, 255, 255, 15>> >>
BombPres == << <<>>, <<9, 200, 1>>, <<12, 200, 1>>, <<11, 200, 1>>, DeepPre("list") >>
BombNs == IF Quick THEN <<100, 10000, 1000000>> ELSE <<100, 1000, 10000, 100000, 1000000>>
Bombs == {[pre |-> BombPres[p], rep |-> BombReps[r], n |-> BombNs[k], post |-> post] :
             p \in 1..Len(BombPres), r \in 1..Len(BombReps), k \in 1..Len(BombNs), post \in {<<>>, <<3, 0>>}}

Word(hi, lo) == [i \in 1..8 |-> IF i <= 4 THEN (lo \div P256[i]) % 256 ELSE (hi \div P256[i - 4]) % 256]
SizeWords == << N8(15), N8(100), N8(101), N8(10001), N8(100001), N8(16384), N8(2097152), N8(268435456), MaxI32,
                <<0, 0, 0, 128, 0, 0, 0, 0>>, <<255, 255, 255, 255, 0, 0, 0, 0>>, <<0, 0, 0, 0, 1, 0, 0, 0>>, MaxI64, MinI64, Ones(8) >>
SizeHdrs == << <<25, 252>>, <<25, 245>>, <<25, 248>>, <<25, 241>>, <<24>>, <<27>>, <<9, 200, 1, 249>>, <<9, 200, 1, 252>>, <<10, 200, 1, 241>>,
               <<8, 200, 1>>, <<11, 200, 1>>, <<21, 2, 25, 252>>, <<21, 2, 25, 12, 22, 0, 25, 252>>, <<21, 2, 25, 12, 22, 0, 25, 12, 25, 252>>,
               <<21, 2, 25, 12, 22, 0, 25, 12, 25, 12, 24>>, <<25, 28, 72>>, <<21, 0, 21, 2, 21, 2, 44, 21, 2, 21, 0, 21, 6, 21, 6, 28, 24>> >>
SizeTails == << <<>>, <<0>>, <<28, 0, 0>>, <<17, 1, 2, 0>> >>
Huge == {SizeHdrs[h] \o UvarWEnc(SizeWords[w]) \o SizeTails[t] : h \in 1..Len(SizeHdrs), w \in 1..Len(SizeWords), t \in 1..Len(SizeTails)}

RandByte(g, k) == LcgN(((Seed % 1000) * 131 + (g * 17) + 5) % 65537, k + 2) % 256
RandBytes(g) == [k \in 1..(H(g, 1) % 49) |-> RandByte(g, k)]
\* behind a plausible prefix: the first bytes of a valid encoding
RandPrefixed(g) == LET b == BulkBases[(g % 5) + 1].bytes IN SubSeq(b, 1, Min2(Len(b), H(g, 2) % 24)) \o RandBytes(g)

\* ---- state graph: start -> work item -> done (the action of the second step emits)
Items == CASE Part = "explicit" -> {[k |-> "pos", b |-> b, i |-> i] : b \in Range(ExplicitSel), i \in 1..300}
           [] Part = "bulk" -> {[k |-> "bulk", b |-> b] : b \in BulkSel}
           [] Part = "misc" -> {[k |-> "bombs"], [k |-> "huge", part |-> 0], [k |-> "huge", part |-> 1], [k |-> "huge", part |-> 2]}
                                \cup {[k |-> "rand", g |-> g] : g \in 0..((NRand - 1) \div 50)}
Validity(kind, bs) == LET r == TParse(bs, 1)
                      IN r.ok /\ r.p = Len(bs) + 1 /\ TypeErrs(kind, r.v) = {}
EmitItem(it) ==
    CASE it.k = "pos" ->
            LET base == ExplicitBases[it.b]
            IN IF it.i > Len(base.bytes) THEN TRUE
               ELSE PrintT(ToJson([fz |-> "explicit", base |-> base.name, kind |-> base.kind,
                                   muts |-> SetToSeq({[cls |-> m.cls, pos |-> m.pos, arg |-> m.arg, bytes |-> m.bytes,
                                                       valid |-> Validity(base.kind, m.bytes)] : m \in MutantsAt(base.bytes, it.i)})]))
      [] it.k = "bulk" -> LET base == BulkBases[it.b]
                          IN PrintT(ToJson([fz |-> "bulk", base |-> base.name, kind |-> base.kind, bytes |-> base.bytes,
                                            valid |-> LET r == TParse(base.bytes, 1) IN r.ok /\ r.p = Len(base.bytes) + 1,
                                            nmut |-> NMutants(base.bytes)]))
      [] it.k = "bombs" -> PrintT(ToJson([fz |-> "bombs", items |-> SetToSeq(Bombs)]))
      [] it.k = "huge" -> PrintT(ToJson([fz |-> "raw", what |-> "huge-size",
                                         items |-> SetToSeq({x \in Huge : Len(x) % 3 = it.part})]))
      [] it.k = "rand" -> PrintT(ToJson([fz |-> "raw", what |-> "random",
                                         items |-> [j \in 1..50 |-> IF j % 2 = 0 THEN RandBytes((it.g * 50) + j) ELSE RandPrefixed((it.g * 50) + j)]]))
FInit == c = [k |-> "start"]
FNext == \/ c.k = "start" /\ c' \in Items
         \/ c.k \notin {"start", "done"} /\ EmitItem(c) /\ c' = [k |-> "done"]
=============================================================================
