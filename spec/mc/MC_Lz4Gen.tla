----------------------------- MODULE MC_Lz4Gen -----------------------------
(* C10, direction spec-encode -> carquet-decode, LZ4 block format.                          *)
(* TLC enumerates sequence lists: literal lengths around the nibble / extension boundaries   *)
(* (14, 15, 16, 15+254, 15+255, 15+255+1, 15+255+255), match lengths 4.. around 19, 274,     *)
(* 529 and (HugeMl) 65040 +/-, 2^16, 2^17; offsets 1..65535 (overlapping copies, offset-1 runs), serialises them (Lz4.SerR) and  *)
(* computes the expected output (Lz4.ApplyR). Each case is classified by the spec:            *)
(*   strict = TRUE   the block obeys the whole format document: a decoder must accept it      *)
(*   strict = FALSE  parsable, but breaks an end-of-block rule (those bind the compressor):   *)
(*                   a decoder may accept (then with exactly the expected bytes) or reject    *)
(* plus derived invalid blocks: cuts inside length extensions / literals / offset / match     *)
(* length extension, offset 0, offset beyond the output, destination too small.               *)
EXTENDS Lz4, TLC, Json
CONSTANTS Depth,      \* maximal number of sequences (incl. the literal-only last one)
          FullDepth,  \* number of leading sequences drawn from the full universe
          HugeMl      \* match lengths far beyond the boundary set (the format puts no upper limit on a match:
                      \* 255-byte extension runs of any length), used for the first match only
VARIABLE c

Data(L, seed) == IF L <= 64 THEN B(Pat(L, seed)) ELSE F(L, seed, 0)

FullLits  == {0, 1, 4, 5, 12, 14, 15, 16, 269, 270, 271, 525, 70000}
LastLitsQ == {0, 4, 5, 11, 12, 16, 270}
SmallLits == {0, 5, 13}
FullOff   == {1, 2, 3, 4, 7, 8, 15, 16, 255, 256, 65535}
FullMl    == {4, 5, 18, 19, 20, 273, 274, 275, 528, 529, 530}
SmallOff  == {1, 8, 300}
SmallMl   == {4, 19, 70}

Init == c = <<>>
\* a list under construction always ends in a literal-only sequence; a step gives that one a
\* match and appends a new literal-only sequence
Next == /\ Len(c) < Depth
        /\ \/ /\ c = <<>>
              /\ \E L \in FullLits : c' = <<LastLits(Data(L, 1))>>
           \/ /\ c # <<>>
              /\ LET P    == OutLen(c)
                     full == Len(c) <= FullDepth
                 IN \E o \in {o \in (IF full THEN FullOff ELSE SmallOff) : o <= P},
                       m \in (IF full THEN FullMl \cup (IF Len(c) = 1 THEN HugeMl ELSE {}) ELSE SmallMl),
                       L \in (IF full THEN LastLitsQ ELSE SmallLits) :
                       c' = Append([c EXCEPT ![Len(c)] = Sq(@.lit, o, m)], LastLits(Data(L, Len(c) + 1)))

(* ---- derived invalid blocks ---------------------------------------------------------- *)
Starts(seqs) == LET step(acc, s) == Append(acc, acc[Len(acc)] + Len(SeqHeader(s)) + CLen(s.lit) + Len(SeqTrailer(s)))
                IN FoldLeft(step, <<0>>, seqs)
\* prefix lengths that cut a sequence inside its literal-length extension, its literals,
\* its offset or its match-length extension
BadCuts(seqs) ==
    LET st == Starts(seqs) IN
    UNION { LET s == seqs[i]
                h == Len(SeqHeader(s))
                l == CLen(s.lit)
                t == Len(SeqTrailer(s))
                a == st[i]
            IN   {a + j : j \in {j \in {1, 2, h \div 2, h - 1} : j >= 1 /\ j < h}}
            \cup {a + h + j : j \in {j \in {0, 1, l \div 2, l - 1} : j >= 0 /\ j < l}}
            \cup (IF HasMatch(s) THEN {a + h + l + 1} \cup {a + h + l + 2 + j : j \in 0..(t - 3)} ELSE {})
          : i \in 1..Len(seqs) }

LastMatchIdx(seqs) == IF Len(seqs) >= 2 THEN Len(seqs) - 1 ELSE 0

BadBlocks(seqs) ==
    LET n  == OutLen(seqs)
        S  == SerR(seqs)
        lm == LastMatchIdx(seqs)
        before == IF lm = 0 THEN 0 ELSE OutLen(SubSeq(seqs, 1, lm - 1)) + CLen(seqs[lm].lit)
    IN   {[why |-> "truncated", s |-> RTake(S, k), cap |-> n] : k \in BadCuts(seqs)}
    \cup (IF n > 0 THEN {[why |-> "capacity-too-small", s |-> S, cap |-> n - 1]} ELSE {})
    \cup (IF lm = 0 THEN {} ELSE
            {[why |-> "offset-zero", s |-> SerR([seqs EXCEPT ![lm].off = 0]), cap |-> n]}
       \cup (IF before + 1 <= 65535
             THEN {[why |-> "offset-beyond-output", s |-> SerR([seqs EXCEPT ![lm].off = before + 1]), cap |-> n]}
             ELSE {}))

(* ---- emission ------------------------------------------------------------------------ *)
Summary(s) == [lit |-> CLen(s.lit), off |-> s.off, ml |-> s.ml]
Cheap == OutLen(c) <= 5000        \* huge matches: the block itself is judged, its derived invalid blocks are not
WithBad == Len(c) <= 2 /\ Cheap
Small == RLen(SerR(c)) <= 700 /\ Cheap
SelfOk == Small =>
            LET d == Decode(Ser(c)) IN
            /\ d.ok /\ d.out = Flat(ApplyR(c)) /\ d.strict = EndRules(c)
            /\ WithBad => \A b \in BadBlocks(c) : ~DecodeInto(Flat(b.s), b.cap).ok

Emit == PrintT(ToJson([fmt |-> "lz4", seqs |-> [i \in 1..Len(c) |-> Summary(c[i])],
                       n |-> OutLen(c), strict |-> EndRules(c), rule |-> FirstBrokenEndRule(c),
                       s |-> SerR(c), out |-> ApplyR(c),
                       \* the same block without its final literal-only sequence ends in a match
                       bad |-> IF WithBad THEN SetToSeq(BadBlocks(c)) ELSE <<>>]))
EmitInv == c = <<>> \/ (Valid(c) /\ SelfOk /\ Emit)
=============================================================================
