------------------------ MODULE MC_ColumnReaderImpl ------------------------
EXTENDS ColumnReaderImpl
\* two chunks worth of shapes: nulls at page starts / ends, an all-null page, a page without nulls
PagesA == << [defs |-> <<1, 0, 1>>, vals |-> <<11, 13>>], [defs |-> <<0, 1>>, vals |-> <<22>>], [defs |-> <<0, 0>>, vals |-> <<>>],
             [defs |-> <<1, 1, 1>>, vals |-> <<41, 42, 43>>] >>
=============================================================================
