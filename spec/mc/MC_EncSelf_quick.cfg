CONSTANT Quick = TRUE
INIT Init
NEXT Next
INVARIANT Ok
CHECK_DEADLOCK FALSE
