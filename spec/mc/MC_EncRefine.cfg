CONSTANTS
  BW = 1
  Alphabet = {0, 1}
  MaxLen = 12
  Variant = "pad"
  EmitCases = FALSE
INIT Init
NEXT Next
INVARIANT Refine
CHECK_DEADLOCK FALSE
