------------------------------ MODULE MC_ParFix ------------------------------
(* Fixture generator for C07: write histories (same op format as MC_WriterGen, replayed by    *)
(* h_file on carquet's own writer) for files with 2-8 REQUIRED/OPTIONAL columns, several      *)
(* write_batch calls per column (carquet cuts pages at batch boundaries when page_size is     *)
(* small, so every chunk has several pages) and 1-2 row groups. TLC enumerates                *)
(* SchemaIds x BatchPlans x Groups x NullModes. The value of row r of column c is token      *)
(* r + r \div (c+1) + c of the column's type: columns of the same type have different content, *)
(* so a page of one column delivered for another one is visible in the values.                *)
EXTENDS Naturals, Sequences, Values, TLC, Json
CONSTANTS SchemaIds, BatchPlanIds, GroupChoices, NullModes
VARIABLE st

Col(n, t, r, l) == [name |-> n, type |-> t, rep |-> r, tlen |-> l]
Catalogue == <<
  << Col(<<97>>, 1, 0, 0), Col(<<98>>, 2, 1, 0) >>,                                            \* 1: INT32, INT64?
  << Col(<<97>>, 6, 1, 0), Col(<<98>>, 5, 0, 0), Col(<<99>>, 0, 0, 0) >>,                      \* 2: BYTE_ARRAY?, DOUBLE, BOOLEAN
  << Col(<<97>>, 1, 0, 0), Col(<<98>>, 1, 0, 0), Col(<<99>>, 1, 1, 0), Col(<<100>>, 4, 1, 0) >>, \* 3
  [c \in 1..8 |-> Col(<<96 + c>>, 1, 0, 0)],                                                   \* 4: 8 x REQUIRED INT32
  << Col(<<97>>, 0, 1, 0), Col(<<98>>, 1, 0, 0), Col(<<99>>, 2, 1, 0), Col(<<100>>, 4, 0, 0),
     Col(<<101>>, 5, 1, 0), Col(<<102>>, 6, 0, 0), Col(<<103>>, 7, 1, 3), Col(<<104>>, 1, 1, 0) >>,  \* 5: 8 mixed
  << Col(<<97>>, 2, 0, 0), Col(<<98>>, 6, 1, 0), Col(<<99>>, 7, 0, 16), Col(<<100>>, 0, 1, 0), Col(<<101>>, 5, 0, 0) >>, \* 6
  [c \in 1..6 |-> Col(<<96 + c>>, IF c % 2 = 0 THEN 2 ELSE 1, c % 2, 0)]                        \* 7: 6 x INT32 / INT64?
>>
BatchPlans == << <<20, 20, 20>>, <<7, 30, 3, 24>>, <<25, 25, 25, 25>>, <<40>>, <<16, 16>>, <<9, 9, 9, 9, 9, 9>> >>

IsNull(mode, c, r) == CASE mode = "alt" -> (r + c) % 3 = 0
                        [] mode = "runs" -> (((r - 1) \div 5) + c) % 2 = 0
                        [] mode = "none" -> FALSE
Sum(s) == LET F[k \in 0..Len(s)] == IF k = 0 THEN 0 ELSE F[k - 1] + s[k] IN F[Len(s)]
\* the write_batch ops of column c (1-based) for one row group whose first global row is base
BatchOps(cols, plan, mode, c, base) ==
    LET Start[k \in 1..Len(plan)] == Sum(SubSeq(plan, 1, k - 1))
        Defs(k) == [q \in 1..plan[k] |-> IF cols[c].rep = 1 /\ IsNull(mode, c, base + Start[k] + q) THEN 0 ELSE cols[c].rep]
        Rows(k) == SelectSeq([q \in 1..plan[k] |-> base + Start[k] + q],
                             LAMBDA r : ~(cols[c].rep = 1 /\ IsNull(mode, c, r)))
    IN [k \in 1..Len(plan) |->
          [op |-> "WriteBatch", c |-> c - 1, n |-> plan[k], withDefs |-> cols[c].rep = 1, defs |-> Defs(k),
           vals |-> [q \in 1..Len(Rows(k)) |-> TokenAt(cols[c].type, cols[c].tlen, Rows(k)[q] + (Rows(k)[q] \div (c + 1)) + c)]]]
RECURSIVE Cat(_, _)
Cat(f, n) == IF n = 0 THEN <<>> ELSE Cat(f, n - 1) \o f[n]
GroupOps(cols, plan, mode, g) ==
    Cat([c \in 1..Len(cols) |-> BatchOps(cols, plan, mode, c, (g - 1) * Sum(plan))], Len(cols))
History(sid, pid, groups, mode) ==
    LET cols == Catalogue[sid] plan == BatchPlans[pid]
    IN <<[op |-> "Create", cols |-> cols]>>
       \o Cat([g \in 1..groups |-> (IF g > 1 THEN <<[op |-> "NewRowGroup"]>> ELSE <<>>) \o GroupOps(cols, plan, mode, g)], groups)
       \o <<[op |-> "Close"]>>

Init == st \in [sid : SchemaIds, pid : BatchPlanIds, groups : GroupChoices, mode : NullModes]
Next == st' = st
Emit == PrintT(ToJson([sid |-> st.sid, pid |-> st.pid, groups |-> st.groups, mode |-> st.mode,
                       ops |-> History(st.sid, st.pid, st.groups, st.mode)]))
=============================================================================
