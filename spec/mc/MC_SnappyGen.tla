---------------------------- MODULE MC_SnappyGen ----------------------------
(* C10, direction spec-encode -> carquet-decode, Snappy.                                   *)
(* TLC enumerates valid token lists over every tag kind of the block grammar (literals     *)
(* with 0..4 extra length bytes incl. non-minimal forms, copy-1/2/4, overlapping copies,   *)
(* offset-1 runs, offsets up to and beyond 64 KiB), serialises them with Snappy.SerR and    *)
(* computes the bytes a conforming decoder must return (Snappy.ApplyR). Long literals are   *)
(* fill chunks, so neither stream nor expected output is ever materialised here.            *)
(* For short lists it also derives the invalid blocks of DESIGN.md section 5: every cut     *)
(* inside / at the edge of an element, wrong declared length, trailing element, offset 0,   *)
(* offset beyond the output, destination smaller than the output.                           *)
EXTENDS Snappy, TLC, Json
CONSTANTS Depth,      \* maximal number of tokens
          FullDepth,  \* lists up to this length draw from the full token universe
          Huge        \* TRUE: include the 16 MiB literals (4-byte length really needed)
VARIABLE c

Data(L, seed) == IF L <= 64 THEN B(Pat(L, seed)) ELSE F(L, seed, 0)

LitShapes == {<<0, 1>>, <<0, 2>>, <<0, 59>>, <<0, 60>>,
              <<1, 1>>, <<1, 61>>, <<1, 255>>, <<1, 256>>,
              <<2, 1>>, <<2, 257>>, <<2, 65535>>, <<2, 65536>>,
              <<3, 1>>, <<3, 65537>>, <<4, 1>>, <<4, 5>>, <<4, 70000>>}
         \cup (IF Huge THEN {<<3, 16777216>>, <<4, 16777217>>} ELSE {})
C1Off == {1, 2, 3, 4, 7, 8, 255, 256, 2047}
C2Off == {1, 2, 7, 8, 63, 64, 255, 256, 2047, 2048, 65535}
C4Off == {1, 3, 65535, 65536, 70000} \cup (IF Huge THEN {16777216} ELSE {})

FullToks(P, seed) ==
         {Lit(s[1], Data(s[2], seed)) : s \in LitShapes}
    \cup {Copy1(o, l) : o \in {o \in C1Off : o <= P}, l \in {4, 5, 11}}
    \cup {Copy2(o, l) : o \in {o \in C2Off : o <= P}, l \in {1, 2, 63, 64}}
    \cup {Copy4(o, l) : o \in {o \in C4Off : o <= P}, l \in {1, 33, 64}}
SmallToks(P, seed) ==
         {Lit(0, Data(3, seed)), Lit(1, Data(70, seed)), Lit(4, Data(2, seed))}
    \cup {Copy1(o, l) : o \in {o \in {1, 5} : o <= P}, l \in {4, 11}}
    \cup {Copy2(o, l) : o \in {o \in {2, 300} : o <= P}, l \in {1, 64}}
    \cup {Copy4(o, l) : o \in {o \in {1, 65536} : o <= P}, l \in {64}}

Init == c = <<>>
Next == /\ Len(c) < Depth
        /\ \E t \in (IF Len(c) < FullDepth THEN FullToks(OutLen(c), Len(c) + 1)
                                           ELSE SmallToks(OutLen(c), Len(c) + 1)) :
              \* 16 MiB literals only as the first element (keeps the replay volume bounded)
              /\ (IsLit(t) /\ CLen(t.d) > 100000) => c = <<>>
              /\ c' = Append(c, t)

(* ---- derived invalid blocks ---------------------------------------------------------- *)
\* byte offsets (within the serialised block) at which the elements start
Starts(toks) == LET step(acc, t) == Append(acc, acc[Len(acc)] + ElemLen(t))
                IN FoldLeft(step, <<Len(Varint(OutLen(toks)))>>, toks)
\* prefix lengths that cut the block inside or at the edge of an element (all < total length)
Cuts(toks) ==
    LET st == Starts(toks)
        total == st[Len(st)]
    IN {k \in UNION {({st[i] + j : j \in 0..HdrLen(toks[i])} \cup {st[i + 1] - 1, st[i] + (ElemLen(toks[i]) \div 2)})
                      : i \in 1..Len(toks)} \cup {0, 1} : k < total}

LastCopyIdx(toks) == LET I == {i \in 1..Len(toks) : ~IsLit(toks[i])} IN
                     IF I = {} THEN 0 ELSE CHOOSE i \in I : \A j \in I : j <= i
MaxOff(t) == IF t.k = "c1" THEN 2047 ELSE IF t.k = "c2" THEN 65535 ELSE 2147483647

\* the elements of `toks` up to some element boundary produce exactly `declared` bytes: the
\* block is a complete valid block followed by further input
TrailAt(toks, declared) == \E k \in 0..Len(toks) : OutLen(SubSeq(toks, 1, k)) = declared

BadBlocks(toks) ==
    LET n  == OutLen(toks)
        S  == SerR(toks)
        lc == LastCopyIdx(toks)
        before == IF lc = 0 THEN 0 ELSE OutLen(SubSeq(toks, 1, lc - 1))
        bad(why, s, cap, trail) == [why |-> why, s |-> s, cap |-> cap, trail |-> trail]
    IN   {bad("truncated", RTake(S, k), n, FALSE) : k \in Cuts(toks)}
    \cup {bad("declared-length-too-large", SerBlockR(n + 1, toks), n + 1, FALSE)}
    \cup (IF n > 0 THEN {bad("declared-length-too-small", SerBlockR(n - 1, toks), n, TrailAt(toks, n - 1)),
                         bad("capacity-too-small", S, n - 1, FALSE)} ELSE {})
    \cup {bad("trailing-element", SerBlockR(n, Append(toks, Lit(0, B(<<65>>)))), n + 1, TRUE)}
    \cup (IF lc = 0 THEN {} ELSE
            {bad("offset-zero", SerBlockR(n, [toks EXCEPT ![lc].off = 0]), n, FALSE)}
       \cup (IF before + 1 <= MaxOff(toks[lc])
             THEN {bad("offset-beyond-output", SerBlockR(n, [toks EXCEPT ![lc].off = before + 1]), n, FALSE)}
             ELSE {}))

(* ---- emission ------------------------------------------------------------------------ *)
Summary(t) == IF IsLit(t) THEN [k |-> "lit", x |-> t.x, len |-> CLen(t.d), off |-> 0]
                          ELSE [k |-> t.k, x |-> 0, len |-> t.len, off |-> t.off]
WithBad == Len(c) <= 2
\* small blocks are also pushed through the spec's own decoder (oracle self-consistency)
Small == RLen(SerR(c)) <= 400
SelfOk == Small =>
            /\ Decode(Ser(c)).ok /\ Decode(Ser(c)).out = Flat(ApplyR(c))
            /\ WithBad => \A b \in BadBlocks(c) : ~DecodeInto(Flat(b.s), b.cap).ok

Emit == PrintT(ToJson([fmt |-> "snappy", toks |-> [i \in 1..Len(c) |-> Summary(c[i])],
                       n |-> OutLen(c), s |-> SerR(c), out |-> ApplyR(c),
                       bad |-> IF WithBad THEN SetToSeq(BadBlocks(c)) ELSE <<>>]))
EmitInv == c = <<>> \/ (Valid(c) /\ SelfOk /\ Emit)
=============================================================================
