---------------------------- MODULE MC_StatsImpl ----------------------------
(* Implementation-shaped model of carquet_reader_row_group_matches (src/reader/             *)
(* statistics.c): three-way comparators per physical type and the operator table over      *)
(* cmp(value, min), cmp(value, max), checked by TLC against Stats.tla on the MC_Stats       *)
(* domains.  NanGuard = FALSE is the code as found (compare_float returns 0 whenever a NaN  *)
(* is involved): TLC refutes soundness for FLOAT/DOUBLE in every admissible order (e.g.     *)
(* min = max = 1.5, probe NaN, != : pruned although 1.5 != NaN).  NanGuard = TRUE is the    *)
(* repaired code (a NaN probe / min / max never prunes): sound in the two total orders,     *)
(* and in the IEEE order except for != with NaNs hidden behind NaN-free statistics, which   *)
(* is the observation reported by the conformance part.  Integer and byte types: sound.     *)
EXTENDS Stats, TLC
CONSTANTS Types, NanGuard, OrdersChecked
VARIABLE st

F32 == << <<0,0,128,255>>, <<0,0,192,191>>, <<0,0,0,128>>, <<0,0,0,0>>, <<0,0,192,63>>, <<0,0,128,127>>, <<0,0,192,127>> >>
F64 == << <<0,0,0,0,0,0,240,255>>, <<0,0,0,0,0,0,248,191>>, <<0,0,0,0,0,0,0,128>>, <<0,0,0,0,0,0,0,0>>,
          <<0,0,0,0,0,0,248,63>>, <<0,0,0,0,0,0,240,127>>, <<1,0,0,0,0,0,248,255>> >>
I32 == << <<0,0,0,128>>, <<254,255,255,255>>, <<255,255,255,255>>, <<0,0,0,0>>, <<1,0,0,0>>, <<0,1,0,0>>, <<255,255,255,127>> >>
I64 == << <<0,0,0,0,0,0,0,128>>, <<255,255,255,255,255,255,255,255>>, <<0,0,0,0,0,0,0,0>>, <<1,0,0,0,0,0,0,0>>,
          <<0,0,0,0,1,0,0,0>>, <<255,255,255,255,255,255,255,127>> >>
Alpha == {0, 127, 128, 255}
Str == {<<>>} \cup {<<a>> : a \in Alpha} \cup {<<a, b>> : a, b \in Alpha}
Dom(t) == CASE t = 1 -> Range(I32) [] t = 2 -> Range(I64) [] t = 4 -> Range(F32) [] t = 5 -> Range(F64)
            [] t = 6 -> Str [] t = 7 -> {<<a, b>> : a, b \in Alpha}

\* compare_int32 / compare_int64 / compare_float / compare_double / compare_bytes of reader/statistics.c
ImplCmp(t, a, b) ==
    CASE t \in {1, 2} -> IF SLess(a, b) THEN 0 - 1 ELSE IF SLess(b, a) THEN 1 ELSE 0
      [] t \in {4, 5} -> IF FIsNaN(a) \/ FIsNaN(b) THEN 0               \* (va < vb) and (va > vb) are both false
                         ELSE IF FLess(a, b) THEN 0 - 1 ELSE IF FLess(b, a) THEN 1 ELSE 0
      [] OTHER -> IF LexLess(a, b) THEN 0 - 1 ELSE IF LexLess(b, a) THEN 1 ELSE 0
ImplMight(t, op, mn, mx, p) ==
    LET cmin == ImplCmp(t, p, mn)
        cmax == ImplCmp(t, p, mx)
    IN IF NanGuard /\ IsFloat(t) /\ (FIsNaN(p) \/ FIsNaN(mn) \/ FIsNaN(mx)) THEN TRUE
       ELSE CASE op = "EQ" -> ~(cmin < 0 \/ cmax > 0)
              [] op = "NE" -> ~(cmin = 0 /\ cmax = 0)
              [] op = "LT" -> ~(cmin <= 0)
              [] op = "LE" -> ~(cmin < 0)
              [] op = "GT" -> ~(cmax >= 0)
              [] op = "GE" -> ~(cmax > 0)

Init == st = [lvl |-> 0]
Next == st.lvl = 0 /\ \E t \in Types : \E mn \in Dom(t) : \E mx \in Dom(t) : st' = [lvl |-> 1, t |-> t, mn |-> mn, mx |-> mx]

Stat(mn, mx) == [hasMin |-> TRUE, min |-> mn, hasMax |-> TRUE, max |-> mx]
\* no false negative in order o: a stored value within the bounds that satisfies the predicate is never pruned
SoundIn(o) == st.lvl = 1 =>
    \A op \in OPS : \A v \in Dom(st.t) : \A p \in Dom(st.t) :
        (Holds(st.t, o, op, v, p) /\ LowerOk(st.t, o, Stat(st.mn, st.mx), v) /\ UpperOk(st.t, o, Stat(st.mn, st.mx), v))
            => ImplMight(st.t, op, st.mn, st.mx, p)
ImplSound == \A o \in OrdersChecked : (st.lvl = 1 /\ o \in Orders(st.t)) => SoundIn(o)
\* the implementation never prunes more than the tight rule allows ... and where it prunes less, that is allowed
ImplRefinesMight == st.lvl = 1 =>
    \A o \in OrdersChecked : o \in Orders(st.t) =>
        \A op \in OPS : \A p \in Dom(st.t) : Might(st.t, o, op, Stat(st.mn, st.mx), p) => ImplMight(st.t, op, st.mn, st.mx, p)
=============================================================================
