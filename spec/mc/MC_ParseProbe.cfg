INIT Init
NEXT Next
INVARIANT Show
CHECK_DEADLOCK FALSE
