CONSTANTS
  Types = {0, 1, 2, 3, 4, 5, 6, 7}
  SetData = FALSE
  Alpha2 = {0, 128, 255}
INIT Init
NEXT Next
INVARIANTS Sound1 SoundAbsent Tight MinMaxOk OverlapOk OrderOk FilterOk
CHECK_DEADLOCK FALSE
