\* self-check of the kernel definitions (published vectors, algebraic identities); no implementation involved
CONSTANTS
  Seed = 1
  KernelSet = {}
  MaxElem = 0
  MaxBool = 0
  MaxByte = 0
  MaxMem = 0
  Large = {}
  Huge = {}
  NRand = 0
  FullRun = 0
INIT SelfInit
NEXT SelfNext
INVARIANT SelfInv
CHECK_DEADLOCK FALSE
