CONSTANTS
  Features <- FeaturesCoarse
  Guard <- GuardCoarse
  Needs <- NeedsCoarse
INIT Init
NEXT Next
INVARIANTS TypeOK CapsSound TableBest NoUnsetCall CallBest Emit
PROPERTIES OverrideOrder FrozenAfterInit
CHECK_DEADLOCK FALSE
