----------------------------- MODULE MC_Kernels -----------------------------
(* Case generator for C15: for every (kernel, count, pattern) TLC prints the input memory    *)
(* images and the output the definitions in Kernels.tla assign.  Alignment and ISA level do  *)
(* not occur here (that is the property); the harness multiplies every case by src/dst       *)
(* misalignments and by the variants {SSE4.2, AVX2, AVX-512, dispatcher under a capability   *)
(* mask}.                                                                                     *)
(*                                                                                            *)
(* A case is a record of byte strings                                                         *)
(*   k   kernel name          n  element count        p  pattern id                           *)
(*   sa  scalar argument (little endian bytes)                                                *)
(*   in1, in2  read-only input buffers                                                        *)
(*   z   how the output buffer starts: "given" (io0), "zero", "junk" (anything), "none"        *)
(*   io0 initial content of the in/out buffer (z = "given")                                   *)
(*   exp final content of the output buffer      ret  return value (8 bytes LE) or <<>>       *)
(*   alt a named wrong answer used only to classify a mismatch (CRC32C without inversions)    *)
EXTENDS Naturals, Integers, Sequences, SequencesExt, FiniteSets, TLC, Json, Kernels

CONSTANTS Seed,        \* pattern seed (VERIF_SEED mod 32749)
          KernelSet,   \* names of the kernels to generate
          MaxElem,     \* counts 0..MaxElem for 16/32/64-bit element kernels
          MaxBool,     \* counts 0..MaxBool for boolean kernels
          MaxByte,     \* counts 0..MaxByte for byte kernels (crc32c, match_*)
          MaxMem,      \* counts 0..MaxMem for memcpy / memset
          Large,       \* a few large counts (all kernels)
          Huge,        \* counts beyond 2^19 for the counting kernel only (accumulators narrower than the count wrap there)
          NRand,       \* number of random patterns per (kernel, count)
          FullRun      \* for run searches: every mismatch position is tried for counts <= FullRun
VARIABLE c

\* ---- deterministic pseudo-random bytes, random access (all intermediate values < 2^31) ----
KId == [prefix_sum_i32 |-> 1, prefix_sum_i64 |-> 2, gather_i32 |-> 3, gather_i64 |-> 4,
        gather_float |-> 5, gather_double |-> 6, bss_encode_float |-> 7, bss_decode_float |-> 8,
        bss_encode_double |-> 9, bss_decode_double |-> 10, unpack_bools |-> 11, pack_bools |-> 12,
        find_run_length_i32 |-> 13, crc32c |-> 14, match_copy |-> 15, match_length |-> 16,
        count_non_nulls |-> 17, build_null_bitmap |-> 18, fill_def_levels |-> 19,
        memset |-> 20, memcpy |-> 21, bitunpack |-> 22]
AllKernels == DOMAIN KId

Key(k, n, p, salt) == (Seed * 13 + KId[k] * 1009 + (n % 4001) * 31 + (p % 1009) * 577 + salt * 7919) % 32749
R(x0, i) == LET a == (x0 * 75 + (i % 200003) * 7919 + 74) % 32749
                b == (a * a + i) % 32749
                d == (b * 75 + a) % 32749
            IN d % 256
RBytes(x0, m) == [i \in 1..m |-> R(x0, i)]
RWords(x0, m, w) == [i \in 1..m |-> [b \in 1..w |-> R(x0, (i - 1) * w + b)]]
RNat(x0, i, m) == (R(x0, 2 * i) * 256 + R(x0, (2 * i) + 1)) % m          \* 0..m-1, m <= 65536

Num8(x) == [i \in 1..8 |-> IF i = 1 THEN x % 256 ELSE IF i = 2 THEN (x \div 256) % 256
                           ELSE IF i = 3 THEN (x \div 65536) % 256 ELSE IF i = 4 THEN (x \div 16777216) % 256 ELSE 0]
Differ(bs) == [i \in 1..Len(bs) |-> (bs[i] + 165) % 256]

Rec(k, n, p, sa, in1, in2, z, io0, exp, ret, alt) ==
    [k |-> k, n |-> n, p |-> p, sa |-> sa, in1 |-> in1, in2 |-> in2, z |-> z, io0 |-> io0,
     exp |-> exp, ret |-> ret, alt |-> alt]

\* ---- counts and patterns -------------------------------------------------------------------
BitShapes == { <<32, 1>>, <<8, 4>>, <<8, 8>>, <<64, 1>>, <<16, 4>>, <<16, 8>>, <<8, 16>>,
               <<32, 8>>, <<16, 16>>, <<32, 4>> }            \* <<values, width>> of the exported unpackers
Offsets == {1, 2, 3, 4, 5, 6, 7, 8, 9, 12, 15, 16, 17, 24, 31, 32, 33, 48, 64, 65}

Counts(k) ==
    IF k \in {"unpack_bools", "pack_bools"} THEN (0..MaxBool) \cup Large
    ELSE IF k \in {"crc32c", "match_copy", "match_length"} THEN (0..MaxByte) \cup Large
    ELSE IF k \in {"memset", "memcpy"} THEN (0..MaxMem) \cup Large
    ELSE IF k = "bitunpack" THEN {s[1] * 100 + s[2] : s \in BitShapes}     \* group key only
    ELSE IF k = "count_non_nulls" THEN (0..MaxElem) \cup Large \cup Huge
    ELSE (0..MaxElem) \cup Large

RunSet(n, lo) == IF n <= FullRun THEN lo..n
                 ELSE {r \in {lo, 1, 2, 3, 4, 7, 8, 15, 16, 17, n \div 2, n - 17, n - 16, n - 9, n - 8, n - 5, n - 4, n - 3, n - 2, n - 1, n} : r >= lo /\ r <= n}

Pats(k, n) ==
    IF n \in Huge THEN {0, 1}            \* all present / every fifth present
    ELSE IF k = "find_run_length_i32" THEN (IF n = 0 THEN {0} ELSE RunSet(n, 1))
    ELSE IF k = "match_length" THEN RunSet(n, 0)
    ELSE IF k = "match_copy" THEN Offsets
    ELSE IF k = "fill_def_levels" THEN 0..4
    ELSE IF k = "memset" THEN 0..2
    ELSE IF k = "memcpy" THEN 0..(IF NRand > 2 THEN 2 ELSE NRand)
    ELSE IF k = "bitunpack" THEN 0..(1 + (4 * NRand))
    ELSE IF k \in {"gather_i32", "gather_i64", "gather_float", "gather_double"} THEN 0..(2 + NRand)
    ELSE 0..(1 + NRand)

\* ---- per-kernel cases ----------------------------------------------------------------------
\* "interesting" 32/64-bit patterns: max int, -1, min int, 1, signalling NaN, -0.0, +inf, denormal
Special(w, j) ==
    LET t == j % 8 IN
    IF w = 4 THEN
        (IF t = 0 THEN <<255, 255, 255, 127>> ELSE IF t = 1 THEN <<255, 255, 255, 255>>
         ELSE IF t = 2 THEN <<0, 0, 0, 128>> ELSE IF t = 3 THEN <<1, 0, 0, 0>>
         ELSE IF t = 4 THEN <<1, 0, 160, 127>> ELSE IF t = 5 THEN <<0, 0, 0, 128>>
         ELSE IF t = 6 THEN <<0, 0, 128, 127>> ELSE <<1, 0, 0, 0>>)
    ELSE
        (IF t = 0 THEN <<255, 255, 255, 255, 255, 255, 255, 127>> ELSE IF t = 1 THEN Ones(8)
         ELSE IF t = 2 THEN <<0, 0, 0, 0, 0, 0, 0, 128>> ELSE IF t = 3 THEN <<1, 0, 0, 0, 0, 0, 0, 0>>
         ELSE IF t = 4 THEN <<1, 0, 0, 0, 0, 0, 244, 127>> ELSE IF t = 5 THEN <<0, 0, 0, 0, 0, 0, 0, 128>>
         ELSE IF t = 6 THEN <<0, 0, 0, 0, 0, 0, 240, 127>> ELSE <<1, 0, 0, 0, 0, 0, 0, 0>>)

CasePrefix(k, w, n, p) ==
    LET x == Key(k, n, p, 1)
        vals == IF p = 0 THEN [i \in 1..n |-> FromNat(1, w)]
                ELSE IF p = 1 THEN [i \in 1..n |-> Special(w, i - 1)]
                ELSE RWords(x, n, w)
        init == IF p = 0 THEN Zero(w) ELSE IF p = 1 THEN Special(w, 0) ELSE RWords(Key(k, n, p, 2), 1, w)[1]
    IN Rec(k, n, p, init, <<>>, <<>>, "given", Flat(vals, w), Flat(PrefixSum(vals, init), w), <<>>, <<>>)

CaseGather(k, w, n, p) ==
    LET x == Key(k, n, p, 1)
        D == IF p = 0 THEN 1 ELSE IF p = 1 THEN 5 ELSE 300
        dict == [j \in 1..D |-> IF j <= 8 /\ D > 1 THEN Special(w, j + 3)
                                 ELSE [b \in 1..w |-> IF b = 1 THEN j % 256 ELSE IF b = 2 THEN j \div 256 ELSE R(x, j * w + b)]]
        idx == IF p = 0 THEN [i \in 1..n |-> 0]
               ELSE IF p = 1 THEN [i \in 1..n |-> (i * 3) % D]
               ELSE IF p = 2 THEN [i \in 1..n |-> D - 1]
               ELSE [i \in 1..n |-> RNat(Key(k, n, p, 2), i, D)]
    IN Rec(k, n, p, <<>>, Flat(dict, w), Flat([i \in 1..n |-> FromNat(idx[i], 4)], 4), "junk", <<>>,
           Flat(Gather(dict, idx), w), <<>>, <<>>)

BssVals(k, w, n, p) == IF p = 0 THEN [i \in 1..n |-> [b \in 1..w |-> ((i - 1) * w + b - 1) % 256]]
                       ELSE IF p = 1 THEN [i \in 1..n |-> Special(w, i + 3)]
                       ELSE RWords(Key(k, n, p, 1), n, w)
CaseBssEnc(k, w, n, p) ==
    LET vals == BssVals(k, w, n, p)
        enc == BssEncode(vals, w)
    IN IF BssDecode(enc, w, n) # vals THEN Assert(FALSE, "spec self-check: BssDecode(BssEncode(v)) # v")
       ELSE Rec(k, n, p, <<>>, Flat(vals, w), <<>>, "junk", <<>>, enc, <<>>, <<>>)
CaseBssDec(k, w, n, p) ==
    LET bs == Flat(BssVals(k, w, n, p), w)           \* any byte string of n*w bytes is a valid stream
        vals == BssDecode(bs, w, n)
    IN IF BssEncode(vals, w) # bs THEN Assert(FALSE, "spec self-check: BssEncode(BssDecode(b)) # b")
       ELSE Rec(k, n, p, <<>>, bs, <<>>, "junk", <<>>, Flat(vals, w), <<>>, <<>>)

CaseUnpackBools(k, n, p) ==
    LET m == (n + 7) \div 8
        bs == IF p = 0 THEN [i \in 1..m |-> IF i % 2 = 1 THEN 170 ELSE 85]
              ELSE IF p = 1 THEN [i \in 1..m |-> IF i % 3 = 0 THEN 0 ELSE 255]
              ELSE RBytes(Key(k, n, p, 1), m)
    IN Rec(k, n, p, <<>>, bs, <<>>, "junk", <<>>, UnpackBools(bs, n), <<>>, <<>>)
CasePackBools(k, n, p) ==
    LET bools == IF p = 0 THEN [i \in 1..n |-> 1]
                 ELSE IF p = 1 THEN [i \in 1..n |-> IF (i % 3) = 0 THEN 1 ELSE 0]
                 ELSE [i \in 1..n |-> R(Key(k, n, p, 1), i) % 2]
        packed == PackBools(bools)
    IN IF UnpackBools(packed, n) # bools THEN Assert(FALSE, "spec self-check: Unpack(Pack(b)) # b")
       ELSE Rec(k, n, p, <<>>, bools, <<>>, "junk", <<>>, packed, <<>>, <<>>)

\* run of r equal words, then a word differing in exactly one bit, then anything (incl. the first word again)
FlipBit(wd, bit) == [b \in 1..Len(wd) |-> IF b = (bit \div 8) + 1
                                            THEN (IF Bit(wd, bit) = 1 THEN wd[b] - Pow2[(bit % 8) + 1] ELSE wd[b] + Pow2[(bit % 8) + 1])
                                            ELSE wd[b]]
CaseFindRun(k, n, p) ==
    LET x == Key(k, n, p, 1)
        first == RWords(Key(k, n, 0, 3), 1, 4)[1]
        rest == RWords(x, n, 4)
        vals == [i \in 1..n |-> IF i <= p THEN first
                                ELSE IF i = p + 1 THEN FlipBit(first, (p * 5) % 32)
                                ELSE IF i % 3 = 0 THEN first ELSE rest[i]]
        r == FindRunLength(vals)
    IN IF n > 0 /\ r # p THEN Assert(FALSE, "spec self-check: run length")
       ELSE Rec(k, n, p, <<>>, Flat(vals, 4), <<>>, "none", <<>>, <<>>, Num8(r), <<>>)

CaseMatchLength(k, n, p) ==
    LET a == RBytes(Key(k, n, 0, 1), n)
        other == RBytes(Key(k, n, p, 2), n)
        b == [i \in 1..n |-> IF i <= p THEN a[i]
                             ELSE IF i = p + 1 THEN FlipBit(<<a[i]>>, (p * 3) % 8)[1]
                             ELSE IF i % 2 = 0 THEN a[i] ELSE other[i]]
        r == MatchLength(a, b)
    IN IF r # p THEN Assert(FALSE, "spec self-check: match length")
       ELSE Rec(k, n, p, <<>>, a, b, "none", <<>>, <<>>, Num8(r), <<>>)

CaseMatchCopy(k, n, off) ==
    LET hist == RBytes(Key(k, n, off, 1), off)
        out == MatchCopy(hist, n, off)
    IN Rec(k, n, off, Num8(off), <<>>, <<>>, "given", hist \o Differ(out), hist \o out, <<>>, <<>>)

Digits == <<49, 50, 51, 52, 53, 54, 55, 56, 57>>                  \* "123456789"
CaseCrc(k, n, p) ==
    LET x == Key(k, n, p, 1)
        data == IF p = 0 THEN [i \in 1..n |-> Digits[((i - 1) % 9) + 1]]
                ELSE IF p = 1 THEN [i \in 1..n |-> 0]
                ELSE RBytes(x, n)
        crc == IF p = 0 THEN <<0, 0>> ELSE IF p = 1 THEN <<65535, 65535>>
               ELSE <<RNat(x, 70001, 65536), RNat(x, 70002, 65536)>>
    IN Rec(k, n, p, AsLE(crc), data, <<>>, "none", <<>>, <<>>,
           AsLE(Crc32cDef(crc, data)) \o <<0, 0, 0, 0>>, AsLE(Crc32cRaw(crc, data)) \o <<0, 0, 0, 0>>)

Levels(k, n, p) ==
    LET x == Key("count_non_nulls", n, p, 1)           \* same levels for count and bitmap
    IN IF p = 0 THEN [i \in 1..n |-> 1]
       ELSE IF p = 1 THEN [i \in 1..n |-> IF i % 5 = 0 THEN 1 ELSE 0]
       ELSE IF p = 2 THEN [i \in 1..n |-> RNat(x, i, 4)]
       ELSE [i \in 1..n |-> RNat(x, i, 32768)]
MaxDef(k, n, p) == IF p <= 1 THEN 1 ELSE IF p = 2 THEN 3
                   ELSE IF p % 2 = 1 /\ n > 0 THEN Levels(k, n, p)[((n - 1) \div 2) + 1] ELSE 32767
CaseCountNonNulls(k, n, p) ==
    LET lv == Levels(k, n, p)
    IN Rec(k, n, p, I16Bytes(MaxDef(k, n, p)), Flat([i \in 1..n |-> I16Bytes(lv[i])], 2), <<>>, "none", <<>>, <<>>,
           Num8(CountNonNulls(lv, MaxDef(k, n, p))), <<>>)
CaseNullBitmap(k, n, p) ==
    LET lv == Levels(k, n, p)
    IN Rec(k, n, p, I16Bytes(MaxDef(k, n, p)), Flat([i \in 1..n |-> I16Bytes(lv[i])], 2), <<>>, "zero", <<>>,
           BuildNullBitmap(lv, MaxDef(k, n, p)), <<>>, <<>>)
FillVals == <<0, 1, 32767, 4660, -1>>
CaseFill(k, n, p) ==
    Rec(k, n, p, I16Bytes(FillVals[p + 1]), <<>>, <<>>, "junk", <<>>,
        Flat([i \in 1..n |-> I16Bytes(FillLevels(n, FillVals[p + 1])[i])], 2), <<>>, <<>>)

CaseMemset(k, n, p) == LET v == <<0, 167, 255>>[p + 1]
                       IN Rec(k, n, p, <<v>>, <<>>, <<>>, "junk", <<>>, MemSet(v, n), <<>>, <<>>)
CaseMemcpy(k, n, p) == LET src == IF p = 0 THEN [i \in 1..n |-> i % 256] ELSE RBytes(Key(k, n, p, 1), n)
                       IN Rec(k, n, p, <<>>, src, <<>>, "junk", <<>>, MemCopy(src), <<>>, <<>>)

\* n encodes the shape: values * 100 + width
CaseBitUnpack(k, shape, p) ==
    LET nv == shape \div 100
        w == shape % 100
        m == (nv * w) \div 8
        bs == IF p = 0 THEN [i \in 1..m |-> 255] ELSE IF p = 1 THEN [i \in 1..m |-> IF i % 2 = 1 THEN 165 ELSE 60]
              ELSE RBytes(Key(k, shape, p, 1), m)
        vals == BitUnpack(bs, w, nv)
    IN Rec(k, nv, p, <<w>>, bs, <<>>, "junk", <<>>, Flat([i \in 1..nv |-> FromNat(vals[i], 4)], 4), <<>>, <<>>)

CaseOf(k, n, p) ==
    CASE k = "prefix_sum_i32" -> CasePrefix(k, 4, n, p)
      [] k = "prefix_sum_i64" -> CasePrefix(k, 8, n, p)
      [] k \in {"gather_i32", "gather_float"} -> CaseGather(k, 4, n, p)
      [] k \in {"gather_i64", "gather_double"} -> CaseGather(k, 8, n, p)
      [] k = "bss_encode_float" -> CaseBssEnc(k, 4, n, p)
      [] k = "bss_encode_double" -> CaseBssEnc(k, 8, n, p)
      [] k = "bss_decode_float" -> CaseBssDec(k, 4, n, p)
      [] k = "bss_decode_double" -> CaseBssDec(k, 8, n, p)
      [] k = "unpack_bools" -> CaseUnpackBools(k, n, p)
      [] k = "pack_bools" -> CasePackBools(k, n, p)
      [] k = "find_run_length_i32" -> CaseFindRun(k, n, p)
      [] k = "crc32c" -> CaseCrc(k, n, p)
      [] k = "match_copy" -> CaseMatchCopy(k, n, p)
      [] k = "match_length" -> CaseMatchLength(k, n, p)
      [] k = "count_non_nulls" -> CaseCountNonNulls(k, n, p)
      [] k = "build_null_bitmap" -> CaseNullBitmap(k, n, p)
      [] k = "fill_def_levels" -> CaseFill(k, n, p)
      [] k = "memset" -> CaseMemset(k, n, p)
      [] k = "memcpy" -> CaseMemcpy(k, n, p)
      [] k = "bitunpack" -> CaseBitUnpack(k, n, p)

\* ---- two-level generation: first the (kernel, count) group, then its patterns -------------
Init == c = [none |-> TRUE]
Next == \/ /\ "none" \in DOMAIN c
           /\ \E k \in KernelSet : \E n \in Counts(k) : c' = [grp |-> k, n |-> n]
        \/ /\ "grp" \in DOMAIN c
           /\ \E p \in Pats(c.grp, c.n) : c' = [k |-> c.grp, n |-> c.n, p |-> p]

Emit == "k" \notin DOMAIN c \/ PrintT(ToJson(CaseOf(c.k, c.n, c.p)))

\* ---- self-checks of the definitions (run without the implementation) ---------------------
SelfCheck ==
    /\ Crc32cDef(<<0, 0>>, Digits) = <<58118, 37507>>                        \* 0xE3069283 (published check value)
    /\ Crc32cDef(<<0, 0>>, <<>>) = <<0, 0>>
    /\ Crc32cDef(Crc32cDef(<<0, 0>>, SubSeq(Digits, 1, 4)), SubSeq(Digits, 5, 9)) = Crc32cDef(<<0, 0>>, Digits)
    /\ Crc32cRaw(<<0, 0>>, Digits) = <<22755, 64032>>                        \* 0x58E3FA20: register without inversions
    /\ PrefixSum(<<Ones(4), FromNat(2, 4)>>, FromNat(1, 4)) = <<Zero(4), FromNat(2, 4)>>     \* wraps
    /\ PrefixSum(<<>>, FromNat(1, 4)) = <<>>
    /\ Gather(<<7, 8, 9>>, <<2, 0, 2>>) = <<9, 7, 9>>
    /\ BssEncode(<<<<1, 2, 3, 4>>, <<5, 6, 7, 8>>>>, 4) = <<1, 5, 2, 6, 3, 7, 4, 8>>
    /\ UnpackBools(<<5, 1>>, 9) = <<1, 0, 1, 0, 0, 0, 0, 0, 1>>
    /\ PackBools(<<1, 0, 1, 0, 0, 0, 0, 0, 1>>) = <<5, 1>>
    /\ PackBools(<<>>) = <<>>
    /\ FindRunLength(<<3, 3, 3, 4, 3>>) = 3 /\ FindRunLength(<<>>) = 0 /\ FindRunLength(<<3>>) = 1
    /\ CountNonNulls(<<0, 1, 1, 0, 2>>, 1) = 2
    /\ BuildNullBitmap(<<0, 1, 1, 0, 2, 1, 1, 1, 0>>, 1) = <<9, 1>>
    /\ MatchCopy(<<1, 2, 3>>, 7, 3) = <<1, 2, 3, 1, 2, 3, 1>>
    /\ MatchCopy(<<9, 1>>, 3, 1) = <<1, 1, 1>>
    /\ MatchCopy(<<1, 2, 3>>, 2, 3) = <<1, 2>>
    /\ MatchLength(<<1, 2, 3>>, <<1, 2, 4>>) = 2 /\ MatchLength(<<>>, <<>>) = 0
    /\ BitUnpack(<<165, 60>>, 4, 4) = <<5, 10, 12, 3>>
    /\ BitUnpack(<<165>>, 1, 8) = <<1, 0, 1, 0, 0, 1, 0, 1>>
    /\ BitUnpack(<<52, 18, 255, 127>>, 16, 2) = <<4660, 32767>>
    /\ I16Bytes(-1) = <<255, 255>> /\ I16Bytes(4660) = <<52, 18>>
    /\ Flat(Cut(<<1, 2, 3, 4, 5, 6, 7, 8>>, 4), 4) = <<1, 2, 3, 4, 5, 6, 7, 8>>
    /\ \A bs \in [1..3 -> {0, 1}] : UnpackBools(PackBools(bs), 3) = bs
SelfInit == c = [none |-> TRUE]
SelfNext == FALSE /\ c' = c
SelfInv == SelfCheck
=============================================================================
