CONSTANTS
 Pages <- PagesA
 RowOffsets = FALSE
 Ks = {1, 2, 3, 4, 12}
INIT Init
NEXT Next
INVARIANT Refines
CHECK_DEADLOCK FALSE
