CONSTANTS
  NThreads = 2
  K = 2
  Apis = {"kernel"}
  Rezero = TRUE
  PublishEarly = FALSE
SPECIFICATION Spec
INVARIANTS KernelUseSeesFinal
PROPERTIES EveryCallReturns
CHECK_DEADLOCK FALSE
