\* same model without the TableBest invariant: prints the modelled table and the best table for every capability set
CONSTANTS
  Features <- FeaturesFine
  Guard <- GuardFine
  Needs <- NeedsFine
INIT Init
NEXT Next
INVARIANTS TypeOK CapsSound NoUnsetCall Emit
CHECK_DEADLOCK FALSE
