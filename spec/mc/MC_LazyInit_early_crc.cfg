CONSTANTS
  NThreads = 2
  K = 2
  Apis = {"crc"}
  PublishEarly = TRUE
SPECIFICATION Spec
INVARIANTS UseSeesFinalEquivalent
PROPERTIES EveryCallReturns
CHECK_DEADLOCK FALSE
