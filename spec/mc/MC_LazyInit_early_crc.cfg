CONSTANTS
  NThreads = 2
  K = 2
  Apis = {"crc"}
  Rezero = TRUE
  PublishEarly = TRUE
SPECIFICATION Spec
INVARIANTS UseSeesFinalEquivalent
PROPERTIES EveryCallReturns
CHECK_DEADLOCK FALSE
