---------------------------- MODULE MC_StatsHist ----------------------------
(* C16 part (a): write histories for page statistics.  Same event vocabulary as            *)
(* MC_WriterGen (Create / WriteBatch / NewRowGroup / Close, replayed by h_file and judged  *)
(* as steps of Writer.tla by StatsTrace), but the choices are the ones statistics depend   *)
(* on: which value of the type's token list comes FIRST in a page (rotation offset s over  *)
(* Values.tla: NaN payloads, -0/+0, infinities, denormal, signed extremes, long and empty  *)
(* byte arrays), null pattern, where the rows are split into write_batch calls (pages are  *)
(* cut between batches), one or two row groups.                                            *)
EXTENDS Naturals, Sequences, SequencesExt, Values, TLC, Json
CONSTANTS SchemaIds, RowChoices, Offsets, PatIds, SplitIds, GroupChoices
VARIABLE st

Flatten(ss) == FoldLeft(LAMBDA acc, x : acc \o x, <<>>, ss)
Col(n, t, r, l) == [name |-> n, type |-> t, rep |-> r, tlen |-> l]
Catalogue == <<
  << Col(<<102>>, 4, 1, 0), Col(<<100>>, 5, 0, 0) >>,                                   \* 1: FLOAT?, DOUBLE
  << Col(<<100>>, 5, 1, 0), Col(<<102>>, 4, 0, 0) >>,                                   \* 2: DOUBLE?, FLOAT
  << Col(<<105>>, 1, 1, 0), Col(<<108>>, 2, 0, 0) >>,                                   \* 3: INT32?, INT64
  << Col(<<108>>, 2, 1, 0), Col(<<105>>, 1, 0, 0) >>,                                   \* 4: INT64?, INT32
  << Col(<<98>>, 0, 1, 0), Col(<<115>>, 6, 1, 0), Col(<<120>>, 7, 1, 2), Col(<<102>>, 4, 1, 0) >>   \* 5: BOOLEAN?, BYTE_ARRAY?, FLBA(2)?, FLOAT?
>>

\* null patterns of length n (1 = present): 1 all present, 2 alternating from present, 3 first row null,
\* 4 all null, 5 alternating from null, 6 last row null
Pat(id, n) == [i \in 1..n |-> CASE id = 1 -> 1 [] id = 2 -> i % 2 [] id = 3 -> (IF i = 1 THEN 0 ELSE 1)
                                [] id = 4 -> 0 [] id = 5 -> (i + 1) % 2 [] OTHER -> (IF i = n THEN 0 ELSE 1)]
\* batch boundaries (cumulative row counts): 1 one batch, 2 first row alone, 3 halves, 4 last row alone, 5 three batches
Split(id, n) == IF n = 1 THEN <<1>>
                ELSE CASE id = 1 -> <<n>> [] id = 2 -> <<1, n>> [] id = 3 -> <<(n + 1) \div 2, n>> [] id = 4 -> <<n - 1, n>>
                       [] OTHER -> IF n >= 3 THEN <<1, (n + 2) \div 2, n>> ELSE <<1, n>>

\* ops of one row group: column after column, batch after batch; group g starts its values at rotation s + 3*(g-1)
GroupOps(cols, n, s, pat, split, g) ==
    LET colOps(c) ==
            LET opt == cols[c].rep = 1
                defs == IF opt THEN Pat(pat, n) ELSE [i \in 1..n |-> 0]
                present == IF opt THEN defs ELSE [i \in 1..n |-> 1]
                sp == Split(split, n)
                dense(a, b) == LET before == Len(SelectSeq(SubSeq(present, 1, a - 1), LAMBDA x : x = 1))
                                   cnt == Len(SelectSeq(SubSeq(present, a, b), LAMBDA x : x = 1))
                               IN [j \in 1..cnt |-> TokenAt(cols[c].type, cols[c].tlen, s + 3 * (g - 1) + c + before + j - 1)]
            IN [k \in 1..Len(sp) |->
                   LET a == IF k = 1 THEN 1 ELSE sp[k - 1] + 1
                       b == sp[k]
                       d == SubSeq(defs, a, b)
                       allPresent == \A i \in 1..Len(d) : d[i] = 1
                   IN [op |-> "WriteBatch", c |-> c - 1, n |-> b - a + 1,
                       \* definition levels may be omitted for an OPTIONAL column when every row is present
                       withDefs |-> opt /\ (~allPresent \/ (k + c) % 2 = 0),
                       defs |-> IF opt THEN d ELSE [i \in 1..(b - a + 1) |-> 0], vals |-> dense(a, b)]]
    IN Flatten([c \in 1..Len(cols) |-> colOps(c)])

Hist(sid, n, s, pat, split, ng) ==
    LET cols == Catalogue[sid]
    IN <<[op |-> "Create", cols |-> cols]>>
       \o Flatten([g \in 1..ng |-> GroupOps(cols, n, s, pat, split, g) \o (IF g < ng THEN <<[op |-> "NewRowGroup"]>> ELSE <<>>)])
       \o <<[op |-> "Close"]>>

Init == st = [lvl |-> 0]
Next == \/ st.lvl = 0 /\ \E sid \in SchemaIds : \E n \in RowChoices : \E s \in Offsets : st' = [lvl |-> 1, sid |-> sid, n |-> n, s |-> s]
        \/ st.lvl = 1 /\ \E pat \in PatIds : \E split \in SplitIds : \E ng \in GroupChoices :
              st' = [lvl |-> 2, sid |-> st.sid, n |-> st.n, s |-> st.s, pat |-> pat, split |-> split, ng |-> ng]

Emit == st.lvl = 2 => PrintT(ToJson([ops |-> Hist(st.sid, st.n, st.s, st.pat, st.split, st.ng)]))
=============================================================================
