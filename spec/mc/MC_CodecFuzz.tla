---------------------------- MODULE MC_CodecFuzz ----------------------------
(* Case generator for the decompressor part of C08: inputs for carquet_*_decompress drawn    *)
(* from (a) mutations of valid blocks - the base input is a CodecDesc descriptor compressed   *)
(* by the codec itself, the mutation a small program over byte positions counted from the     *)
(* start, the end or a per-mille position (truncate, drop tail, set, xor, append) - and        *)
(* (b) raw seeded noise, optionally behind a plausible header; times declared output           *)
(* capacities around the true size {0, n-1, n, n+1} resp. {0, 1, 64, 4096}.                    *)
(* The envelope every call must stay in is Codec.ArbitraryViol (checked by MC_CodecTrace).     *)
EXTENDS CodecDesc, TLC, Json
CONSTANTS Bases,      \* set of descriptor names (see BaseDesc)
          Configs,    \* set of <<codec, level>>
          MutClass,   \* subset of {"T", "E", "S", "s", "X", "x", "A", "M", "C"}
          Seeds,      \* noise seeds
          NoiseLens
VARIABLE f

BaseDesc(b) ==
    CASE b = "empty"   -> <<>>
      [] b = "one"     -> <<DL(1, 1)>>
      [] b = "lit20"   -> <<DL(20, 2)>>
      [] b = "run"     -> <<DL(1, 3), DR(1, 100)>>
      [] b = "mixed"   -> <<DL(300, 4), DR(8, 300), DL(5, 5)>>
      [] b = "text"    -> <<DL(40, 6), DR(40, 200), DL(7, 7), DR(3, 30), DL(13, 8)>>
      [] b = "far"     -> <<DL(70000, 9), DR(65536, 100), DL(12, 10)>>

Vals  == {0, 1, 127, 128, 255}
Masks == {1, 2, 4, 8, 16, 32, 64, 128}
Num(k) == ToString(k)
Muts(cl) ==
    CASE cl = "T" -> {"T" \o Num(k) : k \in 0..16}
      [] cl = "E" -> {"E" \o Num(k) : k \in 1..12}
      [] cl = "S" -> {"S" \o Num(p) \o "." \o Num(v) : p \in 0..11, v \in Vals}
      [] cl = "s" -> {"s" \o Num(p) \o "." \o Num(v) : p \in 0..8, v \in Vals}
      [] cl = "X" -> {"X" \o Num(p) \o "." \o Num(m) : p \in 0..11, m \in Masks}
      [] cl = "x" -> {"x" \o Num(p) \o "." \o Num(m) : p \in 0..8, m \in Masks}
      [] cl = "A" -> {"A" \o Num(v) : v \in Vals}
      [] cl = "M" -> {"M" \o Num(p) \o "." \o Num(m) : p \in {100, 250, 500, 750, 900}, m \in Masks}
      \* combinations: drop the tail and append / corrupt the head and the tail
      [] cl = "C" -> {"E" \o Num(k) \o "+A" \o Num(v) : k \in {1, 4, 8}, v \in {0, 255}}
                \cup {"X" \o Num(p) \o ".128+x" \o Num(q) \o ".1" : p \in {0, 1, 4}, q \in {0, 4}}

Headers(codec) ==
    CASE codec = "snappy" -> {<<>>, <<200, 1>>, <<5>>}
      [] codec = "lz4"    -> {<<>>, <<240>>, <<31, 65, 1, 0>>}
      [] codec = "gzip"   -> {<<>>, <<31, 139, 8, 0, 0, 0, 0, 0, 0, 3>>}
      [] codec = "zstd"   -> {<<>>, <<40, 181, 47, 253>>, <<40, 181, 47, 253, 36, 8>>}

CfgQuick    == {<<"snappy", 0>>, <<"lz4", 0>>, <<"gzip", 6>>, <<"zstd", 3>>}
CfgThorough == {<<"snappy", 0>>, <<"lz4", 0>>, <<"gzip", 1>>, <<"gzip", 6>>, <<"gzip", 9>>,
                <<"zstd", 1>>, <<"zstd", 3>>, <<"zstd", 19>>}

Init == f = [k |-> "start"]
Next == \/ /\ f.k = "start"
           /\ \/ \E b \in Bases, cf \in Configs : f' = [k |-> "base", b |-> b, codec |-> cf[1], level |-> cf[2]]
              \/ \E cd \in {cf[1] : cf \in Configs}, n \in NoiseLens : f' = [k |-> "noise", codec |-> cd, n |-> n]
        \/ /\ f.k = "base"
           /\ LET n == DescLen(BaseDesc(f.b)) IN
              \E cl \in MutClass : \E m \in Muts(cl) : \E cap \in {0, n + 1, n} \cup (IF n > 0 THEN {n - 1} ELSE {}) :
                 f' = [k |-> "mut", desc |-> BaseDesc(f.b), n |-> n, codec |-> f.codec, level |-> f.level, m |-> m, cap |-> cap]
        \/ /\ f.k = "noise"
           /\ \E s \in Seeds, h \in Headers(f.codec), cap \in {0, 1, 64, 4096} :
                 f' = [k |-> "rnd", codec |-> f.codec, hdr |-> h, n |-> f.n, seed |-> s, cap |-> cap]

EmitInv == (f.k \in {"mut", "rnd"}) => PrintT(ToJson(f))
=============================================================================
