CONSTANTS
  MaxRows = 2
  MaxGroups = 2
  Caps = {0, 3, 100}
  AppContinues = TRUE
  CheckWrite = FALSE
  CheckFlush = TRUE
  CheckClose = TRUE
  LatchError = FALSE
  RemoveOnAbort = TRUE
INIT Init
NEXT Next
INVARIANTS TypeInv InvAck InvReported InvAbort InvStatus
CHECK_DEADLOCK FALSE
