------------------------------ MODULE MC_Stats ------------------------------
(* Model check of Stats.tla on small domains (C16, needs no implementation):               *)
(*   Sound    a group that holds a matching value and whose statistics are true bounds is  *)
(*            never pruned by `Might` - every type, every admissible order, six operators; *)
(*   Tight    `Might` is the tightest such rule (wherever it says "might" some data with    *)
(*            these statistics does match), which is what makes "all order types of        *)
(*            (probe, min, max)" a complete abstraction for the conformance part;          *)
(*   MinMaxOk MinMax(data) is a bound, is attained, and is exempt-free;                    *)
(*   FilterOk Filter = ascending capped list of the unpruned groups;                       *)
(*   OverlapOk the end-point characterisation of interval overlap used for the helpers.    *)
(* Two-level model so that TLC's workers share the (type, order, min, max) groups.         *)
EXTENDS Stats, TLC
CONSTANTS Types, SetData,     \* SetData: also check Sound on all collections of <= 2 values
          Alpha2             \* byte alphabet of the level-2 checks (MinMaxOk, OverlapOk, OrderOk)
VARIABLE st

\* ---- domains
F32 == << <<0,0,128,255>>, <<0,0,192,191>>, <<0,0,0,128>>, <<0,0,0,0>>, <<0,0,192,63>>, <<0,0,128,127>>, <<0,0,192,127>> >>
F64 == << <<0,0,0,0,0,0,240,255>>, <<0,0,0,0,0,0,248,191>>, <<0,0,0,0,0,0,0,128>>, <<0,0,0,0,0,0,0,0>>,
          <<0,0,0,0,0,0,248,63>>, <<0,0,0,0,0,0,240,127>>, <<1,0,0,0,0,0,248,255>> >>
I32 == << <<0,0,0,128>>, <<254,255,255,255>>, <<255,255,255,255>>, <<0,0,0,0>>, <<1,0,0,0>>, <<0,1,0,0>>, <<255,255,255,127>> >>
I64 == << <<0,0,0,0,0,0,0,128>>, <<255,255,255,255,255,255,255,255>>, <<0,0,0,0,0,0,0,0>>, <<1,0,0,0,0,0,0,0>>,
          <<0,0,0,0,1,0,0,0>>, <<255,255,255,255,255,255,255,127>> >>
I96 == << <<0,0,0,0,0,0,0,0,0,0,0,0>>, <<1,0,0,0,0,0,0,0,0,0,0,0>>, <<0,0,0,0,0,0,0,0,1,0,0,0>>,
          <<0,0,0,0,0,0,0,128,0,0,0,0>>, <<255,255,255,255,255,255,255,255,255,255,255,255>> >>
Alpha == {0, 127, 128, 255}
Str == {<<>>} \cup {<<a>> : a \in Alpha} \cup {<<a, b>> : a, b \in Alpha}
Str2 == {<<>>} \cup {<<a>> : a \in Alpha2} \cup {<<a, b>> : a, b \in Alpha2}
Dom(t) == CASE t = 0 -> {<<0>>, <<1>>} [] t = 1 -> Range(I32) [] t = 2 -> Range(I64) [] t = 3 -> Range(I96)
            [] t = 4 -> Range(F32) [] t = 5 -> Range(F64) [] t = 6 -> Str [] t = 7 -> {<<a, b>> : a, b \in Alpha}

Dom2(t) == IF t = 6 THEN Str2 ELSE IF t = 7 THEN {<<a, b>> : a, b \in Alpha2} ELSE Dom(t)

Stat(mn, mx) == [hasMin |-> TRUE, min |-> mn, hasMax |-> TRUE, max |-> mx]
Seqs2(D) == {<<a>> : a \in D} \cup {<<a, b>> : a, b \in D}
\* witnesses for tightness: one value; for floats one value and a second one (a NaN next to the bounds)
Wit(t) == IF IsFloat(t) THEN Seqs2(Dom(t)) ELSE {<<a>> : a \in Dom(t)}
\* reduced domain for the second interval of OverlapOk (the first ranges over Dom)
DomS(t) == IF t = 6 THEN {<<>>, <<0>>, <<0, 255>>, <<127, 255>>, <<128>>, <<255>>, <<255, 0>>}
           ELSE IF t = 7 THEN {<<0, 0>>, <<0, 255>>, <<127, 0>>, <<128, 255>>, <<255, 255>>} ELSE Dom(t)

Init == st = [lvl |-> 0]
Next == \/ /\ st.lvl = 0
           /\ \E t \in Types : \E o \in Orders(t) : \E mn \in Dom(t) : \E mx \in Dom(t) :
                 st' = [lvl |-> 1, t |-> t, o |-> o, mn |-> mn, mx |-> mx]
        \/ /\ st.lvl = 0
           /\ \E t \in Types : \E o \in Orders(t) : \E a \in Dom2(t) : \E b \in Dom2(t) :
                 st' = [lvl |-> 2, t |-> t, o |-> o, a |-> a, b |-> b]
        \/ /\ st.lvl = 0
           /\ \E n \in 0..4 : \E m \in [1..n -> BOOLEAN] : st' = [lvl |-> 3, m |-> m]

Sound1 == st.lvl = 1 =>
    \A op \in OPS : \A v \in Dom(st.t) : \A p \in Dom(st.t) : SoundV(st.t, st.o, op, Stat(st.mn, st.mx), v, p)
SoundSets == (st.lvl = 1 /\ SetData) =>
    \A op \in OPS : \A d \in Seqs2(DomS(st.t)) : \A p \in Dom(st.t) : Sound(st.t, st.o, op, Stat(st.mn, st.mx), d, p)
\* one-sided and absent statistics never prune
SoundAbsent == st.lvl = 1 =>
    \A op \in OPS : \A p \in Dom(st.t) :
        /\ Might(st.t, st.o, op, NoMinMax, p)
        /\ Might(st.t, st.o, op, [Stat(st.mn, st.mx) EXCEPT !.hasMin = FALSE], p)
        /\ Might(st.t, st.o, op, [Stat(st.mn, st.mx) EXCEPT !.hasMax = FALSE], p)
Tight == st.lvl = 1 =>
    \A op \in OPS : \A p \in Dom(st.t) :
        \* for statistics a writer can produce (min <= max)
        (Leq(st.t, st.o, st.mn, st.mx) /\ Might(st.t, st.o, op, Stat(st.mn, st.mx), p)) =>
            \E d \in Wit(st.t) : IsBound(st.t, st.o, Stat(st.mn, st.mx), d) /\ AnyHolds(st.t, st.o, op, d, p)

\* MinMax over all sequences <a, b, c> with c from a pair (keeps the level-2 fan-out small)
MinMaxOk == st.lvl = 2 =>
    \A c \in Dom(st.t) :
        LET d == <<st.a, st.b, c>>
            m == MinMax(st.t, st.o, d)
            kept == SelectSeq(d, LAMBDA v : ~Exempt(st.t, st.o, v))
        IN /\ IsBound(st.t, st.o, m, d)
           /\ (m.hasMin <=> kept # <<>>) /\ (m.hasMax <=> kept # <<>>)
           /\ (kept # <<>> => (\E i \in 1..Len(kept) : kept[i] = m.min) /\ (\E i \in 1..Len(kept) : kept[i] = m.max))
           \* order of presentation is irrelevant up to equivalence
           /\ LET m2 == MinMax(st.t, st.o, <<c, st.b, st.a>>)
              IN m.hasMin = m2.hasMin /\ (m.hasMin => Eqv(st.t, st.o, m.min, m2.min) /\ Eqv(st.t, st.o, m.max, m2.max))

\* interval overlap: end-point characterisation = existence of a common value (total preorders,
\* both intervals non-empty, all four combinations of absent sides)
OverlapOk == (st.lvl = 2 /\ st.o # "ieee") =>
    \A c \in DomS(st.t) : \A d \in DomS(st.t) : \A hs \in [1..4 -> BOOLEAN] :
        LET s == [hasMin |-> hs[1], min |-> st.a, hasMax |-> hs[2], max |-> st.b]
            q == [hasMin |-> hs[3], min |-> c, hasMax |-> hs[4], max |-> d]
            nonEmpty(r) == ~r.hasMin \/ ~r.hasMax \/ Leq(st.t, st.o, r.min, r.max)
        IN (nonEmpty(s) /\ nonEmpty(q)) =>
              (Overlaps(st.t, st.o, s, q) <=> \E v \in Dom(st.t) : InRange(st.t, st.o, s, v) /\ InRange(st.t, st.o, q, v))

\* the preorders are preorders; total ones are total
OrderOk == st.lvl = 2 =>
    /\ (~Exempt(st.t, st.o, st.a) => Leq(st.t, st.o, st.a, st.a))
    /\ (st.o # "ieee" => Leq(st.t, st.o, st.a, st.b) \/ Leq(st.t, st.o, st.b, st.a))
    /\ \A c \in Dom(st.t) : (Leq(st.t, st.o, st.a, st.b) /\ Leq(st.t, st.o, st.b, c)) => Leq(st.t, st.o, st.a, c)
    /\ (st.t \notin {3, 4, 5} => (Eqv(st.t, st.o, st.a, st.b) <=> st.a = st.b))

FilterOk == st.lvl = 3 =>
    \A cap \in 1..5 :
        LET f == Filter(st.m, cap)
            cnt == Cardinality({g \in 1..Len(st.m) : st.m[g]})
        IN /\ Len(f) = (IF cnt < cap THEN cnt ELSE cap)
           /\ \A i \in 1..Len(f) : f[i] + 1 \in 1..Len(st.m) /\ st.m[f[i] + 1]
           /\ \A i \in 1..(Len(f) - 1) : f[i] < f[i + 1]
           \* a prefix of the full list: no unpruned group before the last returned one is skipped
           /\ \A g \in 1..Len(st.m) : (st.m[g] /\ Len(f) > 0 /\ g - 1 < f[Len(f)]) => \E i \in 1..Len(f) : f[i] = g - 1

\* known vectors for the order definitions
Vectors ==
    /\ Lss(1, "std", <<0,0,0,128>>, <<255,255,255,255>>) /\ Lss(1, "std", <<255,255,255,255>>, <<0,0,0,0>>)
    /\ Lss(1, "std", <<1,0,0,0>>, <<0,1,0,0>>)                      \* 1 < 256 (memcmp would say otherwise)
    /\ Lss(6, "std", <<97>>, <<97,0>>) /\ Lss(6, "std", <<127>>, <<128>>) /\ Lss(6, "std", <<>>, <<0>>)
    /\ Eqv(4, "ieee", <<0,0,0,128>>, <<0,0,0,0>>) /\ Lss(4, "ieee", <<0,0,192,191>>, <<0,0,0,128>>)
    /\ Lss(4, "ieee", <<0,0,128,255>>, <<0,0,192,191>>) /\ Lss(4, "ieee", <<0,0,192,63>>, <<0,0,128,127>>)
    /\ Lss(4, "ieee", <<1,0,0,0>>, <<0,0,192,63>>) /\ Lss(4, "ieee", <<0,0,0,0>>, <<1,0,0,0>>)
    /\ FIsNaN(<<0,0,192,127>>) /\ FIsNaN(<<1,0,160,127>>) /\ FIsNaN(<<1,0,192,255>>) /\ ~FIsNaN(<<0,0,128,127>>)
    /\ FIsNaN(<<0,0,0,0,0,0,248,127>>) /\ FIsNaN(<<1,0,0,0,0,0,244,127>>) /\ ~FIsNaN(<<0,0,0,0,0,0,240,255>>)
    /\ ~Leq(4, "ieee", <<0,0,192,127>>, <<0,0,192,127>>) /\ Holds(4, "ieee", "NE", <<0,0,192,127>>, <<0,0,192,127>>)
    /\ Lss(4, "nanlast", <<0,0,128,127>>, <<0,0,192,127>>) /\ Lss(4, "nanfirst", <<0,0,192,127>>, <<0,0,128,255>>)
    /\ Lss(5, "ieee", <<0,0,0,0,0,0,248,191>>, <<0,0,0,0,0,0,248,63>>)
    /\ Lss(3, "leu", <<255,255,255,255,0,0,0,0,0,0,0,0>>, <<0,0,0,0,0,0,0,0,1,0,0,0>>)
    /\ Lss(3, "lex", <<0,0,0,0,0,0,0,0,1,0,0,0>>, <<255,255,255,255,0,0,0,0,0,0,0,0>>)
    /\ MinMax(1, "std", << <<1,0,0,0>>, <<0,0,0,128>>, <<0,1,0,0>> >>) = Stat(<<0,0,0,128>>, <<0,1,0,0>>)
    /\ MinMax(4, "ieee", << <<0,0,192,127>>, <<0,0,192,63>>, <<0,0,192,191>> >>) = Stat(<<0,0,192,191>>, <<0,0,192,63>>)
    /\ MinMax(4, "ieee", << <<0,0,192,127>> >>) = NoMinMax
    /\ Filter(<<TRUE, FALSE, TRUE, TRUE>>, 2) = <<0, 2>> /\ Filter(<<FALSE>>, 3) = <<>>
ASSUME Vectors
=============================================================================
