---------------------------- MODULE MC_ReaderGen ----------------------------
(* Call-history generator for the column reader (C02/C03): TLC explores ColumnReader.tla   *)
(* over an abstract chunk of N entries with the deterministic choice n = min(k, remaining) *)
(* (only to know when a history is exhausted) and prints every history of length <= MaxLen. *)
EXTENDS Naturals, Sequences, TLC, Json
CONSTANTS N, Ks, MaxLen
VARIABLES rem, hist
Init == rem = N /\ hist = <<>>
Min3(a, b) == IF a < b THEN a ELSE b
DoRead(k) == hist' = Append(hist, [op |-> "R", k |-> k]) /\ rem' = rem - Min3(k, rem)
DoSkip(k) == hist' = Append(hist, [op |-> "P", k |-> k]) /\ rem' = rem - Min3(k, rem)
DoQuery == hist' = Append(hist, [op |-> "Q", k |-> 0]) /\ UNCHANGED rem
DoRecreate == hist' = Append(hist, [op |-> "X", k |-> 0]) /\ rem' = N
Next == /\ Len(hist) < MaxLen
        /\ \/ \E k \in Ks : DoRead(k) \/ (k > 0 /\ DoSkip(k))
           \/ (hist # <<>> /\ hist[Len(hist)].op # "Q" /\ DoQuery)
           \/ (hist # <<>> /\ hist[Len(hist)].op \notin {"X"} /\ rem < N /\ DoRecreate)
Emit == (Len(hist) = MaxLen \/ rem = 0) => PrintT(ToJson([ops |-> hist]))
=============================================================================
