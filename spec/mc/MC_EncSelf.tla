----------------------------- MODULE MC_EncSelf -----------------------------
(* Self-check of the encoding format modules (Plain, Bss, DeltaBP, DeltaLen, DeltaStr,      *)
(* DictEnc, 32-bit Hybrid): Parse(Ser(x)) = x over boundary values and every generator       *)
(* option, plus the worked examples of Encodings.md. Runs without the implementation.        *)
EXTENDS Naturals, Sequences, SequencesExt, FiniteSets, TLC, Hybrid
P == INSTANCE Plain
B == INSTANCE Bss
D == INSTANCE DeltaBP
DL == INSTANCE DeltaLen
DS == INSTANCE DeltaStr
DE == INSTANCE DictEnc
CONSTANT Quick
VARIABLE t

\* ---- value patterns for DELTA (limb words) ----
Lo(L) == Zero(L)
MinW(L) == [i \in 1..L |-> IF i = L THEN 128 ELSE 0]
MaxSW(L) == [i \in 1..L |-> IF i = L THEN 127 ELSE 255]
\* pattern k, index i -> word
Pat(k, i, L) ==
    CASE k = 0 -> FromNat(7, L)                                   \* constant: width 0
      [] k = 1 -> FromNat(i, L)                                   \* arithmetic: width 0
      [] k = 2 -> FromNat((i * i) % 5, L)                         \* small deltas
      [] k = 3 -> IF i % 2 = 0 THEN MinW(L) ELSE MaxSW(L)         \* extremes: wrap-around deltas
      [] k = 4 -> IF i % 3 = 0 THEN Ones(L) ELSE FromNat(i * 1000003, L)
      [] k = 5 -> Shl(FromNat(i % 4, L), 8 * L - 3)               \* wide deltas (top bits)
      [] k = 6 -> IF i % 2 = 0 THEN Zero(L) ELSE Shl(FromNat(1, L), 8 * L - 2)   \* deltas of +-2^(bits-2)
      [] OTHER -> Mul(FromNat(i, L), FromNat(2654435, L))
Seqn(k, n, L) == [i \in 1..n |-> Pat(k, i, L)]

Lens == IF Quick THEN {0, 1, 2, 33, 130} ELSE {0, 1, 2, 3, 32, 33, 34, 128, 129, 130, 161, 257}
OptSet == IF Quick THEN {[bs |-> 128, m |-> 4, widen |-> 0, unused |-> 0], [bs |-> 256, m |-> 2, widen |-> 1, unused |-> 64]} ELSE
          {[bs |-> 128, m |-> 4, widen |-> 0, unused |-> 0],
           [bs |-> 128, m |-> 4, widen |-> 3, unused |-> 77],
           [bs |-> 128, m |-> 1, widen |-> 0, unused |-> 255],
           [bs |-> 256, m |-> 2, widen |-> 1, unused |-> 64],
           [bs |-> 256, m |-> 8, widen |-> 0, unused |-> 9]}

StrPat(k, i) == CASE k = 0 -> <<>>
                  [] k = 1 -> [j \in 1..(i % 4) |-> 97 + j]
                  [] k = 2 -> [j \in 1..(3 + (i % 3)) |-> IF j <= 3 THEN 120 ELSE 48 + (i % 7)]
                  [] k = 3 -> [j \in 1..((i * 37) % 70) |-> (i + j) % 256]
                  [] OTHER -> IF i % 2 = 0 THEN <<0, 255>> ELSE <<0, 255, 0, 1>>
Strs(k, n) == [i \in 1..n |-> StrPat(k, i)]

Init == t = [lvl |-> 0]
Next == \/ t.lvl = 0 /\ t' \in [lvl : {1}, kind : {"delta"}, L : {4, 8}, k : 0..7]
                             \cup [lvl : {1}, kind : {"str"}, k : 0..4]
                             \cup [lvl : {1}, kind : {"bss"}, K : 1..6]
                             \cup [lvl : {1}, kind : {"plain", "hyb32", "dict"}]
        \/ t.lvl = 1 /\ t.kind = "delta" /\ t' \in [lvl : {2}, kind : {"delta"}, L : {t.L}, k : {t.k}, n : Lens, o : OptSet]
        \/ t.lvl = 1 /\ t.kind = "str" /\ t' \in [lvl : {2}, kind : {"str"}, k : {t.k}, n : {0, 1, 2, 5, 33, 130}, o : OptSet, pm : {"max", "zero", "short"}]
        \/ t.lvl = 1 /\ t.kind = "bss" /\ t' \in [lvl : {2}, kind : {"bss"}, K : {t.K}, n : {0, 1, 2, 7, 33}]
        \/ t.lvl = 1 /\ t.kind = "plain" /\ t' \in [lvl : {2}, kind : {"plain"}, ty : 0..7, n : {0, 1, 7, 8, 9, 17}]
        \/ t.lvl = 1 /\ t.kind = "hyb32" /\ t' \in [lvl : {2}, kind : {"hyb32"}, bw : {1, 9, 31, 32}, a : 0..2, b : 0..2]

DeltaOk ==
    LET v == Seqn(t.k, t.n, t.L)
        bs == <<9>> \o D!Ser(v, t.L, t.o) \o <<5, 5>>
        r == D!Parse(bs, 2, t.L)
    IN /\ r.ok /\ r.vals = v /\ r.p = Len(bs) - 1 /\ r.total = t.n
       /\ r.bs = t.o.bs /\ r.m = t.o.m
       \* any strict prefix that cuts a stored miniblock or the header is rejected
       /\ (t.n >= 2 => ~D!Parse(SubSeq(bs, 1, Len(bs) - 3), 2, t.L).ok)

StrOk ==
    LET v == Strs(t.k, t.n)
        b1 == <<1, 2>> \o DL!Ser(v, t.o) \o <<3>>
        r1 == DL!Parse(b1, 3)
        b2 == <<1, 2>> \o DS!Ser(v, t.o, t.pm) \o <<3>>
        r2 == DS!Parse(b2, 3)
    IN /\ r1.ok /\ r1.vals = v /\ r1.p = Len(b1)
       /\ r2.ok /\ r2.vals = v /\ r2.p = Len(b2)

BssOk ==
    LET v == [i \in 1..t.n |-> [j \in 1..t.K |-> (i * 16 + j) % 256]]
        bs == <<0>> \o B!Ser(v, t.K)
        r == B!Parse(bs, 2, t.K, t.n)
    IN r.ok /\ r.vals = v /\ r.p = Len(bs) + 1 /\ Len(bs) = 1 + t.n * t.K
       /\ ~B!Parse(bs, 2, t.K, t.n + 1).ok

PlainVal(ty, i) == IF ty = 0 THEN (i * i) % 2
                   ELSE IF ty = 6 THEN [j \in 1..((i * 5) % 4) |-> (i + j * 50) % 256]
                   ELSE [j \in 1..P!Width(ty, 3) |-> (i * 31 + j) % 256]
PlainOk ==
    LET v == [i \in 1..t.n |-> PlainVal(t.ty, i)]
        bs == <<7, 7>> \o P!Ser(t.ty, 3, v) \o <<1>>
        r == P!Parse(t.ty, 3, bs, 3, t.n)
    IN r.ok /\ r.vals = v /\ r.p = Len(bs)
       /\ ~P!Parse(t.ty, 3, SubSeq(bs, 1, Len(bs) - 1), 3, t.n + 8).ok

W32(bw, a) == IF a = 0 THEN Zero(4) ELSE IF a = 1 THEN FromNat(1, 4) ELSE MaxW(bw, 4)
Hyb32Ok ==
    LET bw == t.bw
        runs == << [k |-> "rle", n |-> 9, v |-> W32(bw, t.a)],
                   [k |-> "bp", vals |-> [i \in 1..16 |-> IF i % 3 = 0 THEN W32(bw, t.a) ELSE W32(bw, t.b)]],
                   [k |-> "rle", n |-> 0, v |-> W32(bw, t.b)],
                   [k |-> "rle", n |-> 2, v |-> W32(bw, t.b)] >>
        want == Flatten([i \in 1..4 |-> IF runs[i].k = "rle" THEN [j \in 1..runs[i].n |-> runs[i].v] ELSE runs[i].vals])
        bs == SerW(runs, bw)
        r == ParseW(bs, 1, Len(bs), bw, Len(want))
        \* on widths <= 31 the word variant and the natural variant agree byte for byte
        natruns == [i \in 1..4 |-> IF runs[i].k = "rle" THEN [k |-> "rle", n |-> runs[i].n, v |-> ToNat(runs[i].v)]
                                   ELSE [k |-> "bp", vals |-> [j \in 1..16 |-> ToNat(runs[i].vals[j])]]]
    IN /\ r.ok /\ r.vals = want /\ r.p = Len(bs) + 1
       /\ (bw <= 30 => Ser(natruns, bw) = bs)
       /\ (bw <= 30 => ParseRuns(bs, 1, Len(bs), bw).runs = natruns)

Ok == t.lvl # 2 \/ CASE t.kind = "delta" -> DeltaOk [] t.kind = "str" -> StrOk [] t.kind = "bss" -> BssOk
                      [] t.kind = "plain" -> PlainOk [] t.kind = "hyb32" -> Hyb32Ok [] OTHER -> TRUE

\* ---- worked examples ----
I32(x) == FromNat(x, 4)
Vectors ==
    \* Encodings.md DELTA example 1: 1,2,3,4,5 -> header 8,1,5,1 ; block: min delta 1, width 0
    /\ D!Ser(<<I32(1), I32(2), I32(3), I32(4), I32(5)>>, 4, [bs |-> 8, m |-> 1, widen |-> 0, unused |-> 0])
          = <<8, 1, 5, 2, 2, 0>>
    \* example 2: 7,5,3,1,2,3,4,5 -> header 8,1,8,7 ; min delta -2, width 2, 0,0,0,3,3,3,3 on 2 bits
    /\ D!Ser(<<I32(7), I32(5), I32(3), I32(1), I32(2), I32(3), I32(4), I32(5)>>, 4, [bs |-> 8, m |-> 1, widen |-> 0, unused |-> 0])
          = <<8, 1, 8, 14, 3, 2, 192, 63>>
    \* standard geometry, one value: header only
    /\ D!Ser(<<Ones(8)>>, 8, D!StdOpts) = <<128, 1, 4, 1, 1>>
    /\ D!Ser(<<>>, 8, D!StdOpts) = <<128, 1, 4, 0, 0>>
    \* INT64 MIN then MAX: delta = -1 (wraps), min delta -1 -> zigzag 1, width 0
    /\ D!Ser(<<MinW(8), MaxSW(8)>>, 8, D!StdOpts) = <<128, 1, 4, 2>> \o <<255,255,255,255,255,255,255,255,255,1>> \o <<1, 0, 0, 0, 0>>
    \* deltas +2^32, -2^32: adjusted deltas need 34 bits, bit-packed: 32 values * 34 bits = 136 bytes
    /\ Len(D!Ser(<<Zero(8), <<0,0,0,0,1,0,0,0>>, Zero(8)>>, 8, D!StdOpts))
          = 5 + 5 + 4 + 136
    /\ D!Parse(<<128, 1, 4, 2, 0, 0, 0, 9, 8, 7>>, 1, 4).vals = <<Zero(4), Zero(4)>>      \* arbitrary widths of unused miniblocks
    /\ ~D!Parse(<<100, 4, 2, 0, 0, 0, 0, 0, 0>>, 1, 4).ok                                  \* block size not a multiple of 128
    \* PLAIN
    /\ P!Ser(0, 0, <<1, 0, 1, 1, 0, 0, 0, 0, 1>>) = <<13, 1>>
    /\ P!Ser(6, 0, <<<<97, 98>>, <<>>>>) = <<2, 0, 0, 0, 97, 98, 0, 0, 0, 0>>
    \* BYTE_STREAM_SPLIT example of Encodings.md: AA BB CC DD / 00 11 22 33 / A3 B4 C5 D6 -> AA 00 A3 BB 11 B4 CC 22 C5 DD 33 D6
    /\ B!Ser(<<<<170, 187, 204, 221>>, <<0, 17, 34, 51>>, <<163, 180, 197, 214>>>>, 4)
          = <<170, 0, 163, 187, 17, 180, 204, 34, 197, 221, 51, 214>>
    \* DELTA_BYTE_ARRAY example: "axis", "axle", "babble", "babyhood" -> prefixes 0,2,0,3 ; suffixes axis, le, babble, yhood
    /\ DS!PrefixLens(<<<<97,120,105,115>>, <<97,120,108,101>>, <<98,97,98,98,108,101>>, <<98,97,98,121,104,111,111,100>>>>, "max") = <<0, 2, 0, 3>>
    \* dictionary
    /\ DE!FirstOcc(<<5, 3, 5, 7, 3>>) = <<5, 3, 7>>
    /\ DE!Decode(1, 0, <<1,0,0,0, 2,0,0,0>>, 2, <<1, 3, 2>>, 8).vals[2] = <<2,0,0,0>>
    /\ ~DE!Decode(1, 0, <<1,0,0,0, 2,0,0,0>>, 2, <<2, 3, 2, 0>>, 8).ok                    \* index 2 out of range
    \* the bytewise packers equal the bit-by-bit reference definitions
    /\ \A bw \in {0, 1, 2, 3, 5, 7, 8, 9, 13, 16, 17, 31, 32, 33, 47, 56, 63, 64} : \A n \in {0, 1, 7, 8, 11} :
          LET ws == [i \in 1..n |-> MaskW(IF i % 3 = 0 THEN Ones(8) ELSE Mul(FromNat(i + 3, 8), <<21, 124, 74, 127, 185, 121, 55, 158>>), bw)]
              bs == PackW(ws, bw)
          IN /\ bs = PackWRef(ws, bw)
             /\ UnpackW(<<9, 9>> \o bs, 3, bw, n, 8) = ws
             /\ UnpackWRef(<<9, 9>> \o bs, 3, bw, n, 8) = ws
    /\ WidthW(<<0,0,0,0,1,0,0,0>>) = 33 /\ WidthW(Zero(8)) = 0 /\ WidthW(Ones(4)) = 32
    /\ MaxW(9, 4) = <<255, 1, 0, 0>> /\ MaxW(32, 4) = Ones(4) /\ MaxW(0, 4) = Zero(4)
ASSUME VectorsHold == Vectors
=============================================================================
