---------------------------- MODULE MC_LibSelf ----------------------------
(* Self-check of the library layer against published vectors and algebraic laws.          *)
(* Runs without the implementation: an error here is a spec error, never an alarm.        *)
EXTENDS Naturals, Sequences, SequencesExt, TLC, W, Crc32, XxHash64
VARIABLE x
Init == x = 0
Next == x < 3 /\ x' = x + 1

Str(s) == s   \* documentation only
Ascii123456789 == <<49, 50, 51, 52, 53, 54, 55, 56, 57>>
Spam == <<78,111,98,111,100,121,32,105,110,115,112,101,99,116,115,32,116,104,101,32,115,112,97,109,109,105,115,104,32,114,101,112,101,116,105,116,105,111,110>>
Hex64(w) == w   \* words are compared as limb tuples

WOk ==
    /\ ToNat(FromNat(123456789, 8)) = 123456789
    /\ \A a \in {0, 1, 255, 256, 65535, 30000} : \A b \in {0, 1, 2, 255, 257, 32767} :
          /\ ToNat(Add(FromNat(a, 8), FromNat(b, 8))) = a + b
          /\ ToNat(Mul(FromNat(a, 8), FromNat(b, 8))) = a * b
          /\ XorW(FromNat(a, 4), FromNat(b, 4)) = FromNat(a ^^ b, 4)
    /\ Mul(Ones(8), Ones(8)) = FromNat(1, 8)                  \* (-1)*(-1) = 1
    /\ Add(Ones(8), FromNat(1, 8)) = Zero(8)
    /\ Sub(Zero(8), FromNat(1, 8)) = Ones(8)
    /\ \A k \in 1..30 : ToNat(Shl(FromNat(1, 8), k)) = 2^k
    /\ \A k \in 1..30 : ToNat(Shr(FromNat(2^30, 8), k)) = 2^(30 - k)
    /\ Shl(FromNat(1, 8), 63) = <<0,0,0,0,0,0,0,128>>
    /\ Shr(<<0,0,0,0,0,0,0,128>>, 63) = FromNat(1, 8)
    /\ Rotl(<<0,0,0,0,0,0,0,128>>, 1) = FromNat(1, 8)
    /\ Rotl(<<1,2,3,4,5,6,7,8>>, 8) = <<8,1,2,3,4,5,6,7>>
    /\ Rotl(<<1,2,3,4,5,6,7,8>>, 4) = <<16 + 0, 32, 48, 64, 80, 96, 112, 128>>
    /\ Less(FromNat(5, 8), Ones(8)) /\ ~Less(Ones(8), FromNat(5, 8)) /\ SLess(Ones(8), FromNat(5, 8))

CrcOk ==
    /\ Crc32(Ascii123456789) = <<52212, 14630>>         \* CBF43926
    /\ Crc32c(Ascii123456789) = <<58118, 37507>>        \* E3069283
    /\ Crc32(<<>>) = <<0, 0>>
    /\ AsLE(<<52212, 14630>>) = <<38, 57, 244, 203>>
    /\ OfLE(AsLE(<<52212, 14630>>)) = <<52212, 14630>>
    /\ \A a \in {<<>>, <<0>>, <<255, 1>>, <<49, 50, 51>>} : \A b \in {<<>>, <<0>>, <<7, 255, 128>>} :
            Crc32(a \o b) = Crc32Update(Crc32(a), b)

\* 0xEF46DB3751D8E999, 0xD24EC4F1A98C6E5B ("a"), 0x44BC2CF5AD770999 ("abc"),
\* 0xFBCEA83C8A378BF1 ("Nobody inspects the spammish repetition")
XxhOk ==
    /\ XXH64(<<>>, Zero(8)) = <<153, 233, 216, 81, 55, 219, 70, 239>>
    /\ XXH64(<<97>>, Zero(8)) = <<91, 110, 140, 169, 241, 196, 78, 210>>
    /\ XXH64(<<97, 98, 99>>, Zero(8)) = <<153, 9, 119, 173, 245, 44, 188, 68>>
    /\ XXH64(Spam, Zero(8)) = <<241, 139, 55, 138, 60, 168, 206, 251>>

Ok == WOk /\ CrcOk /\ XxhOk
=============================================================================
