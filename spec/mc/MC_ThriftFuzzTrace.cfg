INIT Init
NEXT Next
INVARIANT Report
CHECK_DEADLOCK FALSE
