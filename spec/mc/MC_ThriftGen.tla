---------------------------- MODULE MC_ThriftGen ----------------------------
(* Case generator for C13 (Thrift metadata). Every state of level 2 is one abstract case   *)
(* (a FileMetaData or PageHeader value of ParquetThrift, or a generic Thrift tree) plus a   *)
(* list of *variants*: byte strings produced by the spec's encoder TSer under an            *)
(* alternative style and with unknown fields inserted. The invariant Emit prints them as    *)
(* JSON and self-checks every variant on the spec: Abs(TParse(bytes)) = case, consumed =    *)
(* produced (field `self`; a FALSE is an oracle error, never an implementation verdict).    *)
(*                                                                                         *)
(* Families (constant Family = the set of family names to emit in this run):               *)
(*   "file"    FileMetaData over the parameter axes ns (schema size) x nm (name style) x    *)
(*             iv (integer pattern) x opt (optional fields) x ll (list lengths) x st        *)
(*             (statistics) x nrg (row groups): every value of one axis (quick) / of every  *)
(*             pair of axes (thorough) around a base point                                  *)
(*   "rand"    NRand pseudo-random points of the full product (seeded, reproducible)        *)
(*   "logical" one schema holding every logical type with every parameter combination      *)
(*   "page"    PageHeader: kind x crc x integer pattern x statistics x bool                 *)
(*   "unkfile" / "unkpage"  unknown fields: struct kind x position x payload of every wire  *)
(*             type x field id, on a base value that contains every struct kind             *)
(*   "deep"    unknown fields nested to depth d (descriptor: pre ++ rep^n ++ post)          *)
(*   "generic" generic Thrift trees for the encoder/decoder primitives: field-id deltas     *)
(*             1,14,15,16,17,100.. and ids up to 32767, list sizes around 15, 127/128,      *)
(*             integer extremes, maps, sets, nested containers; all 64 styles               *)
EXTENDS Naturals, Sequences, SequencesExt, FiniteSets, TLC, Json, ParquetThrift
CONSTANTS Family, Tier, Seed, NRand
VARIABLE c

Quick == Tier = "quick"
\* ------------------------------------------------------------------ value pools
N8(n) == FromNat(n, 8)
M8(n) == Neg(FromNat(n, 8))
MaxI64 == <<255, 255, 255, 255, 255, 255, 255, 127>>
MinI64 == <<0, 0, 0, 0, 0, 0, 0, 128>>
MaxI32 == <<255, 255, 255, 127, 0, 0, 0, 0>>
MinI32 == <<0, 0, 0, 128, 255, 255, 255, 255>>
MaxI16 == N8(32767)
MinI16 == M8(32768)
I64Pool == << Zero(8), N8(1), Ones(8), MaxI64, MinI64, <<0, 0, 0, 128, 0, 0, 0, 0>>,
              <<255, 255, 255, 127, 255, 255, 255, 255>>, N8(63), N8(64), M8(64), M8(65),
              <<255, 255, 255, 255, 0, 0, 0, 0>>, <<0, 0, 0, 0, 1, 0, 0, 0>>, N8(1000000),
              <<1, 2, 3, 4, 5, 6, 7, 8>> >>
I32Pool == << Zero(8), N8(1), Ones(8), MaxI32, MinI32, N8(63), N8(64), M8(64), M8(65), N8(8191),
              N8(8192), M8(8193), N8(1048575), N8(1048576), N8(134217728), M8(134217729),
              <<1, 0, 0, 128, 255, 255, 255, 255>> >>
PosI32 == << N8(1), N8(16), N8(127), N8(128), MaxI32 >>
I16Pool == << Zero(8), N8(1), Ones(8), MaxI16, MinI16, N8(63), N8(64), M8(64), M8(65), N8(8191), N8(8192) >>
Pick(pool, k) == pool[(k % Len(pool)) + 1]

NameOf(nm, i) ==
    CASE nm = 0 -> <<>>
      [] nm = 1 -> <<99, 48 + ((i \div 10) % 10), 48 + (i % 10)>>
      [] nm = 2 -> [j \in 1..(126 + (i % 5)) |-> 97 + ((i + j) % 26)]
      [] nm = 3 -> <<195, 169, 230, 151, 165, 240, 159, 146, 150, 48 + (i % 10)>>
      [] nm = 4 -> <<255, 254, 128, 1 + (i % 255), 127, 129, 192>>
      [] OTHER  -> IF i = 1 THEN [j \in 1..16500 |-> 32 + ((j * 7) % 95)] ELSE <<97 + (i % 26)>>

BinNE == << <<0>>, <<0, 0, 0>>, <<255, 255, 255, 255>>, <<1, 0, 2, 0>>, Rep(255, 300), <<128>>,
            <<42, 0, 0, 0>>, <<0, 255, 0, 255, 0>>, <<255>>, <<0, 0, 0, 0, 0, 0, 0, 128>> >>

LtE(k) == [k |-> k]
LtDec(s, p) == [k |-> "DECIMAL", scale |-> s, precision |-> p]
LtT(k, utc, u) == [k |-> k, utc |-> utc, unit |-> u]
LtInt(bw, sg) == [k |-> "INTEGER", bitWidth |-> bw, signed |-> sg]
Units == <<"MILLIS", "MICROS", "NANOS">>
LtPool == << LtE("STRING"), LtE("MAP"), LtE("LIST"), LtE("ENUM"),
             LtDec(N8(0), N8(1)), LtDec(N8(2), N8(38)), LtDec(Ones(8), MaxI32), LtDec(MinI32, M8(65)),
             LtE("DATE") >>
          \o [i \in 1..6 |-> LtT("TIME", i % 2 = 0, Units[(i % 3) + 1])]
          \o [i \in 1..6 |-> LtT("TIMESTAMP", i % 2 = 1, Units[(i % 3) + 1])]
          \o << LtInt(8, TRUE), LtInt(16, FALSE), LtInt(32, TRUE), LtInt(64, FALSE), LtInt(0, FALSE),
                LtInt(255, TRUE), LtInt(128, TRUE), LtInt(127, FALSE),
                LtE("UNKNOWN"), LtE("JSON"), LtE("BSON"), LtE("UUID"), LtE("FLOAT16") >>

OptOn(opt, k) == CASE opt = 0 -> FALSE [] opt = 1 -> TRUE [] opt = 2 -> k % 2 = 0
                   [] opt = 3 -> k % 2 = 1 [] OTHER -> k % 3 = 0
O(on, v) == IF on THEN <<v>> ELSE <<>>

NoStatsFields == [max |-> <<>>, min |-> <<>>, nullCount |-> <<>>, distinctCount |-> <<>>,
                  maxValue |-> <<>>, minValue |-> <<>>, maxExact |-> <<>>, minExact |-> <<>>]
StatsOf(st, iv) ==
    CASE st = 0 -> <<>>
      [] st = 1 -> <<NoStatsFields>>
      [] st = 2 -> <<[NoStatsFields EXCEPT !.maxValue = Pick(BinNE, iv), !.minValue = Pick(BinNE, iv + 1),
                                           !.nullCount = <<Pick(I64Pool, iv)>>]>>
      [] st = 3 -> <<[NoStatsFields EXCEPT !.max = Pick(BinNE, iv + 2), !.min = Pick(BinNE, iv + 3),
                                           !.distinctCount = <<Pick(I64Pool, iv + 1)>>]>>
      [] st = 4 -> <<[max |-> Pick(BinNE, iv), min |-> Pick(BinNE, iv + 1), nullCount |-> <<Pick(I64Pool, iv + 2)>>,
                      distinctCount |-> <<Pick(I64Pool, iv + 3)>>, maxValue |-> Pick(BinNE, iv + 4),
                      minValue |-> Pick(BinNE, iv + 5), maxExact |-> <<TRUE>>, minExact |-> <<FALSE>>]>>
      [] st = 5 -> <<[max |-> <<0>>, min |-> <<0, 0, 0>>, nullCount |-> <<MinI64>>, distinctCount |-> <<MaxI64>>,
                      maxValue |-> Rep(255, 300), minValue |-> <<1, 0, 2, 0>>, maxExact |-> <<FALSE>>,
                      minExact |-> <<TRUE>>]>>
      [] OTHER  -> <<[NoStatsFields EXCEPT !.max = Pick(BinNE, iv), !.minValue = Pick(BinNE, iv + 7),
                                           !.minExact = <<TRUE>>]>>

KvList(n, nm, salt) == [i \in 1..n |-> [key |-> NameOf(nm, i + salt),
                                         value |-> IF i % 3 = 0 THEN <<>>
                                                   ELSE IF i % 3 = 1 THEN <<<<>>>>
                                                   ELSE <<NameOf((nm + 1) % 5, i)>>]]
EncVals == <<0, 2, 3, 4, 5, 6, 7, 8, 9>>

\* ------------------------------------------------------------------ FileMetaData from a parameter point
MkSE(i, p) ==
    LET root == i = 1
        on(k) == OptOn(p.opt, i + k)
    IN [type |-> O(~root, N8(i % 8)),
        typeLength |-> IF ~root /\ i % 8 = 7 THEN Pick(PosI32, p.iv + i) ELSE Zero(8),
        rep |-> O(~root, N8(i % 3)),
        name |-> NameOf(p.nm, i),
        numChildren |-> IF root THEN N8(p.ns - 1) ELSE Zero(8),
        conv |-> O(on(1), N8((i * 5) % 22)),
        scale |-> IF on(2) THEN Pick(I32Pool, p.iv + i) ELSE Zero(8),
        precision |-> IF on(2) THEN Pick(I32Pool, p.iv + i + 3) ELSE Zero(8),
        fieldId |-> O(on(3), Pick(I32Pool, p.iv + i + 5)),
        logical |-> O(on(4) /\ ~root, Pick(LtPool, (p.iv * 5) + i))]

MkCM(j, n, p) ==
    LET on(k) == OptOn(p.opt, j + k)
        iv == p.iv + (3 * j)
    IN [type |-> N8(j % 8),
        encodings |-> [e \in 1..n |-> N8(Pick(EncVals, e + j))],
        path |-> [e \in 1..n |-> NameOf(p.nm, e + j)],
        codec |-> N8((j * 3) % 8),
        numValues |-> Pick(I64Pool, iv), totalUncompressed |-> Pick(I64Pool, iv + 1),
        totalCompressed |-> Pick(I64Pool, iv + 2),
        kv |-> KvList(IF on(5) THEN n ELSE 0, p.nm, j),
        dataPageOffset |-> Pick(I64Pool, iv + 3),
        indexPageOffset |-> O(on(1), Pick(I64Pool, iv + 4)),
        dictPageOffset |-> O(on(2), Pick(I64Pool, iv + 5)),
        stats |-> StatsOf(IF j = 1 THEN p.st ELSE (p.st + j) % 7, iv),
        encodingStats |-> [e \in 1..(IF on(6) THEN n ELSE 0) |->
                              [pageType |-> N8(e % 4), encoding |-> N8(Pick(EncVals, e)), count |-> Pick(I32Pool, iv + e)]],
        bloomOffset |-> O(on(3), Pick(I64Pool, iv + 6)),
        bloomLength |-> O(on(4), Pick(I32Pool, iv + 7))]

MkCC(j, n, p) ==
    LET on(k) == OptOn(p.opt, j + k + 1)
        iv == p.iv + (5 * j)
    IN [filePath |-> O(on(1), NameOf(p.nm, j + 40)),
        fileOffset |-> Pick(I64Pool, iv + 8),
        meta |-> O(on(2) \/ j = 1, MkCM(j, n, p)),
        offsetIndexOffset |-> O(on(3), Pick(I64Pool, iv + 9)),
        offsetIndexLength |-> O(on(4), Pick(I32Pool, iv + 1)),
        columnIndexOffset |-> O(on(5), Pick(I64Pool, iv + 10)),
        columnIndexLength |-> O(on(6), Pick(I32Pool, iv + 2))]

MkRG(g, p) ==
    LET ncol == IF g = 1 THEN p.ll ELSE 1
        on(k) == OptOn(p.opt, g + k)
    IN [columns |-> [j \in 1..ncol |-> MkCC(j + g - 1, IF j = 1 /\ g = 1 THEN p.ll ELSE (j + g) % 3, p)],
        totalByteSize |-> Pick(I64Pool, p.iv + g + 1), numRows |-> Pick(I64Pool, p.iv + g + 2),
        fileOffset |-> O(on(1), Pick(I64Pool, p.iv + g + 3)),
        totalCompressed |-> O(on(2), Pick(I64Pool, p.iv + g + 4)),
        ordinal |-> O(on(3), Pick(I16Pool, p.iv + g))]

MkFile(p) ==
    [version |-> Pick(I32Pool, p.iv + 1),
     schema |-> [i \in 1..p.ns |-> MkSE(i, p)],
     numRows |-> Pick(I64Pool, p.iv + 3),
     rowGroups |-> [g \in 1..p.nrg |-> MkRG(g, p)],
     kv |-> KvList(p.ll, p.nm, 0),
     createdBy |-> O(OptOn(p.opt, 1), NameOf((p.nm + 3) % 5, 7))]

Dom == [ns |-> <<0, 1, 14, 15, 16, 100>>, nm |-> <<0, 1, 2, 3, 4, 5>>, iv |-> [i \in 1..17 |-> i - 1],
        opt |-> <<0, 1, 2, 3, 4>>, ll |-> <<0, 1, 14, 15, 16>>, st |-> <<0, 1, 2, 3, 4, 5, 6>>,
        nrg |-> <<0, 1, 2, 15>>]
Axes == <<"ns", "nm", "iv", "opt", "ll", "st", "nrg">>
BaseP == [ns |-> 3, nm |-> 1, iv |-> 0, opt |-> 1, ll |-> 2, st |-> 4, nrg |-> 1]
PointOf(a1, v1, a2, v2) == [k \in DOMAIN BaseP |-> IF k = a1 THEN v1 ELSE IF k = a2 THEN v2 ELSE BaseP[k]]

\* reproducible pseudo-random points (small LCG, all intermediate values < 2^31)
Lcg(x) == ((x * 75) + 74) % 65537
RECURSIVE LcgN(_, _)
LcgN(x, n) == IF n = 0 THEN x ELSE LcgN(Lcg(x), n - 1)
H(g, k) == LcgN(((Seed % 1000) * 31 + (g * 7) + 1) % 65537, k + 3)
RandP(g) == [k \in DOMAIN BaseP |->
               LET idx == CHOOSE i \in 1..Len(Axes) : Axes[i] = k
                   d == Dom[k]
               IN d[(H(g, idx) % Len(d)) + 1]]

\* ------------------------------------------------------------------ PageHeader from a parameter point
CrcOf(k) == CASE k = 0 -> <<>> [] k = 1 -> <<Zero(8)>> [] k = 2 -> <<Ones(8)>> [] k = 3 -> <<MinI32>>
              [] k = 4 -> <<MaxI32>> [] OTHER -> <<<<239, 190, 173, 222, 255, 255, 255, 255>>>>
MkPage(q) ==
    LET iv == q.iv
    IN [type |-> N8(q.ty), uncompressed |-> Pick(I32Pool, iv), compressed |-> Pick(I32Pool, iv + 1),
        crc |-> CrcOf(q.crc),
        data |-> O(q.ty = 0, [numValues |-> Pick(I32Pool, iv + 2), encoding |-> N8(Pick(EncVals, iv)),
                               defEnc |-> N8(3), repEnc |-> N8(IF q.b THEN 3 ELSE 4), stats |-> StatsOf(q.st, iv)]),
        dict |-> O(q.ty = 2, [numValues |-> Pick(I32Pool, iv + 2), encoding |-> N8(IF q.b THEN 0 ELSE 2),
                               isSorted |-> q.b]),
        v2 |-> O(q.ty = 3, [numValues |-> Pick(I32Pool, iv + 2), numNulls |-> Pick(I32Pool, iv + 3),
                             numRows |-> Pick(I32Pool, iv + 4), encoding |-> N8(Pick(EncVals, iv + 1)),
                             defLen |-> Pick(I32Pool, iv + 5), repLen |-> Pick(I32Pool, iv + 6),
                             isCompressed |-> q.b, stats |-> StatsOf(q.st, iv)])]
PageIvs == IF Quick THEN {0, 3, 4} ELSE 0..16
PagePoints(ty) == [ty : {ty}, crc : 0..5, iv : PageIvs, st : IF ty \in {0, 3} THEN 0..6 ELSE {0}, b : BOOLEAN]

\* ------------------------------------------------------------------ styles
StyleOf(k) == [longField |-> (k % 2) = 1, longList |-> ((k \div 2) % 2) = 1, padVarint |-> ((k \div 4) % 2) = 1,
               falseByte |-> IF ((k \div 8) % 2) = 1 THEN 0 ELSE 2, padInts |-> ((k \div 16) % 2) = 1]
ExplicitOf(k) == ((k \div 32) % 2) = 1           \* style numbers 0..63; bit 5 = emit default-valued fields

\* ------------------------------------------------------------------ unknown-field payloads (every wire type)
Dbl == [t |-> "double", v |-> <<24, 45, 68, 84, 251, 33, 9, 192>>]
Uuid == [t |-> "uuid", v |-> [i \in 1..16 |-> 255 - i]]
By(b) == [t |-> "byte", v |-> b]
I16V(w) == [t |-> "i16", v |-> w]
I64V(w) == [t |-> "i64", v |-> w]
SetOf(et, xs) == [t |-> "set", et |-> et, v |-> xs]
MapOf(kt, vt, kvs) == [t |-> "map", kt |-> kt, vt |-> vt, v |-> kvs]
Bools(n) == [i \in 1..n |-> Bool(i % 3 # 0)]
SmallStruct == Struct(<<F(1, Bool(TRUE)), F(2, Bool(FALSE)), F(3, I(5))>>)
NestedStruct == Struct(<<F(1, Struct(<<F(1, Struct(<<F(16, Bool(TRUE)), F(17, List("bool", Bools(4)))>>)),
                                       F(40, Bin(<<0, 0>>))>>)),
                         F(2000, List("bool", Bools(3))),
                         F(2001, MapOf("i32", "struct", << <<I(1), SmallStruct>>, <<INeg(2), Struct(<<>>)>> >>)),
                         F(3, Bool(FALSE)), F(4, Uuid)>>)
UnkVals == <<
    Bool(TRUE), Bool(FALSE), By(200), I16V(MinI16), I32V(MinI32), I64V(MinI64), I64V(MaxI64), Dbl,
    Bin(<<>>), Bin(<<0, 255, 1>>), Bin(Rep(7, 200)),
    List("bool", Bools(3)), List("bool", <<>>), List("bool", Bools(15)), List("bool", <<Bool(FALSE)>>),
    List("i32", [i \in 1..16 |-> I((i * 1000) % 70000)]), List("i64", <<I64V(MinI64)>>),
    List("binary", <<Bin(<<>>), Bin(<<1>>)>>), List("byte", <<By(0), By(255)>>), List("double", <<Dbl, Dbl>>),
    List("uuid", <<Uuid>>), List("struct", <<SmallStruct, Struct(<<>>)>>),
    List("list", <<List("bool", Bools(2)), List("i64", <<L(1)>>), List("list", <<List("bool", Bools(1))>>)>>),
    List("map", <<MapOf("byte", "byte", <<>>), MapOf("bool", "bool", << <<Bool(TRUE), Bool(FALSE)>> >>)>>),
    List("set", <<SetOf("bool", Bools(2))>>),
    SetOf("i64", <<L(7), I64V(MaxI64)>>), SetOf("bool", Bools(5)), SetOf("binary", <<>>),
    MapOf("byte", "byte", <<>>), MapOf("binary", "i32", << <<Bin(<<107>>), I(1)>>, <<Bin(<<>>), INeg(1)>> >>),
    MapOf("i32", "struct", << <<I(1), SmallStruct>> >>), MapOf("bool", "bool", << <<Bool(TRUE), Bool(FALSE)>>, <<Bool(FALSE), Bool(TRUE)>> >>),
    MapOf("byte", "list", << <<By(1), List("bool", Bools(3))>> >>), MapOf("i64", "map", << <<L(1), MapOf("bool", "i16", << <<Bool(FALSE), I16V(MaxI16)>> >>)>> >>),
    MapOf("uuid", "double", << <<Uuid, Dbl>> >>),
    Struct(<<>>), SmallStruct, NestedStruct, Uuid >>
UnkIds == <<20, 100, 32767, 19, 1000, 31>>      \* none is defined by parquet.thrift for any struct
UnkIds2 == <<21, 101, 32766, 22, 1001, 33>>

\* struct kinds that occur inside a FileMetaData / a PageHeader (LogicalType parts included)
FileKinds == <<"FileMetaData", "SchemaElement", "LogicalType", "DecimalType", "TimeType", "TimeUnit", "IntType",
               "EmptyType", "RowGroup", "ColumnChunk", "ColumnMetaData", "Statistics", "KeyValue", "PageEncodingStats">>
PageKinds == <<"PageHeader", "DataPageHeader", "DataPageHeaderV2", "DictionaryPageHeader", "Statistics">>
UnkAts == IF Quick THEN <<0, 2, 99>> ELSE <<0, 1, 2, 3, 4, 5, 6, 8, 10, 12, 99>>

\* fields that parquet.thrift defines and carquet does not model (realistic "unknown" fields)
SortingColumns == List("struct", <<Struct(<<F(1, I(0)), F(2, Bool(TRUE)), F(3, Bool(FALSE))>>),
                                   Struct(<<F(1, I(3)), F(2, Bool(FALSE)), F(3, Bool(TRUE))>>)>>)
ColumnOrders == List("struct", [i \in 1..3 |-> Struct(<<F(1, Struct(<<>>))>>)])
SizeStatistics == Struct(<<F(1, L(12345)), F(2, List("i64", <<L(1), L(2)>>)), F(3, List("i64", <<L(0)>>))>>)
RealPlan == [FileMetaData |-> <<[at |-> 99, id |-> 7, val |-> ColumnOrders],
                                [at |-> 99, id |-> 8, val |-> Struct(<<F(1, Struct(<<F(1, Bin(<<1, 2>>)), F(3, Bool(TRUE))>>))>>)],
                                [at |-> 99, id |-> 9, val |-> Bin(<<9, 9, 9>>)]>>,
             RowGroup |-> <<[at |-> 3, id |-> 4, val |-> SortingColumns]>>,
             ColumnMetaData |-> <<[at |-> 99, id |-> 16, val |-> SizeStatistics]>>,
             ColumnChunk |-> <<[at |-> 99, id |-> 8, val |-> Struct(<<F(1, Struct(<<>>))>>)], [at |-> 99, id |-> 9, val |-> Bin(<<>>)]>>,
             LogicalType |-> <<>>,
             PageHeader |-> <<[at |-> 4, id |-> 6, val |-> Struct(<<>>)]>>]
\* a pseudo-random plan touching three kinds
MixPlan(h, kinds) ==
    LET k1 == kinds[(h % Len(kinds)) + 1]
        k2 == kinds[((h \div 3) % Len(kinds)) + 1]
        k3 == kinds[((h \div 7) % Len(kinds)) + 1]
        ins(j) == <<[at |-> (h + j) % 9, id |-> Pick(UnkIds, h + j), val |-> Pick(UnkVals, (h * 3) + j)],
                    [at |-> (h + (2 * j)) % 5, id |-> Pick(UnkIds2, h + j + 1), val |-> Pick(UnkVals, h + (5 * j))]>>
    IN [k \in {k1, k2, k3} |-> IF k = k1 THEN ins(1) ELSE IF k = k2 THEN ins(2) ELSE ins(3)]

\* ------------------------------------------------------------------ variants
\* a variant descriptor: style number k (0..63) and an insertion plan
MkVariant(kind, a, k, plan, desc) ==
    LET x == [explicit |-> ExplicitOf(k), unk |-> plan]
        bs == TSer(ToTreeX(kind, a, x), StyleOf(k))
        r == TParse(bs, 1)
    IN [desc |-> desc, sty |-> k, bytes |-> bs, mayReject |-> FALSE,
        self |-> /\ r.ok /\ r.p = Len(bs) + 1 /\ Abs(kind, r.v) = a
                 /\ (plan = <<>> => TypeErrs(kind, r.v) = {})]      \* the spec's own trees conform to the IDL
CaseHash(a) == Len(ToJson(a)) % 9973
StdVariants(kind, a, kinds) ==
    LET h == CaseHash(a)
        ks == IF Quick THEN <<0, 63, (h * 7 + 1) % 64, (h * 13 + 5) % 64>>
              ELSE <<0, 63>> \o [i \in 1..4 |-> (h + (i * 19)) % 64]
    IN [i \in 1..Len(ks) |-> MkVariant(kind, a, ks[i],
                                IF i = 3 THEN RealPlan ELSE IF i >= 4 THEN MixPlan(h + i, kinds) ELSE <<>>,
                                IF i = 3 THEN "real" ELSE IF i >= 4 THEN "mix" ELSE "plain")]

\* ------------------------------------------------------------------ base values holding every struct kind
UnkBaseFile ==
    LET p == [ns |-> 6, nm |-> 1, iv |-> 2, opt |-> 1, ll |-> 2, st |-> 4, nrg |-> 1]
        f == MkFile(p)
        lt == <<LtE("STRING"), LtDec(N8(2), N8(9)), LtT("TIME", TRUE, "MICROS"), LtInt(16, TRUE), LtT("TIMESTAMP", FALSE, "NANOS")>>
    IN [f EXCEPT !.schema = [i \in 1..6 |-> IF i = 1 THEN f.schema[1] ELSE [f.schema[i] EXCEPT !.logical = <<lt[i - 1]>>]]]
UnkBasePage(ty) == MkPage([ty |-> ty, crc |-> 3, iv |-> 4, st |-> 4, b |-> TRUE])

RECURSIVE TyStr(_)
TyStr(x) == CASE x.t \in {"list", "set"} -> x.t \o "<" \o x.et \o ">" \o (IF Len(x.v) > 0 /\ x.et \in {"list", "set", "map"} THEN ":" \o TyStr(x.v[1]) ELSE "")
              [] x.t = "map" -> IF Len(x.v) = 0 THEN "map<>" ELSE "map<" \o x.kt \o "," \o x.vt \o ">"
              [] x.t = "struct" -> IF Len(x.v) = 0 THEN "struct{}" ELSE IF Len(x.v) > 3 THEN "struct{nested}" ELSE "struct"
              [] OTHER -> x.t
\* variant 1 is the baseline (no unknown field), so that a difference that does not come from
\* skipping can be told apart
UnkVariants(kind, a, target, at) ==
    LET salt == Len(target) + at
        \* quick: every (struct kind, payload) pair at one of the positions; thorough: at every position
        idxs == SelectSeq([i \in 1..Len(UnkVals) |-> i], LAMBDA i : ~Quick \/ (i + salt) % 3 = 0)
    IN <<MkVariant(kind, a, 0, <<>>, "plain")>> \o
       [j \in 1..Len(idxs) |->
           LET i == idxs[j]
           IN MkVariant(kind, a, ((i * 5) + at) % 32,
                        [k \in {target} |-> <<[at |-> at, id |-> Pick(UnkIds, i + at), val |-> UnkVals[i]]>>],
                        [target |-> target, at |-> at, ty |-> TyStr(UnkVals[i]), idx |-> i])]

\* ------------------------------------------------------------------ deep nesting (descriptor; bytes = pre ++ rep^n ++ post)
DeepDepths == IF Quick THEN <<2, 16, 40, 200000>> ELSE <<2, 8, 16, 31, 40, 64, 1000, 200000, 1000000>>
DeepBase == MkPage([ty |-> 0, crc |-> 2, iv |-> 1, st |-> 0, b |-> FALSE])
DeepPre(kindOfNest) == LET bs == TSer(ToTree("PageHeader", DeepBase), DefaultStyle)
                           front == SubSeq(bs, 1, Len(bs) - 1)
                       IN front \o <<IF kindOfNest = "struct" THEN 12 ELSE IF kindOfNest = "set" THEN 10 ELSE 9>> \o ZzWord(N8(100))
\* list/set: d nested one-element containers, the innermost empty (element type byte);
\* struct: d nested structs, each but the innermost holding field 1 : struct
DeepDesc(kindOfNest, d) ==
    IF kindOfNest = "struct"
    THEN [pre |-> DeepPre(kindOfNest), rep |-> <<28>>, n |-> d - 1, mid |-> <<0>>, rep2 |-> <<0>>, n2 |-> d - 1, tail |-> <<0>>]
    ELSE [pre |-> DeepPre(kindOfNest), rep |-> <<IF kindOfNest = "set" THEN 26 ELSE 25>>, n |-> d - 1,
          mid |-> <<3>>, rep2 |-> <<>>, n2 |-> 0, tail |-> <<0>>]
DeepBytes(ds) == ds.pre \o Flatten([i \in 1..ds.n |-> ds.rep]) \o ds.mid \o Flatten([i \in 1..ds.n2 |-> ds.rep2]) \o ds.tail
MustParseDepth == 16

\* ------------------------------------------------------------------ generic trees (encoder / decoder primitives)
Deltas == <<1, 2, 14, 15, 16, 17, 100, 1000>>
Prevs == <<0, 1, 15, 100, 32000>>
ListLens == <<0, 1, 14, 15, 16, 127, 128, 300>>
GenericTrees ==
       [i \in 1..(Len(Deltas) * Len(Prevs)) |->
          LET d == Deltas[((i - 1) % Len(Deltas)) + 1]
              pv == Prevs[((i - 1) \div Len(Deltas)) + 1]
          IN Struct((IF pv > 0 THEN <<F(pv, I(7))>> ELSE <<>>) \o
                    (IF pv + d <= 32767 THEN <<F(pv + d, Bool(d % 2 = 0)), F(pv + d + 1, I16V(M8(d)))>> ELSE <<F(32767, Bool(TRUE))>>) \o
                    <<F(5, L(pv))>>)]      \* the last id goes backwards: long form
    \o [i \in 1..Len(ListLens) |->
          Struct(<<F(1, List("i32", [j \in 1..ListLens[i] |-> I32V(Pick(I32Pool, j))])),
                   F(2, List("bool", Bools(ListLens[i]))),
                   F(3, SetOf("binary", [j \in 1..(ListLens[i] % 20) |-> Bin(NameOf(3, j))])),
                   F(4, List("struct", [j \in 1..(ListLens[i] % 17) |-> Struct(<<F(j, Bool(j % 2 = 0)), F(j + 16, By(j))>>)]))>>)]
    \o << Struct([i \in 1..Len(I64Pool) |-> F(i * 16, I64V(I64Pool[i]))]),
          Struct([i \in 1..Len(I32Pool) |-> F(i * 15, I32V(I32Pool[i]))]),
          Struct([i \in 1..Len(I16Pool) |-> F(i * 17, I16V(I16Pool[i]))]),
          Struct([i \in 1..Len(UnkVals) |-> F(i * 3, UnkVals[i])]),
          Struct([i \in 1..Len(UnkVals) |-> F(32767 - (i * 40), UnkVals[Len(UnkVals) + 1 - i])]),
          Struct(<<>>), NestedStruct >>

\* ------------------------------------------------------------------ the two-level state graph
\* Family is a set of family names; a group is <<family name, ...>>
GroupsOf(fam) ==
    CASE fam = "file" ->
            IF Quick THEN {<<fam, Axes[i], Axes[i]>> : i \in 1..Len(Axes)}
            ELSE {<<fam, Axes[i], Axes[j]>> : i \in 1..Len(Axes), j \in 1..Len(Axes)}
      [] fam = "rand" -> {<<fam, n>> : n \in 1..NRand}
      [] fam = "page" -> {<<fam, ty, crc>> : ty \in {0, 1, 2, 3}, crc \in 0..5}
      [] fam = "unkfile" -> {<<fam, FileKinds[i], UnkAts[j]>> : i \in 1..Len(FileKinds), j \in 1..Len(UnkAts)}
      [] fam = "unkpage" -> {<<fam, PageKinds[i], UnkAts[j], ty>> : i \in 1..Len(PageKinds), j \in 1..Len(UnkAts), ty \in {0, 2, 3}}
      [] fam = "deep" -> {<<fam, k, DeepDepths[i]>> : k \in {"list", "set", "struct"}, i \in 1..Len(DeepDepths)}
      [] fam = "generic" -> {<<fam, n>> : n \in 1..Len(GenericTrees)}
      [] OTHER -> {<<fam>>}                    \* logical, table, obs
Groups == UNION {GroupsOf(fam) : fam \in Family}

IdxOf(ax) == CHOOSE i \in 1..Len(Axes) : Axes[i] = ax
CasesOf(g) ==
    LET fam == g[1]
    IN CASE fam = "file" ->
            IF g[2] = g[3] THEN {[k |-> "file", fam |-> fam, p |-> PointOf(g[2], Dom[g[2]][i], g[2], Dom[g[2]][i])] : i \in 1..Len(Dom[g[2]])}
            ELSE IF IdxOf(g[2]) > IdxOf(g[3]) THEN {}
            ELSE {[k |-> "file", fam |-> fam, p |-> PointOf(g[2], Dom[g[2]][i], g[3], Dom[g[3]][j])] :
                     i \in 1..Len(Dom[g[2]]), j \in 1..Len(Dom[g[3]])}
      [] fam = "rand" -> {[k |-> "file", fam |-> fam, p |-> RandP(g[2])]}
      [] fam = "logical" -> {[k |-> "logical", fam |-> fam]}
      [] fam = "page" -> {[k |-> "page", fam |-> fam, q |-> q] : q \in {x \in PagePoints(g[2]) : x.crc = g[3]}}
      [] fam = "unkfile" -> {[k |-> "unkfile", fam |-> fam, target |-> g[2], at |-> g[3]]}
      [] fam = "unkpage" -> {[k |-> "unkpage", fam |-> fam, target |-> g[2], at |-> g[3], ty |-> g[4]]}
      [] fam = "deep" -> {[k |-> "deep", fam |-> fam, nest |-> g[2], d |-> g[3]]}
      [] fam = "generic" -> {[k |-> "generic", fam |-> fam, i |-> g[2]]}
      [] fam = "table" -> {[k |-> "table", fam |-> fam]}
      [] fam = "obs" -> {[k |-> "obs", fam |-> fam, what |-> "negative-typeLength-numChildren"]}

\* Four levels, so that TLC's workers share the work: start -> group -> point -> value -> done.
\* The abstract value is computed once (point -> value) and stored in the state; the variants are
\* computed and printed by the action value -> done, i.e. by whichever worker dequeues the value.
LogicalFile ==
    LET n == Len(LtPool) + 1
        p == [BaseP EXCEPT !.ns = n, !.opt = 0, !.nrg = 0, !.ll = 0]
        f == MkFile(p)
    IN [f EXCEPT !.schema = [i \in 1..n |-> IF i = 1 THEN f.schema[1] ELSE [f.schema[i] EXCEPT !.logical = <<LtPool[i - 1]>>]]]

\* outside the property's domain (parquet.thrift gives a negative type_length / num_children no
\* meaning); executed and recorded as an observation only
ObsFile == LET f == MkFile(BaseP)
           IN [f EXCEPT !.schema[2].typeLength = Ones(8), !.schema[1].numChildren = M8(2), !.schema[3].typeLength = MinI32]
UnkPageOk(pt) == ~( \/ (pt.target = "DataPageHeader" /\ pt.ty # 0) \/ (pt.target = "DictionaryPageHeader" /\ pt.ty # 2)
                    \/ (pt.target = "DataPageHeaderV2" /\ pt.ty # 3) \/ (pt.target = "Statistics" /\ pt.ty = 2))
ValueOf(pt) ==
    CASE pt.k = "file" -> [k |-> "val", kind |-> "FileMetaData", a |-> MkFile(pt.p), pt |-> pt]
      [] pt.k = "logical" -> [k |-> "val", kind |-> "FileMetaData", a |-> LogicalFile, pt |-> pt]
      [] pt.k = "page" -> [k |-> "val", kind |-> "PageHeader", a |-> MkPage(pt.q), pt |-> pt]
      [] pt.k = "unkfile" -> [k |-> "val", kind |-> "FileMetaData", a |-> UnkBaseFile, pt |-> pt]
      [] pt.k = "unkpage" -> [k |-> "val", kind |-> "PageHeader", a |-> UnkBasePage(pt.ty), pt |-> pt]
      [] pt.k = "deep" -> [k |-> "val", kind |-> "PageHeader", a |-> DeepBase, pt |-> pt]
      [] pt.k = "generic" -> [k |-> "val", kind |-> "generic", a |-> GenericTrees[pt.i], pt |-> pt]
      [] pt.k = "table" -> [k |-> "val", kind |-> "table", a |-> 0, pt |-> pt]
      [] pt.k = "obs" -> [k |-> "val", kind |-> "FileMetaData", a |-> ObsFile, pt |-> pt]

Out(vars, ab) == PrintT(ToJson([fam |-> c.pt.fam, kind |-> c.kind, a |-> c.a, vars |-> vars, ab |-> ab, point |-> c.pt]))

Emit ==
    LET pt == c.pt
        a == c.a
    IN CASE pt.k \in {"file", "logical"} -> Out(StdVariants("FileMetaData", a, FileKinds), TRUE)
      [] pt.k = "page" -> Out(StdVariants("PageHeader", a, PageKinds), TRUE)
      [] pt.k = "unkfile" -> Out(UnkVariants("FileMetaData", a, pt.target, pt.at), pt.target = "FileMetaData" /\ pt.at = 0)
      [] pt.k = "unkpage" -> Out(UnkVariants("PageHeader", a, pt.target, pt.at), FALSE)
      [] pt.k = "deep" ->
            LET ds == DeepDesc(pt.nest, pt.d)
                small == pt.d <= 60
                bs == IF small THEN DeepBytes(ds) ELSE <<>>
                r == IF small THEN TParse(bs, 1) ELSE [ok |-> TRUE]
            IN Out(<<[desc |-> <<pt.nest, pt.d>>, sty |-> 0, deep |-> ds, mayReject |-> pt.d > MustParseDepth,
                      self |-> ~small \/ (r.ok /\ r.p = Len(bs) + 1 /\ Abs("PageHeader", r.v) = a)]>>, FALSE)
      [] pt.k = "generic" ->
            LET ks == IF Quick THEN {0, 1, 2, 4, 8, 16, 31, (pt.i * 11) % 32} ELSE 0..31
                vs == [k \in 1..32 |-> k - 1]
                sel == SelectSeq(vs, LAMBDA k : k \in ks)
            IN Out([j \in 1..Len(sel) |->
                       LET bs == TSer(a, StyleOf(sel[j]))
                           r == TParse(bs, 1)
                       IN [desc |-> "generic", sty |-> sel[j], bytes |-> bs, mayReject |-> FALSE,
                           self |-> r.ok /\ r.p = Len(bs) + 1 /\ r.v = a]], TRUE)
      [] pt.k = "obs" -> Out(<<MkVariant("FileMetaData", a, 0, <<>>, "plain")>>, TRUE)
      [] pt.k = "table" -> PrintT(ToJson([table |-> Schema]))

Init == c = [k |-> "start"]
Next == \/ c.k = "start" /\ c' \in {[k |-> "grp", g |-> g] : g \in Groups}
        \/ c.k = "grp" /\ c' \in {pt \in CasesOf(c.g) : pt.k # "unkpage" \/ UnkPageOk(pt)}
        \/ c.k \notin {"start", "grp", "val", "done"} /\ c' = ValueOf(c)
        \/ c.k = "val" /\ Emit /\ c' = [k |-> "done"]
=============================================================================
