------------------------------ MODULE MC_Alloc ------------------------------
(* Model check of the C19 protocol (AllocFault.tla) on small client programs: one program   *)
(* per scenario kind (schema build, write, column read, batch read), every call the fault  *)
(* may hit x every outcome the specification allows x every client policy.                 *)
(* TLC proves the invariants (closability, no error before the fault, everything is        *)
(* released at the end, the client never gets stuck) and prints every terminal behaviour   *)
(* with its *outcome shape*; the check requires each observed execution of the real        *)
(* library to have one of these shapes and reports which ones were seen.                   *)
EXTENDS AllocFault, TLC, Json
CONSTANTS ProgIds,     \* subset of DOMAIN Progs
          Policies     \* subset of {"abort", "close", "continue"}
VARIABLES prog, policy, pc, out, errseen
mvars == <<hst, delivered, fault, prog, policy, pc, out, errseen>>

\* a call: kind, handle, parent, rets = the call can report a status
S(k, h, p, r) == [kind |-> k, h |-> h, p |-> p, rets |-> r]
Progs == [
  schema |-> << S("make", "schema", "-", TRUE), S("use", "schema", "-", TRUE), S("use", "schema", "-", TRUE),
                S("rel", "schema", "-", FALSE) >>,
  write  |-> << S("make", "writer", "-", TRUE), S("use", "writer", "-", TRUE), S("use", "writer", "-", TRUE),
                S("rel", "writer", "-", TRUE) >>,
  read   |-> << S("make", "reader", "-", TRUE),
                S("make", "col", "reader", TRUE), S("use", "col", "-", TRUE), S("use", "col", "-", TRUE), S("rel", "col", "-", FALSE),
                S("make", "col", "reader", TRUE), S("use", "col", "-", TRUE), S("rel", "col", "-", FALSE),
                S("rel", "reader", "-", FALSE) >>,
  batch  |-> << S("make", "reader", "-", TRUE), S("make", "br", "reader", TRUE),
                S("make", "batch", "br", TRUE), S("rel", "batch", "-", FALSE),
                S("make", "batch", "br", TRUE), S("rel", "batch", "-", FALSE),
                S("rel", "br", "-", FALSE), S("rel", "reader", "-", FALSE) >> ]

Init == /\ AInit /\ prog \in ProgIds /\ policy \in Policies
        /\ pc = 1 /\ out = <<>> /\ errseen = FALSE

Cur == Progs[prog][pc]
Done == pc > Len(Progs[prog])
Log(k, r, hit, owed) == out' = Append(out, [k |-> k, r |-> r, hit |-> hit, owed |-> owed])
Advance == pc' = pc + 1 /\ UNCHANGED <<prog, policy, fault>>
Stopped == errseen /\ policy # "continue"        \* the client stops using handles after an error

\* the client skips a call it cannot or will not make
SkipStep ==
    /\ ~Done
    /\ \/ (Cur.kind = "rel" /\ ~Usable(Cur.h))
       \/ (Cur.kind = "use" /\ (~Usable(Cur.h) \/ Stopped))
       \/ (Cur.kind = "make" /\ (~Absent(Cur.h) \/ (Cur.p # "-" /\ ~Usable(Cur.p)) \/ Stopped))
    /\ Log(Cur.kind, "skip", FALSE, FALSE) /\ Advance /\ UNCHANGED <<hst, delivered, errseen>>

CallStep ==
    /\ ~Done /\ ~Stopped
    /\ \E st \in {"ok", "err"}, hit \in BOOLEAN :
         /\ \/ Cur.kind = "use" /\ Use(Cur.h, st, TRUE, hit) /\ Log("use", st, hit, Promised(Cur.h, st))
            \/ Cur.kind = "make" /\ Make(Cur.h, Cur.p, st, TRUE, hit) /\ Log("make", st, hit, MakePromised(Cur.p, st))
         /\ errseen' = (errseen \/ st = "err")
    /\ Advance

\* releases are never skipped while the handle exists; under policy "abort" a writer that reported
\* an error is aborted (void), otherwise it is closed (reports a status)
ReleaseStep ==
    /\ ~Done /\ Cur.kind = "rel" /\ Usable(Cur.h)
    /\ LET reports == Cur.rets /\ ~(policy = "abort" /\ errseen)
       IN \E st \in (IF reports THEN {"ok", "err"} ELSE {"ok"}), hit \in BOOLEAN :
            /\ Release(Cur.h, st, TRUE, hit)
            /\ Log("rel", st, hit, reports /\ Promised(Cur.h, st))
            /\ errseen' = (errseen \/ st = "err")
    /\ Advance

Next == SkipStep \/ CallStep \/ ReleaseStep

\* ---- invariants of the protocol
HitAt == SelectSeq([i \in 1..Len(out) |-> IF out[i].hit THEN i ELSE 0], LAMBDA x : x > 0)
ErrAt == SelectSeq([i \in 1..Len(out) |-> IF out[i].r = "err" THEN i ELSE 0], LAMBDA x : x > 0)
SingleFault == Len(HitAt) <= 1 /\ (delivered <=> Len(HitAt) = 1)
NoErrorBeforeFault == \A i \in 1..Len(out) : out[i].r = "err" => (Len(HitAt) = 1 /\ HitAt[1] <= i)
\* success is owed its fault-free effect unless an error was reported before on that handle family
OwedUntilError == \A i \in 1..Len(out) : (out[i].r = "ok" /\ ~out[i].owed /\ out[i].k # "rel") => (Len(ErrAt) > 0 /\ ErrAt[1] < i)
AllReleased == Done => \A h \in Handles : ~Usable(h)
Progress == ~Done => ENABLED Next
StopsAfterError == policy # "continue" =>
                     \A i \in 1..Len(out) : (Len(ErrAt) > 0 /\ i > ErrAt[1] /\ out[i].k # "rel") => out[i].r = "skip"
Inv == ATypeOK /\ FaultFree /\ Closable /\ NoTaintBeforeFault /\ SingleFault /\ NoErrorBeforeFault
       /\ OwedUntilError /\ AllReleased /\ Progress /\ StopsAfterError

\* ---- outcome shape of a finished behaviour (the same abstraction is applied to observed executions)
Shape ==
    LET h == IF Len(HitAt) = 0 THEN 0 ELSE HitAt[1]
        e == IF Len(ErrAt) = 0 THEN 0 ELSE ErrAt[1]
    IN [hitKind |-> IF h = 0 THEN "none" ELSE out[h].k,
        hitRes |-> IF h = 0 THEN "-" ELSE out[h].r,
        errKind |-> IF e = 0 THEN "none" ELSE out[e].k,
        late |-> e > h /\ h > 0,
        moreErr |-> Len(ErrAt) > 1,
        cont |-> e > 0 /\ \E i \in (e + 1)..Len(out) : out[i].k # "rel" /\ out[i].r # "skip"]

Emit == Done => PrintT(ToJson([prog |-> prog, policy |-> policy, shape |-> Shape,
                               out |-> [i \in 1..Len(out) |-> out[i].r], hit |-> IF Len(HitAt) = 0 THEN 0 ELSE HitAt[1]]))
=============================================================================
