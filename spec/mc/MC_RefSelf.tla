---------------------------- MODULE MC_RefSelf ----------------------------
(* Self-check: the reference reader inverts the reference writer, and every structural      *)
(* predicate holds on reference-written files, for all layout options on a small table.    *)
EXTENDS RefWriter, ParquetFile, TLC
VARIABLE st
\* schema: a (REQUIRED INT32), g (OPTIONAL group) { b (REPEATED BYTE_ARRAY) }, c (OPTIONAL BOOLEAN)
Elems == << Root(3), Leaf(<<97>>, 1, 0, 0), Group(<<103>>, 1, 1), Leaf(<<98>>, 6, 2, 0), Leaf(<<99>>, 0, 1, 0) >>
LeafA == [type |-> 1, tlen |-> 0, maxDef |-> 0, maxRep |-> 0, path |-> <<<<97>>>>]
LeafB == [type |-> 6, tlen |-> 0, maxDef |-> 2, maxRep |-> 1, path |-> <<<<103>>, <<98>>>>]
LeafC == [type |-> 0, tlen |-> 0, maxDef |-> 1, maxRep |-> 0, path |-> <<<<99>>>>]
\* 3 rows. a = 1,2,3 ; g.b = [x,y], null group, [] ... ; c = T, null, F
ContA == [defs |-> <<0, 0, 0>>, reps |-> <<0, 0, 0>>, vals |-> << <<1,0,0,0>>, <<2,0,0,0>>, <<1,0,0,0>> >>]
ContB == [defs |-> <<2, 2, 0, 1>>, reps |-> <<0, 1, 0, 0>>, vals |-> << <<120>>, <<>> >>]
ContC == [defs |-> <<1, 0, 1>>, reps |-> <<0, 0, 0>>, vals |-> << <<1>>, <<0>> >>]
Opts == [style : {"rle", "bp1", "mix", "zero", "pad1"}, idxStyle : {"bp"}, useDict : BOOLEAN,
         dictOffsetField : BOOLEAN, dictEnc : {0}, dataEnc : {8}, crc : {"good"}, codec : {0, 1, 5, 2, 6},
         stats : {NoStatsW}, extraWidth : {0, 3}, v2 : {FALSE}, encTag : {255}, codecTag : {255}, hmutPage : {0}, hmut : {[kind |-> "none"]}, mixEnc : {"all", "fallback", "reverse"}, minW0 : BOOLEAN]
Desc(o, twoPages, extras, sty) ==
    [elements |-> Elems, createdBy |-> <<114, 101, 102>>, sty |-> sty, extras |-> extras,
     rgs |-> << [numRows |-> 3,
                 cols |-> << MkChunk(LeafA, ContA, IF twoPages THEN <<1, 3>> ELSE <<3>>, o),
                             MkChunk(LeafB, ContB, IF twoPages THEN <<2, 4>> ELSE <<4>>, [o EXCEPT !.useDict = FALSE]),
                             MkChunk(LeafC, ContC, IF twoPages THEN <<2, 3>> ELSE <<3>>, [o EXCEPT !.useDict = FALSE]) >>],
                [numRows |-> 0, cols |-> << MkChunk(LeafA, [defs |-> <<>>, reps |-> <<>>, vals |-> <<>>], <<>>, DefaultOpt),
                                            MkChunk(LeafB, [defs |-> <<>>, reps |-> <<>>, vals |-> <<>>], <<>>, DefaultOpt),
                                            MkChunk(LeafC, [defs |-> <<>>, reps |-> <<>>, vals |-> <<>>], <<>>, DefaultOpt) >>] >>]
Init == st = [lvl |-> 0]
Next == \/ st.lvl = 0 /\ st' \in [lvl : {1}, two : BOOLEAN, extras : BOOLEAN, long : BOOLEAN]
        \/ st.lvl = 1 /\ st' \in [lvl : {2}, two : {st.two}, extras : {st.extras}, long : {st.long}, o : Opts]
RoundTripOk == st.lvl = 2 =>
    LET sty == [longField |-> st.long, longList |-> st.long, padVarint |-> st.long, falseByte |-> 2]
        bs == SerFile(Desc(st.o, st.two, st.extras, sty))
        f == ParseFile(bs)
    IN /\ f.ok
       /\ Len(f.leaves) = 3
       /\ [i \in 1..3 |-> f.leaves[i].maxDef] = <<0, 2, 1>> /\ [i \in 1..3 |-> f.leaves[i].maxRep] = <<0, 1, 0>>
       /\ f.leaves[2].path = <<<<103>>, <<98>>>>
       /\ TableOf(f)[1].cols = <<ContA, ContB, ContC>>
       /\ f.numRows = 3 /\ Len(f.rgs) = 2
       /\ Tiling(f) /\ PageChain(f) /\ CountsAddUp(f) /\ TagsConsistent(f) /\ CrcOk(f) /\ SizesOk(f) /\ RowGroupSizesOk(f)
       /\ ValuesExact(f) /\ PathsOk(f)
=============================================================================
