--------------------------- MODULE MC_CodecTrace ---------------------------
(* Validation of recorded codec calls against the contract Codec.tla (C09; C08 envelope).  *)
(* The replayer logs one JSON object per executed case (file in environment variable OBS): *)
(*   {"id": .., "n": |x|, "xh": identity of x, "ev": [event...]}  with events               *)
(*   {"op": "bound", "b": B}                                                                 *)
(*   {"op": "compress",   "cap": C, "out": {"st", "len", "wlen", "h"}}                       *)
(*   {"op": "decompress", "cap": C, "out": {"st", "len", "wlen", "h"}}                       *)
(*   {"op": "arbitrary",  "cap": C, "out": {"st", "len", "wlen", "h"}}    (C08: any bytes)   *)
(* Each case is replayed through the actions of Codec; an event the contract does not        *)
(* allow drives the machine into phase "rejected" and the violated clauses are printed.      *)
EXTENDS Codec, TLC, Json, IOUtils
CONSTANT Group
VARIABLES i, k
vars == <<i, k, phase, x, bound, c, verdict, fault>>

Obs == ndJsonDeserialize(IOEnv.OBS)
N == Len(Obs)

Init == /\ i = [k |-> "start"] /\ k = 0
        /\ phase = "idle" /\ x = [n |-> 0, h |-> ""] /\ bound = 0 /\ c = [len |-> 0]
        /\ verdict = {} /\ fault = "none"

Arbitrary(cap, out) ==
    /\ LET v == ArbitraryViol(cap, out) IN
       /\ verdict' = v
       /\ phase' = IF v # {} THEN "rejected" ELSE phase
    /\ UNCHANGED <<x, bound, c, fault>>

Step(e) == \/ e.op = "bound" /\ Bound(e.b)
           \/ e.op = "compress" /\ Compress(e.cap, e.out)
           \/ e.op = "decompress" /\ Decompress(e.cap, e.out)
           \/ e.op = "arbitrary" /\ Arbitrary(e.cap, e.out)

Next == \/ /\ i.k = "start" /\ N > 0
           /\ i' \in [k : {"grp"}, g : 0..((N - 1) \div Group)]
           /\ UNCHANGED <<k, phase, x, bound, c, verdict, fault>>
        \/ /\ i.k = "grp"
           /\ i' \in [k : {"case"}, n : ((i.g * Group) + 1)..(IF (i.g + 1) * Group < N THEN (i.g + 1) * Group ELSE N)]
           /\ k' = 1
           /\ phase' = "init" /\ x' = [n |-> Obs[i'.n].n, h |-> Obs[i'.n].xh]
           /\ bound' = 0 /\ c' = [len |-> 0] /\ verdict' = {} /\ fault' = "none"
        \/ /\ i.k = "case" /\ phase # "rejected" /\ k <= Len(Obs[i.n].ev)
           /\ Step(Obs[i.n].ev[k])
           /\ k' = k + 1 /\ UNCHANGED i

\* a trace is accepted iff all its events were consumed without rejection
Done == i.k = "case" /\ phase # "rejected" /\ k = Len(Obs[i.n].ev) + 1
\* an event that no action matches (wrong phase) would leave the trace stuck: report it too
Stuck == i.k = "case" /\ phase # "rejected" /\ k <= Len(Obs[i.n].ev) /\ ~ENABLED Step(Obs[i.n].ev[k])

EmitInv == /\ (phase = "rejected" => PrintT(ToJson([id |-> Obs[i.n].id, v |-> "rejected", at |-> k - 1, clauses |-> SetToSeq(verdict)])))
           /\ (Done => PrintT(ToJson([id |-> Obs[i.n].id, v |-> "accepted", at |-> k - 1, clauses |-> <<>>])))
           /\ (Stuck => PrintT(ToJson([id |-> Obs[i.n].id, v |-> "stuck", at |-> k, clauses |-> <<Obs[i.n].ev[k].op>>])))
=============================================================================
