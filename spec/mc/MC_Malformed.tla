---------------------------- MODULE MC_Malformed ----------------------------
(* C04 generator: base files from the reference writer x every single-field mutation of the  *)
(* footer tree (all integer fields x hostile values, all binary fields, dropped fields /     *)
(* list elements) and of the page headers; plus the segment boundaries for truncation.       *)
(* One TLC state = one (base, family, slice); the state prints the shared data region once   *)
(* and the re-serialised footers (or whole files) of its slice.                             *)
EXTENDS RefWriter, Values, TLC, Json
CONSTANTS Bases, Slices, PerSlice      \* Slices: number of path slices per family; PerSlice caps mutations printed per state
VARIABLE st

LeafRec(type, tlen, maxDef, maxRep, path) == [type |-> type, tlen |-> tlen, maxDef |-> maxDef, maxRep |-> maxRep, path |-> path]
Tk(type, tlen, k) == TokenAt(type, tlen, k)

\* base 1: flat, REQUIRED INT32 + OPTIONAL BYTE_ARRAY + REQUIRED FLBA(3), 6 rows, 2 pages, plain, crc
\* base 2: same with dictionary encoding (dictionary page + RLE_DICTIONARY data pages)
\* base 3: nested l.list.e (def 3, rep 1) + r.x, 2 pages
B1Elems == << Root(3), Leaf(<<97>>, 1, 0, 0), Leaf(<<115>>, 6, 1, 0), Leaf(<<120>>, 7, 0, 3) >>
B1Leaves == << LeafRec(1, 0, 0, 0, <<<<97>>>>), LeafRec(6, 0, 1, 0, <<<<115>>>>), LeafRec(7, 3, 0, 0, <<<<120>>>>) >>
B1Cont(c) == IF c = 1 THEN [defs |-> <<0,0,0,0,0,0>>, reps |-> <<0,0,0,0,0,0>>, vals |-> [i \in 1..6 |-> Tk(1, 0, i)]]
             ELSE IF c = 2 THEN [defs |-> <<1,0,1,1,0,1>>, reps |-> <<0,0,0,0,0,0>>, vals |-> [i \in 1..4 |-> Tk(6, 0, i % 4)]]
             ELSE [defs |-> <<0,0,0,0,0,0>>, reps |-> <<0,0,0,0,0,0>>, vals |-> [i \in 1..6 |-> Tk(7, 3, i)]]
B3Elems == << Root(2), Group(<<108>>, 1, 1), Group(<<108, 105, 115, 116>>, 2, 1), Leaf(<<101>>, 2, 1, 0),
              Group(<<114>>, 0, 1), Leaf(<<120>>, 5, 1, 0) >>
B3Leaves == << LeafRec(2, 0, 3, 1, <<<<108>>, <<108, 105, 115, 116>>, <<101>>>>), LeafRec(5, 0, 1, 0, <<<<114>>, <<120>>>>) >>
B3Cont(c) == IF c = 1 THEN [defs |-> <<3, 2, 3, 0, 1, 2>>, reps |-> <<0, 1, 1, 0, 0, 0>>, vals |-> <<Tk(2, 0, 1), Tk(2, 0, 5)>>]
             ELSE [defs |-> <<1, 0, 1, 1>>, reps |-> <<0, 0, 0, 0>>, vals |-> <<Tk(5, 0, 2), Tk(5, 0, 6), Tk(5, 0, 7)>>]

\* bases 4..6: the shapes of 1..3 with compressed pages (SNAPPY, LZ4, SNAPPY); bases 7..9: the shapes with two row groups
\* bases 10, 11: the dictionary shape with PLAIN and dictionary-encoded data pages in one chunk (fall-back / reverse order)
Shape(b) == IF b >= 10 THEN 2 ELSE ((b - 1) % 3) + 1
BaseCodec(b) == IF b \in {4, 6} THEN 1 ELSE IF b = 5 THEN 5 ELSE 0
BaseGroups(b) == IF b \in 7..9 THEN 2 ELSE 1
BaseMix(b) == IF b = 10 THEN "fallback" ELSE IF b = 11 THEN "reverse" ELSE "all"
BaseElems(b) == IF Shape(b) = 3 THEN B3Elems ELSE B1Elems
BaseLeaves(b) == IF Shape(b) = 3 THEN B3Leaves ELSE B1Leaves
BaseCont(b, c) == IF Shape(b) = 3 THEN B3Cont(c) ELSE B1Cont(c)
BaseCuts(b, c) == IF Shape(b) = 3 THEN (IF c = 1 THEN <<3, 6>> ELSE <<1, 4>>) ELSE IF b >= 10 THEN <<4, 6>> ELSE <<2, 6>>
BaseOpt(b) == IF Shape(b) = 2 THEN [DefaultOpt EXCEPT !.useDict = TRUE, !.crc = "good", !.codec = BaseCodec(b), !.mixEnc = BaseMix(b)]
              ELSE [DefaultOpt EXCEPT !.crc = "good", !.codec = BaseCodec(b)]

\* description with an optional page-header mutation on (column c, page k)
DescB(b, pc, pk, hm, bk, bm) ==
    [elements |-> BaseElems(b), createdBy |-> <<114, 101, 102>>, extras |-> FALSE, sty |-> DefaultStyle,
     rgs |-> [g \in 1..BaseGroups(b) |->
                [numRows |-> IF Shape(b) = 3 THEN 4 ELSE 6,
                 cols |-> [c \in 1..Len(BaseLeaves(b)) |->
                             MkChunk(BaseLeaves(b)[c], BaseCont(b, c), BaseCuts(b, c),
                                     LET o == IF BaseLeaves(b)[c].type = 0 THEN [BaseOpt(b) EXCEPT !.useDict = FALSE] ELSE BaseOpt(b)
                                     IN IF c = pc /\ g = 1 THEN [o EXCEPT !.hmutPage = pk, !.hmut = hm, !.bmutPage = bk, !.bmut = bm] ELSE o)]]]]
Desc(b, pc, pk, hm) == DescB(b, pc, pk, hm, 99, [kind |-> "none"])
NoMut == [kind |-> "none"]

\* the k-th of n slices of a sequence
SliceOf(seq, k, n) == LET idx == SelectSeq([i \in 1..Len(seq) |-> i], LAMBDA i : i % n = k % n) IN [j \in 1..Len(idx) |-> seq[idx[j]]]
Take(seq, m) == SubSeq(seq, 1, IF Len(seq) < m THEN Len(seq) ELSE m)

Init == st = [lvl |-> 0]
Next == \/ st.lvl = 0 /\ st' \in [lvl : {1}, b : Bases]
        \/ st.lvl = 1 /\ st' \in [lvl : {2}, b : {st.b}, fam : {"int", "bin", "drop", "add"}, k : 1..Slices]
        \/ st.lvl = 1 /\ st' \in [lvl : {2}, b : {st.b}, fam : {"page", "body"}, k : 1..Len(BaseLeaves(st.b))]
        \/ st.lvl = 1 /\ st' \in [lvl : {2}, b : {st.b}, fam : {"base"}, k : {1}]

FooterMuts(tree, fam, fsize) ==
    IF fam = "int" THEN
        \* value-major order (all paths with -1, then all paths with 0, with 1, ...): a tier that takes only the head of each
        \* slice still meets every integer field with the most hostile values
        LET ps == PathsOf(tree, <<>>, IntTypes, 3)
            vals(i) == IntValues(GetAt(tree, ps[i]).v, fsize)
        IN Flatten([j \in 1..12 |->
              LET idx == SelectSeq([i \in 1..Len(ps) |-> i], LAMBDA i : Len(vals(i)) >= j)
              IN [k \in 1..Len(idx) |-> [kind |-> "set", path |-> ps[idx[k]],
                                          val |-> [t |-> GetAt(tree, ps[idx[k]]).t, v |-> vals(idx[k])[j]]]]])
    ELSE IF fam = "bin" THEN
        LET ps == PathsOf(tree, <<>>, {"binary"}, 3)
        IN Flatten([i \in 1..Len(ps) |-> LET w == GetAt(tree, ps[i])
                                          IN [j \in 1..Len(BinValues(w.v)) |->
                                                [kind |-> "set", path |-> ps[i], val |-> Bin(BinValues(w.v)[j])]]])
    ELSE IF fam = "add" THEN
        \* an integer field the struct does not carry (ids 1..12): optional fields a writer never sets (num_children of a
        \* leaf, ...), and integers where the reader expects another type; value-major like "int"
        LET ps == PathsOf(tree, <<>>, {"struct"}, 3)
            absent(i) == SelectSeq([id \in 1..12 |-> id], LAMBDA id : ~HasField(GetAt(tree, ps[i]), id))
            vs == <<Word(TRUE, 1), MaxI32, Zero(8)>>
        IN Flatten([j \in 1..Len(vs) |-> Flatten([i \in 1..Len(ps) |->
              [a \in 1..Len(absent(i)) |-> [kind |-> "add", path |-> ps[i], id |-> absent(i)[a], val |-> [t |-> "i32", v |-> vs[j]]]]])])
    ELSE LET ps == SelectSeq(PathsOf(tree, <<>>, IntTypes \cup {"binary", "struct", "list"}, 3), LAMBDA q : q # <<>>)
         IN [i \in 1..Len(ps) |-> [kind |-> "drop", path |-> ps[i], val |-> I(0)]]

MutName(m) == ToString(m.kind) \o ToString(m.path) \o (IF m.kind = "set" /\ m.val.t # "binary" THEN ToString(m.val.v) ELSE IF m.kind = "set" THEN "bin" \o ToString(Len(m.val.v))
                                                       ELSE IF m.kind = "add" THEN "id" \o ToString(m.id) \o ToString(m.val.v) ELSE "")

Emit == st.lvl = 2 =>
    LET d == Desc(st.b, 0, 0, NoMut)
        lay == Layout(d)
        tree == FooterTree(d, lay)
        good == Assemble(lay.bytes, tree, d.sty)
    IN IF st.fam = "base"
       THEN PrintT(ToJson([fam |-> "base", b |-> st.b, file |-> good, footerStart |-> 4 + Len(lay.bytes),
                           leaves |-> BaseLeaves(st.b), chunks |-> [c \in 1..Len(BaseLeaves(st.b)) |-> BaseCont(st.b, c)]]))
       ELSE IF st.fam \in {"int", "bin", "drop", "add"}
       THEN LET ms == Take(SliceOf(FooterMuts(tree, st.fam, Len(good)), st.k, Slices), PerSlice)
            IN PrintT(ToJson([fam |-> st.fam, b |-> st.b, k |-> st.k, data |-> lay.bytes,
                              footers |-> [i \in 1..Len(ms) |-> [m |-> MutName(ms[i]), fb |-> FooterBytes(Apply(tree, ms[i]), d.sty)]]]))
       ELSE IF st.fam = "body"
       THEN \* mutations of the UNCOMPRESSED bodies of column st.k (dictionary page = page 0, data pages 1, 2): every byte
            \* replaced by every byte of a boundary alphabet, truncation at every byte (sizes in the header following / not)
            LET c == st.k
                ch == d.rgs[1].cols[c]
                bodyOf(k) == IF k = 0 THEN PlainEncode(ch.type, ch.dict) ELSE PageBody(ch, ch.pages[k])
                pagesK == (IF Len(ch.dict) > 0 THEN <<0>> ELSE <<>>) \o [k \in 1..Len(ch.pages) |-> k]
                Alpha == <<0, 1, 2, 3, 8, 127, 128, 254, 255>>
                mutsOf(k) == LET n == Len(bodyOf(k))
                             IN Flatten([i \in 1..n |-> SelectSeq([a \in 1..Len(Alpha) |-> [kind |-> "sub", at |-> i, val |-> Alpha[a]]],
                                                                  LAMBDA m : m.val # bodyOf(k)[i])])
                                \o [i \in 1..n |-> [kind |-> "cut", at |-> i - 1, val |-> 0]]
                                \o [i \in 1..n |-> [kind |-> "cutkeep", at |-> i - 1, val |-> 0]]
                                \* compressed bases: the stored stream damaged behind a recomputed checksum
                                \o (IF BaseCodec(st.b) = 0 THEN <<>> ELSE
                                      LET sb == CompressW(BaseCodec(st.b), bodyOf(k))
                                      IN Flatten([i \in 1..Len(sb) |-> SelectSeq([a \in 1..Len(Alpha) |-> [kind |-> "ssub", at |-> i, val |-> Alpha[a]]],
                                                                                 LAMBDA m : m.val # sb[i])])
                                         \o [i \in 1..Len(sb) |-> [kind |-> "scut", at |-> i - 1, val |-> 0]])
                all == Flatten([j \in 1..Len(pagesK) |-> [i \in 1..Len(mutsOf(pagesK[j])) |-> [k |-> pagesK[j], m |-> mutsOf(pagesK[j])[i]]]])
                ms == Take(SliceOf(all, 1, IF PerSlice >= Len(all) THEN 1 ELSE (Len(all) \div PerSlice) + 1), PerSlice)
            IN PrintT(ToJson([fam |-> "page", b |-> st.b, k |-> c,
                              files |-> [i \in 1..Len(ms) |->
                                           [m |-> "body" \o ToString(ms[i].k) \o ToString(ms[i].m.kind) \o ToString(ms[i].m.at) \o "v" \o ToString(ms[i].m.val),
                                            file |-> SerFile(DescB(st.b, c, 99, NoMut, ms[i].k, ms[i].m))]]]))
       ELSE \* page-header mutations of column st.k: every integer field of the header of page 1 and 2
            LET c == st.k
                hdr == DataPage(d.rgs[1].cols[c], d.rgs[1].cols[c].pages[1], FALSE, d.sty).tree
                ps == PathsOf(hdr, <<>>, IntTypes, 3)
                ms == Flatten([i \in 1..Len(ps) |-> LET w == GetAt(hdr, ps[i])
                                                     IN [j \in 1..Len(IntValues(w.v, Len(good))) |->
                                                           [kind |-> "set", path |-> ps[i], val |-> [t |-> w.t, v |-> IntValues(w.v, Len(good))[j]]]]])
                \* ... and of the header of the dictionary page, when the chunk has one (page 0)
                ch == d.rgs[1].cols[c]
                dps == IF Len(ch.dict) > 0 THEN PathsOf(DictPage(ch, d.sty).tree, <<>>, IntTypes, 3) ELSE <<>>
                dms == Flatten([i \in 1..Len(dps) |-> LET w == GetAt(DictPage(ch, d.sty).tree, dps[i])
                                                       IN [j \in 1..Len(IntValues(w.v, Len(good))) |->
                                                             [kind |-> "set", path |-> dps[i], val |-> [t |-> w.t, v |-> IntValues(w.v, Len(good))[j]]]]])
            IN PrintT(ToJson([fam |-> "page", b |-> st.b, k |-> c,
                              files |-> [i \in 1..Len(ms) |-> [m |-> MutName(ms[i]),
                                                               file |-> SerFile(Desc(st.b, c, 1 + (i % 2), ms[i]))]]
                                        \o [i \in 1..Len(dms) |-> [m |-> "dict" \o MutName(dms[i]),
                                                                    file |-> SerFile(Desc(st.b, c, 0, dms[i]))]]]))
=============================================================================
