CONSTANTS
  Types = {4, 5}
  NanGuard = FALSE
  OrdersChecked = {"nanlast"}
INIT Init
NEXT Next
INVARIANTS ImplSound
CHECK_DEADLOCK FALSE
