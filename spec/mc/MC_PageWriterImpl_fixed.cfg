CONSTANTS
 PerBatchBlocks = FALSE
 MaxRows = 9
 PageTarget = 76
INIT Init
NEXT Next
INVARIANT EveryPageDecodes
CHECK_DEADLOCK FALSE
