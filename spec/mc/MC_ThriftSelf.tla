--------------------------- MODULE MC_ThriftSelf ---------------------------
EXTENDS Naturals, Sequences, SequencesExt, TLC, ThriftCompact
VARIABLE st
Styles == [longField : BOOLEAN, longList : BOOLEAN, padVarint : BOOLEAN, falseByte : {0, 2}, padInts : BOOLEAN]
Sample ==
  Struct(<< F(1, I(1)), F(2, INeg(5)), F(3, Bool(TRUE)), F(4, Bool(FALSE)),
            F(7, [t |-> "i64", v |-> <<0,0,0,0,0,0,0,128>>]),
            F(30, Bin(<<104, 105, 0, 255>>)),
            F(31, List("struct", << Struct(<<F(1, Bin(<<>>))>>), Struct(<<>>) >>)),
            F(32, List("bool", <<Bool(TRUE), Bool(FALSE), Bool(TRUE)>>)),
            F(33, List("i32", [i \in 1..20 |-> I(i * 1000)])),
            F(34, [t |-> "map", kt |-> "binary", vt |-> "i16", v |-> << <<Bin(<<1>>), [t |-> "i16", v |-> Ones(8)]>> >>]),
            F(35, [t |-> "map", kt |-> "byte", vt |-> "byte", v |-> <<>>]),
            F(36, [t |-> "double", v |-> <<0,0,0,0,0,0,240,63>>]),
            F(37, [t |-> "uuid", v |-> [i \in 1..16 |-> i]]),
            F(38, [t |-> "byte", v |-> 200]),
            F(300, [t |-> "set", et |-> "i64", v |-> <<L(7)>>]),
            F(5, I(9))       \* ids may go backwards: long form is forced
         >>)
Init == st = [lvl |-> 0]
Next == st.lvl = 0 /\ st' \in [lvl : {1}, sty : Styles]
RoundTrip == st.lvl = 1 =>
    LET bs == TSer(Sample, st.sty)
        r == TParse(<<9>> \o bs \o <<7, 7>>, 2)
    IN r.ok /\ r.v = Sample /\ r.p = Len(bs) + 2
\* the native-integer fast paths agree with the limb-wise definitions
FastWords == { FromNat(n, 8) : n \in {0, 1, 63, 64, 8191, 8192, 1073741823, 1073741824, 2147483647} }
             \cup { Neg(FromNat(n, 8)) : n \in {1, 64, 65, 1073741823, 1073741824, 1073741825, 2147483647} }
             \cup { <<0,0,0,128,0,0,0,0>>, <<0,0,0,0,0,0,0,128>>, <<255,255,255,255,255,255,255,127>>, <<0,0,0,0,1,0,0,0>> }
FastPaths == \A w \in FastWords :
                /\ ZzWord(w) = ZzWordSlow(w)
                /\ ZzParse(ZzWord(w), 1) = ZzParseSlow(ZzWord(w), 1)
                /\ ZzParse(ZzWord(w), 1).v = w
                /\ ZzParse(PadVar(ZzWord(w)), 1) = ZzParseSlow(PadVar(ZzWord(w)), 1)
\* ... on arbitrary bytes too (well-formed or not): every first byte x a set of second bytes, and
\* 5/6-byte encodings around the 31-bit limit of the native path
FastBytes ==
    /\ \A b1 \in {b \in 0..255 : b % 4 < 2} : ZzParse(<<b1>>, 1) = ZzParseSlow(<<b1>>, 1)
    /\ \A b1 \in {b \in 0..255 : b % 16 = 0 \/ b \in {1, 127, 129, 254, 255}} : \A b2 \in {0, 1, 2, 127, 128, 129, 255} :
          ZzParse(<<b1, b2>>, 1) = ZzParseSlow(<<b1, b2>>, 1)
    /\ \A b1 \in {0, 127} : \A b2 \in {0, 1, 128, 255} : \A y \in {0, 7, 8, 127, 128, 255} :
          /\ ZzParse(<<b2, 128 + b1, 255, 128, y>>, 1) = ZzParseSlow(<<b2, 128 + b1, 255, 128, y>>, 1)
          /\ ZzParse(<<128 + b1, 255, 128, 255, 128 + (y % 128), b2>>, 1)
                = ZzParseSlow(<<128 + b1, 255, 128, 255, 128 + (y % 128), b2>>, 1)
Vectors ==
    /\ (st.lvl = 0 => FastPaths /\ FastBytes)          \* constant: evaluate once
    /\ TSer(Struct(<<F(1, I(1))>>), DefaultStyle) = <<21, 2, 0>>
    /\ TSer(Struct(<<F(1, Bool(TRUE)), F(2, Bool(FALSE))>>), DefaultStyle) = <<17, 18, 0>>
    /\ TSer(Struct(<<F(16, I(0))>>), DefaultStyle) = <<5, 32, 0, 0>>
    /\ TSer(Struct(<<F(1, List("i32", <<I(1), INeg(1)>>))>>), DefaultStyle) = <<25, 37, 2, 1, 0>>
    /\ ~TParse(<<21, 2>>, 1).ok /\ ~TParse(<<25, 245>>, 1).ok /\ ~TParse(<<31, 0>>, 1).ok
    \* truncation at every byte of the sample is rejected
    /\ LET bs == TSer(Sample, DefaultStyle) IN \A k \in 0..(Len(bs) - 1) : ~TParse(SubSeq(bs, 1, k), 1).ok
=============================================================================
