--------------------------- MODULE MC_CodecCases ---------------------------
(* Case generator for C09 (and the inputs of C10's compress direction, C08's mutation      *)
(* bases): TLC enumerates LZ-structured input descriptors of Codec.tla                     *)
(*     <<L(n, seed) | R(off, len)>>*  [pad to a total size]                                *)
(* over boundary parameters, times codec configuration, times destination capacity.       *)
(* BFS gives the full product for the given constants; `-simulate` samples longer lists.   *)
EXTENDS CodecDesc, TLC, Json
CONSTANTS LitLens,    \* literal run lengths
          RepOffs,    \* repeat offsets
          RepLens,    \* repeat lengths
          Pads,       \* set of <<total, kind>>, kind \in {"none", "lit", "run", "period"}
          MaxSegs,    \* segments before padding
          MaxTotal,   \* cap on the expanded size before padding
          Configs,    \* set of <<codec, level>>
          CapSels     \* subset of {"0", "1", "bm1", "b", "bp1"}
VARIABLE d

Init == d = [stage |-> "build", segs |-> <<>>]

LastIsLit(s) == s # <<>> /\ s[Len(s)].t = "L"

AddLit(n) == /\ ~LastIsLit(d.segs)
             /\ d' = [d EXCEPT !.segs = Append(@, DL(n, Len(d.segs) + 1))]
AddRep(off, len) == /\ off <= DescLen(d.segs)
                    /\ d' = [d EXCEPT !.segs = Append(@, DR(off, len))]

Padded(segs, pad) ==
    LET n == DescLen(segs)
        k == pad[1] - n
    IN IF pad[2] = "none" THEN segs
       ELSE IF pad[2] = "lit" THEN Append(segs, DL(k, 77))
       ELSE IF pad[2] = "run" THEN Append(segs, DR(1, k))
       ELSE Append(segs, DR(n, k))                                   \* "period": repeat everything so far
PadOk(segs, pad) == \/ pad[2] = "none"
                    \/ /\ pad[1] > DescLen(segs)
                       /\ (pad[2] \in {"run", "period"} => DescLen(segs) >= 1)

Next == \/ /\ d.stage = "build" /\ Len(d.segs) < MaxSegs
           /\ \/ \E n \in LitLens : DescLen(d.segs) + n <= MaxTotal /\ AddLit(n)
              \/ \E o \in RepOffs, l \in RepLens : DescLen(d.segs) + l <= MaxTotal /\ AddRep(o, l)
        \/ /\ d.stage = "build"
           /\ \E p \in Pads : PadOk(d.segs, p) /\ d' = [stage |-> "padded", segs |-> Padded(d.segs, p)]
        \/ /\ d.stage = "padded"
           /\ \E cf \in Configs, cs \in CapSels :
                 d' = [stage |-> "picked", segs |-> d.segs, codec |-> cf[1], level |-> cf[2], cap |-> cs]
        \* the single successor of a picked case is where it is emitted (in simulation mode TLC
        \* evaluates invariants on every enabled successor but follows only one)
        \/ /\ d.stage = "picked"
           /\ d' = [d EXCEPT !.stage = "emit"]

(* ---- named constant sets (the .cfg language has no tuples): used as  X <- Name ------- *)
PadNone   == {<<0, "none">>}
PadTiny   == {<<0, "none">>} \cup {<<t, k>> : t \in {12, 13, 14, 15, 16, 17, 30}, k \in {"lit", "run", "period"}}
PadBlock  == {<<t, k>> : t \in {65535, 65536, 65537, 131071, 131072, 131073}, k \in {"lit", "run", "period"}}
PadHuge   == {<<3145728, k>> : k \in {"lit", "run", "period"}}
PadTail   == {<<0, "none">>}     \* (tails are literal segments in the C10 profile)
GzLevels  == 1..9
ZsLevels  == 1..22
CfgLz     == {<<"snappy", 0>>, <<"lz4", 0>>}
CfgAll    == CfgLz \cup {<<"gzip", l>> : l \in GzLevels} \cup {<<"zstd", l>> : l \in ZsLevels}
CfgFew    == CfgLz \cup {<<"gzip", l>> : l \in {1, 6, 9}} \cup {<<"zstd", l>> : l \in {1, 3, 19, 22}}
CfgEdge   == CfgLz \cup {<<"gzip", l>> : l \in {1, 9}} \cup {<<"zstd", l>> : l \in {1, 22}}
CapAll    == {"0", "1", "bm1", "b", "bp1"}
CapB      == {"b"}
CapTight  == {"bm1", "b"}

WellFormed == DescOk(d.segs)
Emit == PrintT(ToJson([desc |-> d.segs, n |-> DescLen(d.segs), codec |-> d.codec, level |-> d.level, cap |-> d.cap]))
EmitInv == WellFormed /\ (d.stage # "emit" \/ Emit)
=============================================================================
