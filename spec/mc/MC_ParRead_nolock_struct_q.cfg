CONSTANTS
  NTasks = 2
  PreThreads = 2
  MainThreads = 2
  MCPre = 1
  MCMain = 0
  Lock = FALSE
  Record = FALSE
  PreSteps <- MCPreSteps
  MainSteps <- MCMainSteps
SPECIFICATION Spec
INVARIANTS StructInv
PROPERTIES NoLostTask Termination
