CONSTANTS
  Types = {1, 2, 4, 5, 6, 7}
  NanGuard = TRUE
  OrdersChecked = {"std", "nanlast", "nanfirst"}
INIT Init
NEXT Next
INVARIANTS ImplSound ImplRefinesMight
CHECK_DEADLOCK FALSE
