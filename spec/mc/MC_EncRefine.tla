---------------------------- MODULE MC_EncRefine ----------------------------
(* Model check HybridEnc (all Put sequences up to MaxLen over Alphabet, Flush at any point)  *)
(* against the format: INVARIANT Refine. With EmitCases = TRUE every reachable state is also *)
(* printed as a case: the consumed values, the bytes the modelled encoder writes, and        *)
(* whether the refinement holds in that state (so the exploration can continue past a        *)
(* design error and count how many sequences it affects).                                    *)
EXTENDS HybridEnc, TLC, Json
CONSTANTS BW, Alphabet, MaxLen, Variant, EmitCases
VARIABLES st, consumed
vars == <<st, consumed>>

Init == st = EncInit /\ consumed = <<>>
Put(v) == /\ Len(consumed) < MaxLen
          /\ st' = PutStep(st, v, Variant)
          /\ consumed' = Append(consumed, v)
Next == \E v \in Alphabet : Put(v)

Refine == Refines(st, consumed, BW, Variant)
ExactInv == Exact(st, consumed)

ModelOf(variant) == LET runs == EncodeRuns(consumed, variant)
                        bs == Ser(runs, BW)
                        r == Parse(bs, 1, Len(bs), BW, Len(consumed))
                    IN [bytes |-> bs, refines |-> (r.ok /\ r.vals = consumed)]
Emit == PrintT(ToJson([kind |-> "hyb", bw |-> BW, vals |-> consumed,
                        pad |-> ModelOf("pad"), fill |-> ModelOf("fill")]))
EmitInv == ~EmitCases \/ Emit
=============================================================================
