CONSTANTS
  NThreads = 3
  K = 2
  Apis = {"cpu", "kernel"}
  Rezero = TRUE
  PublishEarly = FALSE
SPECIFICATION Spec
INVARIANTS UseSeesFinalEquivalent
PROPERTIES EveryCallReturns
CHECK_DEADLOCK FALSE
