CONSTANTS
  Types = {0, 1, 2, 3, 4, 5, 6, 7}
  SetData = TRUE
  Alpha2 = {0, 127, 128, 255}
INIT Init
NEXT Next
INVARIANTS Sound1 SoundSets SoundAbsent Tight MinMaxOk OverlapOk OrderOk FilterOk
CHECK_DEADLOCK FALSE
