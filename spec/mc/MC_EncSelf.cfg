CONSTANT Quick = FALSE
INIT Init
NEXT Next
INVARIANT Ok
CHECK_DEADLOCK FALSE
