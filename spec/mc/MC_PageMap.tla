---------------------------- MODULE MC_PageMap ----------------------------
(* Emits, for every file in the trace, the page body ranges found by the reference reader  *)
(* (used to enumerate damage positions "inside the stored bytes of a page body").          *)
(* layout = TRUE: page headers and sizes only, bodies opaque (codecs without a TLA+ model).  *)
EXTENDS ParquetFile, TLC, Json, IOUtils
VARIABLE i
Files == ndJsonDeserialize(IOEnv.TRACE)
Init == i = 0
Next == i < Len(Files) /\ i' = i + 1
Emit == i = 0 \/ LET f == IF Files[i].layout THEN ParseLayout(Files[i].bytes) ELSE ParseFile(Files[i].bytes) IN
          PrintT(ToJson([id |-> Files[i].id, ok |-> f.ok,
                         pages |-> IF ~f.ok THEN <<>> ELSE
                            Flatten([g \in 1..Len(f.rgs) |-> Flatten([c \in 1..Len(f.rgs[g].cols) |->
                               [k \in 1..Len(f.rgs[g].cols[c].pages) |->
                                  [g |-> g - 1, c |-> c - 1, k |-> k, first |-> f.rgs[g].cols[c].pages[k].off + f.rgs[g].cols[c].pages[k].hdrLen,
                                   len |-> f.rgs[g].cols[c].pages[k].clen, kind |-> f.rgs[g].cols[c].pages[k].kind,
                                   hasCrc |-> f.rgs[g].cols[c].pages[k].hasCrc, crcOk |-> f.rgs[g].cols[c].pages[k].crcOk]]])])]))
=============================================================================
