---------------------------- MODULE MC_ParReadGen ----------------------------
(* Schedule generator / schedule-driven executor for ParRead, instantiated from a recorded    *)
(* num_threads = 1 run of the real code (trace-driven instantiation): IOEnv.CASE is a JSON    *)
(* file {n, preT, mainT, lock, pre: [[{k,a}..]..], main: [...], mode, plans, pairPhase,      *)
(* pairTasks}.                                                                                *)
(*                                                                                            *)
(* The history variable `sched` makes states = schedule prefixes, so the terminal states are  *)
(* exactly the schedules (total orders of the I/O steps SH/RH/SB/RB of all tasks). Local      *)
(* steps (claim, decode, publish, barrier) commute with everything and are therefore taken    *)
(* eagerly (GenNext), which removes them from the enumeration without losing any order of     *)
(* I/O steps. Every emitted schedule carries the model's predictions:                         *)
(*   bad   = index of the first read that returns foreign bytes (0 = every read returns its   *)
(*           own bytes, EveryReadReturnsItsOwnBytes holds along the schedule)                 *)
(*   lockv = index of the first I/O step a seek+read lock forbids (0 = admitted by the lock)  *)
(* mode "all"   : every schedule (BFS) or random ones (-simulate)                             *)
(* mode "pair"  : for every ordered pair of tasks (x, y) of one phase and every cut i inside  *)
(*                x and prefix j of y: x[1..i] y[1..j] x[i+1..] y[j+1..], all other tasks     *)
(*                sequential - every point of y is placed between every two adjacent points   *)
(*                of x                                                                        *)
(* mode "given" : the schedules listed in the case (replay / prediction for a known schedule) *)
EXTENDS ParRead, Json, IOUtils
VARIABLE plan
Case == JsonDeserialize(IOEnv.CASE)
GenN == Case.n
GenPreT == Case.preT
GenMainT == Case.mainT
GenLock == Case.lock
GenPre == Case.pre
GenMain == Case.main

IOOf(steps) == SelectSeq(steps, IsIO)
NIo(ph, t) == Len(IOOf(Steps(ph, t)))
Rep(t, k) == [j \in 1..k |-> t]
RECURSIVE SeqTasks(_, _, _)
SeqTasks(ph, ts, skip) ==      \* tasks ts (a sequence) one after the other, except those in skip
    IF ts = <<>> THEN <<>>
    ELSE (IF Head(ts) \in skip THEN <<>> ELSE Rep(Head(ts), NIo(ph, Head(ts)))) \o SeqTasks(ph, Tail(ts), skip)
Rng(a, b) == [j \in 1..(IF b >= a THEN b - a + 1 ELSE 0) |-> a + j - 1]
SeqPhase(ph) == SeqTasks(ph, Rng(1, NTasks), {})
\* all tasks claimed before max(x, y) have to be finished or be x / y themselves; tasks after run last
PairPhase(ph, x, y, ci, cj) ==
    LET hi == IF x > y THEN x ELSE y
    IN SeqTasks(ph, Rng(1, hi), {x, y})
       \o Rep(x, ci) \o Rep(y, cj) \o Rep(x, NIo(ph, x) - ci) \o Rep(y, NIo(ph, y) - cj)
       \o SeqTasks(ph, Rng(hi + 1, NTasks), {})
PairTasks == {Case.pairTasks[j] : j \in DOMAIN Case.pairTasks}     \* tasks whose pairs are enumerated
PairPlans(ph) ==
    { IF ph = "pre" THEN PairPhase("pre", x, y, ci, cj) \o SeqPhase("main")
                    ELSE SeqPhase("pre") \o PairPhase("main", x, y, ci, cj)
      : <<x, y, ci, cj>> \in { q \in PairTasks \X PairTasks \X (1..64) \X (1..64) :
                               /\ q[1] # q[2] /\ q[3] < NIo(ph, q[1]) /\ q[4] <= NIo(ph, q[2]) } }
PlanSet == CASE Case.mode = "all" -> {<<>>}
             [] Case.mode = "pair" -> IF Case.pairPhase = "both" THEN PairPlans("pre") \cup PairPlans("main")
                                      ELSE PairPlans(Case.pairPhase)
             [] Case.mode = "given" -> {p : p \in {Case.plans[j] : j \in DOMAIN Case.plans}}

gvars == <<vars, plan>>
GenInit == Init /\ plan \in PlanSet

CurStep(s) == Steps(phase[s], my[s])[i[s]]
Local(s) == \/ pc[s] \in {"Claim", "EndPhase", "Finish"}
            \/ pc[s] = "Barrier" /\ arrived = MainThreads
            \/ pc[s] = "Step" /\ (i[s] > Len(Steps(phase[s], my[s])) \/ ~IsIO(CurStep(s)))
GenNext ==
    /\ UNCHANGED plan
    /\ IF \E s \in Threads : Local(s)
       THEN LET s == CHOOSE s \in Threads : Local(s) /\ \A r \in Threads : Local(r) => s <= r IN w(s)
       ELSE \E s \in Threads : /\ pc[s] = "Step"
                               /\ (plan = <<>> \/ (nio < Len(plan) /\ plan[nio + 1] = my[s]))
                               /\ w(s)
GenSpec == GenInit /\ [][GenNext]_gvars

Terminal == \A s \in Threads : pc[s] = "Done"
Emit == Terminal => PrintT(ToJson([sched |-> sched, bad |-> bad, lockv |-> lockv]))
\* sanity of the executor itself (never about the implementation); the content invariants are
\* model-checked in MC_ParRead, here they are evaluated on the complete schedule only
GenInv == /\ TypeOK /\ QueueOK /\ PhaseOrder
          /\ Terminal => /\ AllDone /\ ReadsAreTheSequentialReads
                          /\ (bad = 0 => EveryReadReturnsItsOwnBytes /\ result = SeqResult)
                          /\ (bad # 0 => ~EveryReadReturnsItsOwnBytes)
                          /\ (Lock => bad = 0 /\ lockv = 0)
=============================================================================
