---------------------------- MODULE MC_Lz4Bytes ----------------------------
(* Every byte string over an alphabet of LZ4 boundary bytes up to MaxLen, judged by the     *)
(* reference decoder Lz4.DecodeInto for several destination capacities (C10 rejection of    *)
(* invalid blocks on minimal streams; C08 grammar-based generation, prefix-closed).         *)
EXTENDS Lz4, TLC, Json
CONSTANTS MaxLen, Alphabet, Caps
VARIABLE c

Init == c = <<>>
Next == Len(c) < MaxLen /\ \E b \in Alphabet : c' = Append(c, b)

\* exp: "accept" (must), "reject" (must), "lenient" (parsable but breaks an end-of-block
\* rule / stray nibble: accept with exactly `out`, or reject), "open" (empty input)
Judge(bs, cap) ==
    LET d == DecodeInto(bs, cap) IN
    IF d.ok THEN [cap |-> cap, exp |-> IF d.strict THEN "accept" ELSE "lenient", out |-> d.out, why |-> ""]
    ELSE IF d.why = "empty-block" THEN [cap |-> cap, exp |-> "open", out |-> <<>>, why |-> d.why]
    \* a block that is only too large for the destination but breaks an end rule may be
    \* rejected for either reason: still a rejection
    ELSE [cap |-> cap, exp |-> "reject", out |-> <<>>, why |-> d.why]

Emit == PrintT(ToJson([fmt |-> "lz4", s |-> c, j |-> [cap \in Caps |-> Judge(c, cap)]]))
EmitInv == Emit
=============================================================================
