---------------------------- MODULE MC_Lz4Trace ----------------------------
(* C10, direction carquet-compress -> spec-decode, LZ4 (trace validation style).            *)
(* Every logged block {"id", "x", "c"} must parse as an LZ4 block, execute (offsets inside   *)
(* the output), decode to exactly the logged input, and obey the end-of-block rules of the   *)
(* format document (they bind the compressor).                                               *)
EXTENDS Lz4, TLC, Json, IOUtils
CONSTANT Group
VARIABLE i

Cases == ndJsonDeserialize(IOEnv.CASES)
N == Len(Cases)

Init == i = [k |-> "start"]
Next == \/ /\ i.k = "start" /\ N > 0
           /\ i' \in [k : {"grp"}, g : 0..((N - 1) \div Group)]
        \/ /\ i.k = "grp"
           /\ i' \in [k : {"case"}, n : ((i.g * Group) + 1)..(IF (i.g + 1) * Group < N THEN (i.g + 1) * Group ELSE N)]

Stats(seqs) == [nseq |-> Len(seqs),
                litext |-> Cardinality({j \in 1..Len(seqs) : CLen(seqs[j].lit) >= 15}),
                mlext |-> Cardinality({j \in 1..Len(seqs) : seqs[j].ml >= 19}),
                overlap |-> Cardinality({j \in 1..Len(seqs) : HasMatch(seqs[j]) /\ seqs[j].off < seqs[j].ml})]
NoStats == [nseq |-> 0, litext |-> 0, mlext |-> 0, overlap |-> 0]

\* large inputs: element-wise with Lz4.Against (same verdicts as the full decode, linear time)
VerdictBig(r) ==
    LET p == Parse(r.c) IN
    IF ~p.ok THEN [id |-> r.id, v |-> "invalid-block", why |-> p.why, st |-> NoStats]
    ELSE IF Check(p.seqs) # "ok" THEN [id |-> r.id, v |-> "invalid-block", why |-> Check(p.seqs), st |-> Stats(p.seqs)]
    ELSE LET a == Against(p.seqs, r.x) IN
         IF a # "ok" THEN [id |-> r.id, v |-> "decodes-to-different-bytes", why |-> a, st |-> Stats(p.seqs)]
         ELSE IF ~EndRules(p.seqs) THEN [id |-> r.id, v |-> "end-of-block-rule-broken", why |-> FirstBrokenEndRule(p.seqs), st |-> Stats(p.seqs)]
         ELSE [id |-> r.id, v |-> "ok", why |-> IF p.nib # 0 THEN "stray-nibble" ELSE "", st |-> Stats(p.seqs)]

BigLimit == 4096
Verdict(r) ==
    IF Len(r.x) > BigLimit THEN VerdictBig(r) ELSE
    LET p == Parse(r.c)
        d == Decode(r.c)
    IN IF ~d.ok THEN [id |-> r.id, v |-> "invalid-block", why |-> d.why, st |-> NoStats]
       ELSE IF d.out # r.x THEN [id |-> r.id, v |-> "decodes-to-different-bytes", why |-> "", st |-> Stats(p.seqs)]
       ELSE IF ~EndRules(p.seqs) THEN [id |-> r.id, v |-> "end-of-block-rule-broken", why |-> FirstBrokenEndRule(p.seqs), st |-> Stats(p.seqs)]
       \* (a non-zero match nibble in the last token is not ruled out by the document: noted only)
       ELSE [id |-> r.id, v |-> "ok", why |-> IF p.nib # 0 THEN "stray-nibble" ELSE "", st |-> Stats(p.seqs)]

EmitInv == i.k # "case" \/ PrintT(ToJson(Verdict(Cases[i.n])))
=============================================================================
