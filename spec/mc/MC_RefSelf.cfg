INIT Init
NEXT Next
INVARIANT RoundTripOk
CHECK_DEADLOCK FALSE
