CONSTANTS
  NThreads = 3
  K = 2
  Apis = {"crc"}
  Rezero = TRUE
  PublishEarly = FALSE
SPECIFICATION Spec
INVARIANTS UseSeesFinalEquivalent CrcNeverGarbage
PROPERTIES EveryCallReturns
CHECK_DEADLOCK FALSE
