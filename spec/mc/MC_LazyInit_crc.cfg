CONSTANTS
  NThreads = 3
  K = 2
  Apis = {"crc"}
  PublishEarly = FALSE
SPECIFICATION Spec
INVARIANTS UseSeesFinalEquivalent CrcNeverGarbage
PROPERTIES EveryCallReturns
CHECK_DEADLOCK FALSE
