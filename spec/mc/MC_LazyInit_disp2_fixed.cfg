CONSTANTS
  NThreads = 2
  K = 2
  Apis = {"cpu", "kernel"}
  Rezero = FALSE
  PublishEarly = FALSE
SPECIFICATION Spec
INVARIANTS UseSeesFinalEquivalent CpuInfoStable
PROPERTIES EveryCallReturns
CHECK_DEADLOCK FALSE
