CONSTANTS
  NThreads = 2
  K = 2
  Apis = {"kernel"}
  Rezero = TRUE
  PublishEarly = TRUE
SPECIFICATION Spec
INVARIANTS UseSeesFinalEquivalent
PROPERTIES EveryCallReturns
CHECK_DEADLOCK FALSE
