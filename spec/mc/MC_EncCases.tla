---------------------------- MODULE MC_EncCases ----------------------------
(* Case generator for C11 / C12(a): value sequences for every encoding family.               *)
(* Two levels (group, then case) so TLC's workers share the work. Each case is printed as    *)
(* one JSON object carrying the concrete values (and, where the encoding has one canonical   *)
(* form, the bytes the format prescribes).                                                    *)
(*   hyb    run-structured sequences for the RLE/bit-packed hybrid, widths 0..32              *)
(*   bp     raw bit packing (values, expected packed bytes)                                   *)
(*   bitw   bit_writer / bit_reader item streams (per-item widths 1..64)                      *)
(*   plain  PLAIN for the 8 physical types                                                    *)
(*   delta  DELTA_BINARY_PACKED INT32 / INT64                                                 *)
(*   dlen, dstr  DELTA_LENGTH_BYTE_ARRAY, DELTA_BYTE_ARRAY                                    *)
(*   bss    BYTE_STREAM_SPLIT widths 1..16 x counts 0..70                                     *)
(*   dict   dictionary encoding, dictionary sizes 1, 2, 255, 256, 257                         *)
EXTENDS Naturals, Sequences, SequencesExt, FiniteSets, TLC, Json, HybridEnc
P == INSTANCE Plain
B == INSTANCE Bss
DE == INSTANCE DictEnc
CONSTANTS Families, Thorough
VARIABLE c

\* ------------------------------------------------------------------ hybrid
HybWidths == IF Thorough THEN 0..32 ELSE {0, 1, 2, 3, 7, 8, 9, 15, 16, 17, 24, 31, 32}
RL == IF Thorough THEN {1, 2, 3, 7, 8, 9, 10, 15, 16, 17} ELSE {1, 2, 7, 8, 9, 17}
MaxRuns == 3
MaxTotal == 24
\* token j of width bw as a 4-limb word
Tok(bw, j) == IF bw = 0 THEN Zero(4)
              ELSE IF j % 3 = 0 THEN MaxW(bw, 4) ELSE IF j % 3 = 1 THEN Zero(4)
              ELSE IF bw = 1 THEN FromNat(1, 4) ELSE MaskW(<<165, 90, 60, 129>>, bw)
RunLists == UNION {[1..k -> RL] : k \in 1..MaxRuns}
Sum(f) == FoldLeft(LAMBDA a, x : a + x, 0, f)
HybVals(bw, rl, shift) == Flatten([j \in 1..Len(rl) |-> [i \in 1..rl[j] |-> Tok(bw, j + shift)]])

\* ------------------------------------------------------------------ bit packing
BpCounts == {0, 1, 5, 7, 8, 9, 16, 17, 33}
BpVal(bw, i, pat) == IF pat = 0 THEN MaxW(bw, 4)
                     ELSE IF pat = 1 THEN (IF i % 2 = 0 THEN MaxW(bw, 4) ELSE Zero(4))
                     ELSE MaskW(Mul(FromNat(i + 1, 4), <<177, 121, 55, 158>>), bw)

\* item streams for the bit writer: mode 0 = constant width w; mode 1 = widths cycling w, 1, 32-ish
ItemW(w, i, mode) == IF mode = 0 THEN w ELSE IF i % 3 = 0 THEN w ELSE IF i % 3 = 1 THEN 1 + ((w * 7) % 31) ELSE 1 + ((w + i) % 32)
ItemV(w, i) == MaskW(IF i % 4 = 3 THEN Zero(8) ELSE IF i % 4 = 1 THEN Ones(8) ELSE Mul(FromNat(i + 3, 8), <<21, 124, 74, 127, 185, 121, 55, 158>>), w)
Items(w, n, mode) == [i \in 1..n |-> [w |-> ItemW(w, i, mode), v |-> ItemV(ItemW(w, i, mode), i)]]

\* ------------------------------------------------------------------ PLAIN
PlainCounts == {0, 1, 2, 7, 8, 9, 17, 64}
Special(t) == \* boundary bit patterns per type (little-endian bytes)
    CASE t = 1 -> << <<0,0,0,0>>, <<1,0,0,0>>, <<255,255,255,255>>, <<0,0,0,128>>, <<255,255,255,127>>, <<4,3,2,1>> >>
      [] t = 2 -> << <<0,0,0,0,0,0,0,0>>, <<255,255,255,255,255,255,255,255>>, <<0,0,0,0,0,0,0,128>>, <<255,255,255,255,255,255,255,127>>, <<8,7,6,5,4,3,2,1>> >>
      [] t = 3 -> << <<0,0,0,0,0,0,0,0,0,0,0,0>>, <<1,2,3,4,5,6,7,8,9,10,11,12>>, <<255,255,255,255,255,255,255,255,255,255,255,255>> >>
      [] t = 4 -> << <<0,0,0,0>>, <<0,0,0,128>>, <<0,0,192,63>>, <<0,0,128,127>>, <<0,0,128,255>>, <<0,0,192,127>>, <<1,0,160,127>>, <<1,0,192,255>>, <<1,0,0,0>> >>
      [] t = 5 -> << <<0,0,0,0,0,0,0,0>>, <<0,0,0,0,0,0,0,128>>, <<0,0,0,0,0,0,248,63>>, <<0,0,0,0,0,0,240,127>>, <<0,0,0,0,0,0,248,127>>, <<1,0,0,0,0,0,244,127>>, <<1,0,0,0,0,0,0,0>> >>
      [] t = 6 -> << <<>>, <<97>>, <<97,0,98>>, <<255>>, [i \in 1..300 |-> 120], <<0>> >>
      [] OTHER -> <<>>
PlainVals(t, tlen, n, pat) ==
    IF t = 0 THEN [i \in 1..n |-> IF pat = 0 THEN i % 2 ELSE IF pat = 1 THEN 1 ELSE ((i * i) \div 3) % 2]
    ELSE IF t = 7 THEN [i \in 1..n |-> [j \in 1..tlen |-> IF pat = 0 THEN 0 ELSE IF pat = 1 THEN 255 ELSE (i * 16 + j) % 256]]
    ELSE LET sp == Special(t) IN [i \in 1..n |-> sp[((i + pat) % Len(sp)) + 1]]

\* ------------------------------------------------------------------ DELTA_BINARY_PACKED
DeltaLens == IF Thorough THEN {0, 1, 2, 3, 32, 33, 34, 64, 65, 128, 129, 130, 161, 256, 257, 258}
             ELSE {0, 1, 2, 32, 33, 128, 129, 130, 256, 257}
DeltaWidths(L) == IF L = 4 THEN (IF Thorough THEN 0..32 ELSE {0, 1, 2, 7, 8, 9, 16, 31, 32})
                  ELSE (IF Thorough THEN 0..64 ELSE {0, 1, 31, 32, 33, 34, 40, 47, 63, 64})
MinW(L) == [i \in 1..L |-> IF i = L THEN 128 ELSE 0]
MaxSW(L) == [i \in 1..L |-> IF i = L THEN 127 ELSE 255]
\* a sequence whose block deltas need exactly w bits after subtracting the minimum:
\*   shape 0: deltas alternate 2^w - 1, 0 (min delta 0)
\*   shape 1: deltas alternate -(2^(w-1)), 2^(w-1) - 1 (negative min delta)
\*   shape 2: one big delta per miniblock of 32 (other miniblocks of the block stay narrow)
DeltaOf(w, L, shape, i) ==
    IF w = 0 THEN FromNat(3, L)
    ELSE IF shape = 0 THEN (IF i % 2 = 1 THEN MaxW(w, L) ELSE Zero(L))
    ELSE IF shape = 1 THEN (IF i % 2 = 1 THEN Neg(Shl(FromNat(1, L), w - 1)) ELSE MaxW(w - 1, L))
    ELSE (IF i % 32 = 5 /\ (i \div 32) % 2 = 0 THEN MaxW(w, L) ELSE IF i % 7 = 0 THEN FromNat(1, L) ELSE Zero(L))
DeltaSeq(w, L, shape, n, start) ==
    IF n = 0 THEN <<>>
    ELSE FoldLeft(LAMBDA a, i : Append(a, Add(a[Len(a)], DeltaOf(w, L, shape, i))), <<start>>, [i \in 1..(n - 1) |-> i])
\* special sequences: extremes and wrap-around
SpecialSeq(L, k, n) ==
    [i \in 1..n |-> CASE k = 0 -> IF i % 2 = 1 THEN MinW(L) ELSE MaxSW(L)         \* MIN, MAX, MIN ...
                      [] k = 1 -> IF i % 2 = 1 THEN MaxSW(L) ELSE MinW(L)
                      [] k = 2 -> IF i % 3 = 0 THEN Ones(L) ELSE IF i % 3 = 1 THEN MaxSW(L) ELSE MinW(L)
                      [] k = 3 -> Mul(FromNat(i, L), [j \in 1..L |-> (<<21, 124, 74, 127, 185, 121, 55, 158>>)[j]])   \* wraps repeatedly
                      [] OTHER -> IF i = n THEN MinW(L) ELSE FromNat(i, L)]

\* ------------------------------------------------------------------ strings
StrCounts == IF Thorough THEN {0, 1, 2, 3, 32, 33, 129, 130, 257} ELSE {0, 1, 2, 3, 33, 130}
Word(i) == LET base == <<112, 114, 101, 102, 105, 120>>            \* "prefix"
           IN SubSeq(base, 1, 1 + (i % 6)) \o [j \in 1..(i % 4) |-> 97 + ((i + j) % 26)]
StrPat(k, i) == CASE k = 0 -> <<>>
                  [] k = 1 -> <<104, 105>>                                     \* all equal
                  [] k = 2 -> Word(i)                                          \* shared prefixes growing / shrinking
                  [] k = 3 -> [j \in 1..((i * 37) % 70) |-> (i + j) % 256]     \* binary, lengths 0..69
                  [] k = 4 -> IF i % 5 = 0 THEN [j \in 1..300 |-> 120] ELSE IF i % 5 = 1 THEN [j \in 1..299 |-> 120] \o <<121>> ELSE <<120>>
                  [] k = 5 -> IF i % 2 = 0 THEN <<0, 255>> ELSE <<0, 255, 0, 1>>
                  [] OTHER -> [j \in 1..(i % 3) |-> 0]
Strs(k, n) == [i \in 1..n |-> StrPat(k, i)]

\* ------------------------------------------------------------------ BYTE_STREAM_SPLIT
BssVals(K, n) == [i \in 1..n |-> [j \in 1..K |-> (i * 16 + j * 17 + (i \div 16)) % 256]]

\* ------------------------------------------------------------------ dictionary
DictSizes == {1, 2, 255, 256, 257}
DictTypes == {1, 2, 4, 5, 6}
\* distinct value number x (0-based) of type t
DictVal(t, x) == IF t = 6 THEN (IF x = 0 THEN <<>> ELSE [j \in 1..(1 + (x % 3)) |-> IF j = 1 THEN x % 256 ELSE (x \div 256) + j])
                 ELSE [j \in 1..P!Width(t, 0) |-> IF j = 1 THEN x % 256 ELSE IF j = 2 THEN x \div 256 ELSE IF j = P!Width(t, 0) THEN 128 + (x % 2) * 63 ELSE 0]
\* index sequences: every entry once, then patterns with long and short runs
DictIdx(D, pat) ==
    LET all == [i \in 1..D |-> i - 1]
    IN IF pat = 0 THEN all
       ELSE IF pat = 1 THEN all \o [i \in 1..20 |-> IF i <= 9 THEN D - 1 ELSE IF i <= 12 THEN 0 ELSE (i * 7) % D]
       ELSE [i \in 1..3 |-> 0] \o all \o [i \in 1..11 |-> (D - 1) \div 2] \o <<0, D - 1>>

\* ------------------------------------------------------------------ state machine
Init == c = [lvl |-> 0]
Groups ==
    (IF "hyb" \in Families THEN [lvl : {1}, f : {"hyb"}, bw : HybWidths] ELSE {})
    \cup (IF "bp" \in Families THEN [lvl : {1}, f : {"bp"}, bw : 0..32] ELSE {})
    \cup (IF "bitw" \in Families THEN [lvl : {1}, f : {"bitw"}, bw : 1..64] ELSE {})
    \cup (IF "plain" \in Families THEN [lvl : {1}, f : {"plain"}, t : 0..7] ELSE {})
    \cup (IF "delta" \in Families THEN [lvl : {1}, f : {"delta"}, L : {4, 8}, n : DeltaLens] ELSE {})
    \cup (IF "str" \in Families THEN [lvl : {1}, f : {"str"}, k : 0..6] ELSE {})
    \cup (IF "bss" \in Families THEN [lvl : {1}, f : {"bss"}, K : 1..16] ELSE {})
    \cup (IF "dict" \in Families THEN [lvl : {1}, f : {"dict"}, t : DictTypes] ELSE {})
Cases(g) ==
    CASE g.f = "hyb" -> {[lvl |-> 2, f |-> "hyb", bw |-> g.bw, rl |-> rl, sh |-> sh] :
                            rl \in {r \in RunLists : Sum(r) <= MaxTotal}, sh \in (IF g.bw = 0 THEN {0} ELSE {0, 1})}
                        \cup {[lvl |-> 2, f |-> "hyb", bw |-> g.bw, rl |-> <<>>, sh |-> 0]}
      [] g.f = "bp" -> [lvl : {2}, f : {"bp"}, bw : {g.bw}, n : BpCounts, pat : 0..2]
      [] g.f = "bitw" -> [lvl : {2}, f : {"bitw"}, bw : {g.bw}, n : {0, 1, 2, 5, 6, 7, 13, 21}, mode : {0, 1}]
      [] g.f = "plain" -> [lvl : {2}, f : {"plain"}, t : {g.t}, n : PlainCounts, pat : 0..2, tlen : IF g.t = 7 THEN {1, 3, 16} ELSE {0}]
      [] g.f = "delta" -> [lvl : {2}, f : {"delta"}, L : {g.L}, n : {g.n}, w : DeltaWidths(g.L), shape : 0..2, sp : {99}]
                          \cup [lvl : {2}, f : {"delta"}, L : {g.L}, n : {g.n}, w : {0}, shape : {0}, sp : 0..4]
      [] g.f = "str" -> [lvl : {2}, f : {"str"}, k : {g.k}, n : StrCounts]
      [] g.f = "bss" -> [lvl : {2}, f : {"bss"}, K : {g.K}, n : 0..70]
      [] g.f = "dict" -> [lvl : {2}, f : {"dict"}, t : {g.t}, D : DictSizes, pat : 0..2]
Next == \/ c.lvl = 0 /\ c' \in Groups
        \/ c.lvl = 1 /\ c' \in Cases(c)

Emit ==
    CASE c.f = "hyb" ->
            LET w == HybVals(c.bw, c.rl, c.sh)
                nat == [i \in 1..Len(w) |-> ToNat(w[i])]
                model(variant) == LET bs == Ser(EncodeRuns(nat, variant), c.bw)
                                      r == Parse(bs, 1, Len(bs), c.bw, Len(nat))
                                  IN [bytes |-> bs, refines |-> (r.ok /\ r.vals = nat)]
            IN IF c.bw <= 31 THEN PrintT(ToJson([kind |-> "hyb", bw |-> c.bw, vals |-> nat, pad |-> model("pad"), fill |-> model("fill")]))
               ELSE PrintT(ToJson([kind |-> "hyb", bw |-> c.bw, w |-> w]))
      [] c.f = "bp" ->
            LET w == [i \in 1..c.n |-> BpVal(c.bw, i, c.pat)]
            IN PrintT(ToJson([kind |-> "bp", bw |-> c.bw, w |-> w, bytes |-> PackW(w, c.bw)]))
      [] c.f = "bitw" ->
            LET it == Items(c.bw, c.n, c.mode)
            IN PrintT(ToJson([kind |-> "bitw", items |-> it, bytes |-> PackItems(it)]))
      [] c.f = "plain" ->
            LET v == PlainVals(c.t, c.tlen, c.n, c.pat)
            IN PrintT(ToJson([kind |-> "plain", t |-> c.t, tlen |-> c.tlen, vals |-> v, bytes |-> P!Ser(c.t, c.tlen, v)]))
      [] c.f = "delta" ->
            LET v == IF c.sp = 99 THEN DeltaSeq(c.w, c.L, c.shape, c.n, IF c.shape = 1 THEN MinW(c.L) ELSE FromNat(5, c.L))
                     ELSE SpecialSeq(c.L, c.sp, c.n)
            IN PrintT(ToJson([kind |-> "delta", L |-> c.L, vals |-> v, w |-> c.w, shape |-> c.shape, sp |-> c.sp]))
      [] c.f = "str" -> PrintT(ToJson([kind |-> "str", strs |-> Strs(c.k, c.n), k |-> c.k]))
      [] c.f = "bss" ->
            LET v == BssVals(c.K, c.n)
            IN PrintT(ToJson([kind |-> "bss", K |-> c.K, vals |-> v, bytes |-> B!Ser(v, c.K)]))
      [] c.f = "dict" ->
            LET idx == DictIdx(c.D, c.pat)
                v == [i \in 1..Len(idx) |-> DictVal(c.t, idx[i])]
                d == DE!FirstOcc(v)
            IN PrintT(ToJson([kind |-> "dict", t |-> c.t, D |-> c.D, vals |-> v,
                              dict |-> DE!SerDict(c.t, 0, d)]))
EmitInv == c.lvl < 2 \/ Emit
=============================================================================
