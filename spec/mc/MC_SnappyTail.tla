---------------------------- MODULE MC_SnappyTail ----------------------------
(* Snappy blocks whose copy ends at or within a few bytes of the end of the output, decoded   *)
(* into destinations of exactly the declared size (and one less / one more / sizes inside     *)
(* the copy).  Copies of every kind with offsets >= 8 and every length 4..20; trailing        *)
(* literals 0, 1, 3, 7.  Judged by Snappy.DecodeInto (C10: exact bytes / rejection; C08:      *)
(* writes stay inside the declared capacity - exact-size heap buffers under ASan).            *)
EXTENDS Snappy, TLC, Json
CONSTANTS Firsts, Offs, Lens, Tails
VARIABLE c

Init == c = [k |-> "start"]
Next == \/ c.k = "start" /\ \E P \in Firsts : \E o \in {o \in Offs : o <= P} : c' = [k |-> "grp", P |-> P, off |-> o]
        \/ c.k = "grp" /\ \E m \in Lens, t \in Tails, kind \in {"c1", "c2", "c4"} :
              /\ (kind = "c1" => m <= 11)
              /\ c' = [k |-> "case", P |-> c.P, off |-> c.off, ml |-> m, t |-> t, kind |-> kind]

Cp(x) == IF x.kind = "c1" THEN Copy1(x.off, x.ml) ELSE IF x.kind = "c2" THEN Copy2(x.off, x.ml) ELSE Copy4(x.off, x.ml)
Toks(x) == <<Lit(IF x.P <= 60 THEN 0 ELSE 1, B(Pat(x.P, 1))), Cp(x)>> \o (IF x.t = 0 THEN <<>> ELSE <<Lit(0, B(Pat(x.t, 2)))>>)
CapsOf(x) == LET n == x.P + x.ml + x.t IN
             {n, n + 1, n - 1, x.P + (x.ml \div 2), x.P + x.ml - 1}

Judge(bs, cap) ==
    LET d == DecodeInto(bs, cap) IN
    IF d.ok THEN [cap |-> cap, exp |-> "accept", out |-> d.out, why |-> "", trail |-> FALSE]
    ELSE [cap |-> cap, exp |-> "reject", out |-> <<>>, why |-> d.why, trail |-> FALSE]

Emit == LET s == Ser(Toks(c)) IN
        /\ Valid(Toks(c)) /\ Decode(s).out = Apply(Toks(c))
        /\ PrintT(ToJson([fmt |-> "snappy", s |-> s, j |-> [cap \in CapsOf(c) |-> Judge(s, cap)]]))
EmitInv == c.k # "case" \/ Emit
=============================================================================
