CONSTANTS
  MaxSeqs = 3
INIT Init
NEXT Next
INVARIANTS RoundTrip DecodeLaw TruncLaw Fixed
CHECK_DEADLOCK FALSE
