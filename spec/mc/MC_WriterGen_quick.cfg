CONSTANTS
  SchemaIds = {1, 2, 3}
  RowChoices = {0, 1, 3, 5}
  MaxGroups = 2
  MaxBatches = 2
  NullMode = "all"
  AnyOrder = FALSE
  Sample = FALSE
  Replicas = 1
  Seed = 1
INIT Init
NEXT Next
INVARIANTS Inv Emit
CHECK_DEADLOCK FALSE
