----------------------------- MODULE MC_Bloom -----------------------------
EXTENDS BloomSys, TLC, Json
\* PLAIN bytes of the value tokens (DESIGN.md C.1)
ValSet == { [t |-> "i32", b |-> <<0,0,0,0>>], [t |-> "i32", b |-> <<255,255,255,255>>],
            [t |-> "i32", b |-> <<4,3,2,1>>],
            [t |-> "i64", b |-> <<0,0,0,0,0,0,0,128>>], [t |-> "i64", b |-> <<8,7,6,5,4,3,2,1>>],
            [t |-> "f32", b |-> <<0,0,192,127>>], [t |-> "f32", b |-> <<0,0,0,128>>],
            [t |-> "f64", b |-> <<0,0,0,0,0,0,248,63>>],
            [t |-> "bytes", b |-> <<>>], [t |-> "bytes", b |-> <<97>>],
            [t |-> "bytes", b |-> [i \in 1..40 |-> (i * 7) % 256]] }
ValSmall == { [t |-> "i32", b |-> <<4,3,2,1>>], [t |-> "i64", b |-> <<8,7,6,5,4,3,2,1>>],
              [t |-> "f64", b |-> <<0,0,0,0,0,0,248,63>>], [t |-> "bytes", b |-> <<97>>],
              [t |-> "bytes", b |-> <<>>] }
\* every value token of the catalogue (Values.tla) for the typed entry points: +0 -0, NaN payloads, infinities,
\* denormals, extreme integers - the typed wrappers must hash exactly the PLAIN bytes of the value
VT == INSTANCE Values
ValTyped == {[t |-> "i32", b |-> VT!Tok.t1[i]] : i \in 1..Len(VT!Tok.t1)} \cup {[t |-> "i64", b |-> VT!Tok.t2[i]] : i \in 1..Len(VT!Tok.t2)}
            \cup {[t |-> "f32", b |-> VT!Tok.t4[i]] : i \in 1..Len(VT!Tok.t4)} \cup {[t |-> "f64", b |-> VT!Tok.t5[i]] : i \in 1..Len(VT!Tok.t5)}
SizesTyped == {32, 1024}
SizesQuick == {0, 33, 64, 1024}
SizesThorough == {0, 1, 31, 32, 33, 64, 65, 100, 1024, 4096}

\* emitted for every reachable state: history + expected bytes + expected probe answers
Emit == PrintT(ToJson([req |-> req, ops |-> hist, fa |-> fa, fb |-> fb,
                        probes |-> [v \in Values |-> [t |-> v.t, b |-> v.b, a |-> Probe(fa, v), bb |-> Probe(fb, v)]]]))
EmitInv == hist = <<>> \/ Emit
=============================================================================
