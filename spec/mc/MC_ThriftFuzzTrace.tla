------------------------- MODULE MC_ThriftFuzzTrace -------------------------
(* C08, Thrift part: the envelope every call on arbitrary bytes must respect, evaluated on   *)
(* the recorded calls (ndjson, IOEnv.TRACE):                                                 *)
(*   {"e":"One","id","entry","n","st","used","valid"}    one call; used = -1: the entry has  *)
(*                                                       no consumed-size output               *)
(*   {"e":"Bulk","id","entry","calls","expect","maxex","any"}  all mutants of one base:        *)
(*                         maxex = max over accepted calls of (consumed - input size), if any  *)
(* Envelope: a call returns an error, or a consumed size <= the input size. (Termination and   *)
(* memory safety are observed by the watchdog / AddressSanitizer / LeakSanitizer.)            *)
(* Evidence only: of the inputs the specification accepts as complete, type-correct           *)
(* structures (valid), how many carquet accepted.                                            *)
EXTENDS Integers, Sequences, SequencesExt, TLC, Json, IOUtils
VARIABLES l, bad, stats
Tr == ndJsonDeserialize(IOEnv.TRACE)
Ev == Tr[l]
Verdict(e) ==
    CASE e.e = "One" -> IF e.st = 0 /\ e.used > e.n THEN {"envelope:consumed-exceeds-input"} ELSE {}
      [] e.e = "Bulk" -> (IF e.any /\ e.maxex > 0 THEN {"envelope:consumed-exceeds-input"} ELSE {})
                         \cup (IF e.calls # e.expect THEN {"infra:enumeration-mismatch"} ELSE {})
      [] OTHER -> {}
Init == l = 1 /\ bad = <<>> /\ stats = [execs |-> 0, events |-> 0, failed |-> 0, validAccepted |-> 0, validRejected |-> 0, calls |-> 0]
Next == /\ l <= Len(Tr)
        /\ l' = l + 1
        /\ IF Ev.e = "Reset" THEN stats' = [stats EXCEPT !.execs = @ + 1] /\ UNCHANGED bad
           ELSE LET v == Verdict(Ev)
                    isV == Ev.e = "One" /\ Ev.valid
                IN /\ bad' = IF v = {} THEN bad ELSE Append(bad, [l |-> l, id |-> Ev.id, e |-> Ev.e, why |-> SetToSeq(v), detail |-> ""])
                   /\ stats' = [stats EXCEPT !.events = @ + 1, !.failed = IF v = {} THEN @ ELSE @ + 1,
                                             !.validAccepted = IF isV /\ Ev.st = 0 THEN @ + 1 ELSE @,
                                             !.validRejected = IF isV /\ Ev.st # 0 THEN @ + 1 ELSE @,
                                             !.calls = @ + (IF Ev.e = "Bulk" THEN Ev.calls ELSE 1)]
Report == l = Len(Tr) + 1 => PrintT(ToJson([verdicts |-> bad, stats |-> stats, lines |-> Len(Tr)]))
=============================================================================
