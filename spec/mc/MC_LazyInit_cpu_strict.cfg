CONSTANTS
  NThreads = 3
  K = 2
  Apis = {"cpu"}
  PublishEarly = FALSE
SPECIFICATION Spec
INVARIANTS CpuInfoStable
PROPERTIES EveryCallReturns
CHECK_DEADLOCK FALSE
