CONSTANTS
  NThreads = 3
  K = 2
  Apis = {"cpu"}
  Rezero = TRUE
  PublishEarly = FALSE
SPECIFICATION Spec
INVARIANTS CpuInfoStable
PROPERTIES EveryCallReturns
CHECK_DEADLOCK FALSE
