---------------------------- MODULE MC_AllocGen ----------------------------
(* Scenario generator for C19.  Every scenario of the catalogue is stepped through the     *)
(* fault-free behaviour of the specification (Writer.tla for the write history, the        *)
(* builder calls for schema scenarios); the terminal state prints the scenario with the    *)
(* concrete call arguments and its fault-free expected result (the promised table /        *)
(* the schema element list).  The client program of the armed window (`prog`) is part of   *)
(* the scenario; the faulty executions of it are judged by AllocTrace.tla.                 *)
EXTENDS Writer, Values, TLC, Json
CONSTANT ScnIds
VARIABLES scn, hist, stage, plan

Col(n, t, r, l) == [name |-> n, type |-> t, rep |-> r, tlen |-> l]
Long(b, n) == [rep |-> b, n |-> n]          \* a name of n copies of byte b (overflows an arena block)
Schemas == <<
  \* 1: every physical type the writer API takes, nullable, plus one REQUIRED column
  << Col(<<98>>, 0, 1, 0), Col(<<105>>, 1, 1, 0), Col(<<108>>, 2, 1, 0), Col(<<102>>, 4, 1, 0),
     Col(<<100>>, 5, 1, 0), Col(<<115>>, 6, 1, 0), Col(<<120>>, 7, 1, 2), Col(<<114>>, 1, 0, 0) >>,
  \* 2: small: OPTIONAL INT32, OPTIONAL BYTE_ARRAY
  << Col(<<97>>, 1, 1, 0), Col(<<98>>, 6, 1, 0) >>,
  \* 3: names that do not fit the metadata arena's first block
  << Col(Long(110, 40000), 1, 1, 0), Col(Long(111, 30000), 6, 0, 0) >>,
  \* 4: wide fixed-length values and a REQUIRED boolean next to a nullable double
  \*    (INT96 is not accepted by carquet_writer_write_batch, so it cannot be part of a fault-free run)
  << Col(<<116>>, 7, 1, 12), Col(<<113>>, 0, 0, 0), Col(<<100>>, 5, 1, 0) >>,
  \* 5: wide: the footer metadata (schema elements, column chunks) does not fit one arena block
  [i \in 1..160 |-> Col(<<99, 48 + (i \div 100), 48 + ((i \div 10) % 10), 48 + (i % 10)>>, IF i % 2 = 0 THEN 1 ELSE 2, i % 2, 0)] >>

\* kind "write": the window covers create .. close; the file is read back afterwards
\* win = "all": the window covers create .. close; "close": only the final close call is inside
W(sid, groups, codec, page, wmode, policy) ==
    [kind |-> "write", sid |-> sid, groups |-> groups, codec |-> codec, page |-> page, wmode |-> wmode, policy |-> policy, win |-> "all"]
WC(sid, groups, codec, page, wmode, policy) == [W(sid, groups, codec, page, wmode, policy) EXCEPT !.win = "close"]
\* kind "read": fixture written without faults; window = open + column reads
R(sid, groups, codec, page, rmode, verify, policy) ==
    [kind |-> "read", sid |-> sid, groups |-> groups, codec |-> codec, page |-> page, wmode |-> "p", policy |-> policy,
     rmode |-> rmode, verify |-> verify, rcols |-> 1000]
\* as R, but only the first rcols columns of each row group are read
RN(sid, groups, codec, page, rmode, verify, policy, rcols) ==
    [R(sid, groups, codec, page, rmode, verify, policy) EXCEPT !.rcols = rcols]
\* kind "batch": window = open + batch reader
B(sid, groups, codec, page, rmode, bs, threads, proj, policy) ==
    [kind |-> "batch", sid |-> sid, groups |-> groups, codec |-> codec, page |-> page, wmode |-> "p", policy |-> policy,
     rmode |-> rmode, verify |-> 0, bs |-> bs, threads |-> threads, proj |-> proj]
\* kind "schema": builder calls
SC(adds, policy) == [kind |-> "schema", adds |-> adds, policy |-> policy]
AddC(n, t, r, l) == [op |-> "AddColumn", name |-> n, type |-> t, rep |-> r, tlen |-> l]
AddG(n, r) == [op |-> "AddGroup", name |-> n, rep |-> r]
Min2(a, b) == IF a < b THEN a ELSE b
Digits(i) == <<99, 48 + (i \div 10), 48 + (i % 10)>>

Catalogue == [
  \* --- quick tier
  s_grow   |-> SC([i \in 1..70 |-> IF i % 9 = 0 THEN AddG(Digits(i), 1) ELSE AddC(Digits(i), (i % 3) * 3, i % 2, 0)], "a"),
  w_snappy |-> W(1, <<5, 3>>, 1, 64, "p", "a"),
  r_fread  |-> R(1, <<5, 3>>, 0, 64, "f", 1, "a"),
  b_mmap   |-> B(1, <<5, 3>>, 1, 64, "m", 3, 1, <<>>, "a"),
  \* six row groups (the row-group table grows at the 1st and the 5th flush), the client closes normally after the error
  w_groups_c |-> W(2, <<2, 1, 1, 1, 1, 2>>, 1, 64, "p", "c"),
  \* --- thorough tier
  s_flat   |-> SC(<<AddC(<<97>>, 1, 1, 0), AddC(<<98, 98>>, 6, 0, 0), AddC(<<>>, 7, 1, 4)>>, "a"),
  s_group  |-> SC(<<AddG(<<103>>, 1), AddC(<<97>>, 1, 1, 0), AddC(<<98>>, 6, 0, 0), AddG(<<104>>, 2), AddC(<<99>>, 5, 2, 0)>>, "n"),
  s_long   |-> SC(<<AddC(Long(120, 30000), 1, 1, 0), AddG(Long(121, 30000), 1), AddC(Long(122, 30000), 6, 0, 0)>>, "a"),
  w_plain  |-> W(1, <<5, 3>>, 0, 64, "p", "a"),
  w_gzip   |-> W(1, <<5, 3>>, 2, 64, "p", "a"),
  w_lz4    |-> W(1, <<5, 3>>, 5, 64, "p", "a"),
  w_zstd   |-> W(1, <<5, 3>>, 6, 1048576, "p", "a"),
  w_file   |-> W(2, <<4, 2>>, 1, 64, "f", "a"),
  w_close  |-> W(2, <<4, 2>>, 0, 64, "p", "c"),
  w_cont   |-> W(2, <<4, 2>>, 1, 64, "p", "n"),
  w_long   |-> W(3, <<3>>, 0, 1048576, "p", "a"),
  w_wide  |-> W(4, <<9>>, 1, 1048576, "p", "a"),
  r_mmap   |-> R(1, <<5, 3>>, 1, 64, "m", 0, "a"),
  r_buffer |-> R(1, <<5, 3>>, 2, 64, "b", 1, "a"),
  r_zstd   |-> R(1, <<5, 3>>, 6, 1048576, "f", 1, "a"),
  r_lz4    |-> R(4, <<9>>, 5, 64, "m", 1, "a"),
  r_long   |-> R(3, <<3>>, 0, 1048576, "f", 0, "a"),
  r_cont   |-> R(2, <<4, 2>>, 1, 64, "f", 1, "n"),
  b_fread  |-> B(1, <<5, 3>>, 0, 64, "f", 3, 1, <<>>, "a"),
  b_buffer |-> B(1, <<5, 3>>, 6, 64, "b", 100, 1, <<5, 0, 7>>, "a"),
  b_cont   |-> B(2, <<4, 2>>, 1, 64, "f", 3, 1, <<>>, "n"),
  b_par    |-> B(1, <<5, 3>>, 1, 64, "f", 3, 4, <<>>, "a"),
  w_wide160 |-> WC(5, <<2, 1>>, 0, 1048576, "p", "a"),
  r_wide160 |-> RN(5, <<2, 1>>, 0, 1048576, "f", 1, "a", 2),
  b_wide160 |-> B(5, <<2, 1>>, 1, 1048576, "m", 100, 1, <<0, 159>>, "a"),
  w_snappy_c |-> W(1, <<5, 3>>, 1, 64, "p", "c"),
  w_plain_n |-> W(1, <<5, 3>>, 0, 64, "f", "n"),
  r_fread_n |-> R(1, <<5, 3>>, 0, 64, "f", 1, "n"),
  r_mmap_n |-> R(1, <<5, 3>>, 6, 64, "m", 1, "n"),
  b_mmap_n |-> B(1, <<5, 3>>, 1, 64, "m", 3, 1, <<>>, "n"),
  b_buffer_n |-> B(1, <<5, 3>>, 0, 64, "b", 2, 1, <<1, 5>>, "n") ]

S == Catalogue[scn]
Sch == Schemas[S.sid]

\* ---- the write history of a scenario: plan = abstract calls, executed by Writer.tla's actions
Base(g) == FoldLeft(LAMBDA a, i : a + S.groups[i], 0, [i \in 1..(g - 1) |-> i])
IsNull(g, r, c) == Sch[c].rep = 1 /\ (r + c + g) % 3 = 0
DefsOf(g, c, from, k) == [i \in 1..k |-> IF IsNull(g, from + i, c) THEN 0 ELSE (IF Sch[c].rep = 1 THEN 1 ELSE 0)]
ValsOfRows(g, c, from, k) ==
    LET present == SelectSeq([i \in 1..k |-> from + i], LAMBDA r : ~IsNull(g, r, c))
    IN [j \in 1..Len(present) |-> TokenAt(Sch[c].type, Sch[c].tlen, Base(g) + present[j] + c)]
Batch(g, c, from, k) ==
    LET defs == DefsOf(g, c, from, k)
        allPresent == \A i \in 1..k : ~IsNull(g, from + i, c)
    IN [op |-> "WriteBatch", c |-> c - 1, n |-> k, defs |-> defs, vals |-> ValsOfRows(g, c, from, k),
        withDefs |-> (Sch[c].rep = 1 /\ ~(allPresent /\ c % 2 = 0))]
ColPlan(g, c) == LET n == S.groups[g]
                 IN IF c % 2 = 1 /\ n >= 2 THEN <<Batch(g, c, 0, n \div 2), Batch(g, c, n \div 2, n - (n \div 2))>>
                    ELSE <<Batch(g, c, 0, n)>>
GroupPlan(g) == FlattenSeq([c \in 1..Len(Sch) |-> ColPlan(g, c)])
                \o (IF g < Len(S.groups) THEN <<[op |-> "NewRowGroup"]>> ELSE <<[op |-> "Close"]>>)
Plan == IF S.kind = "schema" THEN <<>>
        ELSE <<[op |-> "Create", cols |-> Sch]>> \o FlattenSeq([g \in 1..Len(S.groups) |-> GroupPlan(g)])

\* ---- the client program of the window for reader scenarios
ChunkProg(g, c) == << [op |-> "GetColumn", g |-> g - 1, c |-> c - 1], [op |-> "Read", k |-> 2] >>
                   \o (IF c = 2 THEN <<[op |-> "SkipRows", k |-> 1]>> ELSE <<>>)
                   \o << [op |-> "Read", k |-> 100], [op |-> "FreeColumn"] >>
CeilDiv(a, b) == (a + b - 1) \div b
NBatches == FoldLeft(LAMBDA a, n : a + CeilDiv(n, S.bs), 0, S.groups)
Prog ==
    CASE S.kind = "read" ->
           <<[op |-> "ROpen", mode |-> S.rmode, verify |-> S.verify]>>
           \o FlattenSeq([g \in 1..Len(S.groups) |-> FlattenSeq([c \in 1..Min2(Len(Sch), S.rcols) |-> ChunkProg(g, c)])])
           \o <<[op |-> "CloseReader"]>>
      [] S.kind = "batch" ->
           << [op |-> "ROpen", mode |-> S.rmode, verify |-> S.verify],
              [op |-> "BatchCreate", bs |-> S.bs, threads |-> S.threads, proj |-> S.proj] >>
           \o [i \in 1..(NBatches + 1) |-> [op |-> "BatchNext"]]
           \o << [op |-> "FreeBatches"], [op |-> "FreeBatchReader"], [op |-> "CloseReader"] >>
      [] S.kind = "schema" ->
           <<[op |-> "SchemaCreate"]>> \o S.adds \o <<[op |-> "SchemaDump"], [op |-> "SchemaFree"]>>
      [] OTHER -> <<>>

\* fault-free effect of a schema scenario: the element list after the root, and the leaf indices
SchemaExpect ==
    LET el == [i \in 1..Len(S.adds) |-> [name |-> S.adds[i].name, leaf |-> S.adds[i].op = "AddColumn", rep |-> S.adds[i].rep]]
    IN [elems |-> el, leaves |-> SelectSeq([i \in 1..Len(el) |-> IF el[i].leaf THEN i ELSE 0], LAMBDA x : x > 0)]

gvars == <<wst, schema, cur, done, scn, hist, stage, plan>>
Init == WInit /\ scn \in ScnIds /\ hist = <<>> /\ stage = 1 /\ plan = Plan     \* the plan is computed once

Step == /\ stage <= Len(plan)
        /\ LET p == plan[stage]
           IN /\ CASE p.op = "Create" -> Create(p.cols)
                   [] p.op = "WriteBatch" -> WriteBatch(p.c + 1, p.n, p.withDefs, p.defs, p.vals)
                   [] p.op = "NewRowGroup" -> NewRowGroup
                   [] p.op = "Close" -> Close
              /\ hist' = Append(hist, p)
        /\ stage' = stage + 1 /\ UNCHANGED <<scn, plan>>
Next == Step

Finished == stage = Len(plan) + 1
Emit == Finished =>
          PrintT(ToJson([id |-> scn, scenario |-> S, ops |-> hist, prog |-> Prog,
                         table |-> IF S.kind = "schema" THEN <<>> ELSE TableWritten,
                         rows |-> IF S.kind = "schema" THEN 0 ELSE TotalRows,
                         expect |-> IF S.kind = "schema" THEN SchemaExpect ELSE [elems |-> <<>>, leaves |-> <<>>]]))
\* the fault-free behaviour is a behaviour of Writer.tla and ends with a closed writer
Inv == TypeOK /\ DoneWellFormed /\ (Finished /\ S.kind # "schema" => wst = "closed" /\ Len(done) = Len(S.groups))
=============================================================================
