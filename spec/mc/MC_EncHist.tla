----------------------------- MODULE MC_EncHist -----------------------------
(* Histories of the streaming hybrid decoder (HybridDec) over a catalogue of streams.        *)
(*   Mode "pos":  one positioning call (Skip(o) or GetBatch(o), o = 0..len+1) followed by     *)
(*                every sequence of MaxOps calls from Ops;                                    *)
(*   Mode "full": every sequence of calls from the non-empty ops until the stream is         *)
(*                exhausted (streams of at most FullMax values).                              *)
(* TLC checks on every history that the implementation-shaped decoder returns what the        *)
(* abstract cursor returns (INVARIANT Agree) and prints each maximal history with the         *)
(* expected result of every call for replay on the real decoder.                              *)
EXTENDS HybridDec, HybridEnc, TLC, Json
CONSTANTS Mode, MaxOps, FullMax, ZeroRun, EmitCases, StreamIds
VARIABLE h
\* ---- stream catalogue: <<bw, run list>> ----
G8(a, b) == <<a, b, a, a, b, b, a, b>>
Cat == <<
  <<1, <<Rle(3, 1), Rle(2, 0)>>>>,                                                   \* 1: 5 values, rle only
  <<3, <<Bp(<<0, 1, 2, 3, 4, 5, 6, 7>>)>>>>,                                         \* 2: one literal group
  <<2, <<Rle(9, 2), Bp(G8(0, 3)), Rle(3, 1)>>>>,                                     \* 3: 20 values, mixed
  <<1, <<Bp(G8(0, 1) \o G8(1, 0)), Rle(4, 1)>>>>,                                    \* 4: two-group literal run
  <<3, <<Rle(0, 5), Rle(2, 3), Bp(<<>>), Bp(G8(7, 2)), Rle(0, 7), Rle(1, 6)>>>>,     \* 5: zero-length runs (value bytes 5, 7)
  <<8, <<Rle(2, 255), Bp(G8(0, 200))>>>>,                                            \* 6
  <<9, <<Rle(10, 300), Bp(G8(511, 1))>>>>,                                           \* 7: two value bytes
  <<2, <<Rle(3, 2), Rle(0, 0)>>>>,                                                   \* 8: trailing empty run
  <<0, <<Rle(5, 0), Bp(<<0, 0, 0, 0, 0, 0, 0, 0>>)>>>>,                              \* 9: width 0
  <<2, EncodeRuns(<<1, 0, 0, 0, 0, 0, 0, 0, 0, 0, 1, 1, 2>>, "fill")>>,              \* 10: encoder output (fixed policy)
  <<2, EncodeRuns(<<1, 0, 0, 0, 0, 0, 0, 0, 0, 0, 1, 1, 2>>, "pad")>>,               \* 11: encoder output (policy as found)
  <<31, <<Rle(2, 2147483647), Bp(G8(1, 2147483646))>>>>,                             \* 12: four value bytes
  <<4, <<Bp(G8(1, 15) \o G8(15, 1) \o G8(3, 3))>>>>,                                 \* 13: three groups (24 values)
  <<1, <<Rle(2, 1), Rle(1, 0), Rle(1, 1)>>>>,                                        \* 14: 4 values
  <<5, <<Rle(0, 3), Rle(4, 17)>>>>                                                   \* 15: leading zero-length run, value byte 3 (reads as a literal header)
>>
Bytes == [i \in 1..Len(Cat) |-> Ser(Cat[i][2], Cat[i][1])]
Full == [i \in 1..Len(Cat) |-> Expand(Cat[i][2])]
\* bytes follow the run that holds the last value (then HasNext at the end is undetermined)
Trailing == [i \in 1..Len(Cat) |->
               LET rs == Cat[i][2] IN rs # <<>> /\ RunVals(rs[Len(rs)]) = <<>>]

SmallOps == {<<"G", 0>>, <<"H", 0>>} \cup {<<"B", k>> : k \in 0..3} \cup {<<"S", k>> : k \in 0..3}
MoveOps == {<<"G", 0>>} \cup {<<"B", k>> : k \in 1..3} \cup {<<"S", k>> : k \in 1..3}

\* apply one op: <<new impl state, new cursor, [op, k, exp..., impl...]>>
Apply(sid, d, c, op) ==
    LET bs == Bytes[sid]
        bw == Cat[sid][1]
        full == Full[sid]
    IN CASE op[1] = "G" -> LET a == AbsGet(full, c)  i == ImplGet(d, bs, bw, ZeroRun)
                           IN <<i[1], a[1], [op |-> "G", k |-> 0, n |-> a[1] - c, vals |-> <<a[2]>>, hn |-> "",
                                             agree |-> i[2] = a[2]]>>
         [] op[1] = "B" -> LET a == AbsBatch(full, c, op[2])  i == ImplBatch(d, op[2], bs, bw, ZeroRun)
                           IN <<i[1], a[1], [op |-> "B", k |-> op[2], n |-> a[1] - c, vals |-> a[2], hn |-> "",
                                             agree |-> i[2] = a[2]]>>
         [] op[1] = "S" -> LET a == AbsSkip(full, c, op[2])  i == ImplSkip(d, op[2], bs, bw, ZeroRun)
                           IN <<i[1], a[1], [op |-> "S", k |-> op[2], n |-> a[2], vals |-> <<>>, hn |-> "",
                                             agree |-> i[2] = a[2]]>>
         [] OTHER -> LET a == AbsHasNext(full, c, Trailing[sid])  i == ImplHasNext(d, bs)
                     IN <<d, c, [op |-> "H", k |-> 0, n |-> 0, vals |-> <<>>, hn |-> a,
                                 agree |-> (a = "?" \/ (a = "1") = i)]>>

Init == h = [lvl |-> 0]
Step(op) == LET r == Apply(h.sid, h.d, h.c, op)
            IN h' = [h EXCEPT !.d = r[1], !.c = r[2], !.hist = Append(@, r[3]), !.lvl = 2]
Exhausted == h.c >= Len(Full[h.sid])
Next ==
    \/ h.lvl = 0 /\ h' \in [lvl : {1}, sid : StreamIds, d : {DecInit}, c : {0}, hist : {<<>>}]
    \/ /\ h.lvl = 1 /\ Mode = "pos"
       /\ \E o \in 0..(Len(Full[h.sid]) + 1) : \E kind \in {"S", "B"} : Step(<<kind, o>>)
    \/ /\ h.lvl = 2 /\ Mode = "pos" /\ Len(h.hist) < MaxOps + 1
       /\ \E op \in SmallOps : Step(op)
    \/ /\ h.lvl \in {1, 2} /\ Mode = "full" /\ Len(Full[h.sid]) <= FullMax /\ ~Exhausted
       /\ \E op \in MoveOps : Step(op)

Leaf == /\ h.lvl = 2
        /\ IF Mode = "pos" THEN Len(h.hist) = MaxOps + 1 ELSE Exhausted

Agree == h.lvl < 2 \/ \A i \in 1..Len(h.hist) : h.hist[i].agree

\* drain: one big GetBatch and a last HasNext, expected by the abstract layer
EmitLeaf ==
    LET full == Full[h.sid]
        rest == SubSeq(full, h.c + 1, Len(full))
        dr == ImplBatch(h.d, Len(rest) + 2, Bytes[h.sid], Cat[h.sid][1], ZeroRun)
    IN PrintT(ToJson([kind |-> "hist", sid |-> h.sid, ops |-> h.hist, drain |-> rest,
                      hn |-> AbsHasNext(full, Len(full), Trailing[h.sid]),
                      agree |-> (Agree /\ dr[2] = rest)]))
EmitStream == PrintT(ToJson([kind |-> "stream", sid |-> h.sid, bw |-> Cat[h.sid][1], bytes |-> Bytes[h.sid],
                             full |-> Full[h.sid]]))
EmitInv == \/ ~EmitCases
           \/ (h.lvl = 1 /\ EmitStream)
           \/ (h.lvl # 1 /\ (~Leaf \/ EmitLeaf))
=============================================================================
