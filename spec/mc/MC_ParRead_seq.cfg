CONSTANTS
  NTasks = 2
  PreThreads = 1
  MainThreads = 1
  MCPre = 1
  MCMain = 1
  Lock = FALSE
  Record = FALSE
  PreSteps <- MCPreSteps
  MainSteps <- MCMainSteps
SPECIFICATION Spec
INVARIANTS AllInv
PROPERTIES NoLostTask Termination
