-------------------------- MODULE MC_StatsHelpers --------------------------
(* C16 part (d): inputs for the helpers carquet_statistics_compare, _range_overlaps and    *)
(* carquet_column_index_page_might_match: per physical type every statistics pair          *)
(* (smin <= smax, either side possibly absent) x every value / every query range           *)
(* (qmin <= qmax, either side possibly absent) over the shared domains MC_StatsDom (all    *)
(* order types of the four end points; floats with NaN, byte strings of unequal length).   *)
(* The helpers take one value_len for both query bounds, so BYTE_ARRAY queries with two    *)
(* bounds use bounds of equal length.                                                      *)
EXTENDS Stats, MC_StatsDom, TLC, Json
CONSTANTS Types
VARIABLE st

TLen(t) == IF t = 7 THEN 2 ELSE 0
Vals(t) == {D(t)[i] : i \in 1..Len(D(t))} \ (IF t = 6 THEN {D6[9]} ELSE {})
NonEmptySomewhere(t, r) == \E o \in Orders(t) : ~r.hasMin \/ ~r.hasMax \/ Leq(t, o, r.min, r.max)
Ranges(t) == {r \in [hasMin : BOOLEAN, min : Vals(t), hasMax : BOOLEAN, max : Vals(t)] :
                 /\ (~r.hasMin => r.min = D(t)[1]) /\ (~r.hasMax => r.max = D(t)[1])       \* one representative per absent side
                 /\ NonEmptySomewhere(t, r)}
QueryRanges(t) == {q \in Ranges(t) : (t = 6 /\ q.hasMin /\ q.hasMax) => Len(q.min) = Len(q.max)}

Init == st = [lvl |-> 0]
Next == st.lvl = 0 /\ \E t \in Types : \E s \in Ranges(t) : st' = [lvl |-> 1, t |-> t, s |-> s]

Emit == st.lvl = 1 =>
    PrintT(ToJson([t |-> st.t, tlen |-> TLen(st.t), s |-> st.s,
                   vals |-> SetToSeq(Vals(st.t)), queries |-> SetToSeq(QueryRanges(st.t))]))
=============================================================================
