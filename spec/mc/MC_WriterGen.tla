---------------------------- MODULE MC_WriterGen ----------------------------
(* History generator for the writer (C01/C05/C18/C14/C16 fixtures): TLC explores the       *)
(* Writer state machine over a schema catalogue, all null patterns, all splits of each    *)
(* column's rows into write_batch calls, row-group cuts and definition levels given or    *)
(* omitted, and prints every complete history (ending in Close) as JSON.                  *)
EXTENDS Writer, Values, TLC, Json, FiniteSets
CONSTANTS SchemaIds,      \* subset of DOMAIN Catalogue
          RowChoices,     \* set of total row counts per row group
          MaxGroups,      \* max number of NewRowGroup cuts
          MaxBatches,     \* max write_batch calls per column per row group
          NullMode,       \* "all" (every null pattern) | "runs" (run-structured patterns) | "beat" (long columns: the
                          \*   superposition of two square waves whose periods are picked by hash; needs Sample)
          AnyOrder,     \* TRUE: columns of a row group may be written in any order
          Sample,       \* TRUE: null patterns, batch sizes and def-level choices are not enumerated but picked by a
                        \*       deterministic hash of (Seed, replica, position in the history): one successor per state,
                        \*       Replicas different histories per (schema, row-count choices)
          Replicas, Seed
VARIABLES hist, plan      \* plan: rows of the current row group, null patterns; hist: ops so far

Col(n, t, r, l) == [name |-> n, type |-> t, rep |-> r, tlen |-> l]
Catalogue == <<
  << Col(<<97>>, 1, 1, 0) >>,                                                     \* 1: a OPTIONAL INT32
  << Col(<<97>>, 1, 0, 0), Col(<<98>>, 6, 1, 0) >>,                                \* 2: REQUIRED INT32, OPTIONAL BYTE_ARRAY
  << Col(<<98>>, 0, 1, 0), Col(<<99>>, 0, 0, 0) >>,                                \* 3: OPTIONAL BOOLEAN, REQUIRED BOOLEAN
  << Col(<<100>>, 5, 1, 0), Col(<<102>>, 4, 0, 0), Col(<<108>>, 2, 1, 0) >>,       \* 4: DOUBLE?, FLOAT, INT64?
  << Col(<<120>>, 7, 1, 3), Col(<<121>>, 7, 0, 16), Col(<<122>>, 7, 0, 1) >>,      \* 5: FLBA(3)?, FLBA(16), FLBA(1)
  << Col(<<115>>, 6, 0, 0) >>,                                                     \* 6: REQUIRED BYTE_ARRAY
  << Col(<<>>, 2, 0, 0), Col(<<195, 169>>, 1, 1, 0) >>,                            \* 7: empty name, non-ASCII name
  << Col(<<97>>, 0, 1, 0), Col(<<98>>, 1, 1, 0), Col(<<99>>, 2, 1, 0), Col(<<100>>, 4, 1, 0),
     Col(<<101>>, 5, 1, 0), Col(<<102>>, 6, 1, 0), Col(<<103>>, 7, 1, 2) >>,        \* 8: all 7 types, all OPTIONAL
  << Col(<<111>>, 6, 1, 0) >>                                                      \* 9: OPTIONAL BYTE_ARRAY
>>

\* schema ids above 100: id - 100 columns c000, c001, ... (INT32 / INT64 / BYTE_ARRAY cycling, REQUIRED and OPTIONAL
\* alternating): the widths around the Thrift list-header boundary (15 elements) and beyond one-byte varints (128)
WideSchema(n) == [i \in 1..n |-> Col(<<99, 48 + ((i - 1) \div 100), 48 + (((i - 1) \div 10) % 10), 48 + ((i - 1) % 10)>>,
                                     <<1, 2, 6>>[((i - 1) % 3) + 1], (i - 1) % 2, 0)]
SchemaOf(sid) == IF sid > 100 THEN WideSchema(sid - 100) ELSE Catalogue[sid]

\* run-structured null patterns of length n: runs of lengths from RunLens alternating present/null
RunLens == {1, 2, 7, 8, 9, 16}
RECURSIVE RunPatterns(_, _)
RunPatterns(n, bit) == IF n = 0 THEN {<<>>}
                       ELSE UNION { { [i \in 1..k |-> bit] \o rest : rest \in RunPatterns(n - k, 1 - bit) }
                                    : k \in {r \in RunLens : r <= n} \cup (IF n < 16 THEN {n} ELSE {}) }
Patterns(n) == IF NullMode = "all" THEN [1..n -> {0, 1}]
               ELSE RunPatterns(n, 0) \cup RunPatterns(n, 1)

gvars == <<wst, schema, cur, done, hist, plan>>

Init == WInit /\ hist = <<>> /\ plan = [stage |-> "schema"]

GCreate == /\ plan.stage = "schema"
           /\ \E s \in SchemaIds : \E r \in 1..Replicas :
                 /\ Create(SchemaOf(s))
                 /\ hist' = <<[op |-> "Create", cols |-> SchemaOf(s)]>>
                 /\ plan' = [stage |-> "rg", sid |-> s, groups |-> 0, base |-> 0, r |-> r]

\* start a row group: choose its row count and the null pattern of every OPTIONAL column
\* deterministic pseudo-random pick (all intermediate values < 2^31)
Mix(a, b, c) == (((((Seed % 1000) * 7919) + (plan.r * 104729) + (a * 1299709) + (b * 15485863) + (c * 32452843)) % 2147483) * 613 + a + b + c) % 1000003
PickFrom(S, h) == SetToSeq(S)[1 + (h % Cardinality(S))]
BeatLens == {1, 2, 7, 8, 9, 16, 63, 64, 65, 100, 504, 505, 1000}
BeatPat(n, c) == LET l1 == PickFrom(BeatLens, Mix(plan.groups, c, 11))
                     l2 == PickFrom(BeatLens, Mix(plan.groups, c, 13))
                 IN [i \in 1..n |-> (((i - 1) \div l1) + ((i - 1) \div l2)) % 2]
PatChoices(n) == IF Sample THEN {[c \in 1..NCols |-> IF MaxDef(c) = 0 THEN [i \in 1..n |-> 0]
                                                       ELSE IF NullMode = "beat" THEN BeatPat(n, c)
                                                       ELSE PickFrom(Patterns(n), Mix(plan.groups, c, n))]}
                 ELSE {p \in [1..NCols -> Patterns(n)] : \A c \in 1..NCols : MaxDef(c) = 0 => \A i \in 1..n : p[c][i] = 0}
GBegin == /\ plan.stage = "rg" /\ wst = "open" /\ plan.groups < MaxGroups
          /\ \E n \in RowChoices :
               \E pats \in PatChoices(n) :
                 /\ plan' = [stage |-> "fill", sid |-> plan.sid, groups |-> plan.groups, base |-> plan.base, r |-> plan.r,
                             n |-> n, pats |-> pats, cnt |-> [c \in 1..NCols |-> 0]]
                 /\ UNCHANGED <<wst, schema, cur, done, hist>>

\* the dense values of rows (from+1 .. from+k) of column c in the current row group
ValsOf(c, from, k) ==
    LET present == SelectSeq([i \in 1..k |-> from + i], LAMBDA r : plan.pats[c][r] = MaxDef(c))
    IN [j \in 1..Len(present) |-> TokenAt(schema[c].type, schema[c].tlen, plan.base + present[j] + c)]

\* which column may be written next
MayWrite(c) == /\ Rows(cur[c]) < plan.n
               /\ (AnyOrder \/ \A d \in 1..(c - 1) : Rows(cur[d]) = plan.n)

GWrite == /\ plan.stage = "fill"
          \* sampled runs follow ONE column order (picked by the hash among the writable columns), exhaustive runs all of them
          /\ \E c \in (IF Sample /\ AnyOrder /\ {d \in 1..NCols : MayWrite(d)} # {}
                        THEN {PickFrom({d \in 1..NCols : MayWrite(d)}, Mix(Len(hist), 7, 17))} ELSE 1..NCols) :
               MayWrite(c) /\ (Sample \/ plan.cnt[c] < MaxBatches) /\
               \E k \in (IF Sample THEN {1 + (Mix(Len(hist), c, 3) % (plan.n - Rows(cur[c])))} ELSE 1..(plan.n - Rows(cur[c]))) :
                 \* the last allowed batch must take all remaining rows
                 /\ (plan.cnt[c] = MaxBatches - 1 /\ ~Sample => k = plan.n - Rows(cur[c]))
                 /\ LET from == Rows(cur[c])
                        defs == [i \in 1..k |-> plan.pats[c][from + i]]
                        allPresent == \A i \in 1..k : defs[i] = MaxDef(c)
                    IN \E withDefs \in (IF MaxDef(c) = 1 /\ allPresent THEN (IF Sample THEN {Mix(Len(hist), c, 5) % 2 = 0} ELSE {TRUE, FALSE})
                                        ELSE IF MaxDef(c) = 1 THEN {TRUE} ELSE {FALSE}) :
                          /\ WriteBatch(c, k, withDefs, defs, ValsOf(c, from, k))
                          /\ hist' = Append(hist, [op |-> "WriteBatch", c |-> c - 1, n |-> k, withDefs |-> withDefs,
                                                   defs |-> defs, vals |-> ValsOf(c, from, k)])
                          /\ plan' = [plan EXCEPT !.cnt[c] = @ + 1]

GFilled == plan.stage = "fill" /\ \A c \in 1..NCols : Rows(cur[c]) = plan.n

GNewRowGroup == /\ GFilled /\ plan.groups + 1 < MaxGroups
                /\ NewRowGroup
                /\ hist' = Append(hist, [op |-> "NewRowGroup"])
                /\ plan' = [stage |-> "rg", sid |-> plan.sid, groups |-> plan.groups + 1, base |-> plan.base + plan.n, r |-> plan.r]

GClose == /\ (GFilled \/ (plan.stage = "rg" /\ wst = "open"))
          /\ Close
          /\ hist' = Append(hist, [op |-> "Close"])
          /\ plan' = [stage |-> "end"]

Next == GCreate \/ GBegin \/ GWrite \/ GNewRowGroup \/ GClose

Emit == plan.stage = "end" => PrintT(ToJson([ops |-> hist]))
Inv == TypeOK /\ DoneWellFormed
=============================================================================
