---------------------------- MODULE MC_SchemaGen ----------------------------
(* C17 generator: every ordered forest with N nodes below the root x every labelling by     *)
(* {REQUIRED, OPTIONAL, REPEATED}; leaf types cycle through the physical types. For each     *)
(* schema: the footer-only Parquet file written by the TLA+ reference writer (one empty row  *)
(* group so that column readers can be created), and the expected leaves / levels by the    *)
(* path definition of Schema.tla.  Self-check in the same run: the reference reader's DFS    *)
(* walk (ParquetFile.SchemaLeaves) agrees with the path definition.                         *)
EXTENDS Schema, RefWriter, ParquetFile, TLC, Json, Randomization
CONSTANTS Sizes,       \* set of node counts
          PerShape     \* 0: every labelling of every shape; k > 0: k labellings drawn per shape (breadth-first run, so the
                       \* emitting invariant is evaluated once per drawn schema)
VARIABLE st
LeafTypes == << <<1, 0>>, <<6, 0>>, <<0, 0>>, <<5, 0>>, <<7, 2>>, <<2, 0>>, <<3, 0>>, <<4, 0>> >>
NameOf(i) == <<110>> \o [j \in 1..(10 - i) |-> 120]      \* "n" followed by 10-i times "x": every later name is a proper prefix of every earlier one (node counts <= 9)

\* logical-type annotations, cycling over the leaves (C17: the logical-type accessor returns what the file states)
LtCat == << [k |-> "none"], [k |-> "string"], [k |-> "integer", bits |-> 8, signed |-> FALSE], [k |-> "decimal", scale |-> 2, precision |-> 9],
            [k |-> "timestamp", utc |-> TRUE, unit |-> "us"], [k |-> "date"], [k |-> "time", utc |-> FALSE, unit |-> "ns"],
            [k |-> "integer", bits |-> 64, signed |-> TRUE], [k |-> "uuid"], [k |-> "json"], [k |-> "timestamp", utc |-> FALSE, unit |-> "ms"],
            [k |-> "enum"], [k |-> "bson"], [k |-> "float16"], [k |-> "decimal", scale |-> 0, precision |-> 38] >>
LtOf(i, salt) == LtCat[((i * 7 + salt) % Len(LtCat)) + 1]
WithLt(e, lt) == [name |-> e.name, hasType |-> e.hasType, type |-> e.type, tlen |-> e.tlen, hasRep |-> e.hasRep, rep |-> e.rep,
                  nchild |-> e.nchild, conv |-> e.conv, lt |-> lt]
Shapes(n) == {ks \in [1..n -> 0..(n - 1)] : ValidForest([i \in 1..n |-> [rep |-> 0, kids |-> ks[i]]], n - FoldLeft(LAMBDA a, i : a + ks[i], 0, [i \in 1..n |-> i]))
                                              /\ n - FoldLeft(LAMBDA a, i : a + ks[i], 0, [i \in 1..n |-> i]) >= 1}
Init == st = [lvl |-> 0]
Next == \/ st.lvl = 0 /\ \E n \in Sizes : st' \in [lvl : {1}, n : {n}, ks : Shapes(n)]
        \* rootRep: 255 = the root carries no repetition_type (as the format prescribes), 0 / 1 / 2 = it carries REQUIRED /
        \* OPTIONAL / REPEATED (files of older writers do: parquet-cpp wrote REPEATED); the root is the message, not a node
        \* on any path: its label never counts
        \/ st.lvl = 1 /\ st' \in [lvl : {2}, n : {st.n}, ks : {st.ks}, rootRep : {255, 0, 1, 2},
                                  reps : IF PerShape = 0 THEN [1..st.n -> {0, 1, 2}] ELSE RandomSubset(PerShape, [1..st.n -> {0, 1, 2}])]

Nodes(s) == [i \in 1..s.n |-> [rep |-> s.reps[i], kids |-> s.ks[i]]]
Elements(s) ==
    LET nodes == Nodes(s)
        leafNo(i) == Len(SelectSeq([j \in 1..i |-> j], LAMBDA j : nodes[j].kids = 0))
    IN <<IF s.rootRep = 255 THEN Root(Roots(nodes))
         ELSE [Root(Roots(nodes)) EXCEPT !.hasRep = TRUE, !.rep = s.rootRep]>> \o
       [i \in 1..s.n |-> IF nodes[i].kids = 0
                          THEN LET lt == LeafTypes[((leafNo(i) - 1) % Len(LeafTypes)) + 1]
                               IN WithLt(Leaf(NameOf(i), lt[1], nodes[i].rep, lt[2]), LtOf(i, s.n + FoldLeft(LAMBDA a, j : a + s.reps[j], 0, [j \in 1..s.n |-> j])))
                          ELSE WithLt(Group(NameOf(i), nodes[i].rep, nodes[i].kids),
                                      IF nodes[i].rep = 2 THEN [k |-> "list"] ELSE IF i % 3 = 0 THEN [k |-> "map"] ELSE [k |-> "none"])]
FileOf(s) ==
    LET nodes == Nodes(s)
        lv == Levels(nodes)
        es == Elements(s)
        leafRec(k) == [type |-> es[lv[k].node + 1].type, tlen |-> es[lv[k].node + 1].tlen, maxDef |-> lv[k].maxDef, maxRep |-> lv[k].maxRep,
                       path |-> [j \in 1..Len(lv[k].path) |-> NameOf(lv[k].path[j])]]
    IN SerFile([elements |-> es, createdBy |-> <<>>, extras |-> FALSE, sty |-> DefaultStyle,
                rgs |-> << [numRows |-> 0,
                            cols |-> [k \in 1..Len(lv) |-> MkChunk(leafRec(k), [defs |-> <<>>, reps |-> <<>>, vals |-> <<>>], <<>>, DefaultOpt)]] >>])

Emit == st.lvl = 2 =>
    LET nodes == Nodes(st)
        lv == Levels(nodes)
        bs == FileOf(st)
        f == ParseFile(bs)
        es == Elements(st)
    IN /\ Assert(f.ok /\ Len(f.leaves) = Len(lv)
                 /\ \A k \in 1..Len(lv) : f.leaves[k].maxDef = lv[k].maxDef /\ f.leaves[k].maxRep = lv[k].maxRep /\ f.leaves[k].elem = lv[k].node + 1,
                 <<"spec self-check failed: DFS walk disagrees with the path definition", st>>)
       /\ PrintT(ToJson([n |-> st.n, kids |-> st.ks, reps |-> st.reps, rootRep |-> st.rootRep, bytes |-> bs,
                         elements |-> [i \in 1..Len(es) |-> [name |-> es[i].name, isLeaf |-> es[i].hasType, type |-> es[i].type,
                                                             tlen |-> es[i].tlen, rep |-> es[i].rep, nchild |-> es[i].nchild,
                                                             lt |-> IF "lt" \in DOMAIN es[i] THEN es[i].lt ELSE [k |-> "none"]]],
                         nodeLevels |-> NodeLevels(nodes),
                         leaves |-> [k \in 1..Len(lv) |-> [elem |-> lv[k].node, name |-> NameOf(lv[k].node), maxDef |-> lv[k].maxDef, maxRep |-> lv[k].maxRep]]]))
=============================================================================
