--------------------------- MODULE MC_SnappyBytes ---------------------------
(* Every byte string over an alphabet of Snappy boundary bytes up to MaxLen, judged by the  *)
(* reference decoder Snappy.DecodeInto for several destination capacities.                  *)
(* Serves C10 ("reject streams the format defines as invalid", all tag kinds on minimal     *)
(* streams) and C08 (grammar-based generation: one input per decoder transition, each cut   *)
(* after every byte, since the set is prefix-closed).                                       *)
EXTENDS Snappy, TLC, Json
CONSTANTS MaxLen, Alphabet, Caps
VARIABLE c

Init == c = <<>>
Next == Len(c) < MaxLen /\ \E b \in Alphabet : c' = Append(c, b)

\* reasons the model cannot decide (values beyond TLC's integers / over-long varints):
\* the expected outcome is left open
Open == {"length-huge", "offset-huge", "varint-overflow", "varint-too-long"}

Judge(bs, cap) ==
    LET d == DecodeInto(bs, cap) IN
    IF d.ok THEN [cap |-> cap, exp |-> "accept", out |-> d.out, why |-> "", trail |-> FALSE]
    ELSE IF d.why \in Open THEN [cap |-> cap, exp |-> "open", out |-> <<>>, why |-> d.why, trail |-> FALSE]
    ELSE [cap |-> cap, exp |-> "reject", out |-> <<>>, why |-> d.why,
          \* a complete valid block followed by further bytes
          trail |-> \E k \in 1..(Len(bs) - 1) : DecodeInto(SubSeq(bs, 1, k), cap).ok]

Emit == PrintT(ToJson([fmt |-> "snappy", s |-> c, j |-> [cap \in Caps |-> Judge(c, cap)]]))
EmitInv == Emit
=============================================================================
