----------------------------- MODULE MC_Lz4Tail -----------------------------
(* LZ4 blocks whose match ends at or within a few bytes of the end of the output, decoded    *)
(* into destinations of exactly the output size and of sizes that cut inside the match and   *)
(* inside the trailing literals.  Matches with offsets >= 8 (the decoder's word-copy path)    *)
(* and every length 4..20; trailing literals none (the block ends in a match), 0, 1, 3, 7.    *)
(* Judged by the reference decoder Lz4.DecodeInto; serves C10 (accept/reject, exact bytes)    *)
(* and C08 (writes stay inside the declared capacity: exact-size heap buffers under ASan).    *)
EXTENDS Lz4, TLC, Json
CONSTANTS Firsts,    \* lengths of the leading literals
          Offs, Lens,
          Tails      \* trailing literal counts; 99 stands for "no last sequence: ends in a match"
VARIABLE c

Init == c = [k |-> "start"]
Next == \/ c.k = "start" /\ \E P \in Firsts : \E o \in {o \in Offs : o <= P} : c' = [k |-> "grp", P |-> P, off |-> o]
        \/ c.k = "grp" /\ \E m \in Lens, t \in Tails : c' = [k |-> "case", P |-> c.P, off |-> c.off, ml |-> m, t |-> t]

Seqs(x) == <<Sq(B(Pat(x.P, 1)), x.off, x.ml)>> \o (IF x.t = 99 THEN <<>> ELSE <<LastLits(B(Pat(x.t, 2)))>>)
Tl(x)   == IF x.t = 99 THEN 0 ELSE x.t
CapsOf(x) == LET n == x.P + x.ml + Tl(x) IN
             {n, n + 1, x.P + (x.ml \div 2), x.P + x.ml - 1, x.P + x.ml + (Tl(x) \div 2)} \cup (IF n > 0 THEN {n - 1} ELSE {})

Judge(bs, cap) ==
    LET d == DecodeInto(bs, cap) IN
    IF d.ok THEN [cap |-> cap, exp |-> IF d.strict THEN "accept" ELSE "lenient", out |-> d.out, why |-> ""]
    ELSE [cap |-> cap, exp |-> "reject", out |-> <<>>, why |-> d.why]

Emit == LET s == Ser(Seqs(c)) IN
        /\ Valid(Seqs(c)) /\ Decode(s).out = Apply(Seqs(c))
        /\ PrintT(ToJson([fmt |-> "lz4", s |-> s, j |-> [cap \in CapsOf(c) |-> Judge(s, cap)]]))
EmitInv == c.k # "case" \/ Emit
=============================================================================
