CONSTANTS
  Sizes <- SizesThorough
  Values <- ValSet
  MaxOps = 3
INIT Init
NEXT Next
INVARIANTS NoFalseNegative SizeRounded FreshIsEmpty EmitInv
PROPERTY MergeIsUnion
CHECK_DEADLOCK FALSE
