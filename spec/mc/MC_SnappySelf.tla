--------------------------- MODULE MC_SnappySelf ---------------------------
(* Self-check of spec/fmt/Snappy.tla and spec/fmt/Lz.tla; runs without the implementation. *)
(* An error here is a specification error (InfraError), never an alarm on carquet.         *)
EXTENDS Snappy, TLC
CONSTANT MaxToks
VARIABLE c

SLits == { Lit(0, B(Pat(1, 1))), Lit(0, B(Pat(60, 2))), Lit(1, B(Pat(1, 3))), Lit(1, B(Pat(61, 4))),
           Lit(1, B(Pat(256, 5))), Lit(2, B(Pat(257, 6))), Lit(2, B(Pat(3, 7))), Lit(3, B(Pat(2, 8))),
           Lit(4, B(Pat(5, 9))), Lit(2, F(300, 3, 7)), Lit(0, F(9, 1, 250)) }
SCopies == {Copy1(o, l) : o \in {0, 1, 2, 5, 300, 2047}, l \in {4, 7, 11}}
      \cup {Copy2(o, l) : o \in {0, 1, 3, 64, 256, 65535}, l \in {1, 2, 64}}
      \cup {Copy4(o, l) : o \in {0, 1, 2, 65536, 70000}, l \in {1, 33, 64}}
Toks == SLits \cup SCopies

Init == c = <<>>
Next == /\ Len(c) < MaxToks
        /\ \E t \in (IF Len(c) = 2 /\ ~IsLit(c[1]) THEN {} ELSE Toks) : c' = Append(c, t)

\* ---- laws ----
RoundTrip == LET s == Ser(c)
                 p == Parse(s)
             IN /\ p.ok /\ p.n = OutLen(c)
                /\ Len(p.toks) = Len(c)
                /\ \A i \in 1..Len(c) : /\ p.toks[i].k = c[i].k
                                        /\ IF IsLit(c[i]) THEN p.toks[i].x = c[i].x /\ p.toks[i].d.b = CBytes(c[i].d)
                                                          ELSE p.toks[i] = c[i]
                /\ Len(s) = Len(Varint(OutLen(c))) + FoldLeft(LAMBDA a, t : a + ElemLen(t), 0, c)
DecodeLaw == LET s == Ser(c)
                 d == Decode(s)
             IN IF Valid(c) THEN /\ d.ok /\ d.out = Apply(c) /\ Len(d.out) = OutLen(c)
                                 /\ Flat(ApplyR(c)) = Apply(c)
                                 /\ DecodeInto(s, OutLen(c)).ok
                                 /\ Against(c, d.out) = "ok"
                                 /\ (d.out # <<>> => Against(c, [d.out EXCEPT ![Len(d.out)] = (@ + 1) % 256]) # "ok")
                                 /\ Against(c, Append(d.out, 0)) = "output-shorter-than-input"
                                 /\ (d.out # <<>> => Against(c, SubSeq(d.out, 1, Len(d.out) - 1)) = "output-longer-than-input")
                                 /\ (OutLen(c) > 0 => ~DecodeInto(s, OutLen(c) - 1).ok)
                ELSE /\ ~d.ok /\ d.why = Check(c)
                     \* an invalid offset is reported whatever the comparison bytes are
                     /\ Against(c, [i \in 1..OutLen(c) |-> 0]) \in {Check(c), "literal-differs-from-input", "copy-differs-from-input"}
                     /\ Against(c, [i \in 1..OutLen(c) |-> 0]) # "ok"
\* every proper prefix of a valid block is invalid; so is a wrong declared length
PrefixLaw == Valid(c) /\ Len(c) <= 2 =>
                LET s == Ser(c) IN
                /\ \A k \in 0..(Len(s) - 1) : (k < 8 \/ k > Len(s) - 8 \/ k % 37 = 0) => ~Decode(SubSeq(s, 1, k)).ok
                /\ ~Decode(SerBlock(OutLen(c) + 1, c)).ok
                /\ (OutLen(c) > 0 => ~Decode(SerBlock(OutLen(c) - 1, c)).ok)
                /\ RTake(SerR(c), Len(s) \div 2) # <<>> => Flat(RTake(SerR(c), Len(s) \div 2)) = SubSeq(s, 1, Len(s) \div 2)

\* ---- fixed facts (evaluated once) ----
CopyLaw == \A out \in {<<1>>, <<1, 2>>, <<1, 2, 3>>, <<1, 2, 3, 4, 5>>} : \A off \in 1..Len(out) : \A len \in 0..9 :
              CopyDef(out, off, len) = out \o CopyBytes(out, off, len)
Ascii(s) == s
Vectors ==
    /\ Decode(<<0>>) = [ok |-> TRUE, out |-> <<>>]
    /\ Decode(<<5, 16, 97, 98, 99, 100, 101>>).out = <<97, 98, 99, 100, 101>>
    \* "ab" then copy-1 offset 2 length 8 (overlapping): ababababab
    /\ Decode(<<10, 4, 97, 98, 17, 2>>).out = <<97, 98, 97, 98, 97, 98, 97, 98, 97, 98>>
    \* same with copy-2 and copy-4
    /\ Decode(<<10, 4, 97, 98, 30, 2, 0>>).out = <<97, 98, 97, 98, 97, 98, 97, 98, 97, 98>>
    /\ Decode(<<10, 4, 97, 98, 31, 2, 0, 0, 0>>).out = <<97, 98, 97, 98, 97, 98, 97, 98, 97, 98>>
    \* literal with one / two extra length bytes, non-minimal
    /\ Decode(<<2, 240, 1, 7, 8>>).out = <<7, 8>>
    /\ Decode(<<2, 244, 1, 0, 7, 8>>).out = <<7, 8>>
    /\ Decode(<<2, 252, 1, 0, 0, 0, 7, 8>>).out = <<7, 8>>
    /\ ~Decode(<<10, 4, 97, 98, 17, 0>>).ok /\ Decode(<<10, 4, 97, 98, 17, 0>>).why = "offset-zero"
    /\ Decode(<<10, 4, 97, 98, 17, 3>>).why = "offset-beyond-output"
    /\ Decode(<<10, 4, 97, 98, 17>>).why = "truncated-offset"
    /\ Decode(<<9, 4, 97, 98, 17, 2>>).why = "output-longer-than-declared"
    /\ Decode(<<11, 4, 97, 98, 17, 2>>).why = "output-shorter-than-declared"
    /\ Decode(<<>>).why = "truncated-varint" /\ Decode(<<128>>).why = "truncated-varint"
    /\ ParseVarint(<<172, 2>>).v = 300 /\ Varint(300) = <<172, 2>> /\ Varint(0) = <<0>>
    /\ ParseVarint(<<255, 255, 255, 255, 7>>).v = 2147483647
    /\ ParseVarint(Varint(2147483647)).v = 2147483647
    \* libsnappy 1.1.9 output for 20 x "abcd" (frozen): 80 bytes = 50 04 0c 61 62 63 64 fe 04 00 2e 04 00
    /\ Decode(<<80, 12, 97, 98, 99, 100, 254, 4, 0, 46, 4, 0>>).out = [i \in 1..80 |-> 97 + ((i - 1) % 4)]
    /\ FillByte(3, 0) = 3 /\ FillByte(0, 251) = 1 /\ FillByte(0, 250) = (250 * 7) % 256
Fixed == Len(c) > 0 \/ (CopyLaw /\ Vectors)
=============================================================================
