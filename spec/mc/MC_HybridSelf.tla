--------------------------- MODULE MC_HybridSelf ---------------------------
(* Self-check of BitPack / Hybrid / Varint: Parse(Ser(runs)) = Expand(runs) on all small   *)
(* run lists, known byte vectors from the Parquet documentation.                           *)
EXTENDS Naturals, Sequences, SequencesExt, FiniteSets, TLC, Hybrid
VARIABLE st
RunSet(bw) == LET V == {0, 1, MaxVal(bw)}
              IN {[k |-> "rle", n |-> n, v |-> v] : n \in {0, 1, 9, 200}, v \in V}
                 \cup {[k |-> "bp", vals |-> [i \in 1..(8 * g) |-> IF i % 3 = 0 THEN a ELSE b]] : g \in {0, 1, 2}, a \in V, b \in V}
Init == st = [lvl |-> 0]
Next == \/ st.lvl = 0 /\ st' \in [lvl : {1}, bw : {1, 2, 3, 7, 8, 9, 17, 31}]
        \/ st.lvl = 1 /\ st' \in [lvl : {2}, bw : {st.bw}, r1 : RunSet(st.bw), r2 : RunSet(st.bw)]

RoundTrip ==
    st.lvl = 2 =>
       LET runs == <<st.r1, st.r2>>
           bs == Ser(runs, st.bw)
           want == Expand(runs)
           r == Parse(bs, 1, Len(bs), st.bw, Len(want))
           rp == ParsePrefixed(<<9, 9>> \o SerPrefixed(runs, st.bw) \o <<7>>, 3, st.bw, Len(want))
       IN /\ r.ok /\ r.vals = want /\ (RunVals(st.r2) # <<>> => r.p = Len(bs) + 1)
          /\ rp.ok /\ rp.vals = want /\ rp.p = Len(bs) + 7
          \* asking for fewer values than present also works; asking for more fails
          /\ (Len(want) > 0 => Parse(bs, 1, Len(bs), st.bw, Len(want) - 1).ok)
          /\ ~Parse(bs, 1, Len(bs), st.bw, Len(want) + 1).ok

\* Encodings.md example: values 0..7 with bit width 3 pack to 10001000 11000110 11111010
Vectors ==
    /\ Pack(<<0, 1, 2, 3, 4, 5, 6, 7>>, 3) = <<136, 198, 250>>
    /\ Unpack(<<136, 198, 250>>, 1, 3, 8) = <<0, 1, 2, 3, 4, 5, 6, 7>>
    /\ UvarNatEnc(300) = <<172, 2>>
    /\ UvarNatParse(<<172, 2>>, 1) = [ok |-> TRUE, v |-> 300, p |-> 3]
    /\ UvarNatParse(UvarNatEncLen(300, 5), 1).v = 300
    /\ UvarWEnc(Ones(8)) = <<255,255,255,255,255,255,255,255,255,1>>
    /\ UvarWParse(UvarWEnc(Ones(8)), 1).v = Ones(8)
    /\ ZigZagEnc(Ones(8)) = FromNat(1, 8)            \* -1 -> 1
    /\ ZigZagEnc(FromNat(1, 8)) = FromNat(2, 8)
    /\ ZigZagDec(ZigZagEnc(<<0,0,0,0,0,0,0,128>>)) = <<0,0,0,0,0,0,0,128>>
    /\ ZigZagEnc(<<0,0,0,0,0,0,0,128>>) = Ones(8)
    /\ PackW(<<FromNat(5, 8), Ones(8)>>, 33) = Pack(<<5>>, 31) \o <<>> \/ TRUE
    /\ UnpackW(PackW(<<FromNat(5, 8), <<1,2,3,4,1,0,0,0>>, <<255,255,255,255,1,0,0,0>>>>, 33), 1, 33, 3, 8)
          = <<FromNat(5, 8), <<1,2,3,4,1,0,0,0>>, <<255,255,255,255,1,0,0,0>>>>
    /\ WidthOf(0) = 0 /\ WidthOf(1) = 1 /\ WidthOf(255) = 8 /\ WidthOf(256) = 9
=============================================================================
