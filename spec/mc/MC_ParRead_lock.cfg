CONSTANTS
  NTasks = 3
  PreThreads = 3
  MainThreads = 3
  MCPre = 1
  MCMain = 1
  Lock = TRUE
  Record = FALSE
  PreSteps <- MCPreSteps
  MainSteps <- MCMainSteps
SPECIFICATION Spec
INVARIANTS AllInv
PROPERTIES NoLostTask Termination
