--------------------------- MODULE MC_ThriftTrace ---------------------------
(* C13: validation of what carquet's Thrift layer did, against ThriftCompact/ParquetThrift. *)
(* The trace (ndjson, IOEnv.TRACE) holds one record per generated case:                      *)
(*   {"e":"Case","id","kind" (FileMetaData|PageHeader|generic),"a": the abstract case,       *)
(*    "ab": bool, "w": {"st","bytes"}            carquet-serialise (parquet_write_X or thrift_write_X)   *)
(*    "rt": {"st","consumed","dump"}             carquet-parse of carquet's own bytes        *)
(*    "vars": [{"n","st","consumed","dump","mayReject","fault"}]  carquet-parse of the bytes *)
(*                                               the spec's encoder produced (n = their length)}  *)
(* The checker is deterministic; for every record it computes the set of *named* violated    *)
(* conditions:                                                                             *)
(*  (a) a:write-status, a:spec-parse-failed:<why>, a:consumed (TParse consumed # produced),  *)
(*      a:<TypeErrs entry> (unknown-field / wire-type / missing / duplicate / range / union), *)
(*      a:abs-differs (Abs(TParse(bytes)) # case on the fields carquet serialises)           *)
(*  (b) b:parse-status, b:consumed, b:differs (dump # case on the fields carquet serialises) *)
(*  (c) c:fault@i, c:parse-status@i, c:consumed@i, c:differs@i (dump # case on the fields    *)
(*      carquet parses) for variant i                                                       *)
(* and prints one JSON report in the final state.                                           *)
EXTENDS ParquetThrift, Json, IOUtils
VARIABLES l, bad, stats
Tr == ndJsonDeserialize(IOEnv.TRACE)
Ev == Tr[l]

\* ---- what carquet serialises (KeepS) and what it parses (KeepP), per struct: the property
\* compares "every field carquet serialises". Fields outside are defaulted on both sides.
KeepS == [AllNames EXCEPT !.ColumnMetaData = @ \ {"kv", "encodingStats"},
                          !.Statistics = @ \ {"maxExact", "minExact"},
                          !.DataPageHeaderV2 = @ \ {"stats"}]
KeepP == [AllNames EXCEPT !.DataPageHeaderV2 = @ \ {"stats"}]

AVerdict(e) ==
    IF e.w.st # 0 THEN {"a:write-status"}
    ELSE LET r == TParse(e.w.bytes, 1)
         IN IF ~r.ok THEN {"a:spec-parse-failed:" \o r.why}
            ELSE (IF r.p # Len(e.w.bytes) + 1 THEN {"a:consumed"} ELSE {})
                 \cup (IF e.kind = "generic"
                       THEN (IF r.v # e.a THEN {"a:tree-differs"} ELSE {})
                       ELSE {"a:" \o x : x \in TypeErrs(e.kind, r.v)}
                            \cup (IF Proj(e.kind, Abs(e.kind, r.v), KeepS) # Proj(e.kind, e.a, KeepS)
                                  THEN {"a:abs-differs"} ELSE {}))
BVerdict(e) ==
    IF e.kind = "generic" \/ e.w.st # 0 THEN {}
    ELSE IF e.rt.st # 0 THEN {"b:parse-status"}
    ELSE (IF e.rt.consumed # Len(e.w.bytes) THEN {"b:consumed"} ELSE {})
         \cup (IF Proj(e.kind, e.rt.dump, KeepS) # Proj(e.kind, e.a, KeepS) THEN {"b:differs"} ELSE {})
CVerdict(e, i, pa) ==
    LET v == e.vars[i]
        at(s) == s \o "@" \o ToString(i)
    IN IF v.fault # "" THEN {at("c:fault")}
       ELSE IF v.st # 0 THEN (IF v.mayReject THEN {} ELSE {at("c:parse-status")})
       ELSE (IF v.consumed # v.n THEN {at("c:consumed")} ELSE {})
            \cup (IF e.kind = "generic"
                  THEN (IF v.dump # e.a THEN {at("c:differs")} ELSE {})
                  ELSE IF Proj(e.kind, v.dump, KeepP) # pa THEN {at("c:differs")} ELSE {})
Verdict(e) == LET pa == IF e.kind = "generic" THEN e.a ELSE Proj(e.kind, e.a, KeepP)
              IN (IF e.ab THEN AVerdict(e) \cup BVerdict(e) ELSE {})
                 \cup UNION {CVerdict(e, i, pa) : i \in 1..Len(e.vars)}

Init == l = 1 /\ bad = <<>> /\ stats = [execs |-> 0, events |-> 0, failed |-> 0, variants |-> 0, serialised |-> 0]
Next == /\ l <= Len(Tr)
        /\ l' = l + 1
        /\ IF Ev.e = "Reset" THEN /\ stats' = [stats EXCEPT !.execs = @ + 1] /\ UNCHANGED bad
           ELSE LET v == Verdict(Ev)
                IN /\ bad' = IF v = {} THEN bad
                             ELSE Append(bad, [l |-> l, id |-> Ev.id, e |-> Ev.e, why |-> SetToSeq(v), detail |-> ""])
                   /\ stats' = [stats EXCEPT !.events = @ + 1, !.failed = IF v = {} THEN @ ELSE @ + 1,
                                             !.variants = @ + Len(Ev.vars), !.serialised = IF Ev.ab THEN @ + 1 ELSE @]
Report == l = Len(Tr) + 1 =>
            PrintT(ToJson([verdicts |-> bad, stats |-> stats, lines |-> Len(Tr),
                           keepS |-> [k \in Kinds |-> SetToSeq(KeepS[k])], keepP |-> [k \in Kinds |-> SetToSeq(KeepP[k])]]))
=============================================================================
