CONSTANTS
  NTasks <- GenN
  PreThreads <- GenPreT
  MainThreads <- GenMainT
  PreSteps <- GenPre
  MainSteps <- GenMain
  Lock <- GenLock
  Record = TRUE
INIT GenInit
NEXT GenNext
INVARIANTS GenInv Emit
CHECK_DEADLOCK FALSE
