------------------------------- MODULE MC_Sink -------------------------------
(* Model checking of WriterSink (C18, design level): every history of writer calls within  *)
(* the bounds x every buffer capacity x every failure point (byte offset, stream operation,*)
(* close; sticky or one-shot) x {path writer, FILE* writer} x abort at every point.        *)
(* The .cfg files select the design variant:                                               *)
(*   MC_Sink_fixed    all results checked + ferror latch          -> all invariants hold   *)
(*   MC_Sink_asis     close ignores fflush and fclose             -> WSInvAck violated      *)
(*   MC_Sink_nolatch  fflush/fclose checked, no ferror latch      -> WSInvAck violated by a *)
(*                    history that continues after a reported one-shot failure             *)
(*   MC_Sink_stop     as nolatch, but the application stops at the first non-OK status     *)
(*                    (AppContinues = FALSE)                      -> all invariants hold   *)
(*   MC_Sink_noremove abort forgets remove()                      -> WSInvAbort violated    *)
(*   MC_Sink_nowrite  fwrite results ignored, no latch            -> WSInvAck violated      *)
EXTENDS WriterSink, TLC
CONSTANTS MaxRows, MaxGroups, Caps, AppContinues

MaxPos == WSHdrLen + MaxGroups * MaxRows + WSFooterLen(MaxGroups) + 2 * WSTailLen
MaxOps == 1 + MaxGroups + 5
Arms == {SkNoArm, [kind |-> "close", at |-> 0, sticky |-> FALSE]}
        \cup { [kind |-> "byte", at |-> k, sticky |-> s] : k \in 0..MaxPos, s \in BOOLEAN }
        \cup { [kind |-> "op", at |-> j, sticky |-> s] : j \in 1..MaxOps, s \in BOOLEAN }

Init == WSInit
MayCall == impl.handle /\ (AppContinues \/ ~impl.anyErr)
More == sink.ops <= MaxGroups                   \* bounds histories that keep calling after failures
Next == \/ \E owned \in BOOLEAN, cap \in Caps, arm \in Arms : WSCreate(owned, cap, arm)
        \/ MayCall /\ More /\ \E n \in 1..MaxRows : impl.rg + n <= MaxRows /\ WSWriteBatch(n)
        \/ MayCall /\ More /\ impl.nrg + 1 < MaxGroups /\ WSNewRowGroup
        \/ MayCall /\ WSClose
        \/ WSAbort
Spec == Init /\ [][Next]_wsvars

TypeInv == TypeOK /\ (sink.open => SkTypeOK) /\ SkMonotone /\ SkLossIsReported /\ SkNoSilentLoss
InvAck == WSInvAck
InvReported == WSInvReported
InvAbort == WSInvAbort
InvStatus == WSInvStatus
=============================================================================
