\* quick tier model (the check substitutes Seed = VERIF_SEED mod 32749)
CONSTANTS
  Seed = 1
  KernelSet = {"prefix_sum_i32", "prefix_sum_i64", "gather_i32", "gather_i64", "gather_float", "gather_double", "bss_encode_float", "bss_decode_float", "bss_encode_double", "bss_decode_double", "unpack_bools", "pack_bools", "find_run_length_i32", "crc32c", "match_copy", "match_length", "count_non_nulls", "build_null_bitmap", "fill_def_levels", "memset", "memcpy", "bitunpack"}
  MaxElem = 67
  MaxBool = 131
  MaxByte = 67
  MaxMem = 515
  Large = {1000, 1027}
  Huge = {}
  NRand = 2
  FullRun = 36
INIT Init
NEXT Next
INVARIANT Emit
CHECK_DEADLOCK FALSE
