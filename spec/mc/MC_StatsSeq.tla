---------------------------- MODULE MC_StatsSeq ----------------------------
(* C16 part (b): call sequences for the statistics builder.  A case is a physical type and *)
(* <= MaxCalls calls, each add_values(1 or 2 values) | add_nulls(k) | reset, over a value   *)
(* domain that puts the specials first (NaN payloads, -0/+0, infinities, signed extremes,  *)
(* byte arrays of unequal length, of exactly 256, of 257 and of 300 bytes, the empty       *)
(* string).  K bounds the domain prefix used (quick: small K, exhaustive; thorough: all,   *)
(* exhaustive for MaxCalls = 2 and simulated for longer sequences).                        *)
EXTENDS Naturals, Sequences, FiniteSets, TLC, Json
CONSTANTS TypeSpecs,    \* set of type * 1000 + type_length
          MaxCalls, K
VARIABLE st

Rep(n, b) == [i \in 1..n |-> b]
B(t, tlen) ==
    CASE t = 0 -> << <<1>>, <<0>> >>
      [] t = 1 -> << <<0,0,0,128>>, <<255,255,255,127>>, <<255,255,255,255>>, <<0,1,0,0>>, <<1,0,0,0>>, <<0,0,0,0>> >>
      [] t = 2 -> << <<0,0,0,0,0,0,0,128>>, <<255,255,255,255,255,255,255,127>>, <<255,255,255,255,255,255,255,255>>,
                     <<0,0,0,0,1,0,0,0>>, <<1,0,0,0,0,0,0,0>>, <<0,0,0,0,0,0,0,0>> >>
      [] t = 3 -> << <<0,0,0,0,0,0,0,0,1,0,0,0>>, <<255,255,255,255,0,0,0,0,0,0,0,0>>, <<0,0,0,0,0,0,0,0,0,0,0,128>>,
                     <<0,0,0,0,0,0,0,0,0,0,0,0>>, <<1,2,3,4,5,6,7,8,9,10,11,12>> >>
      [] t = 4 -> << <<0,0,192,127>>, <<0,0,0,128>>, <<0,0,0,0>>, <<0,0,192,63>>, <<0,0,128,255>>, <<0,0,128,127>>,
                     <<0,0,192,191>>, <<1,0,192,255>>, <<1,0,160,127>>, <<1,0,0,0>> >>
      [] t = 5 -> << <<0,0,0,0,0,0,248,127>>, <<0,0,0,0,0,0,0,128>>, <<0,0,0,0,0,0,0,0>>, <<0,0,0,0,0,0,248,63>>,
                     <<0,0,0,0,0,0,240,255>>, <<0,0,0,0,0,0,240,127>>, <<0,0,0,0,0,0,248,191>>, <<1,0,0,0,0,0,248,255>>,
                     <<1,0,0,0,0,0,244,127>>, <<1,0,0,0,0,0,0,0>> >>
      [] t = 6 -> << <<97>>, Rep(300, 122), <<>>, <<97,0,98>>, <<255>>, Rep(256, 121), Rep(257, 0), <<97,0>>, <<128>>, <<127,255>> >>
      [] t = 7 -> IF tlen = 3 THEN << <<0,0,1>>, <<255,255,255>>, <<0,0,0>>, <<1,2,3>>, <<127,255,0>>, <<128,0,0>> >>
                  ELSE << Rep(tlen, 0), Rep(tlen, 255), [i \in 1..tlen |-> i % 256], [i \in 1..tlen |-> IF i = tlen THEN 1 ELSE 0] >>
TypeOf(ts) == ts \div 1000
TLenOf(ts) == ts % 1000
Dom(ts) == LET b == B(TypeOf(ts), TLenOf(ts)) IN {b[i] : i \in 1..(IF Len(b) < K THEN Len(b) ELSE K)}

Calls(ts) == {[k |-> "v", vals |-> <<a>>] : a \in Dom(ts)}
             \cup {[k |-> "v", vals |-> <<a, b>>] : a \in Dom(ts), b \in Dom(ts)}
             \cup {[k |-> "n", n |-> n] : n \in {1, 3}}
             \cup {[k |-> "r"]}

Init == st = [lvl |-> 0]
Next == \/ st.lvl = 0 /\ \E ts \in TypeSpecs : \E c \in Calls(ts) : st' = [lvl |-> 1, ts |-> ts, calls |-> <<c>>]
        \/ st.lvl = 1 /\ Len(st.calls) < MaxCalls /\ \E c \in Calls(st.ts) : st' = [st EXCEPT !.calls = Append(@, c)]

\* every prefix is a case of its own (build is called after each of them)
Emit == st.lvl = 1 => PrintT(ToJson([t |-> TypeOf(st.ts), tlen |-> TLenOf(st.ts), calls |-> st.calls]))
=============================================================================
