---------------------------- MODULE MC_Dispatch ----------------------------
(* Model configurations of Dispatch.tla for C15.                                              *)
(*  coarse (MC_Dispatch.cfg):  features {sse42, avx2, avx512}; the AVX-512 family (F, BW, VL)  *)
(*      is one feature, as in the property's quantifier.                                      *)
(*  fine (MC_DispatchFine.cfg): avx512f / avx512bw / avx512vl are separate fields of           *)
(*      carquet_cpu_info_t; dispatch.c tests has_avx512f only while CMakeLists.txt compiles    *)
(*      avx512_ops.c with -mavx512f -mavx512bw -mavx512vl.                                    *)
(* Both explore every (host, mask) pair, i.e. every capability subset, every order of explicit *)
(* / lazy initialisation and every kernel call.  For every capability set the expected table   *)
(* is printed for the conformance check against the real function pointers.                   *)
EXTENDS Dispatch, TLC, Json

FeaturesCoarse == {"sse42", "avx2", "avx512"}
GuardCoarse == [scalar |-> {}, sse |-> {"sse42"}, avx2 |-> {"avx2"}, avx512 |-> {"avx512"}]
NeedsCoarse == GuardCoarse

FeaturesFine == {"sse42", "avx2", "avx512f", "avx512bw", "avx512vl"}
GuardFine == [scalar |-> {}, sse |-> {"sse42"}, avx2 |-> {"avx2"}, avx512 |-> {"avx512f"}]
NeedsFine == [scalar |-> {}, sse |-> {"sse42"}, avx2 |-> {"avx2"}, avx512 |-> {"avx512f", "avx512bw", "avx512vl"}]

SetSeq(S) == LET f[T \in SUBSET S] == IF T = {} THEN <<>> ELSE LET x == CHOOSE x \in T : TRUE IN <<x>> \o f[T \ {x}] IN f[S]
\* printed once per (host, mask): the table the modelled initialisation produced and the
\* specification-level best table
Emit == (inited /\ pc = "idle" /\ last.k = "none") =>
            PrintT(ToJson([host |-> SetSeq(host), mask |-> SetSeq(mask), caps |-> SetSeq(caps),
                           table |-> [i \in 1..Len(Entries) |-> table[Entries[i]]],
                           best |-> [i \in 1..Len(Entries) |-> BestOf(Entries[i], caps)],
                           entries |-> Entries]))
=============================================================================
