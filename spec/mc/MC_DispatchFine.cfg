CONSTANTS
  Features <- FeaturesFine
  Guard <- GuardFine
  Needs <- NeedsFine
INIT Init
NEXT Next
INVARIANTS TypeOK CapsSound NoUnsetCall TableBest
CHECK_DEADLOCK FALSE
