CONSTANTS
  ProgIds = {"schema", "write", "read", "batch"}
  Policies = {"abort", "close", "continue"}
INIT Init
NEXT Next
INVARIANTS Inv Emit
CHECK_DEADLOCK FALSE
