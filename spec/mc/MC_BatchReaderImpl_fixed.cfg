CONSTANTS
 PageRows <- PR
 Eligible <- EL
 BatchSizes = {1, 2, 3, 4, 6, 7}
 ZeroCopyRule = "eq"
INIT Init
NEXT Next
INVARIANT RowAligned
CHECK_DEADLOCK FALSE
