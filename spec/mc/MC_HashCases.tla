--------------------------- MODULE MC_HashCases ---------------------------
(* Case generator for the pure hash functions: XXH64 (C20) and CRC-32 (C14).               *)
(* Each state is one case; the invariant prints input bytes and the value the              *)
(* specification assigns, and checks the composition law on the spec itself.               *)
EXTENDS Naturals, Sequences, SequencesExt, TLC, Json, W, Crc32, XxHash64
CONSTANTS MaxLen, Patterns, Kind,   \* Kind \in {"xxh", "crc"}
          BigLens                    \* a few large lengths (crc only): implementations switch code paths by length
VARIABLE c
Seeds == << Zero(8), FromNat(1, 8), <<0,0,0,0,1,0,0,0>>, Ones(8), <<21, 205, 91, 7, 0, 0, 0, 0>> >>

Data(n, k) == [i \in 1..n |-> IF k = 0 THEN 0 ELSE IF k = 1 THEN 255
                              ELSE ((i * 37) + (n * 11) + (k * 101) + (((i % 7) * (i % 7)) % 7)) % 256]    \* (i*i would overflow for large i)

XxhCases == [n : 0..MaxLen, k : Patterns, s : 1..Len(Seeds)]
CrcCases == [n : 0..MaxLen, k : Patterns, s : 0..MaxLen]     \* s = split point (<= n)

BigCases == {x \in {[n |-> n, k |-> 2, s |-> sp] : n \in BigLens, sp \in {0, 1, 4097}} : x.s <= x.n} \cup {[n |-> n, k |-> 2, s |-> n - 1] : n \in BigLens}
\* two levels so that TLC's workers share the evaluation: first pick the length, then the rest
Init == c = [none |-> TRUE]
Next == \/ /\ "none" \in DOMAIN c
           /\ c' \in [grp : 0..MaxLen] \cup (IF Kind = "crc" THEN [grp : BigLens] ELSE {})
        \/ /\ "grp" \in DOMAIN c
           /\ c' \in IF Kind = "xxh" THEN {x \in XxhCases : x.n = c.grp}
                                     ELSE IF c.grp \in BigLens THEN {x \in BigCases : x.n = c.grp}
                                     ELSE {x \in CrcCases : x.n = c.grp /\ x.s <= x.n}

EmitXxh == LET d == Data(c.n, c.k) IN
           PrintT(ToJson([kind |-> "xxh", d |-> d, seed |-> Seeds[c.s], h |-> XXH64(d, Seeds[c.s])]))
EmitCrc == LET d == Data(c.n, c.k)
               a == SubSeq(d, 1, c.s)
               b == SubSeq(d, c.s + 1, c.n)
               whole == Crc32(d)
           IN /\ whole = Crc32Update(Crc32(a), b)           \* composition law on the spec
              /\ PrintT(ToJson([kind |-> "crc", a |-> a, b |-> b, ca |-> AsLE(Crc32(a)), cd |-> AsLE(whole)]))
Emit == "none" \in DOMAIN c \/ "grp" \in DOMAIN c \/ (IF Kind = "xxh" THEN EmitXxh ELSE EmitCrc)
=============================================================================
