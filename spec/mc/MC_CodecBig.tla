----------------------------- MODULE MC_CodecBig -----------------------------
(* Large inputs for C10's carquet-compress -> spec-decode direction: data in which a        *)
(* sequence recurs at a distance around the formats' offset limits (Snappy compressor       *)
(* window 32768, copy-2 offset field 16 bit; LZ4 offset field <= 65535) and around the      *)
(* 16-bit position tables of carquet's compressors:                                         *)
(*    a noise block of B bytes written Reps times,  B in Periods(codec)                      *)
(*    an int64 column cycling through 8192 values (period 65536 bytes)                      *)
(* Emits the same record shape as MC_CodecCases.                                            *)
EXTENDS CodecDesc, TLC, Json
CONSTANTS Codecs, SnappyPeriods, Lz4Periods, Reps, Cycles
VARIABLE d

Periods(codec) == IF codec = "snappy" THEN SnappyPeriods ELSE Lz4Periods
Periodic(B, r) == <<DL(B, 11), DR(B, B * (r - 1))>>

Init == d = [k |-> "start"]
Next == \/ /\ d.k = "start"
           /\ \E cd \in Codecs : d' = [k |-> "codec", codec |-> cd]
        \/ /\ d.k = "codec"
           /\ \/ \E B \in Periods(d.codec), r \in Reps :
                    d' = [k |-> "case", codec |-> d.codec, segs |-> Periodic(B, r)]
              \/ \E cy \in Cycles :      \* cy = number of int64 values; modulus 8192
                    d' = [k |-> "case", codec |-> d.codec, segs |-> <<DC(cy, 8192)>>]

Emit == PrintT(ToJson([desc |-> d.segs, n |-> DescLen(d.segs), codec |-> d.codec, level |-> 0, cap |-> "b"]))
EmitInv == d.k # "case" \/ (DescOk(d.segs) /\ Emit)
=============================================================================
