INIT Init
NEXT Next
INVARIANT RoundTrip
INVARIANT Vectors
CHECK_DEADLOCK FALSE
