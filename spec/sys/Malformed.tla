----------------------------- MODULE Malformed -----------------------------
(* C04: structure-aware hostile files. A mutation rewrites one field of the Thrift tree of   *)
(* the footer (FileMetaData) or of a page header; the tree is re-serialised by the           *)
(* reference writer, so the file stays Thrift-valid and reaches the deep reader paths        *)
(* ("two individually plausible fields disagree"). The catalogue of fields is derived from   *)
(* the tree itself: every integer field, every binary field, every list.                     *)
EXTENDS Naturals, Sequences, SequencesExt, FiniteSets, W, ThriftCompact

\* A path addresses a node: sequence of steps, each <<"f", id>> (struct field) or <<"i", k>> (list element)
RECURSIVE GetAt(_, _)
GetAt(x, path) ==
    IF path = <<>> THEN x
    ELSE LET st == path[1]
         IN IF st[1] = "f" THEN GetAt(Field(x, st[2]), Tail(path))
            ELSE GetAt(x.v[st[2]], Tail(path))

RECURSIVE SetAt(_, _, _)
SetAt(x, path, new) ==
    IF path = <<>> THEN new
    ELSE LET st == path[1]
         IN IF st[1] = "f"
            THEN LET i == FieldIdx(x, st[2])
                 IN [x EXCEPT !.v[i].val = SetAt(@, Tail(path), new)]
            ELSE [x EXCEPT !.v[st[2]] = SetAt(@, Tail(path), new)]

\* drop a struct field / a list element
RECURSIVE DropAt(_, _)
DropAt(x, path) ==
    LET st == path[1]
    IN IF Len(path) = 1
       THEN IF st[1] = "f" THEN [x EXCEPT !.v = SelectSeq(@, LAMBDA f : f.id # st[2])]
            ELSE [x EXCEPT !.v = SubSeq(@, 1, st[2] - 1) \o SubSeq(@, st[2] + 1, Len(@))]
       ELSE IF st[1] = "f"
            THEN LET i == FieldIdx(x, st[2]) IN [x EXCEPT !.v[i].val = DropAt(@, Tail(path))]
            ELSE [x EXCEPT !.v[st[2]] = DropAt(@, Tail(path))]

\* add a field to the struct at `path` (kept in ascending id order)
RECURSIVE AddAt(_, _, _)
AddAt(x, path, fld) ==
    IF path = <<>>
    THEN [x EXCEPT !.v = SelectSeq(@, LAMBDA f : f.id < fld.id) \o <<fld>> \o SelectSeq(@, LAMBDA f : f.id > fld.id)]
    ELSE LET st == path[1]
         IN IF st[1] = "f"
            THEN LET i == FieldIdx(x, st[2]) IN [x EXCEPT !.v[i].val = AddAt(@, Tail(path), fld)]
            ELSE [x EXCEPT !.v[st[2]] = AddAt(@, Tail(path), fld)]

\* all paths (depth-first order) to nodes whose type is in `types`; at most `cap` elements of a list are entered
RECURSIVE PathsOf(_, _, _, _)
PathsOf(x, prefix, types, cap) ==
    (IF x.t \in types THEN <<prefix>> ELSE <<>>)
    \o (IF x.t = "struct" THEN FoldLeft(LAMBDA acc, i : acc \o PathsOf(x.v[i].val, Append(prefix, <<"f", x.v[i].id>>), types, cap), <<>>, [i \in 1..Len(x.v) |-> i])
        ELSE IF x.t \in {"list", "set"}
        THEN FoldLeft(LAMBDA acc, i : acc \o PathsOf(x.v[i], Append(prefix, <<"i", i>>), types, cap), <<>>,
                      [i \in 1..(IF Len(x.v) < cap THEN Len(x.v) ELSE cap) |-> i])
        ELSE <<>>)

IntTypes == {"i16", "i32", "i64"}
Word(neg, mag) == IF neg THEN Neg(FromNat(mag, 8)) ELSE FromNat(mag, 8)
MaxI32 == <<255, 255, 255, 127, 0, 0, 0, 0>>
MinI32 == <<0, 0, 0, 128, 255, 255, 255, 255>>
MaxI64 == <<255, 255, 255, 255, 255, 255, 255, 127>>
MinI64 == <<0, 0, 0, 0, 0, 0, 0, 128>>

\* hostile replacement values for an integer node holding word w, in a file of `fsize` bytes
IntValues(w, fsize) ==
    SelectSeq(<< Word(TRUE, 1), Zero(8), Word(FALSE, 1), Add(w, Word(FALSE, 1)), Sub(w, Word(FALSE, 1)),
                 Word(FALSE, fsize), Word(FALSE, fsize + 1), MaxI32, MinI32, MaxI64, Word(FALSE, 255), Word(FALSE, 65536) >>,
              LAMBDA v : v # w)
BinValues(b) == SelectSeq(<< <<>>, <<0>>, [i \in 1..300 |-> 65], b \o b >>, LAMBDA v : v # b)

\* a mutation is [kind |-> "set" | "drop", path, val]
Apply(tree, m) == IF m.kind = "set" THEN SetAt(tree, m.path, m.val)
                  ELSE IF m.kind = "add" THEN AddAt(tree, m.path, [id |-> m.id, val |-> m.val])
                  ELSE DropAt(tree, m.path)
=============================================================================
