------------------------------ MODULE StatsInt ------------------------------
(* The pruning operator table of Stats.tla (`Might`) over the mathematical integers, for   *)
(* an unbounded proof with Apalache:                                                       *)
(*     apalache-mc check --length=0 --inv=Sound StatsInt.tla                               *)
(* (every linear order embeds its finite configurations in Int, so this is the statement   *)
(* for INT32/INT64/BYTE_ARRAY/FIXED_LEN_BYTE_ARRAY orders as well).  Tight: whenever the   *)
(* rule says "might" and min <= max, one of min, max, probe itself is a matching value     *)
(* within the bounds or the rule is != and ... (see TightW).                               *)
EXTENDS Integers
VARIABLES
    \* @type: Int;
    v,
    \* @type: Int;
    mn,
    \* @type: Int;
    mx,
    \* @type: Int;
    p,
    \* @type: Str;
    op

OPS == {"EQ", "NE", "LT", "LE", "GT", "GE"}
\* @type: (Str, Int, Int) => Bool;
HoldsI(o, x, q) ==
    CASE o = "EQ" -> x = q [] o = "NE" -> x # q [] o = "LT" -> x < q
      [] o = "LE" -> x <= q [] o = "GT" -> x > q [] OTHER -> x >= q
MightI ==
    CASE op = "EQ" -> mn <= p /\ p <= mx
      [] op = "NE" -> ~(mn = p /\ mx = p)
      [] op = "LT" -> mn < p
      [] op = "LE" -> mn <= p
      [] op = "GT" -> p < mx
      [] OTHER -> p <= mx

Init == v \in Int /\ mn \in Int /\ mx \in Int /\ p \in Int /\ op \in OPS
Next == UNCHANGED <<v, mn, mx, p, op>>

\* no false negative: a stored value within the bounds that satisfies the predicate is never pruned
Sound == (HoldsI(op, v, p) /\ mn <= v /\ v <= mx) => MightI
\* tightest rule: if it says "might" for producible statistics, one of the three candidate
\* values min, max, probe is within the bounds and satisfies the predicate
Tight == (mn <= mx /\ MightI) =>
            \/ HoldsI(op, mn, p) \/ HoldsI(op, mx, p)
            \/ (mn <= p /\ p <= mx /\ HoldsI(op, p, p))
SoundAndTight == Sound /\ Tight
=============================================================================
