----------------------------- MODULE CodecDesc -----------------------------
(* LZ-structured input descriptors for the codec contract (Codec.tla):                     *)
(*     [t |-> "L", n, s]      n incompressible bytes from seed s                            *)
(*     [t |-> "R", off, len]  len bytes copied from `off` back (overlap allowed: runs)      *)
(*     [t |-> "C", n, m]      n little-endian int64 values  i % m  (i = 0, 1, ..): a column    *)
(*                            cycling through m values, i.e. data of period 8*m bytes          *)
(*     [t |-> "V", n, s]      n little-endian int32 values drawn pseudo-randomly (seed s) from  *)
(*                            s % 29 + 2 distinct values: a low-cardinality column in random   *)
(*                            order (short matches everywhere)                                 *)
(* The replayer expands them to bytes; the specification only reasons about shape, length   *)
(* and identity of the input.                                                               *)
EXTENDS Naturals, Sequences, SequencesExt

DL(n, s)     == [t |-> "L", n |-> n, s |-> s]
DR(off, len) == [t |-> "R", off |-> off, len |-> len]
DC(n, m)     == [t |-> "C", n |-> n, m |-> m]
DV(n, s)     == [t |-> "V", n |-> n, s |-> s]
SegLen(g)  == IF g.t = "L" THEN g.n ELSE IF g.t = "C" THEN 8 * g.n ELSE IF g.t = "V" THEN 4 * g.n ELSE g.len
DescLen(d) == FoldLeft(LAMBDA a, g : a + SegLen(g), 0, d)
\* a repeat must refer to bytes that exist
DescOk(d) == FoldLeft(LAMBDA acc, g : IF ~acc[2] THEN acc
                                      ELSE IF g.t \in {"L", "C", "V"} THEN <<acc[1] + SegLen(g), TRUE>>
                                      ELSE <<acc[1] + g.len, g.off >= 1 /\ g.off <= acc[1]>>,
                      <<0, TRUE>>, d)[2]

=============================================================================
