INIT TInit
NEXT TNext
INVARIANT Report
CHECK_DEADLOCK FALSE
