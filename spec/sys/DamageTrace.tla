---------------------------- MODULE DamageTrace ----------------------------
(* C14 (page damage): a file written by carquet is damaged inside the stored bytes of one  *)
(* page body; with checksum verification on, reading that page must report an error       *)
(* instead of returning data; pages before it may be delivered (and must be delivered      *)
(* unchanged); an undamaged file never reports an error.                                   *)
(*                                                                                         *)
(* Model: a chunk is a sequence of pages, each with a body byte range and a row count.     *)
(* The page map comes from the TLA+ reference reader run on the undamaged bytes.           *)
(* State machine of one damaged read: Deliver(rows) steps may only consume rows of pages   *)
(* strictly before the damaged page; then Error. The trace checker below is the            *)
(* deterministic form (DESIGN.md 4): verdict names per event.                              *)
EXTENDS ParquetFile, TLC, Json, IOUtils
VARIABLES l, skip, bad, stats, fileMap
Tr == ndJsonDeserialize(IOEnv.TRACE)
Ev == Tr[l]

\* pages of all chunks: [g, c, first (0-based offset of first body byte), len, rowsBefore, n, content before]
PageMap(f) ==
    [g \in 1..Len(f.rgs) |->
       [c \in 1..Len(f.rgs[g].cols) |->
          LET ps == f.rgs[g].cols[c].pages
          IN [i \in 1..Len(ps) |->
                [first |-> ps[i].off + ps[i].hdrLen, len |-> ps[i].clen, kind |-> ps[i].kind,
                 rowsBefore |-> FoldLeft(LAMBDA acc, j : IF ps[j].kind = "data" THEN acc + ps[j].n ELSE acc, 0,
                                         [j \in 1..(i - 1) |-> j]),
                 n |-> IF ps[i].kind = "data" THEN ps[i].n ELSE 0]]]]

\* which page (index) of chunk (g, c) holds file offset pos in its body; 0 if none
PageAt(g, c, pos) ==
    LET ps == fileMap.pages[g][c]
        hit == {i \in 1..Len(ps) : pos >= ps[i].first /\ pos < ps[i].first + ps[i].len}
    IN IF hit = {} THEN 0 ELSE CHOOSE i \in hit : TRUE

\* expected content of chunk (g, c): from the reference reader when it can decode the codec;
\* for layout-only fixtures (GZIP, ZSTD bodies are opaque to the specification) the content
\* recorded from the read of the undamaged file (its agreement with the history is C01's business)
Content(ev, f) ==
    IF ev.layout
    THEN [g \in 1..Len(f.rgs) |-> [c \in 1..Len(f.rgs[g].cols) |->
            LET hit == {k \in 1..Len(ev.content) : ev.content[k].g = g - 1 /\ ev.content[k].c = c - 1}
            IN IF hit = {} THEN [defs |-> <<>>, vals |-> <<>>]
               ELSE LET k == CHOOSE k \in hit : TRUE IN [defs |-> ev.content[k].defs, vals |-> ev.content[k].vals]]]
    ELSE [g \in 1..Len(f.rgs) |-> [c \in 1..Len(f.rgs[g].cols) |->
            [defs |-> ChunkDefs(f.rgs[g].cols[c]), vals |-> ChunkVals(f.rgs[g].cols[c])]]]
ParseEv(ev) == IF ev.layout THEN ParseLayout(ev.bytes) ELSE ParseFile(ev.bytes)
AllPages(f) == Flatten([g \in 1..Len(f.rgs) |-> Flatten([c \in 1..Len(f.rgs[g].cols) |-> f.rgs[g].cols[c].pages])])
ChunkRows(g, c) == Len(fileMap.content[g][c].defs)

\* a damaged read of chunk (g, c): Ev.delivered rows in total, Ev.error (some call failed),
\* Ev.defs / Ev.vals the delivered content, Ev.verify
Verdict ==
    CASE Ev.e = "File" -> LET f == ParseEv(Ev) IN
                          IF ~f.ok THEN {"fixture-not-parsable"}
                          \* every page of a file written by carquet carries a (correct) checksum: without one
                          \* no damage to that page can be detected
                          ELSE {k \in {"damage:page-without-crc", "damage:crc-wrong-on-undamaged-file"} :
                                   \/ (k = "damage:page-without-crc" /\ \E i \in 1..Len(AllPages(f)) : ~AllPages(f)[i].hasCrc)
                                   \/ (k = "damage:crc-wrong-on-undamaged-file" /\ \E i \in 1..Len(AllPages(f)) : ~AllPages(f)[i].crcOk)}
      [] Ev.e = "Read" ->
            LET g == Ev.g + 1
                c == Ev.c + 1
                p == IF Ev.pos < 0 THEN 0 ELSE PageAt(g, c, Ev.pos)
                ch == fileMap.content[g][c]
                total == ChunkRows(g, c)
                allowed == IF p = 0 THEN total
                           ELSE IF fileMap.pages[g][c][p].kind = "dict" THEN 0
                           ELSE fileMap.pages[g][c][p].rowsBefore
                prefixOk == /\ Ev.delivered <= total
                            /\ Ev.defs = SubSeq(ch.defs, 1, Ev.delivered)
                            /\ Ev.vals = SubSeq(ch.vals, 1, Len(Ev.vals))
                            /\ Len(Ev.vals) = CountEq(SubSeq(ch.defs, 1, Ev.delivered), fileMap.maxDef[c])
            IN IF Ev.fault # "" THEN {"damage:fault:" \o Ev.fault}
               ELSE IF ~Ev.verify THEN {}                                     \* only memory safety is promised
               ELSE IF p = 0 THEN                                              \* damage elsewhere or none: this chunk is intact
                    {k \in {"damage:spurious-error", "damage:intact-chunk-content"} :
                        \/ (k = "damage:spurious-error" /\ Ev.error)
                        \/ (k = "damage:intact-chunk-content" /\ ~Ev.error /\ ~(prefixOk /\ Ev.delivered = total))}
               ELSE {k \in {"damage:undetected", "damage:data-from-damaged-page", "damage:earlier-rows-changed"} :
                        \/ (k = "damage:undetected" /\ ~Ev.error)
                        \/ (k = "damage:data-from-damaged-page" /\ Ev.delivered > allowed)
                        \/ (k = "damage:earlier-rows-changed" /\ Ev.delivered <= allowed /\ ~prefixOk)}
      [] OTHER -> {"unknown-event"}

TInit == l = 1 /\ skip = FALSE /\ bad = <<>> /\ stats = [execs |-> 0, events |-> 0, failed |-> 0, detected |-> 0]
         /\ fileMap = [none |-> TRUE]
TReset == /\ l <= Len(Tr) /\ Ev.e = "Reset" /\ l' = l + 1 /\ skip' = FALSE /\ UNCHANGED <<bad, fileMap>>
          /\ stats' = [stats EXCEPT !.execs = @ + 1]
TSkip == l <= Len(Tr) /\ Ev.e # "Reset" /\ skip /\ l' = l + 1 /\ UNCHANGED <<skip, bad, stats, fileMap>>
TStep == /\ l <= Len(Tr) /\ Ev.e # "Reset" /\ ~skip /\ l' = l + 1
         /\ LET v == Verdict
            IN IF v = {} THEN /\ UNCHANGED <<skip, bad>>
                              /\ fileMap' = IF Ev.e = "File" THEN LET f == ParseEv(Ev) IN [pages |-> PageMap(f), content |-> Content(Ev, f),
                                                                                  maxDef |-> [c \in 1..Len(f.leaves) |-> f.leaves[c].maxDef]] ELSE fileMap
                              /\ stats' = [stats EXCEPT !.events = @ + 1,
                                                        !.detected = IF Ev.e = "Read" /\ Ev.error THEN @ + 1 ELSE @]
               ELSE /\ bad' = Append(bad, [l |-> l, id |-> Ev.id, e |-> Ev.e, why |-> v, detail |-> ""])
                    /\ skip' = (Ev.e = "File") /\ UNCHANGED <<stats, fileMap>>
TNext == TReset \/ TSkip \/ TStep
Report == l = Len(Tr) + 1 => PrintT(ToJson([verdicts |-> bad, stats |-> stats, lines |-> Len(Tr)]))
=============================================================================
