----------------------------- MODULE AllocTrace -----------------------------
(* C19 trace validation: every recorded call of an execution in which one allocation       *)
(* request of the library was made to fail must be a step of AllocFault.tla, and every     *)
(* call that reports success on a handle that never reported an error must have its        *)
(* fault-free effect:                                                                      *)
(*   writer calls      -> steps of Writer.tla; the file of a writer whose calls all said   *)
(*                        OK is re-read without faults and must be the promised table      *)
(*                        (the Open / Chunk / File judgements of WriterTrace.tla);         *)
(*   reader calls      -> the rows returned are the next rows of the promised table;       *)
(*   batch reader      -> each batch is the next rows of every projected column;           *)
(*   schema builder    -> the dump is the element list the calls describe.                 *)
(* The fault-free effect is computed here from the recorded *arguments* (Writer.tla's      *)
(* TableWritten), never from a second run of the library.                                  *)
(*                                                                                         *)
(* Deterministic checker in the style of WriterTrace: Verdict2 = names of the violated     *)
(* conditions of the current event, Apply2 = the state update; executions are separated    *)
(* by {"e":"Reset"}; one JSON report at the end.                                           *)
EXTENDS WriterTrace, AllocFault
VARIABLES rd,      \* reader-side cursor: [g, c, pos, bpos, proj, bs]
          sch      \* schema under construction: Seq of [name, leaf, type, rep, tlen]
allvars == <<wst, schema, cur, done, l, skip, bad, stats, hst, delivered, fault, rd, sch>>

RdInit == [g |-> 0, c |-> 0, pos |-> 0, bpos |-> 0, proj |-> <<>>, bs |-> 0]

\* ---- which protocol step an event is: <<kind, handle, parent>>
StepOf(e) ==
    CASE e = "Create"          -> <<"make", "writer", "-">>
      [] e = "WriteBatch"      -> <<"use", "writer", "-">>
      [] e = "NewRowGroup"     -> <<"use", "writer", "-">>
      [] e = "Close"           -> <<"rel", "writer", "-">>
      [] e = "Abort"           -> <<"rel", "writer", "-">>
      [] e = "ROpen"           -> <<"make", "reader", "-">>
      [] e = "GetColumn"       -> <<"make", "col", "reader">>
      [] e = "Read"            -> <<"use", "col", "-">>
      [] e = "SkipRows"        -> <<"use", "col", "-">>
      [] e = "FreeColumn"      -> <<"rel", "col", "-">>
      [] e = "BatchCreate"     -> <<"make", "br", "reader">>
      [] e = "BatchNext"       -> <<"use", "br", "-">>
      [] e = "FreeBatches"     -> <<"rel", "batch", "-">>
      [] e = "FreeBatchReader" -> <<"rel", "br", "-">>
      [] e = "CloseReader"     -> <<"rel", "reader", "-">>
      [] e = "SchemaCreate"    -> <<"make", "schema", "-">>
      [] e = "AddColumn"       -> <<"use", "schema", "-">>
      [] e = "AddGroup"        -> <<"use", "schema", "-">>
      [] e = "SchemaDump"      -> <<"use", "schema", "-">>
      [] e = "SchemaFree"      -> <<"rel", "schema", "-">>
      [] OTHER                 -> <<"other", "-", "-">>
IsCall == StepOf(Ev.e)[1] # "other"
Kind == StepOf(Ev.e)[1]
Hd == StepOf(Ev.e)[2]
Par == StepOf(Ev.e)[3]

EndOfData == 63
\* the status the call reported, from the raw logged fields
St == CASE Ev.e \in {"Create", "ROpen", "GetColumn", "BatchCreate", "SchemaCreate"} -> IF Ev.ok THEN "ok" ELSE "err"
        [] Ev.e \in {"WriteBatch", "NewRowGroup", "Close", "AddColumn"} -> IF Ev.st = 0 THEN "ok" ELSE "err"
        [] Ev.e \in {"Read", "SkipRows"} -> IF Ev.n >= 0 THEN "ok" ELSE "err"
        [] Ev.e = "BatchNext" -> IF Ev.st \in {0, EndOfData} THEN "ok" ELSE "err"
        [] Ev.e = "AddGroup" -> IF Ev.idx >= 0 THEN "ok" ELSE "err"
        [] OTHER -> "ok"                                           \* void calls cannot report

\* ---- protocol verdict: is the reported status a step of AllocFault?
ProtoVerdict ==
    IF Ev.hit /\ (delivered \/ ~Ev.armed) THEN {"harness:fault-outside-window-or-twice"}
    ELSE IF Kind = "make" THEN
            IF ~Absent(Hd) \/ (Par # "-" /\ ~Usable(Par)) THEN {"harness:make-on-bad-handle"}
            ELSE IF CanMake(Hd, Par, St, Ev.armed, Ev.hit) THEN {} ELSE {"error-without-fault"}
    ELSE IF Ev.e = "FreeBatches" /\ ~Usable("batch") THEN {}          \* nothing was kept
    ELSE IF ~Usable(Hd) THEN {"harness:call-on-dead-handle"}
    ELSE IF Kind = "use" THEN (IF CanUse(Hd, St, Ev.armed, Ev.hit) THEN {} ELSE {"error-without-fault"})
    ELSE (IF CanRelease(Hd, St, Ev.armed, Ev.hit) THEN {} ELSE {"error-without-fault"})

\* is the fault-free effect owed by this call?
Owed == IF Kind = "make" THEN MakePromised(Par, St) ELSE Promised(Hd, St)

\* ---- the promised table, per column, row groups concatenated (batch reader)
Whole(c) == FoldLeft(LAMBDA acc, g : [defs |-> acc.defs \o g[c].defs, vals |-> acc.vals \o g[c].vals],
                     [defs |-> <<>>, vals |-> <<>>], done)
NPresent(c, ds) == Len(SelectSeq(ds, LAMBDA d : Present(c, d)))
\* rows pos+1 .. pos+n of a column
RowSlice(col, c, pos, n) ==
    LET ds == SubSeq(col.defs, pos + 1, pos + n)
        vb == NPresent(c, SubSeq(col.defs, 1, pos))
    IN [defs |-> ds, vals |-> SubSeq(col.vals, vb + 1, vb + NPresent(c, ds))]

\* ---- data verdicts (only evaluated when Owed)
OpenVerdict ==
    IF wst # "closed" THEN {"harness:fixture-not-written"}
    ELSE {k \in {"open:rows", "open:groups", "open:schema"} :
            \/ (k = "open:rows" /\ Ev.rows # TotalRows)
            \/ (k = "open:groups" /\ SelectSeq(Ev.rgs, LAMBDA n : n > 0) # [g \in 1..Len(done) |-> Rows(done[g][1])])
            \/ (k = "open:schema" /\ ~SchemaMatches(Ev.leaves))}

GetColumnVerdict ==
    IF Ev.g + 1 > Len(done) \/ Ev.c + 1 > NCols THEN {"read:no-such-chunk"}
    ELSE IF Ev.type # schema[Ev.c + 1].type \/ Ev.maxdef # MaxDef(Ev.c + 1) THEN {"column:meta"} ELSE {}

ReadVerdict ==
    LET col == done[rd.g][rd.c]
        left == Rows(col) - rd.pos
    IN IF Ev.n > Min2(Ev.k, left) \/ (left > 0 /\ Ev.k > 0 /\ Ev.n = 0) THEN {"read:count"}
       ELSE LET s == RowSlice(col, rd.c, rd.pos, Ev.n)
            IN {k \in {"read:defs", "read:vals", "read:remaining", "read:stale-bytes"} :
                  \/ (k = "read:defs" /\ Ev.n > 0 /\ Ev.defs # s.defs)
                  \/ (k = "read:vals" /\ Ev.vals # s.vals)
                  \/ (k = "read:remaining" /\ Ev.rem # left - Ev.n)
                  \/ (k = "read:stale-bytes" /\ Ev.stale)}

\* skip is exact in a fault-free call; once the failure exists a short skip that says so (return value and
\* remaining() agree) is a clean, reported degradation (the API returns "values actually skipped")
SkipVerdict ==
    LET left == Rows(done[rd.g][rd.c]) - rd.pos
        full == Min2(Ev.k, left)
    IN IF Ev.n > full \/ (Ev.n < full /\ ~(delivered \/ Ev.hit)) THEN {"skip:count"}
       ELSE IF Ev.rem # left - Ev.n THEN {"read:remaining"} ELSE {}

BatchColVerdict(j) ==
    LET c == rd.proj[j] + 1
        b == Ev.cols[j]
        s == RowSlice(Whole(c), c, rd.bpos, Ev.rows)
        nulls == [i \in 1..Ev.rows |-> IF Present(c, s.defs[i]) THEN 0 ELSE 1]
    IN IF ~b.ok THEN {"batch:column-error"}
       ELSE {k \in {"batch:column-count", "batch:nulls", "batch:vals"} :
               \/ (k = "batch:column-count" /\ b.nv # Ev.rows)
               \/ (k = "batch:nulls" /\ b.nv = Ev.rows /\ IF b.bitmap THEN b.nulls # nulls ELSE \E i \in 1..Ev.rows : nulls[i] = 1)
               \/ (k = "batch:vals" /\ b.vals # s.vals)}

BatchVerdict ==
    IF Ev.st = EndOfData THEN (IF rd.bpos # TotalRows THEN {"batch:early-end"} ELSE {})
    ELSE IF ~Ev.has THEN {"batch:ok-without-batch"}
    ELSE IF Ev.rows = 0 \/ Ev.rows > TotalRows - rd.bpos \/ (rd.bs > 0 /\ Ev.rows > rd.bs) THEN {"batch:count"}
    ELSE IF Len(Ev.cols) # Len(rd.proj) THEN {"batch:columns"}
    ELSE UNION {BatchColVerdict(j) : j \in 1..Len(rd.proj)}

RootOk(e) == e.name # <<255, 253>>          \* <<255, 253>>: the library returned no name (NULL)
ElemOk(e, s) == /\ e.name = s.name /\ e.leaf = s.leaf /\ e.rep = s.rep
                /\ (s.leaf => e.type = s.type /\ e.tlen = s.tlen)
LeafIdx == SelectSeq([i \in 1..Len(sch) |-> IF sch[i].leaf THEN i ELSE 0], LAMBDA x : x > 0)   \* element index = position (root is 0)
DumpVerdict ==
    IF Ev.ne # Len(sch) + 1 \/ Len(Ev.elems) # Len(sch) + 1 THEN {"schema:element-count"}
    ELSE {k \in {"schema:root-name-missing", "schema:elements", "schema:leaves"} :
            \/ (k = "schema:root-name-missing" /\ ~RootOk(Ev.elems[1]))
            \/ (k = "schema:elements" /\ \E i \in 1..Len(sch) : ~ElemOk(Ev.elems[i + 1], sch[i]))
            \/ (k = "schema:leaves" /\ (Ev.nl # Len(LeafIdx) \/ Ev.leaves # LeafIdx))}

WriterVerdict ==       \* the guards of Writer.tla, as named by WriterTrace
    CASE Ev.e = "Create" -> IF CanCreate(Ev.cols) THEN {} ELSE {"create-not-enabled"}
      [] Ev.e = "WriteBatch" -> IF CanWriteBatch(Ev.c + 1, Ev.n, Ev.withDefs, Ev.defs, Ev.vals) THEN {} ELSE {"write-batch-not-enabled"}
      [] Ev.e = "NewRowGroup" -> IF CanNewRowGroup THEN {} ELSE {"new-row-group-not-enabled"}
      [] Ev.e = "Close" -> IF CanClose THEN {} ELSE {"close-not-enabled"}
      [] OTHER -> {}

DataVerdict ==
    CASE Ev.e \in {"Create", "WriteBatch", "NewRowGroup", "Close"} -> WriterVerdict
      [] Ev.e = "ROpen" -> OpenVerdict
      [] Ev.e = "GetColumn" -> GetColumnVerdict
      [] Ev.e = "Read" -> ReadVerdict
      [] Ev.e = "SkipRows" -> SkipVerdict
      [] Ev.e = "BatchNext" -> BatchVerdict
      [] Ev.e = "AddGroup" -> IF Ev.idx # Len(sch) + 1 THEN {"schema:group-index"} ELSE {}
      [] Ev.e = "SchemaDump" -> DumpVerdict
      [] OTHER -> {}

\* "Fixture": the file of a reader scenario was written without faults (every call of the write history
\* reported OK -- checked on the k = 0 execution, which carries the full history); the event carries the
\* schema and the table Writer.tla promised for that history (MC_AllocGen), so the history need not be
\* replayed in every execution.
Verdict2 ==
    IF Ev.e = "Fixture" THEN (IF wst = "none" THEN {} ELSE {"harness:fixture-twice"})
    ELSE IF IsCall THEN (LET p == ProtoVerdict IN IF p # {} THEN p ELSE IF Owed THEN DataVerdict ELSE {})
    ELSE CASE Ev.e \in {"File", "SameBytes", "Open", "Chunk"} -> Verdict        \* read-back of a closed writer's file: WriterTrace
           [] Ev.e = "Fault" -> {"fault:" \o (IF Ev.kind \in FaultKinds \ {"none"} THEN Ev.kind ELSE "crash")}
           [] Ev.e = "End" -> IF Ev.leak THEN {"fault:leak"}
                              ELSE IF \E h \in Handles : Usable(h) THEN {"harness:handle-not-released"} ELSE {}
           [] OTHER -> {"unknown-event"}

\* ---- state update of an allowed event
ProtoApply ==
    IF Kind = "make" THEN Make(Hd, Par, St, Ev.armed, Ev.hit)
    ELSE IF Kind = "use" THEN
            (IF Ev.e = "BatchNext" /\ St = "ok" /\ Ev.st = 0 /\ Ev.has /\ Absent("batch")
             THEN /\ CanUse(Hd, St, Ev.armed, Ev.hit)            \* the first kept batch makes the batch handle
                  /\ hst' = [hst EXCEPT !["batch"] = hst["br"]]
                  /\ delivered' = (delivered \/ Ev.hit) /\ UNCHANGED fault
             ELSE Use(Hd, St, Ev.armed, Ev.hit))
    ELSE IF Usable(Hd) THEN Release(Hd, St, Ev.armed, Ev.hit) ELSE UNCHANGED avars

WriterApply ==
    CASE Ev.e = "Create" -> IF St = "ok" THEN Create(Ev.cols) ELSE UNCHANGED wvars
      [] Ev.e = "WriteBatch" -> IF wst # "open" THEN UNCHANGED wvars ELSE IF St = "err" THEN Fail
                                ELSE WriteBatch(Ev.c + 1, Ev.n, Ev.withDefs, Ev.defs, Ev.vals)
      [] Ev.e = "NewRowGroup" -> IF wst # "open" THEN UNCHANGED wvars ELSE IF St = "err" THEN Fail ELSE NewRowGroup
      [] Ev.e = "Close" -> IF wst # "open" THEN UNCHANGED wvars ELSE IF St = "err" THEN Fail ELSE Close
      [] Ev.e = "Abort" -> IF wst \in {"open", "failed"} THEN Abort ELSE UNCHANGED wvars
      [] OTHER -> UNCHANGED wvars

ReaderApply ==
    CASE Ev.e = "GetColumn" /\ St = "ok" -> rd' = [rd EXCEPT !.g = Ev.g + 1, !.c = Ev.c + 1, !.pos = 0]
      [] Ev.e \in {"Read", "SkipRows"} /\ St = "ok" /\ Owed -> rd' = [rd EXCEPT !.pos = @ + Ev.n]
      [] Ev.e = "BatchCreate" /\ St = "ok" -> rd' = [rd EXCEPT !.bpos = 0, !.proj = Ev.proj, !.bs = Ev.bs]
      [] Ev.e = "BatchNext" /\ St = "ok" /\ Owed /\ Ev.st = 0 -> rd' = [rd EXCEPT !.bpos = @ + Ev.rows]
      [] OTHER -> UNCHANGED rd

SchemaApply ==
    CASE Ev.e = "SchemaCreate" -> sch' = <<>>
      [] Ev.e = "AddColumn" /\ St = "ok" -> sch' = Append(sch, [name |-> Ev.name, leaf |-> TRUE, type |-> Ev.type, rep |-> Ev.rep, tlen |-> Ev.tlen])
      [] Ev.e = "AddGroup" /\ St = "ok" -> sch' = Append(sch, [name |-> Ev.name, leaf |-> FALSE, type |-> 0, rep |-> Ev.rep, tlen |-> 0])
      [] OTHER -> UNCHANGED sch

Apply2 == IF IsCall THEN ProtoApply /\ WriterApply /\ ReaderApply /\ SchemaApply
          ELSE IF Ev.e = "Fixture"
               THEN /\ schema' = Ev.cols /\ done' = Ev.table /\ cur' = EmptyCols(Ev.cols) /\ wst' = "closed"
                    /\ UNCHANGED <<avars, rd, sch>>
               ELSE UNCHANGED <<wvars, avars, rd, sch>>

\* ---- statistics: which outcome shapes were seen (evidence only)
Bump(s) ==
    LET call == IsCall
        err == call /\ St = "err"
        tainted == call /\ Kind # "make" /\ Usable(Hd) /\ hst[Hd] = "tainted"
    IN [s EXCEPT !.events = @ + 1,
                 !.failed = IF err THEN @ + 1 ELSE @,
                 !.hits = IF call /\ Ev.hit THEN @ + 1 ELSE @,
                 !.hitErr = IF err /\ Ev.hit THEN @ + 1 ELSE @,
                 !.hitOk = IF call /\ Ev.hit /\ ~err THEN @ + 1 ELSE @,
                 !.lateErr = IF err /\ ~Ev.hit /\ ~tainted THEN @ + 1 ELSE @,
                 !.onTainted = IF tainted THEN @ + 1 ELSE @,
                 !.owedChecks = IF call /\ Owed THEN @ + 1 ELSE @,
                 !.shortReads = IF Ev.e \in {"Read", "SkipRows"} /\ Owed /\ Ev.n < Min2(Ev.k, Rows(done[rd.g][rd.c]) - rd.pos)
                                THEN @ + 1 ELSE @]

Stats0 == [execs |-> 0, events |-> 0, failed |-> 0, hits |-> 0, hitErr |-> 0, hitOk |-> 0, lateErr |-> 0,
           onTainted |-> 0, owedChecks |-> 0, shortReads |-> 0]

TInit2 == /\ WInit /\ AInit /\ rd = RdInit /\ sch = <<>>
          /\ l = 1 /\ skip = FALSE /\ bad = <<>> /\ stats = Stats0

TReset2 == /\ l <= Len(Tr) /\ Ev.e = "Reset"
           /\ wst' = "none" /\ schema' = <<>> /\ cur' = <<>> /\ done' = <<>>
           /\ hst' = [h \in Handles |-> "none"] /\ delivered' = FALSE /\ fault' = "none"
           /\ rd' = RdInit /\ sch' = <<>>
           /\ skip' = FALSE /\ l' = l + 1 /\ UNCHANGED bad
           /\ stats' = [stats EXCEPT !.execs = @ + 1]

TSkip2 == /\ l <= Len(Tr) /\ Ev.e # "Reset" /\ skip
          /\ l' = l + 1 /\ UNCHANGED <<wvars, avars, rd, sch, skip, bad, stats>>

TStep2 == /\ l <= Len(Tr) /\ Ev.e # "Reset" /\ ~skip
          /\ LET v == Verdict2
             IN IF v = {} THEN /\ Apply2 /\ UNCHANGED <<skip, bad>> /\ stats' = Bump(stats)
                ELSE /\ bad' = Append(bad, [l |-> l, id |-> Ev.id, e |-> Ev.e, why |-> v,
                                             hit |-> IF IsCall THEN Ev.hit ELSE FALSE,
                                             delivered |-> delivered,
                                             detail |-> IF Ev.e = "File" THEN ParseWhy(Ev.bytes, Layout) ELSE ""])
                     /\ skip' = TRUE /\ UNCHANGED <<wvars, avars, rd, sch, stats>>
          /\ l' = l + 1

TNext2 == TReset2 \/ TSkip2 \/ TStep2

Report2 == l = Len(Tr) + 1 => PrintT(ToJson([verdicts |-> bad, stats |-> stats, lines |-> Len(Tr)]))
\* an accepted prefix never leaves the allowed behaviours of AllocFault / Writer
TInv2 == TypeOK /\ ATypeOK /\ FaultFree /\ Closable /\ NoTaintBeforeFault
         /\ (wst \in {"open", "closed"} => DoneWellFormed)
=============================================================================
