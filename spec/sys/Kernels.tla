------------------------------ MODULE Kernels ------------------------------
(* Mathematical definition of every vector kernel of carquet's SIMD layer, over sequences.   *)
(*                                                                                            *)
(* The definitions are the ones the scalar fall-backs in src/simd/dispatch.c compute, written *)
(* as functions of the element sequences only.  Neither a buffer address (alignment) nor an   *)
(* instruction-set level occurs anywhere in this module: property C15 is exactly the claim    *)
(* that every (variant, alignment) of the implementation computes these functions and touches *)
(* nothing but the elements they mention.                                                     *)
(*                                                                                            *)
(* Representation: a byte is 0..255; a 32/64-bit element is a word of 4/8 byte limbs, least   *)
(* significant first (module W), which is also its little-endian memory image; int16 levels   *)
(* are TLC integers; a CRC register is a pair <<hi16, lo16>> (module Crc32).                  *)
EXTENDS Naturals, Sequences, SequencesExt, FiniteSets, W, Crc32

Idx1(n) == [i \in 1..n |-> i]
MinOf(S) == CHOOSE x \in S : \A y \in S : x <= y

\* ---- memory images ------------------------------------------------------------------------
\* flatten a sequence of w-limb words to bytes / cut bytes into w-limb words
Flat(ws, w) == [j \in 1..(Len(ws) * w) |-> ws[((j - 1) \div w) + 1][((j - 1) % w) + 1]]
Cut(bs, w)  == [i \in 1..(Len(bs) \div w) |-> [b \in 1..w |-> bs[(i - 1) * w + b]]]
\* int16 (two's complement, little endian)
I16Bytes(v) == LET u == IF v < 0 THEN v + 65536 ELSE v IN <<u % 256, u \div 256>>

\* ---- prefix sums (delta decoding): wrapping two's complement addition ---------------------
\* out[i] = initial + vals[1] + ... + vals[i]   (mod 2^(8w))
PrefixSum(vals, initial) ==
    FoldLeft(LAMBDA acc, v : LET s == Add(acc[2], v) IN <<Append(acc[1], s), s>>,
             <<<< >>, initial>>, vals)[1]

\* ---- dictionary gather: out[i] = dict[idx[i]]  (indices 0-based, < Len(dict)) -------------
Gather(dict, idx) == [i \in 1..Len(idx) |-> dict[idx[i] + 1]]

\* ---- BYTE_STREAM_SPLIT: stream b holds byte b of every value --------------------------------
\* encode: w-limb words -> bytes;  out[b*n + i] = vals[i][b]
BssEncode(vals, w) ==
    LET n == Len(vals)
    IN [j \in 1..(n * w) |-> vals[((j - 1) % n) + 1][((j - 1) \div n) + 1]]
\* decode: bytes (w streams of n bytes) -> n words
BssDecode(bs, w, n) == [i \in 1..n |-> [b \in 1..w |-> bs[(b - 1) * n + i]]]

\* ---- booleans: LSB-first bit packing ------------------------------------------------------
BitOf(byte, j) == (byte \div Pow2[j + 1]) % 2                       \* j \in 0..7
UnpackBools(bs, n) == [i \in 1..n |-> BitOf(bs[((i - 1) \div 8) + 1], (i - 1) % 8)]
\* domain: every input element is 0 or 1
PackBits(bits) ==
    LET n == Len(bits)
        at(k, j) == IF 8 * (k - 1) + j + 1 <= n THEN bits[8 * (k - 1) + j + 1] * Pow2[j + 1] ELSE 0
    IN [k \in 1..((n + 7) \div 8) |->
          at(k, 0) + at(k, 1) + at(k, 2) + at(k, 3) + at(k, 4) + at(k, 5) + at(k, 6) + at(k, 7)]
PackBools(bools) == PackBits(bools)

\* ---- run-length search: number of leading elements equal to the first ----------------------
FindRunLength(vals) ==
    IF Len(vals) = 0 THEN 0
    ELSE LET bad == {i \in 1..Len(vals) : vals[i] # vals[1]}
         IN IF bad = {} THEN Len(vals) ELSE MinOf(bad) - 1

\* ---- definition levels --------------------------------------------------------------------
CountNonNulls(levels, maxdef) == Cardinality({i \in 1..Len(levels) : levels[i] = maxdef})
\* bit i set <=> levels[i] < maxdef (null); caller passes a zeroed bitmap of ceil(n/8) bytes
BuildNullBitmap(levels, maxdef) ==
    PackBits([i \in 1..Len(levels) |-> IF levels[i] < maxdef THEN 1 ELSE 0])
FillLevels(n, v) == [i \in 1..n |-> v]

\* ---- LZ77 match helpers ---------------------------------------------------------------------
\* copy len bytes from `offset` bytes back, byte by byte (overlap replicates); hist is the
\* window before dst (Len(hist) >= offset >= 1).  Returns the bytes written at dst.
MatchCopy(hist, len, offset) ==
    LET h == Len(hist)
        all == FoldLeft(LAMBDA b, i : Append(b, b[Len(b) - offset + 1]), hist, Idx1(len))
    IN SubSeq(all, h + 1, h + len)
\* length of the common prefix of two equally long byte strings (limit - p = Len(a))
MatchLength(a, b) ==
    LET bad == {i \in 1..Len(a) : a[i] # b[i]}
    IN IF bad = {} THEN Len(a) ELSE MinOf(bad) - 1

\* ---- CRC32C: the scalar definition is the standard (inverted-in, inverted-out) CRC ---------
\* continued from a previous CRC value `crc` (0 for a fresh one)
Crc32cDef(crc, bs) == Crc32cUpdate(crc, bs)
\* what a bare register update (hardware crc32 instruction without the inversions) would give
Crc32cRaw(crc, bs) == FoldLeft(LAMBDA c, b : Feed(TableCAST, c, b), crc, bs)

\* ---- fixed-width bit unpackers: n values of `width` bits, LSB first, widened to 32 bits ----
\* consumes exactly n*width/8 bytes; width <= 16
BitUnpack(bs, width, n) ==
    [i \in 1..n |->
        FoldLeft(LAMBDA acc, b : acc + Bit(bs, (i - 1) * width + b) * (IF b < 8 THEN Pow2[b + 1] ELSE 256 * Pow2[b - 8 + 1]),
                 0, [b \in 1..width |-> b - 1])]

\* ---- memory helpers -----------------------------------------------------------------------
MemCopy(src) == src
MemSet(v, n) == [i \in 1..n |-> v]
=============================================================================
