------------------------------ MODULE LazyInit ------------------------------
(* Lazy initialisation in carquet as the code does it (no locks, plain flags):                *)
(*                                                                                            *)
(*  crc32.c   crc32_slicing_by_8:  if (!crc32_tables_initialized) crc32_init_tables();        *)
(*            crc32_init_tables:   if (flag) return; T0[i] := f(i) for all i;                 *)
(*                                 Tk[i] := g(Tk-1[i], T0[Tk-1[i] & 0xff]); flag := 1         *)
(*  detect.c  carquet_get_cpu_info: if (!g_initialized) carquet_init(); return &g_cpu_info    *)
(*            carquet_init:        if (flag) return; memset(&g_cpu_info, 0); bits := cpuid;   *)
(*                                 flag := 1 (release store)                                  *)
(*  dispatch.c carquet_dispatch_X: if (!g_dispatch_initialized) carquet_simd_dispatch_init(); *)
(*                                 g_dispatch.X(...)                                          *)
(*            carquet_simd_dispatch_init: if (flag) return; cpu := carquet_get_cpu_info();    *)
(*                                 every cell := scalar; if (cpu->has_sse42) every cell := sse;*)
(*                                 if (cpu->has_avx2) some cells := avx2; flag := 1           *)
(*                                                                                            *)
(* Threads run API programs concurrently from a cold start. Memory is sequentially consistent *)
(* at the granularity of one cell (aligned word stores are atomic on the supported targets;   *)
(* compiler/CPU reordering of the plain flag store is outside this model - assumption).       *)
(* PublishEarly = TRUE is the mutant "set the flag before filling the table".                 *)
(* Rezero = TRUE is carquet_init as found (memset of the global first); FALSE is the repair   *)
(* (the zero-initialised global is never cleared; every store writes the final value).        *)
EXTENDS Naturals, Sequences, FiniteSets, TLC
CONSTANTS NThreads, K,            \* K cells per table
          Apis,                   \* subset of {"crc", "cpu", "kernel"}: what a thread may call first
          PublishEarly,           \* BOOLEAN
          Rezero                  \* BOOLEAN: carquet_init starts with memset(&g_cpu_info, 0) (the code as found)
VARIABLES flag,                   \* [{"crc","cpu","disp"} -> 0..1]
          crc,                    \* [1..2 -> [1..K -> {"U","F","G"}]]  unset / final / garbage
          cpu,                    \* [1..2 -> 0..1]  has_sse42, has_avx2 (true value 1)
          disp,                   \* [1..K -> {"NULL","scalar","sse","avx2"}]
          pc, api, k, sawSse, sawAvx, obs, stack
vars == <<flag, crc, cpu, disp, pc, api, k, sawSse, sawAvx, obs, stack>>
Thr == 1..NThreads
Dep(c) == (c % K) + 1
Avx2Cells == {c \in 1..K : c % 2 = 1}       \* the avx2 block overrides only part of the table

Init == /\ flag = [f \in {"crc", "cpu", "disp"} |-> 0]
        /\ crc = [lv \in 1..2 |-> [c \in 1..K |-> "U"]]
        /\ cpu = [b \in 1..2 |-> 0]
        /\ disp = [c \in 1..K |-> "NULL"]
        /\ pc = [t \in Thr |-> "start"] /\ api \in [Thr -> Apis]
        /\ k = [t \in Thr |-> 1] /\ sawSse = [t \in Thr |-> 0] /\ sawAvx = [t \in Thr |-> 0]
        /\ obs = [t \in Thr |-> <<>>] /\ stack = [t \in Thr |-> <<>>]

Goto(t, l) == pc' = [pc EXCEPT ![t] = l]
SetK(t, v) == k' = [k EXCEPT ![t] = v]

\* ---------------------------------------------------------------- crc32.c
CrcCheck(t) == /\ pc[t] = "start" /\ api[t] = "crc"
               /\ IF flag.crc = 1 THEN Goto(t, "crc_use") ELSE Goto(t, IF PublishEarly THEN "crc_set" ELSE "crc_w0")
               /\ SetK(t, 1) /\ UNCHANGED <<flag, crc, cpu, disp, api, sawSse, sawAvx, obs, stack>>
CrcW0(t) == /\ pc[t] = "crc_w0"
            /\ crc' = [crc EXCEPT ![1][k[t]] = "F"]          \* computed from the index alone
            /\ IF k[t] = K THEN Goto(t, "crc_w1") /\ SetK(t, 1) ELSE SetK(t, k[t] + 1) /\ UNCHANGED pc
            /\ UNCHANGED <<flag, cpu, disp, api, sawSse, sawAvx, obs, stack>>
CrcW1(t) == /\ pc[t] = "crc_w1"                             \* reads two earlier cells
            /\ crc' = [crc EXCEPT ![2][k[t]] = IF crc[1][k[t]] = "F" /\ crc[1][Dep(k[t])] = "F" THEN "F" ELSE "G"]
            /\ IF k[t] = K THEN Goto(t, IF PublishEarly THEN "crc_use" ELSE "crc_set") /\ SetK(t, 1)
                           ELSE SetK(t, k[t] + 1) /\ UNCHANGED pc
            /\ UNCHANGED <<flag, cpu, disp, api, sawSse, sawAvx, obs, stack>>
CrcSet(t) == /\ pc[t] = "crc_set" /\ flag' = [flag EXCEPT !.crc = 1]
             /\ Goto(t, IF PublishEarly THEN "crc_w0" ELSE "crc_use")
             /\ UNCHANGED <<crc, cpu, disp, api, k, sawSse, sawAvx, obs, stack>>
CrcUse(t) == /\ pc[t] = "crc_use"                           \* a CRC computation reads table cells
             /\ \E lv \in 1..2, c \in 1..K : obs' = [obs EXCEPT ![t] = Append(@, <<"crc", crc[lv][c]>>)]
             /\ Goto(t, "done") /\ UNCHANGED <<flag, crc, cpu, disp, api, k, sawSse, sawAvx, stack>>

\* ---------------------------------------------------------------- detect.c (a subroutine: returns to Head(stack))
Ret(t) == /\ pc' = [pc EXCEPT ![t] = Head(stack[t])] /\ stack' = [stack EXCEPT ![t] = Tail(@)]
CpuCall(t, from, ret) == /\ pc[t] = from /\ stack' = [stack EXCEPT ![t] = <<ret>> \o @]
                         /\ Goto(t, "cpu_check")
CpuStart(t) == /\ api[t] = "cpu" /\ CpuCall(t, "start", "cpu_use")
               /\ UNCHANGED <<flag, crc, cpu, disp, api, k, sawSse, sawAvx, obs>>
CpuCheck(t) == /\ pc[t] = "cpu_check"
               /\ IF flag.cpu = 1 THEN Ret(t)
                  ELSE Goto(t, IF PublishEarly THEN "cpu_set" ELSE IF Rezero THEN "cpu_zero" ELSE "cpu_detect") /\ UNCHANGED stack
               /\ SetK(t, 1) /\ UNCHANGED <<flag, crc, cpu, disp, api, sawSse, sawAvx, obs>>
CpuZero(t) == /\ pc[t] = "cpu_zero"                         \* memset(&g_cpu_info, 0, ...)
              /\ cpu' = [cpu EXCEPT ![k[t]] = 0]
              /\ IF k[t] = 2 THEN Goto(t, "cpu_detect") /\ SetK(t, 1) ELSE SetK(t, k[t] + 1) /\ UNCHANGED pc
              /\ UNCHANGED <<flag, crc, disp, api, sawSse, sawAvx, obs, stack>>
CpuDetect(t) == /\ pc[t] = "cpu_detect"
                /\ cpu' = [cpu EXCEPT ![k[t]] = 1]
                /\ IF k[t] = 2 THEN (IF PublishEarly THEN Ret(t) ELSE Goto(t, "cpu_set") /\ UNCHANGED stack) /\ SetK(t, 1)
                               ELSE SetK(t, k[t] + 1) /\ UNCHANGED <<pc, stack>>
                /\ UNCHANGED <<flag, crc, disp, api, sawSse, sawAvx, obs>>
CpuSet(t) == /\ pc[t] = "cpu_set" /\ flag' = [flag EXCEPT !.cpu = 1]
             /\ IF PublishEarly THEN Goto(t, IF Rezero THEN "cpu_zero" ELSE "cpu_detect") /\ UNCHANGED stack ELSE Ret(t)
             /\ UNCHANGED <<crc, cpu, disp, api, k, sawSse, sawAvx, obs>>
CpuUse(t) == /\ pc[t] = "cpu_use"                           \* the caller of carquet_get_cpu_info reads a bit
             /\ \E b \in 1..2 : obs' = [obs EXCEPT ![t] = Append(@, <<"cpu", cpu[b]>>)]
             /\ Goto(t, "done") /\ UNCHANGED <<flag, crc, cpu, disp, api, k, sawSse, sawAvx, stack>>

\* ---------------------------------------------------------------- dispatch.c
DispCheck(t) == /\ pc[t] = "start" /\ api[t] = "kernel"
                /\ IF flag.disp = 1 THEN Goto(t, "disp_use") /\ UNCHANGED stack
                   ELSE IF PublishEarly THEN Goto(t, "disp_set") /\ UNCHANGED stack
                   ELSE /\ stack' = [stack EXCEPT ![t] = <<"disp_scalar">> \o @] /\ Goto(t, "cpu_check")
                /\ SetK(t, 1) /\ UNCHANGED <<flag, crc, cpu, disp, api, sawSse, sawAvx, obs>>
DispScalar(t) == /\ pc[t] = "disp_scalar"
                 /\ disp' = [disp EXCEPT ![k[t]] = "scalar"]
                 /\ IF k[t] = K THEN Goto(t, "disp_rd_sse") /\ SetK(t, 1) ELSE SetK(t, k[t] + 1) /\ UNCHANGED pc
                 /\ UNCHANGED <<flag, crc, cpu, api, sawSse, sawAvx, obs, stack>>
DispRdSse(t) == /\ pc[t] = "disp_rd_sse"                    \* if (cpu->has_sse42)
                /\ sawSse' = [sawSse EXCEPT ![t] = cpu[1]]
                /\ Goto(t, IF cpu[1] = 1 THEN "disp_sse" ELSE "disp_rd_avx")
                /\ UNCHANGED <<flag, crc, cpu, disp, api, k, sawAvx, obs, stack>>
DispSse(t) == /\ pc[t] = "disp_sse"
              /\ disp' = [disp EXCEPT ![k[t]] = "sse"]
              /\ IF k[t] = K THEN Goto(t, "disp_rd_avx") /\ SetK(t, 1) ELSE SetK(t, k[t] + 1) /\ UNCHANGED pc
              /\ UNCHANGED <<flag, crc, cpu, api, sawSse, sawAvx, obs, stack>>
DispRdAvx(t) == /\ pc[t] = "disp_rd_avx"                    \* if (cpu->has_avx2)
                /\ sawAvx' = [sawAvx EXCEPT ![t] = cpu[2]]
                /\ Goto(t, IF cpu[2] = 1 THEN "disp_avx" ELSE (IF PublishEarly THEN "disp_use" ELSE "disp_set"))
                /\ UNCHANGED <<flag, crc, cpu, disp, api, k, sawSse, obs, stack>>
DispAvx(t) == /\ pc[t] = "disp_avx"
              /\ disp' = [disp EXCEPT ![k[t]] = IF k[t] \in Avx2Cells THEN "avx2" ELSE @]
              /\ IF k[t] = K THEN Goto(t, IF PublishEarly THEN "disp_use" ELSE "disp_set") /\ SetK(t, 1)
                             ELSE SetK(t, k[t] + 1) /\ UNCHANGED pc
              /\ UNCHANGED <<flag, crc, cpu, api, sawSse, sawAvx, obs, stack>>
DispSet(t) == /\ pc[t] = "disp_set" /\ flag' = [flag EXCEPT !.disp = 1]
              /\ IF PublishEarly THEN stack' = [stack EXCEPT ![t] = <<"disp_scalar">> \o @] /\ Goto(t, "cpu_check")
                                 ELSE Goto(t, "disp_use") /\ UNCHANGED stack
              /\ UNCHANGED <<crc, cpu, disp, api, k, sawSse, sawAvx, obs>>
DispUse(t) == /\ pc[t] = "disp_use"                         \* g_dispatch.X(...): call through the cell
              /\ \E c \in 1..K : obs' = [obs EXCEPT ![t] = Append(@, <<"kernel", disp[c]>>)]
              /\ Goto(t, "done") /\ UNCHANGED <<flag, crc, cpu, disp, api, k, sawSse, sawAvx, stack>>

Step(t) == \/ CrcCheck(t) \/ CrcW0(t) \/ CrcW1(t) \/ CrcSet(t) \/ CrcUse(t)
           \/ CpuStart(t) \/ CpuCheck(t) \/ CpuZero(t) \/ CpuDetect(t) \/ CpuSet(t) \/ CpuUse(t)
           \/ DispCheck(t) \/ DispScalar(t) \/ DispRdSse(t) \/ DispSse(t) \/ DispRdAvx(t) \/ DispAvx(t)
           \/ DispSet(t) \/ DispUse(t)
Next == \E t \in Thr : Step(t)
Spec == Init /\ [][Next]_vars /\ \A t \in Thr : WF_vars(Step(t))

\* ---------------------------------------------------------------- properties
Observed == UNION {{obs[t][j] : j \in DOMAIN obs[t]} : t \in Thr}
\* final-equivalent values: a CRC table cell must hold its final value; a dispatch cell may hold
\* any implementation of the kernel (all ISA levels compute the same function - property C15),
\* never NULL
UseSeesFinalEquivalent ==
    \A o \in Observed : /\ o[1] = "crc" => o[2] = "F"
                        /\ o[1] = "kernel" => o[2] \in {"scalar", "sse", "avx2"}
\* no cell ever holds a value that is not final-equivalent once written (crc tables)
CrcNeverGarbage == \A lv \in 1..2, c \in 1..K : crc[lv][c] # "G"
\* what an external caller of carquet_get_cpu_info sees: the true feature bits. With Rezero a
\* second initialiser re-zeroes g_cpu_info after the flag has been published (TLC counterexample,
\* reproduced on the real code by the fresh-process trials); without it the property holds.
CpuInfoStable == \A o \in Observed : o[1] = "cpu" => o[2] = 1
KernelUseSeesFinal == \A o \in Observed : o[1] = "kernel" => o[2] \in {"sse", "avx2"}
AllDone == \A t \in Thr : pc[t] = "done"
EveryCallReturns == <>AllDone
=============================================================================
