----------------------------- MODULE BloomSys -----------------------------
(* State machine of the Bloom-filter API: two filters A (dest) and B (src) of the same     *)
(* requested size, typed inserts, merge B into A, serialise + reload A.                    *)
(* Values are records [t |-> type tag, b |-> PLAIN bytes].                                 *)
EXTENDS Naturals, Sequences, SequencesExt, FiniteSets, Bloom
CONSTANTS Sizes,        \* requested sizes in bytes
          Values,       \* set of value records
          MaxOps
VARIABLES req,          \* requested size (chosen at creation)
          fa, fb,       \* filter bytes
          ia, ib,       \* sets of values inserted (ghost)
          hist          \* history of operations, for replay on the implementation
vars == <<req, fa, fb, ia, ib, hist>>

HashOf == [v \in Values |-> HashPlain(v.b)]

Init == /\ req \in Sizes
        /\ fa = Fresh(req) /\ fb = Fresh(req)
        /\ ia = {} /\ ib = {} /\ hist = <<>>

InsertA(v) == /\ fa' = InsertHash(fa, HashOf[v]) /\ ia' = ia \cup {v}
              /\ hist' = Append(hist, [op |-> "IA", t |-> v.t, b |-> v.b])
              /\ UNCHANGED <<req, fb, ib>>
InsertB(v) == /\ fb' = InsertHash(fb, HashOf[v]) /\ ib' = ib \cup {v}
              /\ hist' = Append(hist, [op |-> "IB", t |-> v.t, b |-> v.b])
              /\ UNCHANGED <<req, fa, ia>>
MergeBA    == /\ fa' = Merge(fa, fb) /\ ia' = ia \cup ib
              /\ hist' = Append(hist, [op |-> "M", t |-> "", b |-> <<>>])
              /\ UNCHANGED <<req, fb, ib>>
\* serialise A and load it again: the bytes are the state, so this is a stuttering step on fa
ReloadA    == /\ hist' = Append(hist, [op |-> "R", t |-> "", b |-> <<>>])
              /\ UNCHANGED <<req, fa, fb, ia, ib>>

Next == /\ Len(hist) < MaxOps
        /\ \/ \E v \in Values : InsertA(v) \/ InsertB(v)
           \/ MergeBA
           \/ (hist # <<>> /\ hist[Len(hist)].op # "R" /\ ReloadA)

\* ---- properties (C20) ----
NoFalseNegative == /\ \A v \in ia : CheckHash(fa, HashOf[v])
                   /\ \A v \in ib : CheckHash(fb, HashOf[v])
SizeRounded     == Len(fa) % 32 = 0 /\ Len(fa) >= 32 /\ Len(fa) >= req /\ Len(fa) < req + 32 + (IF req = 0 THEN 1 ELSE 0) * 32
FreshIsEmpty    == (ia = {}) => \A v \in Values : ~CheckHash(fa, HashOf[v])
MergeIsUnion    == [][ (hist' # hist /\ hist'[Len(hist')].op = "M") =>
                         \A k \in 1..Len(fa) : fa'[k] = (fa[k] | fb[k]) ]_vars
\* what a probe must answer in the current state
Probe(f, v) == CheckHash(f, HashOf[v])
=============================================================================
