------------------------------ MODULE ParRead ------------------------------
(* One carquet_batch_reader_next call in fread mode (src/reader/batch_reader.c:304-491,       *)
(* src/reader/page_reader.c load_dictionary_page_fread / load_next_page_fread).               *)
(*                                                                                            *)
(* Tasks are the projected columns. Both OpenMP loops (page prefetch, then the main read      *)
(* loop) use schedule(dynamic): a free thread claims the next unclaimed task; the implicit    *)
(* barrier at the end of the prefetch loop separates the phases. Every page load of a task    *)
(* performs, on the ONE stream position shared by all column readers of a file (`filePos`     *)
(* = reader->file), the steps                                                                 *)
(*      SH  fseek(header offset)        RH  fread(256-byte header window)                     *)
(*      SB  fseek(body offset)          RB  fread(compressed_page_size)                       *)
(* each of which is atomic by itself (stdio locks the FILE per call), followed by the local   *)
(* steps DEC (CRC, decompress, decode into the column reader's own buffers) and PUB           *)
(* (page_loaded = true). The step lists are CONSTANTS: the check records them from a          *)
(* num_threads = 1 run of the real code (hook H2 + ftell), so the model takes exactly the     *)
(* steps the code takes, with the real offsets and lengths.                                   *)
(*                                                                                            *)
(* Lock = FALSE is the code as found (no mutual exclusion around seek+read);                  *)
(* Lock = TRUE makes each seek+read pair one critical section (the proposed repair).          *)
EXTENDS Naturals, Sequences, FiniteSets, TLC

CONSTANTS NTasks,        \* tasks are 1..NTasks, claimed in index order
          PreThreads,    \* team size of the prefetch loop (1 when `if(needs_decompression)` is false)
          MainThreads,   \* team size of the main loop (>= PreThreads)
          PreSteps,      \* [1..NTasks -> Seq([k : StepKinds, a : Nat])]  steps of the prefetch phase
          MainSteps,     \* same for the main phase
          Lock,          \* BOOLEAN: seek+read pairs are critical sections
          Record         \* BOOLEAN: keep the history of I/O steps (schedule export)

Tasks   == 1..NTasks
Threads == 1..MainThreads
StepKinds == {"SH", "RH", "SB", "RB", "DEC", "PUB"}
IsSeek(s) == s.k \in {"SH", "SB"}
IsRead(s) == s.k \in {"RH", "RB"}
IsIO(s)   == IsSeek(s) \/ IsRead(s)
Steps(ph, t) == IF ph = "pre" THEN PreSteps[t] ELSE MainSteps[t]
Team(ph, w)  == IF ph = "pre" THEN w <= PreThreads ELSE TRUE

ASSUME /\ NTasks \in Nat /\ PreThreads \in 1..MainThreads /\ Lock \in BOOLEAN /\ Record \in BOOLEAN
       /\ \A t \in Tasks : \A ph \in {"pre", "main"} : \A j \in DOMAIN Steps(ph, t) :
              Steps(ph, t)[j].k \in StepKinds /\ Steps(ph, t)[j].a \in Nat

(* ---- what the sequential execution (num_threads = 1) does: every read starts at the offset *)
(* of the task's own preceding seek                                                           *)
RECURSIVE SeqReads(_, _, _)
SeqReads(steps, j, at) ==       \* reads <<offset, length>> of steps[j..], `at` = last seek target
    IF j > Len(steps) THEN <<>>
    ELSE IF IsSeek(steps[j]) THEN SeqReads(steps, j + 1, steps[j].a)
    ELSE IF IsRead(steps[j]) THEN <<(<<at, steps[j].a>>)>> \o SeqReads(steps, j + 1, at + steps[j].a)
    ELSE SeqReads(steps, j + 1, at)
RECURSIVE SeqPages(_, _, _, _)
SeqPages(steps, j, at, buf) ==  \* published pages (each = the reads decoded into it)
    IF j > Len(steps) THEN <<>>
    ELSE LET s == steps[j] IN
         IF IsSeek(s) THEN SeqPages(steps, j + 1, s.a, buf)
         ELSE IF IsRead(s) THEN SeqPages(steps, j + 1, at + s.a, Append(buf, <<at, s.a>>))
         ELSE IF s.k = "DEC" THEN SeqPages(steps, j + 1, at, buf)
         ELSE <<buf>> \o SeqPages(steps, j + 1, at, <<>>)
SeqResult == [t \in Tasks |-> SeqPages(PreSteps[t] \o MainSteps[t], 1, 0, <<>>)]
SeqWant   == [t \in Tasks |-> SeqReads(PreSteps[t] \o MainSteps[t], 1, 0)]

(* --algorithm ParRead {
variables
    filePos = 0,                           \* the stream position of the one shared FILE*
    lock = 0,                              \* 0 = free, else the thread inside a seek+read section
    next = [ph \in {"pre", "main"} |-> 1], \* dynamic work queue per loop: next unclaimed task
    arrived = 0,                           \* threads that reached the barrier after the prefetch loop
    reads = [t \in Tasks |-> <<>>],        \* per task: [want, got] of every read it performed
    result = [t \in Tasks |-> <<>>],       \* per task: published pages in order
    claimed = [ph \in {"pre", "main"} |-> <<>>],   \* tasks in claim order
    finished = [ph \in {"pre", "main"} |-> {}],
    owner = 0, lockv = 0,                  \* ghost: who would hold the lock; first I/O step it forbids
    bad = 0,                               \* index (in sched) of the first read that got foreign bytes
    nio = 0,                               \* number of I/O steps so far
    sched = <<>>;                          \* history of I/O steps (task ids) when Record

define {
    TypeOK == /\ filePos \in Nat /\ lock \in 0..MainThreads /\ arrived \in 0..MainThreads
              /\ \A ph \in {"pre", "main"} : next[ph] \in 1..(NTasks + 1)
    \* a read returns the bytes at the offset its own task seeked to
    EveryReadReturnsItsOwnBytes ==
        \A t \in Tasks : \A j \in DOMAIN reads[t] : reads[t][j].got = reads[t][j].want
    \* ... which are the bytes the sequential run reads at that point
    ReadsAreTheSequentialReads ==
        \A t \in Tasks : \A j \in DOMAIN reads[t] : j <= Len(SeqWant[t]) /\ reads[t][j].want = SeqWant[t][j]
    IsPrefixOf(a, b) == Len(a) <= Len(b) /\ \A j \in DOMAIN a : a[j] = b[j]
    AllDone == finished["pre"] = Tasks /\ finished["main"] = Tasks
    \* what is published never depends on the schedule: always a prefix of, finally equal to, the
    \* pages of the sequential run
    ResultIndependentOfSchedule ==
        /\ \A t \in Tasks : IsPrefixOf(result[t], SeqResult[t])
        /\ AllDone => result = SeqResult
    \* the queue hands out every task exactly once per loop, in index order
    QueueOK == \A ph \in {"pre", "main"} : claimed[ph] = [j \in 1..(next[ph] - 1) |-> j]
    PhaseOrder == (claimed["main"] # <<>>) => finished["pre"] = Tasks
    MutexOK == Lock => (lockv = 0)
    \* the lock is exactly what is needed (holds when no two offsets coincide by accident)
    LockNecessary == (bad # 0) => (lockv # 0 /\ lockv <= bad)
}

fair process (w \in Threads)
variables phase = "pre", my = 0, i = 1, want = 0, buf = <<>>;
{
 Claim:
    if (Team(phase, self) /\ next[phase] <= NTasks) {
        my := next[phase]; next[phase] := next[phase] + 1; i := 1;
        claimed[phase] := Append(claimed[phase], my);
    } else { goto EndPhase; };
 Step:
    while (i <= Len(Steps(phase, my))) {
        with (s = Steps(phase, my)[i]) {
            if (IsSeek(s)) {
                await (~Lock) \/ lock = 0;
                if (Lock) { lock := self; };
                filePos := s.a; want := s.a;
                if (owner # 0 /\ owner # my /\ lockv = 0) { lockv := nio + 1; };
                owner := my;
            } else if (IsRead(s)) {
                reads[my] := Append(reads[my], [want |-> <<want, s.a>>, got |-> <<filePos, s.a>>]);
                buf := Append(buf, <<filePos, s.a>>);
                filePos := filePos + s.a; want := want + s.a;
                if (Lock) { lock := 0; };
                if (owner # my /\ lockv = 0) { lockv := nio + 1; };
                owner := 0;
                if (filePos # want /\ bad = 0) { bad := nio + 1; };
            } else if (s.k = "PUB") {
                result[my] := Append(result[my], buf); buf := <<>>;
            };
            if (IsIO(s)) {
                nio := nio + 1;
                if (Record) { sched := Append(sched, my); };
            };
        };
        i := i + 1;
    };
    finished[phase] := finished[phase] \cup {my};
    goto Claim;
 EndPhase:
    if (phase = "pre") { arrived := arrived + 1; } else { goto Finish; };
 Barrier:
    await arrived = MainThreads;
    phase := "main";
    goto Claim;
 Finish:
    skip;
}
} *)
\* BEGIN TRANSLATION (chksum(pcal) = "3550fd76" /\ chksum(tla) = "2ee1bb38")
VARIABLES pc, filePos, lock, next, arrived, reads, result, claimed, finished, 
          owner, lockv, bad, nio, sched

(* define statement *)
TypeOK == /\ filePos \in Nat /\ lock \in 0..MainThreads /\ arrived \in 0..MainThreads
          /\ \A ph \in {"pre", "main"} : next[ph] \in 1..(NTasks + 1)

EveryReadReturnsItsOwnBytes ==
    \A t \in Tasks : \A j \in DOMAIN reads[t] : reads[t][j].got = reads[t][j].want

ReadsAreTheSequentialReads ==
    \A t \in Tasks : \A j \in DOMAIN reads[t] : j <= Len(SeqWant[t]) /\ reads[t][j].want = SeqWant[t][j]
IsPrefixOf(a, b) == Len(a) <= Len(b) /\ \A j \in DOMAIN a : a[j] = b[j]
AllDone == finished["pre"] = Tasks /\ finished["main"] = Tasks


ResultIndependentOfSchedule ==
    /\ \A t \in Tasks : IsPrefixOf(result[t], SeqResult[t])
    /\ AllDone => result = SeqResult

QueueOK == \A ph \in {"pre", "main"} : claimed[ph] = [j \in 1..(next[ph] - 1) |-> j]
PhaseOrder == (claimed["main"] # <<>>) => finished["pre"] = Tasks
MutexOK == Lock => (lockv = 0)

LockNecessary == (bad # 0) => (lockv # 0 /\ lockv <= bad)

VARIABLES phase, my, i, want, buf

vars == << pc, filePos, lock, next, arrived, reads, result, claimed, finished, 
           owner, lockv, bad, nio, sched, phase, my, i, want, buf >>

ProcSet == (Threads)

Init == (* Global variables *)
        /\ filePos = 0
        /\ lock = 0
        /\ next = [ph \in {"pre", "main"} |-> 1]
        /\ arrived = 0
        /\ reads = [t \in Tasks |-> <<>>]
        /\ result = [t \in Tasks |-> <<>>]
        /\ claimed = [ph \in {"pre", "main"} |-> <<>>]
        /\ finished = [ph \in {"pre", "main"} |-> {}]
        /\ owner = 0
        /\ lockv = 0
        /\ bad = 0
        /\ nio = 0
        /\ sched = <<>>
        (* Process w *)
        /\ phase = [self \in Threads |-> "pre"]
        /\ my = [self \in Threads |-> 0]
        /\ i = [self \in Threads |-> 1]
        /\ want = [self \in Threads |-> 0]
        /\ buf = [self \in Threads |-> <<>>]
        /\ pc = [self \in ProcSet |-> "Claim"]

Claim(self) == /\ pc[self] = "Claim"
               /\ IF Team(phase[self], self) /\ next[phase[self]] <= NTasks
                     THEN /\ my' = [my EXCEPT ![self] = next[phase[self]]]
                          /\ next' = [next EXCEPT ![phase[self]] = next[phase[self]] + 1]
                          /\ i' = [i EXCEPT ![self] = 1]
                          /\ claimed' = [claimed EXCEPT ![phase[self]] = Append(claimed[phase[self]], my'[self])]
                          /\ pc' = [pc EXCEPT ![self] = "Step"]
                     ELSE /\ pc' = [pc EXCEPT ![self] = "EndPhase"]
                          /\ UNCHANGED << next, claimed, my, i >>
               /\ UNCHANGED << filePos, lock, arrived, reads, result, finished, 
                               owner, lockv, bad, nio, sched, phase, want, buf >>

Step(self) == /\ pc[self] = "Step"
              /\ IF i[self] <= Len(Steps(phase[self], my[self]))
                    THEN /\ LET s == Steps(phase[self], my[self])[i[self]] IN
                              /\ IF IsSeek(s)
                                    THEN /\ (~Lock) \/ lock = 0
                                         /\ IF Lock
                                               THEN /\ lock' = self
                                               ELSE /\ TRUE
                                                    /\ lock' = lock
                                         /\ filePos' = s.a
                                         /\ want' = [want EXCEPT ![self] = s.a]
                                         /\ IF owner # 0 /\ owner # my[self] /\ lockv = 0
                                               THEN /\ lockv' = nio + 1
                                               ELSE /\ TRUE
                                                    /\ lockv' = lockv
                                         /\ owner' = my[self]
                                         /\ UNCHANGED << reads, result, bad, 
                                                         buf >>
                                    ELSE /\ IF IsRead(s)
                                               THEN /\ reads' = [reads EXCEPT ![my[self]] = Append(reads[my[self]], [want |-> <<want[self], s.a>>, got |-> <<filePos, s.a>>])]
                                                    /\ buf' = [buf EXCEPT ![self] = Append(buf[self], <<filePos, s.a>>)]
                                                    /\ filePos' = filePos + s.a
                                                    /\ want' = [want EXCEPT ![self] = want[self] + s.a]
                                                    /\ IF Lock
                                                          THEN /\ lock' = 0
                                                          ELSE /\ TRUE
                                                               /\ lock' = lock
                                                    /\ IF owner # my[self] /\ lockv = 0
                                                          THEN /\ lockv' = nio + 1
                                                          ELSE /\ TRUE
                                                               /\ lockv' = lockv
                                                    /\ owner' = 0
                                                    /\ IF filePos' # want'[self] /\ bad = 0
                                                          THEN /\ bad' = nio + 1
                                                          ELSE /\ TRUE
                                                               /\ bad' = bad
                                                    /\ UNCHANGED result
                                               ELSE /\ IF s.k = "PUB"
                                                          THEN /\ result' = [result EXCEPT ![my[self]] = Append(result[my[self]], buf[self])]
                                                               /\ buf' = [buf EXCEPT ![self] = <<>>]
                                                          ELSE /\ TRUE
                                                               /\ UNCHANGED << result, 
                                                                               buf >>
                                                    /\ UNCHANGED << filePos, 
                                                                    lock, 
                                                                    reads, 
                                                                    owner, 
                                                                    lockv, bad, 
                                                                    want >>
                              /\ IF IsIO(s)
                                    THEN /\ nio' = nio + 1
                                         /\ IF Record
                                               THEN /\ sched' = Append(sched, my[self])
                                               ELSE /\ TRUE
                                                    /\ sched' = sched
                                    ELSE /\ TRUE
                                         /\ UNCHANGED << nio, sched >>
                         /\ i' = [i EXCEPT ![self] = i[self] + 1]
                         /\ pc' = [pc EXCEPT ![self] = "Step"]
                         /\ UNCHANGED finished
                    ELSE /\ finished' = [finished EXCEPT ![phase[self]] = finished[phase[self]] \cup {my[self]}]
                         /\ pc' = [pc EXCEPT ![self] = "Claim"]
                         /\ UNCHANGED << filePos, lock, reads, result, owner, 
                                         lockv, bad, nio, sched, i, want, buf >>
              /\ UNCHANGED << next, arrived, claimed, phase, my >>

EndPhase(self) == /\ pc[self] = "EndPhase"
                  /\ IF phase[self] = "pre"
                        THEN /\ arrived' = arrived + 1
                             /\ pc' = [pc EXCEPT ![self] = "Barrier"]
                        ELSE /\ pc' = [pc EXCEPT ![self] = "Finish"]
                             /\ UNCHANGED arrived
                  /\ UNCHANGED << filePos, lock, next, reads, result, claimed, 
                                  finished, owner, lockv, bad, nio, sched, 
                                  phase, my, i, want, buf >>

Barrier(self) == /\ pc[self] = "Barrier"
                 /\ arrived = MainThreads
                 /\ phase' = [phase EXCEPT ![self] = "main"]
                 /\ pc' = [pc EXCEPT ![self] = "Claim"]
                 /\ UNCHANGED << filePos, lock, next, arrived, reads, result, 
                                 claimed, finished, owner, lockv, bad, nio, 
                                 sched, my, i, want, buf >>

Finish(self) == /\ pc[self] = "Finish"
                /\ TRUE
                /\ pc' = [pc EXCEPT ![self] = "Done"]
                /\ UNCHANGED << filePos, lock, next, arrived, reads, result, 
                                claimed, finished, owner, lockv, bad, nio, 
                                sched, phase, my, i, want, buf >>

w(self) == Claim(self) \/ Step(self) \/ EndPhase(self) \/ Barrier(self)
              \/ Finish(self)

(* Allow infinite stuttering to prevent deadlock on termination. *)
Terminating == /\ \A self \in ProcSet: pc[self] = "Done"
               /\ UNCHANGED vars

Next == (\E self \in Threads: w(self))
           \/ Terminating

Spec == /\ Init /\ [][Next]_vars
        /\ \A self \in Threads : WF_vars(w(self))

Termination == <>(\A self \in ProcSet: pc[self] = "Done")

\* END TRANSLATION 
=============================================================================
