---------------------------- MODULE ParReadTrace ----------------------------
(* Deterministic trace checker for C07. The oracle of the property is the library's own       *)
(* num_threads = 1 behaviour on the same file: every execution in the trace starts with the   *)
(* table that was written (Fixture) and the sequential run (Seq), followed by the runs under   *)
(* other thread counts / forced schedules (Run); independent readers are Solo / Conc pairs.    *)
(*                                                                                            *)
(*   Fixture {table}                  table[c] = rows of file column c ("N" = null, else hex) *)
(*   Seq  {proj, calls, toks}         calls[j] = [st, rows, ns, cols] of the j-th batch_reader_next,*)
(*                                    cols[c] = "bitmap,values" as delivered; toks = the same  *)
(*                                    content split into rows for the comparison with the table*)
(*   Run  {threads, forced, realised, bad, lockv, calls}                                      *)
(*   Solo {prog, out}   Conc {prog, out, n}   Fault {kind}                                    *)
(*                                                                                            *)
(* Verdicts (names of violated conditions):                                                   *)
(*   seq:status / seq:not-the-table-written   the fixture is unusable (not a C07 verdict;     *)
(*                                            the rest of the execution is skipped)           *)
(*   status-differs / rows-differ / content-differs / misaligned-batch      Run # Seq         *)
(*   differs-from-solo                                                       Conc # Solo      *)
(*   fault                                                                                    *)
(*   drift:lock-admitted-not-realised   ParRead(Lock=TRUE) admits the schedule but the code   *)
(*                                      could not follow it (model/harness drift, evidence)   *)
(*   drift:own-bytes-but-forbidden-realised  informational: code has no seek+read lock        *)
EXTENDS Naturals, Sequences, FiniteSets, TLC, Json, IOUtils
VARIABLES l, skip, bad, stats, table, ref, proj, solo
Tr == ndJsonDeserialize(IOEnv.TRACE)
tvars == <<l, skip, bad, stats, table, ref, proj, solo>>
Ev == Tr[l]
Has(f) == f \in DOMAIN Ev
OK == 0
END_OF_DATA == 63

Statuses(calls) == [j \in DOMAIN calls |-> calls[j].st]
\* the sequential run: OK batches then END_OF_DATA
SeqStatusOk(calls) == /\ Len(calls) >= 1 /\ calls[Len(calls)].st = END_OF_DATA
                      /\ \A j \in 1..(Len(calls) - 1) : calls[j].st = OK
Aligned(call) == call.st = OK => \A c \in DOMAIN call.ns : call.ns[c] = call.rows
\* toks[j][c] = the rows ("N" = null, else the value bytes in hex) of column c in the j-th OK batch
RECURSIVE ConcatCol(_, _, _)
ConcatCol(toks, j, c) == IF j > Len(toks) THEN <<>> ELSE toks[j][c] \o ConcatCol(toks, j + 1, c)
SeqIsTable(calls, toks, pr) ==
    /\ Len(toks) = Len(calls) - 1
    /\ \A j \in DOMAIN toks : /\ Aligned(calls[j]) /\ Len(toks[j]) = Len(pr) /\ Len(calls[j].ns) = Len(pr)
                               /\ \A c \in DOMAIN pr : Len(toks[j][c]) = calls[j].ns[c]
    /\ \A c \in DOMAIN pr : ConcatCol(toks, 1, c) = table[pr[c] + 1]
FirstDiff(a, b) == LET n == IF Len(a) < Len(b) THEN Len(a) ELSE Len(b)
                       d == {j \in 1..n : a[j] # b[j]}
                   IN IF d = {} THEN (IF Len(a) = Len(b) THEN 0 ELSE n + 1)
                      ELSE CHOOSE j \in d : \A k \in d : j <= k

RunVerdict(calls) ==
    LET k == FirstDiff(calls, ref)
    IN IF k = 0 THEN {}
       ELSE IF k > Len(calls) \/ k > Len(ref) \/ calls[k].st # ref[k].st THEN {"status-differs"}
       ELSE IF calls[k].rows # ref[k].rows THEN {"rows-differ"}
       ELSE IF ~Aligned(calls[k]) THEN {"misaligned-batch"}
       ELSE {"content-differs"}
Drift == IF Ev.e = "Run" /\ Ev.forced
         THEN (IF Ev.lockv = 0 /\ ~Ev.realised THEN {"drift:lock-admitted-not-realised"} ELSE {})
              \cup (IF Ev.lockv # 0 /\ Ev.realised THEN {"drift:lock-forbidden-realised"} ELSE {})
         ELSE {}

Verdict ==
    CASE Ev.e = "Fixture" -> {}
      [] Ev.e = "Seq" -> (IF SeqStatusOk(Ev.calls) THEN {} ELSE {"seq:status"})
                         \cup (IF SeqStatusOk(Ev.calls) /\ ~SeqIsTable(Ev.calls, Ev.toks, Ev.proj) THEN {"seq:not-the-table-written"} ELSE {})
      [] Ev.e = "Run" -> RunVerdict(Ev.calls) \cup Drift
      [] Ev.e = "Solo" -> {}
      [] Ev.e = "Conc" -> IF Ev.prog \in DOMAIN solo /\ solo[Ev.prog] = Ev.out THEN {} ELSE {"differs-from-solo"}
      [] Ev.e = "Fault" -> {"fault"}
      [] OTHER -> {"unknown-event"}
Fatal(v) == \E w \in v : w \notin {"drift:lock-admitted-not-realised", "drift:lock-forbidden-realised",
                                   "status-differs", "rows-differ", "misaligned-batch", "content-differs",
                                   "differs-from-solo", "fault"}
Detail == IF Ev.e = "Run" THEN ToString(FirstDiff(Ev.calls, ref)) ELSE IF Ev.e = "Conc" THEN Ev.prog ELSE ""

TInit == /\ l = 1 /\ skip = FALSE /\ bad = <<>> /\ table = <<>> /\ ref = <<>> /\ proj = <<>> /\ solo = <<>>
         /\ stats = [execs |-> 0, events |-> 0, failed |-> 0]
TReset == /\ l <= Len(Tr) /\ Ev.e = "Reset"
          /\ table' = <<>> /\ ref' = <<>> /\ proj' = <<>> /\ solo' = <<>> /\ skip' = FALSE /\ l' = l + 1
          /\ stats' = [stats EXCEPT !.execs = @ + 1] /\ UNCHANGED bad
TSkip == /\ l <= Len(Tr) /\ Ev.e # "Reset" /\ skip
         /\ l' = l + 1 /\ UNCHANGED <<skip, bad, stats, table, ref, proj, solo>>
TStep == /\ l <= Len(Tr) /\ Ev.e # "Reset" /\ ~skip
         /\ LET v == Verdict IN
            /\ bad' = IF v = {} THEN bad ELSE Append(bad, [l |-> l, id |-> Ev.id, e |-> Ev.e, why |-> v, detail |-> Detail])
            /\ skip' = Fatal(v)                \* an unusable fixture: nothing after it is judged
            /\ stats' = [stats EXCEPT !.events = @ + 1, !.failed = IF v = {} THEN @ ELSE @ + 1]
         /\ table' = IF Ev.e = "Fixture" THEN Ev.table ELSE table
         /\ ref' = IF Ev.e = "Seq" THEN Ev.calls ELSE ref
         /\ proj' = IF Ev.e = "Seq" THEN Ev.proj ELSE proj
         /\ solo' = IF Ev.e = "Solo" THEN [p \in DOMAIN solo \cup {Ev.prog} |-> IF p = Ev.prog THEN Ev.out ELSE solo[p]] ELSE solo
         /\ l' = l + 1
TNext == TReset \/ TSkip \/ TStep
Report == l = Len(Tr) + 1 => PrintT(ToJson([verdicts |-> bad, stats |-> stats, lines |-> Len(Tr)]))
TInv == l \in 1..(Len(Tr) + 1)
=============================================================================
