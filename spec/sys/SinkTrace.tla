----------------------------- MODULE SinkTrace -----------------------------
(* Trace validation for C18 (truncation and failed writes), in the style of WriterTrace.   *)
(*                                                                                         *)
(* One *group* of the trace (between {"e":"Reset"} events) belongs to one write history    *)
(* under one writer configuration and consists of runs separated by {"e":"Rerun"}:         *)
(*   run 1        the history on a sink that never fails; its Close must return OK with    *)
(*                every byte handed to the stream on the device; these bytes become "the   *)
(*                complete file of the history" (ref).  If its Close fails the group is    *)
(*                skipped (ref:close-failed: fault-free histories are C01's business)      *)
(*   Prefixes     the open verdict of every proper prefix of ref, per open path            *)
(*   runs 2..n    the same history with a failure point armed in the sink, or cut short    *)
(*                by Abort                                                                 *)
(* Every writer-call event carries its status, whether the sink has failed so far, the     *)
(* number of bytes the sink holds, and the stream operations (fwrite/fflush/fclose) the    *)
(* library issued during the call with their results.                                      *)
(*                                                                                         *)
(* Judged (a rejected event is printed with the names of the failed conditions and counted *)
(* in `bad`; the rest of that run is skipped):                                            *)
(*   WSAckComplete   Close = OK  =>  all bytes reached the sink: nothing was refused and  *)
(*                   the sink holds every byte handed to the stream, or it holds the      *)
(*                   bytes of the fault-free run, or a file the reference reader maps to  *)
(*                   exactly the rows acknowledged by OK write_batch calls                *)
(*   WSFailReported  the sink failed  =>  some call, at the latest Close, returned non-OK  *)
(*                   (sink:failure-never-reported:<stdio call whose failure was dropped>;  *)
(*                   sink:close-ok-after-reported-failure:<call> when only WSAckComplete   *)
(*                   fails: an earlier call reported the failure, close still said OK on   *)
(*                   an incomplete file)                                                   *)
(*   WSAbortClean    Abort => no file left behind (path writers), no descriptor leaked     *)
(*   Prefix          a prefix that an open path accepts must be a complete Parquet file    *)
(*                   according to the reference reader ParquetFile.ParseFile; a rejection  *)
(*                   must set an error code; no crash, hang or leak                        *)
(* Not judged but reported (stats): agreement of the logged stream operations with the     *)
(* Sink.tla model ("drift").                                                               *)
(*                                                                                         *)
(* The state is kept small (TLC fingerprints it at every event): value bytes never enter   *)
(* it.  The abstract writer runs on value *counts* (AbsVals); the reference file, the      *)
(* arguments of the calls and the acknowledged batches are referred to by their line in    *)
(* the trace (refl, base, acked) and looked up in Tr on demand; the sink keeps the lengths *)
(* of acc / buf (while it is tracked nothing has been lost, so acc = 1..n, buf = n+1..n+m) *)
(* and is expanded to a Sink.tla record for every logged stream operation.                 *)
(* Compact events: a call event of runs 2..n carries "k" = ordinal of the call in the      *)
(* history instead of the arguments (they are those of line base + k of run 1); a Close    *)
(* event carries "sameAsRef" instead of "bytes" when the bytes equal those of run 1.       *)
EXTENDS WriterSink, ParquetFile, TLC, Json, IOUtils
VARIABLES l, skip, bad, stats, refl, base, run, acked
\* refl   line of the Close event of run 1 (0 = none yet)      base  line of the Create event of run 1
\* acked  lines of the argument-bearing events of the write_batch calls that returned OK in this run
Tr == ndJsonDeserialize(IOEnv.TRACE)
tvars == <<wst, schema, cur, done, sink, impl, l, skip, bad, stats, refl, base, run, acked>>

Ev == Tr[l]
Has(f) == f \in DOMAIN Ev
Ref == IF refl = 0 THEN <<>> ELSE Tr[refl].bytes
\* the event that carries the arguments of the current call
ArgLine == IF Has("k") THEN base + Ev.k ELSE l
Arg == Tr[ArgLine]
ArgOk == ArgLine \in 1..Len(Tr) /\ Tr[ArgLine].e = Ev.e /\ (Has("k") => base > 0)
\* the bytes the sink holds at an OK close
EvBytes == IF Has("sameAsRef") THEN Ref ELSE Ev.bytes
AbsVals(vals) == [i \in 1..Len(vals) |-> <<>>]
NoRun == [failedOps |-> {}, tracked |-> FALSE, refRun |-> FALSE, pos |-> 0]
\* bytes the library handed to the stream in the logged operations
Handed(ops) == FoldLeft(LAMBDA a, o : IF o.op = "w" THEN a + o.n ELSE a, 0, ops)

OpName(k) == CASE k = "w" -> "fwrite" [] k = "f" -> "fflush" [] k = "c" -> "fclose" [] OTHER -> k
EvOps == IF Has("ops") THEN Ev.ops ELSE <<>>
FailedKinds(ops) == {ops[i].op : i \in {j \in 1..Len(ops) : ~ops[j].ok}}

\* ---- the logged stream operations against Sink.tla (deterministic: the logged byte count
\*      resolves stdio's freedom); tracking stops at the first device failure or disagreement
SkExpand(k) == [k EXCEPT !.acc = SkRange(0, k.acc), !.buf = SkRange(k.acc, k.buf)]
SkLengths(s) == [s EXCEPT !.acc = Len(s.acc), !.buf = Len(s.buf)]
OpStep(a, o) ==
    IF ~a.tracked THEN a
    ELSE LET s == SkExpand(a.s)
             s1 == IF o.op = "w" THEN SkWritePre(s, o.n) ELSE [s EXCEPT !.ops = @ + 1]
             p == IF o.op = "w" /\ o.ok /\ o.acc >= Len(s.acc) THEN o.acc - Len(s.acc) ELSE Len(s1.buf)
             x == IF o.op = "c" THEN CHOOSE y \in SCloseR(s) : TRUE ELSE SkPush(s1, p)
             match == /\ o.acc >= Len(s.acc)
                      /\ (o.op = "w" => p \in SkPushChoices(s1))
                      /\ Len(x.acc) = o.acc /\ x.last = o.ok /\ x.failed = o.df
         IN IF match THEN [a EXCEPT !.s = SkLengths(x), !.tracked = ~x.failed, !.n = @ + 1]
            ELSE [a EXCEPT !.tracked = FALSE, !.drift = @ + 1]
Track(ops) == FoldLeft(OpStep, [s |-> sink, tracked |-> run.tracked, drift |-> 0, n |-> 0], ops)

\* ---- "all bytes reached the sink" when Close returns
\*  (1) the device never refused anything and holds every byte the library handed to the stream, or
\*  (2) the device holds exactly the bytes of the fault-free run of the same history, or
\*  (3) (after a refusal, e.g. a retried write) the device holds a byte string the reference reader
\*      accepts as a Parquet file whose content (row groups concatenated per column) is exactly the
\*      rows acknowledged by OK write_batch calls.  A call that reported failure promised nothing:
\*      its rows may be absent; acknowledged rows must be there.
\*  "undecided": page bodies the TLA+ reader cannot decode (GZIP, ZSTD).
FlatCol(t, c) == [defs |-> Flatten([g \in 1..Len(t) |-> t[g].cols[c].defs]),
                  vals |-> Flatten([g \in 1..Len(t) |-> t[g].cols[c].vals])]
AckCol(c) == LET evs == SelectSeq(acked, LAMBDA j : Tr[j].c + 1 = c)
             IN [defs |-> Flatten([i \in 1..Len(evs) |-> RowDefs(c, Tr[evs[i]].n, Tr[evs[i]].withDefs, Tr[evs[i]].defs)]),
                 vals |-> Flatten([i \in 1..Len(evs) |-> Tr[evs[i]].vals])]
NothingLost == ~Ev.sf /\ Ev.acc = run.pos + Handed(EvOps) /\ Len(EvBytes) = Ev.acc
SameAsRef == refl # 0 /\ (Has("sameAsRef") \/ Ev.bytes = Ref)
\* result [v |-> "yes" | "no" | "undecided", why |-> reason when not "yes"]
Completeness ==
    IF NothingLost \/ SameAsRef THEN [v |-> "yes", why |-> ""]
    ELSE LET f == ParseFile(EvBytes)
         IN IF ~f.ok THEN [v |-> IF f.why = "codec-not-modelled" THEN "undecided" ELSE "no", why |-> f.why]
            ELSE IF Len(f.leaves) = NCols /\ \A c \in 1..NCols : FlatCol(TableOf(f), c) = AckCol(c) THEN [v |-> "yes", why |-> ""]
            ELSE [v |-> "no", why |-> "parses-but-table-differs-from-acknowledged-rows"]

\* ---- prefixes: v[k+1] is the verdict for cut k: 0 = NULL returned but no error code set,
\*      1..8999 = rejected with that code, 9001 = opened, 9002 = crash/hang, 9003 = rejected but
\*      error message not terminated, 9004 = leak
PrefixWhy(cut) == LET f == ParseFile(SubSeq(Ref, 1, cut)) IN IF f.ok THEN "" ELSE f.why
PrefixVerdict ==
    LET v == Ev.v
        cuts(code) == {k \in 1..Len(v) : v[k] = code}
        op == Ev.opened
        parsed == [i \in 1..Len(op) |-> ParseFile(SubSeq(Ref, 1, op[i].cut))]
        undecided == {i \in 1..Len(op) : ~parsed[i].ok /\ parsed[i].why = "codec-not-modelled"}
    IN  (IF refl = 0 THEN {"prefix:no-reference-file"} ELSE {})
        \cup (IF Len(v) # Len(Ref) \/ Ev.lo # 0 THEN {"prefix:cuts-missing"} ELSE {})
        \cup (IF cuts(0) # {} THEN {"prefix:rejected-without-error-code"} ELSE {})
        \cup (IF cuts(9003) # {} THEN {"prefix:error-message-unterminated"} ELSE {})
        \cup (IF cuts(9002) # {} THEN {"prefix:fault"} ELSE {})
        \cup (IF cuts(9004) # {} THEN {"prefix:leak"} ELSE {})
        \cup (IF Cardinality(cuts(9001)) # Len(op) THEN {"prefix:opened-list-inconsistent"} ELSE {})
        \cup (IF \E i \in 1..Len(op) : ~parsed[i].ok /\ i \notin undecided THEN {"prefix:opened-incomplete"} ELSE {})
        \cup (IF \E i \in 1..Len(op) : parsed[i].ok /\ (parsed[i].numRows # op[i].rows \/ Len(parsed[i].rgs) # op[i].nrg
                                                       \/ Len(parsed[i].leaves) # op[i].ncol)
              THEN {"prefix:opened-complete-but-different-table"} ELSE {})
        \cup (IF undecided # {} THEN {"prefix:undecided"} ELSE {})
PrefixDetail ==
    LET v == Ev.v
        firstOf(Q) == IF Q = {} THEN "-" ELSE ToString(CHOOSE k \in Q : \A j \in Q : k <= j)
        op == Ev.opened
    IN "mode=" \o Ev.mode \o " first-bad-cut=" \o firstOf({k - 1 : k \in {j \in 1..Len(v) : v[j] \in {0, 9002, 9003, 9004}}})
       \o " opened=" \o ToString([i \in 1..Len(op) |-> [cut |-> op[i].cut, rows |-> op[i].rows, why |-> PrefixWhy(op[i].cut)]])
       \o " faults=" \o ToString(Ev.faults)

\* ---- verdict on one event
CallVerdict(can, name) == IF ~ArgOk THEN {"unknown-event"} ELSE IF Ev.st = 0 /\ wst = "open" /\ ~can THEN {name} ELSE {}
CloseVerdict(comp) ==
    LET closeOk == Ev.st = 0
        fo == run.failedOps \cup FailedKinds(EvOps)
        anyErr == impl.anyErr \/ ~closeOk
        ackBad == closeOk /\ ~WSAckComplete(closeOk, comp.v # "no")
        repBad == ~WSFailReported(Ev.sf, anyErr)
    IN (IF run.refRun /\ ~closeOk THEN {"ref:close-failed"} ELSE {})
       \cup (IF Ev.st = 0 /\ wst = "open" /\ ~CanClose THEN {"close-not-enabled"} ELSE {})
       \cup (IF ackBad \/ repBad
           THEN (IF fo = {} THEN {"sink:close-ok-but-bytes-missing"}
                 ELSE IF repBad THEN {"sink:failure-never-reported:" \o OpName(k) : k \in fo}
                 ELSE {"sink:close-ok-after-reported-failure:" \o OpName(k) : k \in fo})
           ELSE {})
CloseDetail(comp) ==
    LET anyErr == impl.anyErr \/ Ev.st # 0
    IN "accepted=" \o ToString(Ev.acc) \o " of " \o ToString(Len(Ref))
       \o (IF ~WSFailReported(Ev.sf, anyErr) THEN " fail-reported:violated" ELSE " fail-reported:ok")
       \o (IF Ev.st = 0 /\ comp.v = "no" THEN " ack-complete:violated(" \o comp.why \o ")" ELSE " ack-complete:ok")
       \o " failed-ops=" \o ToString(run.failedOps \cup FailedKinds(EvOps))

Verdict(comp) ==
    CASE Ev.e = "Create" ->
            IF ~Ev.ok THEN {"create-failed"} ELSE IF CanCreate(Ev.cols) THEN {} ELSE {"create-not-enabled"}
      [] Ev.e = "WriteBatch" ->
            CallVerdict(ArgOk /\ CanWriteBatch(Arg.c + 1, Arg.n, Arg.withDefs, Arg.defs, AbsVals(Arg.vals)), "write-batch-not-enabled")
      [] Ev.e = "NewRowGroup" -> CallVerdict(CanNewRowGroup, "new-row-group-not-enabled")
      [] Ev.e = "Close" -> CloseVerdict(comp)
      [] Ev.e = "Abort" ->
            (IF wst \notin {"open", "failed"} THEN {"abort-not-enabled"} ELSE {})
            \cup (IF ~WSAbortClean(impl.owned, FALSE, Ev.exists = 1) THEN {"abort:file-left-behind"} ELSE {})
            \cup (IF Ev.fds > 0 THEN {"abort:descriptor-leak"} ELSE {})
      [] Ev.e = "Prefixes" -> PrefixVerdict \ {"prefix:undecided"}
      [] Ev.e = "Fault" -> {"fault:" \o Ev.kind}
      [] OTHER -> {"unknown-event"}

Detail(comp) == CASE Ev.e = "Close" -> CloseDetail(comp)
            [] Ev.e = "Prefixes" -> PrefixDetail
            [] OTHER -> ""

\* ---- state update for an allowed event
AbsCall(A) == IF wst = "open" THEN (IF Ev.st = 0 THEN A ELSE Fail) ELSE UNCHANGED wvars
CallUpdate(closing, comp) ==
    LET t == Track(EvOps)
    IN /\ sink' = t.s
       /\ run' = [run EXCEPT !.failedOps = @ \cup FailedKinds(EvOps), !.tracked = t.tracked, !.pos = @ + Handed(EvOps)]
       /\ impl' = [impl EXCEPT !.anyErr = @ \/ Ev.st # 0,
                               !.handle = IF closing THEN FALSE ELSE @,
                               !.closeRet = IF closing THEN (IF Ev.st = 0 THEN "ok" ELSE "err") ELSE @]
       /\ stats' = [stats EXCEPT !.events = @ + 1, !.failed = IF Ev.st # 0 THEN @ + 1 ELSE @,
                                 !.sinkops = @ + t.n, !.drift = @ + t.drift,
                                 !.okcloses = IF closing /\ Ev.st = 0 /\ ~run.refRun THEN @ + 1 ELSE @,
                                 !.spurious = IF Ev.st # 0 /\ ~Ev.sf THEN @ + 1 ELSE @,
                                 !.parsedcloses = IF closing /\ Ev.st = 0 /\ ~NothingLost /\ ~SameAsRef THEN @ + 1 ELSE @,
                                 !.undecidedcloses = IF closing /\ Ev.st = 0 /\ comp.v = "undecided" THEN @ + 1 ELSE @]

Apply(comp) ==
    CASE Ev.e = "Create" ->
            /\ Create(Ev.cols)
            /\ sink' = SkLengths(SkNew(Ev.cap, Ev.arm))
            /\ impl' = [WSIdle EXCEPT !.owned = (Ev.kind = "p"), !.exists = (Ev.kind = "p"), !.handle = TRUE]
            /\ run' = [failedOps |-> {}, tracked |-> TRUE, refRun |-> refl = 0, pos |-> 0]
            /\ stats' = [stats EXCEPT !.events = @ + 1, !.runs = @ + 1]
            /\ acked' = <<>>
            /\ base' = IF refl = 0 THEN l ELSE base
            /\ UNCHANGED refl
      [] Ev.e = "WriteBatch" ->
            /\ AbsCall(WriteBatch(Arg.c + 1, Arg.n, Arg.withDefs, Arg.defs, AbsVals(Arg.vals))) /\ CallUpdate(FALSE, comp)
            /\ acked' = IF Ev.st # 0 THEN acked ELSE Append(acked, ArgLine)
            /\ UNCHANGED <<refl, base>>
      [] Ev.e = "NewRowGroup" -> AbsCall(NewRowGroup) /\ CallUpdate(FALSE, comp) /\ UNCHANGED <<refl, base, acked>>
      [] Ev.e = "Close" -> /\ AbsCall(Close) /\ CallUpdate(TRUE, comp)
                           /\ refl' = IF run.refRun /\ Ev.st = 0 /\ Has("bytes") THEN l ELSE refl
                           /\ UNCHANGED <<base, acked>>
      [] Ev.e = "Abort" -> /\ Abort
                           /\ LET t == Track(EvOps) IN sink' = t.s
                           /\ impl' = [impl EXCEPT !.handle = FALSE, !.exists = FALSE]
                           /\ stats' = [stats EXCEPT !.events = @ + 1, !.aborts = @ + 1]
                           /\ UNCHANGED <<refl, base, run, acked>>
      [] Ev.e = "Prefixes" ->
            /\ stats' = [stats EXCEPT !.events = @ + 1, !.cuts = @ + Len(Ev.v), !.opened = @ + Len(Ev.opened),
                                      !.undecided = IF "prefix:undecided" \in PrefixVerdict THEN @ + 1 ELSE @]
            /\ UNCHANGED <<wst, schema, cur, done, sink, impl, refl, base, run, acked>>
      [] OTHER -> UNCHANGED <<wst, schema, cur, done, sink, impl, refl, base, run, stats, acked>>

Stats0 == [execs |-> 0, runs |-> 0, events |-> 0, failed |-> 0, sinkops |-> 0, drift |-> 0, okcloses |-> 0,
           spurious |-> 0, parsedcloses |-> 0, undecidedcloses |-> 0, aborts |-> 0, cuts |-> 0, opened |-> 0, undecided |-> 0]
TInit == WInit /\ sink = SkLengths(SkIdle) /\ impl = WSIdle /\ l = 1 /\ skip = FALSE /\ bad = 0 /\ stats = Stats0 /\ refl = 0 /\ base = 0 /\ run = NoRun /\ acked = <<>>

Fresh == /\ wst' = "none" /\ schema' = <<>> /\ cur' = <<>> /\ done' = <<>> /\ sink' = SkLengths(SkIdle) /\ impl' = WSIdle
         /\ run' = NoRun /\ acked' = <<>>

TReset == /\ l <= Len(Tr) /\ Ev.e = "Reset"
          /\ Fresh /\ refl' = 0 /\ base' = 0 /\ skip' = FALSE /\ l' = l + 1 /\ UNCHANGED bad
          /\ stats' = [stats EXCEPT !.execs = @ + 1]
\* a group whose reference run was rejected is skipped as a whole (nothing to compare with)
TRerun == /\ l <= Len(Tr) /\ Ev.e = "Rerun" /\ l' = l + 1
          /\ IF skip /\ run.refRun
             THEN UNCHANGED <<wst, schema, cur, done, sink, impl, skip, bad, stats, refl, base, run, acked>>
             ELSE Fresh /\ skip' = FALSE /\ UNCHANGED <<bad, refl, base, stats>>
TSkip == /\ l <= Len(Tr) /\ Ev.e \notin {"Reset", "Rerun"} /\ skip
         /\ l' = l + 1 /\ UNCHANGED <<wst, schema, cur, done, sink, impl, skip, bad, stats, refl, base, run, acked>>
TStep == /\ l <= Len(Tr) /\ Ev.e \notin {"Reset", "Rerun"} /\ ~skip
         /\ LET comp == IF Ev.e = "Close" /\ Ev.st = 0 THEN Completeness ELSE [v |-> "n/a", why |-> ""]   \* evaluated once
                v == Verdict(comp)
            IN IF v = {} THEN Apply(comp) /\ UNCHANGED <<skip, bad>>
               ELSE \* a rejected event is printed at once (one JSON line) and only counted in the state
                    /\ PrintT(ToJson([verdict |-> [l |-> l, id |-> Ev.id, e |-> Ev.e, why |-> v, detail |-> Detail(comp),
                                                   run |-> IF Has("run") THEN Ev.run ELSE ""]]))
                    /\ bad' = bad + 1
                    /\ skip' = TRUE /\ UNCHANGED <<wst, schema, cur, done, sink, impl, stats, refl, base, run, acked>>
         /\ l' = l + 1

TNext == TReset \/ TRerun \/ TSkip \/ TStep
TSpec == TInit /\ [][TNext]_tvars

Report == l = Len(Tr) + 1 => PrintT(ToJson([rejected |-> bad, stats |-> stats, lines |-> Len(Tr)]))
TInv == TypeOK /\ (wst \in {"open", "closed"} => DoneWellFormed)
=============================================================================
