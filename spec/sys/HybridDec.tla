----------------------------- MODULE HybridDec -----------------------------
(* The streaming RLE / bit-packed hybrid *decoder* (src/encoding/rle.c: carquet_rle_decoder) *)
(* in two layers.                                                                            *)
(*                                                                                          *)
(* Abstract layer (what any history must observe): the stream stands for the value sequence  *)
(* Full = expansion of all its runs; a cursor c counts the values handed out or skipped.     *)
(*   Get       returns Full[c+1] and advances (0 and no move at the end)                     *)
(*   GetBatch(k) returns the next min(k, remaining) values                                   *)
(*   Skip(k)   returns min(k, remaining)                                                     *)
(*   HasNext   is TRUE while values remain; after the last value it is FALSE unless the      *)
(*             stream goes on with empty runs (then the decoder cannot know: either answer). *)
(* This is the one-shot meaning of the stream, so "streaming = one-shot" is refinement.       *)
(*                                                                                          *)
(* Implementation-shaped layer: the decoder's own variables (byte position, run kind,        *)
(* run_remaining, rle value, the 8-value group buffer and its cursor), runs started lazily,  *)
(* one operator per API call. ZeroRun = "skip" models the tree as found: the value bytes of a *)
(* zero-length RLE run are not consumed; "consume" follows the grammar.                      *)
EXTENDS Naturals, Sequences, SequencesExt, Hybrid

\* ---------------- abstract layer ----------------
FullOf(bs, bw) == Expand(ParseRuns(bs, 1, Len(bs), bw).runs)
\* number of values after which only empty runs follow
AbsGet(full, c) == IF c < Len(full) THEN <<c + 1, full[c + 1]>> ELSE <<c, 0>>
AbsBatch(full, c, k) == LET n == Min2(k, Len(full) - c) IN <<c + n, SubSeq(full, c + 1, c + n)>>
AbsSkip(full, c, k) == LET n == Min2(k, Len(full) - c) IN <<c + n, n>>
\* "1" must be TRUE, "0" must be FALSE, "?" not determined by the stream
AbsHasNext(full, c, bytesAfterLastValue) ==
    IF c < Len(full) THEN "1" ELSE IF bytesAfterLastValue THEN "?" ELSE "0"

\* ---------------- implementation-shaped layer ----------------
DecInit == [pos |-> 1, inRle |-> FALSE, rem |-> 0, val |-> 0, buf |-> <<>>, bpos |-> 0, bcnt |-> 0, ok |-> TRUE]

RECURSIVE StartRun(_, _, _, _)
StartRun(d, bs, bw, zeroRun) ==
    IF d.pos > Len(bs) THEN <<d, FALSE>>
    ELSE LET h == UvarNatParse(bs, d.pos)
         IN IF ~h.ok THEN <<[d EXCEPT !.ok = FALSE], FALSE>>
            ELSE IF h.v % 2 = 0
            THEN LET n == h.v \div 2
                     vb == ValBytes(bw)
                 IN IF n = 0 /\ zeroRun = "skip"
                    THEN StartRun([d EXCEPT !.pos = h.p, !.inRle = TRUE, !.rem = 0], bs, bw, zeroRun)
                    ELSE IF h.p + vb > Len(bs) + 1 THEN <<[d EXCEPT !.pos = h.p, !.inRle = TRUE, !.rem = n, !.ok = FALSE], FALSE>>
                    ELSE LET d2 == [d EXCEPT !.pos = h.p + vb, !.inRle = TRUE, !.rem = n,
                                             !.val = Mask(FromLE(Slice(bs, h.p, vb)), bw)]
                         IN IF n = 0 THEN StartRun(d2, bs, bw, zeroRun) ELSE <<d2, TRUE>>
            ELSE LET g == h.v \div 2
                 IN IF g = 0 THEN StartRun([d EXCEPT !.pos = h.p, !.inRle = FALSE, !.rem = 0], bs, bw, zeroRun)
                    ELSE <<[d EXCEPT !.pos = h.p, !.inRle = FALSE, !.rem = 8 * g, !.bpos = 0, !.bcnt = 0], TRUE>>

FillBuf(d, bs, bw) ==
    IF d.rem <= 0 THEN <<d, FALSE>>
    ELSE IF d.pos + bw > Len(bs) + 1 THEN <<[d EXCEPT !.ok = FALSE], FALSE>>
    ELSE <<[d EXCEPT !.buf = Unpack(bs, d.pos, bw, 8), !.pos = d.pos + bw, !.bpos = 0, !.bcnt = 8], TRUE>>

ImplHasNext(d, bs) == d.ok /\ (d.rem > 0 \/ d.pos <= Len(bs))

\* <<state, value>>
ImplGet(d, bs, bw, zr) ==
    IF ~d.ok THEN <<d, 0>>
    ELSE LET s == IF d.rem <= 0 THEN StartRun(d, bs, bw, zr) ELSE <<d, TRUE>>
         IN IF ~s[2] THEN <<s[1], 0>>
            ELSE LET e == s[1]
                 IN IF e.inRle THEN <<[e EXCEPT !.rem = @ - 1], e.val>>
                    ELSE LET f == IF e.bpos >= e.bcnt THEN FillBuf(e, bs, bw) ELSE <<e, TRUE>>
                         IN IF ~f[2] THEN <<f[1], 0>>
                            ELSE <<[f[1] EXCEPT !.rem = @ - 1, !.bpos = @ + 1], f[1].buf[f[1].bpos + 1]>>

\* the inner loop over a bit-packed run; mode "get" collects values, "skip" only counts
RECURSIVE BpLoop(_, _, _, _, _)
BpLoop(e, want, acc, bs, bw) ==        \* want = values still wanted
    IF want <= 0 \/ e.rem <= 0 THEN <<e, acc, want>>
    ELSE LET f == IF e.bpos >= e.bcnt THEN FillBuf(e, bs, bw) ELSE <<e, TRUE>>
         IN IF ~f[2] THEN <<f[1], acc, want>>
            ELSE LET g == f[1]
                     n == Min2(Min2(want, g.bcnt - g.bpos), g.rem)
                 IN BpLoop([g EXCEPT !.bpos = @ + n, !.rem = @ - n],
                           want - n, acc \o SubSeq(g.buf, g.bpos + 1, g.bpos + n), bs, bw)

\* <<state, values>>  (carquet_rle_decoder_get_batch)
RECURSIVE ImplBatchLoop(_, _, _, _, _, _)
ImplBatchLoop(d, k, acc, bs, bw, zr) ==
    IF Len(acc) >= k \/ ~ImplHasNext(d, bs) THEN <<d, acc>>
    ELSE LET s == IF d.rem <= 0 THEN StartRun(d, bs, bw, zr) ELSE <<d, TRUE>>
         IN IF ~s[2] THEN <<s[1], acc>>
            ELSE LET e == s[1]
                 IN IF e.inRle
                    THEN LET n == Min2(k - Len(acc), e.rem)
                         IN ImplBatchLoop([e EXCEPT !.rem = @ - n], k, acc \o [i \in 1..n |-> e.val], bs, bw, zr)
                    ELSE LET r == BpLoop(e, k - Len(acc), acc, bs, bw)
                         IN IF r[1].ok /\ Len(r[2]) = Len(acc) /\ r[1].rem > 0 THEN <<r[1], r[2]>>   \* cannot happen; guards the recursion
                            ELSE ImplBatchLoop(r[1], k, r[2], bs, bw, zr)
ImplBatch(d, k, bs, bw, zr) == ImplBatchLoop(d, k, <<>>, bs, bw, zr)

\* <<state, count>>  (carquet_rle_decoder_skip)
RECURSIVE ImplSkipLoop(_, _, _, _, _, _)
ImplSkipLoop(d, k, done, bs, bw, zr) ==
    IF done >= k \/ ~ImplHasNext(d, bs) THEN <<d, done>>
    ELSE LET s == IF d.rem <= 0 THEN StartRun(d, bs, bw, zr) ELSE <<d, TRUE>>
         IN IF ~s[2] THEN <<s[1], done>>
            ELSE LET e == s[1]
                     n == Min2(k - done, e.rem)
                 IN IF e.inRle THEN ImplSkipLoop([e EXCEPT !.rem = @ - n], k, done + n, bs, bw, zr)
                    ELSE LET r == BpLoop(e, n, <<>>, bs, bw)
                         IN IF r[1].ok /\ r[2] = <<>> /\ n > 0 /\ r[1].rem > 0 THEN <<r[1], done>>
                            ELSE ImplSkipLoop(r[1], k, done + Len(r[2]), bs, bw, zr)
ImplSkip(d, k, bs, bw, zr) == ImplSkipLoop(d, k, 0, bs, bw, zr)
=============================================================================
