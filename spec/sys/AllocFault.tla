----------------------------- MODULE AllocFault -----------------------------
(* C19: the API protocol under a single allocation failure.                                *)
(*                                                                                         *)
(* A scenario is a sequence of API calls on handles (schema, writer, reader, column        *)
(* reader, batch reader, row batch).  Somewhere inside the armed window exactly one        *)
(* allocation request of the library fails (`delivered` flips once, during the call that   *)
(* carries hitNow).  What the library may then do is fixed here:                           *)
(*                                                                                         *)
(*   * a call may report an error only from the moment the failure has been delivered      *)
(*     (the affected call itself, or -- weakest faithful reading -- a later call of the    *)
(*     window that reports it late);                                                       *)
(*   * a call that reports success on a handle that never reported an error has exactly    *)
(*     its fault-free effect (`Promised`; the effect itself -- table, values, schema --    *)
(*     is bound by the modules that use this one: Writer.tla, AllocTrace.tla);             *)
(*   * a handle whose call reported an error is `tainted`: later calls on it (and on       *)
(*     handles made from it) may succeed or fail and promise no data, but it stays         *)
(*     *closable*: Release is enabled in every live or tainted state;                      *)
(*   * a failed constructor leaves no handle behind (nothing to release);                  *)
(*   * `fault` (crash, oob, uaf, leak, double-free as observed by ASan / LSan / SIGSEGV)   *)
(*     is never changed by an allowed step: FaultFree is the invariant.                    *)
EXTENDS Naturals, Sequences, FiniteSets
VARIABLES hst,        \* handle -> "none" | "live" | "tainted" | "gone"
          delivered,  \* the one allocation failure has happened
          fault       \* "none" | "crash" | "oob" | "uaf" | "leak" | "double-free"
avars == <<hst, delivered, fault>>

Handles == {"schema", "writer", "reader", "col", "br", "batch"}
FaultKinds == {"none", "crash", "oob", "uaf", "leak", "double-free"}

AInit == hst = [h \in Handles |-> "none"] /\ delivered = FALSE /\ fault = "none"

Usable(h) == hst[h] \in {"live", "tainted"}
Absent(h) == hst[h] \in {"none", "gone"}

\* the statuses a call may report. inWin: the call is made inside the armed window;
\* hitNow: the failing allocation request is made by this very call.
CanHit(inWin, hitNow) == hitNow => (inWin /\ ~delivered)
Statuses(inWin, hitNow) == IF inWin /\ (delivered \/ hitNow) THEN {"ok", "err"} ELSE {"ok"}

\* success on a handle that never reported an error: the fault-free effect is owed
Promised(h, st) == st = "ok" /\ hst[h] = "live"

\* ---- the three kinds of API calls
\* a call on an existing handle
CanUse(h, st, inWin, hitNow) == Usable(h) /\ CanHit(inWin, hitNow) /\ st \in Statuses(inWin, hitNow)
Use(h, st, inWin, hitNow) ==
    /\ CanUse(h, st, inWin, hitNow)
    /\ hst' = [hst EXCEPT ![h] = IF st = "err" THEN "tainted" ELSE @]
    /\ delivered' = (delivered \/ hitNow) /\ UNCHANGED fault

\* a constructor: makes handle n, from parent p ("-" = no parent handle)
CanMake(n, p, st, inWin, hitNow) ==
    /\ Absent(n) /\ (p # "-" => Usable(p)) /\ CanHit(inWin, hitNow) /\ st \in Statuses(inWin, hitNow)
MakePromised(p, st) == st = "ok" /\ (p # "-" => hst[p] = "live")
Make(n, p, st, inWin, hitNow) ==
    /\ CanMake(n, p, st, inWin, hitNow)
    /\ hst' = IF st = "ok"
              THEN [hst EXCEPT ![n] = IF p # "-" /\ hst[p] = "tainted" THEN "tainted" ELSE "live"]
              ELSE IF p # "-" THEN [hst EXCEPT ![p] = "tainted"] ELSE hst     \* no handle is left behind
    /\ delivered' = (delivered \/ hitNow) /\ UNCHANGED fault

\* close / free / abort: always possible on a live or tainted handle; the handle is gone whatever
\* the status (carquet_writer_close: "the writer handle becomes invalid after this call")
CanRelease(h, st, inWin, hitNow) == Usable(h) /\ CanHit(inWin, hitNow) /\ st \in Statuses(inWin, hitNow)
Release(h, st, inWin, hitNow) ==
    /\ CanRelease(h, st, inWin, hitNow)
    /\ hst' = [hst EXCEPT ![h] = "gone"]
    /\ delivered' = (delivered \/ hitNow) /\ UNCHANGED fault

\* what the sanitizers observe; never part of an allowed behaviour
Observe(kind) == kind \in FaultKinds \ {"none"} /\ fault' = kind /\ UNCHANGED <<hst, delivered>>

ATypeOK == /\ hst \in [Handles -> {"none", "live", "tainted", "gone"}]
           /\ delivered \in BOOLEAN /\ fault \in FaultKinds
FaultFree == fault = "none"
\* closability: whatever happened, every handle that exists can be released without a fault
Closable == \A h \in Handles : Usable(h) => CanRelease(h, "ok", FALSE, FALSE)
\* no error is ever reported before the failure exists
NoTaintBeforeFault == (\E h \in Handles : hst[h] = "tainted") => delivered
=============================================================================
