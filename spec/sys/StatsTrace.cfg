INIT TInit
NEXT TNext
INVARIANTS TInv Report
CHECK_DEADLOCK FALSE
