------------------------------- MODULE Values -------------------------------
(* Value tokens: concrete PLAIN byte strings per physical type (DESIGN.md C.1).            *)
(* Injective per type, so "bit-identical" is equality of byte strings.                     *)
EXTENDS Naturals, Sequences
Tok == [
  t0 |-> << <<0>>, <<1>> >>,                                                         \* BOOLEAN
  t1 |-> << <<0,0,0,0>>, <<1,0,0,0>>, <<255,255,255,255>>, <<0,0,0,128>>, <<255,255,255,127>>, <<4,3,2,1>> >>,
  t2 |-> << <<0,0,0,0,0,0,0,0>>, <<1,0,0,0,0,0,0,0>>, <<255,255,255,255,255,255,255,255>>,
            <<0,0,0,0,0,0,0,128>>, <<255,255,255,255,255,255,255,127>>, <<8,7,6,5,4,3,2,1>> >>,
  t3 |-> << <<0,0,0,0,0,0,0,0,0,0,0,0>>, <<1,2,3,4,5,6,7,8,9,10,11,12>>, <<255,255,255,255,255,255,255,255,255,255,255,255>> >>,
  t4 |-> << <<0,0,0,0>>, <<0,0,0,128>>, <<0,0,192,63>>, <<0,0,192,191>>, <<0,0,128,127>>, <<0,0,128,255>>,
            <<0,0,192,127>>, <<1,0,160,127>>, <<1,0,192,255>>, <<1,0,0,0>> >>,       \* +0 -0 1.5 -1.5 +inf -inf qNaN sNaN -NaN denorm
  t5 |-> << <<0,0,0,0,0,0,0,0>>, <<0,0,0,0,0,0,0,128>>, <<0,0,0,0,0,0,248,63>>, <<0,0,0,0,0,0,248,191>>,
            <<0,0,0,0,0,0,240,127>>, <<0,0,0,0,0,0,240,255>>, <<0,0,0,0,0,0,248,127>>, <<1,0,0,0,0,0,244,127>>,
            <<1,0,0,0,0,0,248,255>>, <<1,0,0,0,0,0,0,0>> >>,
  t6 |-> << <<>>, <<97>>, <<97,0,98>>, <<255>>, [i \in 1..300 |-> 120], [i \in 1..40 |-> (i * 7) % 256] >> ]   \* BYTE_ARRAY
Flba(tlen) == << [i \in 1..tlen |-> 0], [i \in 1..tlen |-> 255], [i \in 1..tlen |-> i % 256] >>

Tokens(type, tlen) == CASE type = 0 -> Tok.t0 [] type = 1 -> Tok.t1 [] type = 2 -> Tok.t2 [] type = 3 -> Tok.t3
                        [] type = 4 -> Tok.t4 [] type = 5 -> Tok.t5 [] type = 6 -> Tok.t6 [] type = 7 -> Flba(tlen)
\* the k-th token (cyclic, k >= 0)
TokenAt(type, tlen, k) == LET ts == Tokens(type, tlen) IN ts[(k % Len(ts)) + 1]

\* wide values: many distinct values per type (injective in k for k < 2^16 except BOOLEAN / short FLBA), for
\* dictionaries with hundreds of entries (index bit widths 9, 10) and long columns
WideAt(type, tlen, k) ==
    CASE type = 0 -> <<k % 2>>
      [] type \in {1, 4} -> <<k % 256, (k \div 256) % 256, (k * 7) % 256, (k * 13) % 128>>
      [] type \in {2, 5} -> <<k % 256, (k \div 256) % 256, (k * 7) % 256, (k * 13) % 256, 0, (k * 3) % 256, (k * 5) % 256, (k * 11) % 128>>
      [] type = 3 -> [i \in 1..12 |-> IF i = 1 THEN k % 256 ELSE IF i = 2 THEN (k \div 256) % 256 ELSE (k * i) % 256]
      [] type = 6 -> [i \in 1..(k % 7) |-> (k + i) % 256] \o <<k % 256, (k \div 256) % 256>>
      [] type = 7 -> [i \in 1..tlen |-> IF i = 1 THEN k % 256 ELSE IF i = 2 THEN (k \div 256) % 256 ELSE (k * i) % 256]
=============================================================================
