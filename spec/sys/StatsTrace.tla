----------------------------- MODULE StatsTrace -----------------------------
(* Trace validation for C16 (statistics are true bounds; pruning never discards matching   *)
(* data).  Deterministic checker in the style of WriterTrace.tla: every recorded event of   *)
(* an execution of the real library is judged against Stats.tla; the verdict is the set of *)
(* names of the violated conditions; a non-empty verdict is appended to `bad` and the rest *)
(* of that execution is skipped.  Executions are separated by {"e":"Reset"}.               *)
(*                                                                                         *)
(* Four kinds of executions:                                                               *)
(*  (a) writer:  Create / WriteBatch / NewRowGroup / Close (steps of Writer.tla) then File *)
(*      (the bytes carquet wrote): the file is parsed by the reference reader and every    *)
(*      page-header (and chunk) Statistics struct must bound the page's (chunk's) non-null *)
(*      values and state the exact null count.                                             *)
(*  (b) Build: a call sequence on the statistics builder and what carquet_statistics_build *)
(*      returned.                                                                          *)
(*  (c) RFile (content + stated statistics of a reference-written file), then ColStats and *)
(*      Query events (row_group_matches for every group, filter_row_groups for some caps). *)
(*  (d) Compare / Overlaps / PageMatch: the helpers, called directly.                      *)
(* Orders: a claim is refuted only if it is wrong under every admissible order of the type *)
(* (Stats.Orders).  Findings that hold under some orders only go to `obs` (not verdicts).  *)
EXTENDS Integers, Writer, ParquetFile, Stats, TLC, Json, IOUtils
VARIABLES l, skip, bad, obs, stats, rf
Tr == ndJsonDeserialize(IOEnv.TRACE)
tvars == <<wst, schema, cur, done, l, skip, bad, obs, stats, rf>>

Ev == Tr[l]
Has(f) == f \in DOMAIN Ev

PhysName(t) == <<"BOOLEAN", "INT32", "INT64", "INT96", "FLOAT", "DOUBLE", "BYTE_ARRAY", "FLBA">>[t + 1]
Width(t, tlen) == CASE t = 0 -> 1 [] t \in {1, 4} -> 4 [] t \in {2, 5} -> 8 [] t = 3 -> 12 [] t = 7 -> tlen [] OTHER -> 0
WidthOk(t, tlen, v) == t = 6 \/ Len(v) = Width(t, tlen)

\* ------------------------------------------------------------------ bounds (parts a, b)
\* claim == [hasMin, min, hasMax, max, hasNulls, nulls]; names of the refuted parts, prefixed
BoundNames(prefix, t, tlen, claim, vals, nulls) ==
    LET minW == ~claim.hasMin \/ WidthOk(t, tlen, claim.min)
        maxW == ~claim.hasMax \/ WidthOk(t, tlen, claim.max)
        lo == [hasMin |-> claim.hasMin, min |-> claim.min, hasMax |-> FALSE, max |-> <<>>]
        hi == [hasMin |-> FALSE, min |-> <<>>, hasMax |-> claim.hasMax, max |-> claim.max]
        both == [hasMin |-> claim.hasMin, min |-> claim.min, hasMax |-> claim.hasMax, max |-> claim.max]
        \* refuted only if in no admissible order min and max are bounds together
        refuted == minW /\ maxW /\ \A o \in Orders(t) : ~IsBound(t, o, both, vals)
        loRef == claim.hasMin /\ LowerRefuted(t, lo, vals)
        hiRef == claim.hasMax /\ UpperRefuted(t, hi, vals)
        nanBound == (claim.hasMin /\ IsNaN(t, claim.min)) \/ (claim.hasMax /\ IsNaN(t, claim.max))
    IN (IF ~minW THEN {prefix \o "min-width"} ELSE {})
       \cup (IF ~maxW THEN {prefix \o "max-width"} ELSE {})
       \cup (IF refuted /\ loRef
             THEN {prefix \o (IF IsNaN(t, claim.min) THEN "min-nan-not-lower-bound" ELSE "min-not-lower-bound")} ELSE {})
       \cup (IF refuted /\ hiRef
             THEN {prefix \o (IF IsNaN(t, claim.max) THEN "max-nan-not-upper-bound" ELSE "max-not-upper-bound")} ELSE {})
       \* each side is a bound in some order, but no order makes both of them bounds (e.g. min = max = NaN next to ordered values)
       \cup (IF refuted /\ ~loRef /\ ~hiRef
             THEN {prefix \o (IF nanBound THEN "nan-min-max-not-bounds-in-any-order" ELSE "min-max-not-bounds-in-any-order")} ELSE {})
       \cup (IF claim.hasNulls /\ claim.nulls # nulls THEN {prefix \o "null-count"} ELSE {})

\* the two field pairs of a parsed Statistics struct (ParquetFile.StatsOf) as claims
NewClaim(s) == [hasMin |-> s.hasMin, min |-> s.min, hasMax |-> s.hasMax, max |-> s.max, hasNulls |-> s.hasNulls, nulls |-> s.nulls]
OldClaim(s) == [hasMin |-> s.hasMinOld, min |-> s.minOld, hasMax |-> s.hasMaxOld, max |-> s.maxOld, hasNulls |-> FALSE, nulls |-> 0]
StructNames(prefix, t, tlen, s, vals, nulls) ==
    BoundNames(prefix, t, tlen, NewClaim(s), vals, nulls) \cup BoundNames(prefix \o "deprecated-", t, tlen, OldClaim(s), vals, nulls)

\* ---- (a) the file carquet wrote
NonEmptyGroups(t) == SelectSeq(t, LAMBDA g : g.numRows > 0)
TableMatches(t) ==
    LET ng == NonEmptyGroups(t)
    IN /\ Len(ng) = Len(done)
       /\ \A g \in 1..Len(ng) :
             /\ Len(ng[g].cols) = NCols
             /\ \A c \in 1..NCols : /\ ng[g].cols[c].defs = done[g][c].defs
                                    /\ ng[g].cols[c].vals = done[g][c].vals
NullsIn(defs, maxDef) == Len(SelectSeq(defs, LAMBDA d : d < maxDef))
\* all (g, c, k) page coordinates with a Statistics struct; k = 0 is the chunk itself
StatSites(f) ==
    UNION { UNION { {<<g, c, 0>> : x \in IF f.rgs[g].cols[c].hasStats THEN {1} ELSE {}}
                    \cup {<<g, c, k>> : k \in {j \in 1..Len(f.rgs[g].cols[c].pages) :
                                                   f.rgs[g].cols[c].pages[j].kind = "data" /\ f.rgs[g].cols[c].pages[j].hasStats}}
                    : c \in 1..Len(f.rgs[g].cols) } : g \in 1..Len(f.rgs) }
SiteNames(f, site) ==
    LET ch == f.rgs[site[1]].cols[site[2]]
        lf == f.leaves[site[2]]
    IN IF site[3] = 0
       THEN StructNames("chunk-stats:", lf.type, lf.tlen, ch.stats, ChunkVals(ch), NullsIn(ChunkDefs(ch), lf.maxDef))
       ELSE LET pg == ch.pages[site[3]]
            IN StructNames("page-stats:", lf.type, lf.tlen, pg.stats, pg.vals, NullsIn(pg.defs, lf.maxDef))
FileNames(f) == UNION {SiteNames(f, s) : s \in StatSites(f)}
FileDetail(f) ==
    LET badSites == {s \in StatSites(f) : SiteNames(f, s) # {}}
    IN IF badSites = {} THEN [none |-> TRUE]
       ELSE LET s == CHOOSE x \in badSites : TRUE
                ch == f.rgs[s[1]].cols[s[2]]
            IN [g |-> s[1] - 1, c |-> s[2] - 1, page |-> s[3], type |-> f.leaves[s[2]].type,
                stats |-> IF s[3] = 0 THEN ch.stats ELSE ch.pages[s[3]].stats,
                vals |-> IF s[3] = 0 THEN ChunkVals(ch) ELSE ch.pages[s[3]].vals,
                names |-> SiteNames(f, s)]
DataPagesOf(f) == UNION { UNION { {<<g, c, k>> : k \in {j \in 1..Len(f.rgs[g].cols[c].pages) : f.rgs[g].cols[c].pages[j].kind = "data"}}
                                  : c \in 1..Len(f.rgs[g].cols) } : g \in 1..Len(f.rgs) }
PageAt(f, s) == f.rgs[s[1]].cols[s[2]].pages[s[3]]

\* ---- (b) the builder as a fold over the recorded calls: [data, nulls]
BuilderState(calls) ==
    FoldLeft(LAMBDA acc, c : CASE c.k = "v" -> [data |-> acc.data \o c.vals, nulls |-> acc.nulls]
                               [] c.k = "n" -> [data |-> acc.data, nulls |-> acc.nulls + c.n]
                               [] OTHER -> [data |-> <<>>, nulls |-> 0],
             [data |-> <<>>, nulls |-> 0], calls)

\* ---- (c) reference file: rf == [cols : Seq([t, tlen]), rgs : Seq(Seq([data, nulls, nvals, st]))]
\* st == [has, useOld, useNew, hasNulls, nulls, min, max (new pair), omin, omax (deprecated pair)]
Cell(g, c) == rf.rgs[g][c]
HasNewPair(s) == s.has /\ s.useNew
HasOldPair(s) == s.has /\ s.useOld
NoPair(s) == ~HasNewPair(s) /\ ~HasOldPair(s)
PairStat(mn, mx) == [hasMin |-> TRUE, min |-> mn, hasMax |-> TRUE, max |-> mx]
\* hypothesis of the property in order o: every stated pair bounds the stored values
Truthful(t, o, cell) ==
    /\ (HasNewPair(cell.st) => IsBound(t, o, PairStat(cell.st.min, cell.st.max), cell.data))
    /\ (HasOldPair(cell.st) => IsBound(t, o, PairStat(cell.st.omin, cell.st.omax), cell.data))
\* orders under which group g is inside the hypothesis and holds a matching row
MatchOrders(c, g, op, p) ==
    LET t == rf.cols[c].t
    IN {o \in Orders(t) : Truthful(t, o, Cell(g, c)) /\ AnyHolds(t, o, op, Cell(g, c).data, p)}
OpName(k) == <<"EQ", "NE", "LT", "LE", "GT", "GE">>[k + 1]

QueryNames ==
    LET c == Ev.col + 1
        t == rf.cols[c].t
        op == OpName(Ev.op)
        ng == Len(rf.rgs)
        tag == PhysName(t) \o ":" \o op \o (IF IsNaN(t, Ev.probe) THEN ":nan-probe" ELSE "")
        fneg == {g \in 1..ng : Ev.sts[g] = 0 /\ ~Ev.mights[g] /\ MatchOrders(c, g, op, Ev.probe) = Orders(t)}
        absent == {g \in 1..ng : Ev.sts[g] = 0 /\ ~Ev.mights[g] /\ NoPair(Cell(g, c).st)}
        \* a call that reports an error counts as "might match" (conservative), as the filter does
        eff == [g \in 1..ng |-> Ev.sts[g] # 0 \/ Ev.mights[g]]
    IN (IF Len(Ev.sts) # ng \/ Len(Ev.mights) # ng THEN {"prune:malformed-event"}
        ELSE (IF \E g \in 1..ng : Ev.sts[g] # 0 THEN {"prune:matches-status"} ELSE {})
             \cup (IF fneg # {} THEN {"prune:false-negative:" \o tag} ELSE {})
             \cup (IF absent # {} THEN {"prune:absent-statistics-pruned:" \o PhysName(t)} ELSE {})
             \cup UNION { LET want == Filter(eff, Ev.filters[i].cap)
                          IN (IF Ev.filters[i].ret # Len(want) THEN {"filter:count"} ELSE {})
                             \cup (IF Ev.filters[i].ret = Len(want) /\ Ev.filters[i].idx # want THEN {"filter:list"} ELSE {})
                          : i \in 1..Len(Ev.filters) })
\* pruned although a match exists under some (not all) admissible orders: observation only
QueryObs ==
    LET c == Ev.col + 1
        t == rf.cols[c].t
        op == OpName(Ev.op)
    IN IF Len(Ev.mights) # Len(rf.rgs) THEN {}
       ELSE UNION { {"prune:false-negative-under:" \o o \o ":" \o PhysName(t) \o ":" \o op
                       : o \in (IF Ev.sts[g] = 0 /\ ~Ev.mights[g] /\ MatchOrders(c, g, op, Ev.probe) # Orders(t)
                                THEN MatchOrders(c, g, op, Ev.probe) ELSE {})}
                    : g \in 1..Len(rf.rgs) }

ColStatsNames ==
    LET inRange == Ev.rg >= 0 /\ Ev.rg < Len(rf.rgs) /\ Ev.col >= 0 /\ Ev.col < Len(rf.cols)
    IN IF ~inRange THEN (IF Ev.st = 0 THEN {"colstats:out-of-range-accepted"} ELSE {})
       ELSE IF Ev.st # 0 THEN {"colstats:status"}
       ELSE LET cell == Cell(Ev.rg + 1, Ev.col + 1)
                s == cell.st
            IN (IF Ev.numValues # cell.nvals THEN {"colstats:num-values"} ELSE {})
               \cup (IF Ev.hasNulls # (s.has /\ s.hasNulls) \/ (Ev.hasNulls /\ Ev.nulls # s.nulls) THEN {"colstats:null-count"} ELSE {})
               \cup (IF Ev.hasMinMax /\ NoPair(s) THEN {"colstats:min-max-invented"} ELSE {})
               \cup (IF Ev.hasMinMax /\ ~NoPair(s)
                        /\ ~(\/ (HasNewPair(s) /\ Ev.min = s.min /\ Ev.max = s.max)
                             \/ (HasOldPair(s) /\ Ev.min = s.omin /\ Ev.max = s.omax))
                     THEN {"colstats:min-max-differs"} ELSE {})
ColStatsObs ==
    LET inRange == Ev.rg >= 0 /\ Ev.rg < Len(rf.rgs) /\ Ev.col >= 0 /\ Ev.col < Len(rf.cols)
    IN IF inRange /\ Ev.st = 0 /\ ~Ev.hasMinMax /\ ~NoPair(Cell(Ev.rg + 1, Ev.col + 1).st) THEN {"colstats:min-max-withheld"} ELSE {}

\* ---- (d) helpers
RangeNonEmpty(t, o, r) == ~r.hasMin \/ ~r.hasMax \/ Leq(t, o, r.min, r.max)
OverlapOrders(t, s, q) == {o \in Orders(t) : RangeNonEmpty(t, o, s) /\ RangeNonEmpty(t, o, q) /\ Overlaps(t, o, s, q)}
HelperTag(t) == IF t \in {6, 7} THEN "bytes" ELSE IF IsFloat(t) THEN "float" ELSE IF t = 3 THEN "int96" ELSE IF t = 0 THEN "boolean" ELSE "integer"

\* ------------------------------------------------------------------ verdict and observations
Verdict(f) ==
    CASE Ev.e = "Create" -> IF ~Ev.ok THEN {"create-failed"} ELSE IF CanCreate(Ev.cols) THEN {} ELSE {"create-not-enabled"}
      [] Ev.e = "WriteBatch" -> IF Ev.st # 0 THEN {} ELSE IF CanWriteBatch(Ev.c + 1, Ev.n, Ev.withDefs, Ev.defs, Ev.vals) THEN {} ELSE {"write-batch-not-enabled"}
      [] Ev.e = "NewRowGroup" -> IF Ev.st # 0 THEN {} ELSE IF CanNewRowGroup THEN {} ELSE {"new-row-group-not-enabled"}
      [] Ev.e = "Close" -> IF Ev.st # 0 THEN {} ELSE IF CanClose THEN {} ELSE {"close-not-enabled"}
      [] Ev.e = "File" ->
            IF wst # "closed" THEN {"wfile:writer-not-closed"}
            ELSE IF ~f.ok THEN {"wfile:unparsable"}
            ELSE IF ~TableMatches(TableOf(f)) THEN {"wfile:table-differs"}
            ELSE FileNames(f)
      [] Ev.e = "Build" ->
            LET b == BuilderState(Ev.calls)
            IN IF \E i \in 1..Len(Ev.sts) : Ev.sts[i] # 0 THEN {"builder:add-rejected"}
               ELSE IF Ev.st # 0 THEN {"builder:build-failed"}
               ELSE BoundNames("builder:", Ev.t, Ev.tlen,
                               [hasMin |-> Ev.hasMin, min |-> Ev.min, hasMax |-> Ev.hasMax, max |-> Ev.max,
                                hasNulls |-> Ev.hasNulls, nulls |-> Ev.nulls], b.data, b.nulls)
      [] Ev.e = "RFile" -> {}
      [] Ev.e = "ColStats" -> ColStatsNames
      [] Ev.e = "Query" -> QueryNames
      [] Ev.e = "Compare" ->
            IF Ev.st # 0 THEN {"compare:status"}
            ELSE IF Ev.r # 0 /\ \A o \in Orders(Ev.t) : InRange(Ev.t, o, Ev.s, Ev.v)
                 THEN {"compare:false-negative:" \o HelperTag(Ev.t)} ELSE {}
      [] Ev.e = "Overlaps" ->
            IF Ev.st # 0 THEN {"overlaps:status"}
            ELSE IF ~Ev.r /\ OverlapOrders(Ev.t, Ev.s, Ev.q) = Orders(Ev.t)
                 THEN {"overlaps:false-negative:" \o HelperTag(Ev.t)} ELSE {}
      [] Ev.e = "PageMatch" ->
            IF Ev.adds # <<>> /\ \E i \in 1..Len(Ev.adds) : Ev.adds[i] # 0 THEN {"page-match:add-page-status"}
            ELSE IF Ev.st # 0 THEN {"page-match:status"}
            ELSE LET pg == Ev.pages[Ev.page + 1]
                 IN IF ~Ev.r /\ ~pg.isNull /\ OverlapOrders(Ev.t, pg, Ev.q) = Orders(Ev.t)
                    THEN {"page-match:false-negative:" \o HelperTag(Ev.t)} ELSE {}
      [] Ev.e = "Fault" -> {"fault:" \o Ev.kind}
      [] OTHER -> {"unknown-event"}

Observations ==
    CASE Ev.e = "Query" -> QueryObs
      [] Ev.e = "ColStats" -> ColStatsObs
      [] Ev.e = "Compare" ->       \* the documented sign convention (-1 below min, 1 above max); not part of the property
            IF Ev.st = 0 /\ \A o \in Orders(Ev.t) :
                    \/ (Ev.r = -1 /\ ~(Ev.s.hasMin /\ Lss(Ev.t, o, Ev.v, Ev.s.min)))
                    \/ (Ev.r = 1 /\ ~(Ev.s.hasMax /\ Lss(Ev.t, o, Ev.s.max, Ev.v)))
                    \/ (Ev.r = 0 /\ ~InRange(Ev.t, o, Ev.s, Ev.v))
            THEN {"compare:result-differs-from-documented:" \o HelperTag(Ev.t)} ELSE {}
      [] OTHER -> {}

FailOrStay == IF wst = "open" THEN Fail ELSE UNCHANGED wvars
Apply ==
    CASE Ev.e = "Create" -> Create(Ev.cols) /\ UNCHANGED rf
      \* a call that reports failure ends the promises of the writer (calls after it change nothing more)
      [] Ev.e = "WriteBatch" -> (IF Ev.st # 0 THEN FailOrStay ELSE WriteBatch(Ev.c + 1, Ev.n, Ev.withDefs, Ev.defs, Ev.vals)) /\ UNCHANGED rf
      [] Ev.e = "NewRowGroup" -> (IF Ev.st # 0 THEN FailOrStay ELSE NewRowGroup) /\ UNCHANGED rf
      [] Ev.e = "Close" -> (IF Ev.st # 0 THEN FailOrStay ELSE Close) /\ UNCHANGED rf
      [] Ev.e = "RFile" -> rf' = [cols |-> Ev.cols, rgs |-> Ev.rgs] /\ UNCHANGED wvars
      [] OTHER -> UNCHANGED wvars /\ UNCHANGED rf

\* evidence counters (what the judged traces exercised)
Count(f) ==
    CASE Ev.e = "File" /\ f.ok ->
            LET dp == DataPagesOf(f)
                fl(s) == IsFloat(f.leaves[s[2]].type)
            IN [stats EXCEPT !.pages = @ + Cardinality(dp),
                             !.pagesWithStats = @ + Cardinality({s \in dp : PageAt(f, s).hasStats}),
                             !.chunkStats = @ + Cardinality({s \in StatSites(f) : s[3] = 0}),
                             !.nanPages = @ + Cardinality({s \in dp : fl(s) /\ \E i \in 1..Len(PageAt(f, s).vals) : FIsNaN(PageAt(f, s).vals[i])}),
                             !.nanFirstPages = @ + Cardinality({s \in dp : fl(s) /\ PageAt(f, s).vals # <<>> /\ FIsNaN(PageAt(f, s).vals[1])}),
                             !.nullPages = @ + Cardinality({s \in dp : \E i \in 1..Len(PageAt(f, s).defs) : PageAt(f, s).defs[i] < f.leaves[s[2]].maxDef})]
      [] Ev.e = "Query" ->
            LET c == Ev.col + 1
                t == rf.cols[c].t
                must == {g \in 1..Len(rf.rgs) : MatchOrders(c, g, OpName(Ev.op), Ev.probe) = Orders(t)}
            IN [stats EXCEPT !.groupsJudged = @ + Len(rf.rgs), !.groupsMustMatch = @ + Cardinality(must),
                             !.groupsPruned = @ + Cardinality({g \in 1..Len(rf.rgs) : ~Ev.mights[g]})]
      [] OTHER -> stats

TInit == /\ WInit /\ l = 1 /\ skip = FALSE /\ bad = <<>> /\ obs = <<>> /\ rf = [cols |-> <<>>, rgs |-> <<>>]
         /\ stats = [execs |-> 0, events |-> 0, failed |-> 0, pages |-> 0, pagesWithStats |-> 0, chunkStats |-> 0, nanPages |-> 0,
                     nanFirstPages |-> 0, nullPages |-> 0, groupsJudged |-> 0, groupsMustMatch |-> 0, groupsPruned |-> 0]

TReset == /\ l <= Len(Tr) /\ Ev.e = "Reset"
          /\ wst' = "none" /\ schema' = <<>> /\ cur' = <<>> /\ done' = <<>> /\ rf' = [cols |-> <<>>, rgs |-> <<>>]
          /\ skip' = FALSE /\ l' = l + 1 /\ UNCHANGED <<bad, obs>>
          /\ stats' = [stats EXCEPT !.execs = @ + 1]

TSkip == /\ l <= Len(Tr) /\ Ev.e # "Reset" /\ skip
         /\ l' = l + 1 /\ UNCHANGED <<wst, schema, cur, done, skip, bad, obs, stats, rf>>

TStep == /\ l <= Len(Tr) /\ Ev.e # "Reset" /\ ~skip
         /\ LET f == IF Ev.e = "File" THEN ParseFile(Ev.bytes) ELSE [ok |-> FALSE]      \* parsed once per event
                v == Verdict(f)
            IN IF v = {} THEN /\ Apply /\ UNCHANGED <<skip, bad>>
                              /\ obs' = (IF Observations = {} THEN obs ELSE Append(obs, [l |-> l, id |-> Ev.id, e |-> Ev.e, what |-> Observations]))
                              /\ stats' = [Count(f) EXCEPT !.events = @ + 1,
                                                           !.failed = IF Has("st") /\ Ev.st # 0 THEN @ + 1 ELSE @]
               ELSE /\ bad' = Append(bad, [l |-> l, id |-> Ev.id, e |-> Ev.e, why |-> v,
                                            detail |-> IF Ev.e = "File" /\ wst = "closed" /\ f.ok /\ TableMatches(TableOf(f))
                                                       THEN FileDetail(f)
                                                       ELSE IF Ev.e \in {"ColStats", "Query", "Compare", "Overlaps", "PageMatch"} THEN Ev
                                                       ELSE [none |-> TRUE]])
                    /\ stats' = (IF Ev.e = "File" THEN Count(f) ELSE stats)
                    \* events judged against the current file / on their own do not invalidate what follows
                    /\ skip' = (Ev.e \notin {"ColStats", "Query", "Compare", "Overlaps", "PageMatch", "Build"})
                    /\ UNCHANGED <<wst, schema, cur, done, obs, rf>>
         /\ l' = l + 1

TNext == TReset \/ TSkip \/ TStep
TSpec == TInit /\ [][TNext]_tvars

\* printed once, in the final state
Report == l = Len(Tr) + 1 => PrintT(ToJson([verdicts |-> bad, observations |-> obs, stats |-> stats, lines |-> Len(Tr)]))
TInv == TypeOK
=============================================================================
