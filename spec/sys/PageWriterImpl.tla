--------------------------- MODULE PageWriterImpl ---------------------------
(* Implementation-shaped model of carquet's page writer (src/writer/page_writer.c +        *)
(* column_writer.c flush rule) for one OPTIONAL column: the state the code keeps between    *)
(* write_batch calls and what it emits when a page is finalised. The format-level verdict   *)
(* is taken with Hybrid.tla: a page must decode to exactly the rows added to it.           *)
(*                                                                                         *)
(* Design switch PerBatchBlocks = TRUE reproduces the design of the pinned commit (one      *)
(* [len][RLE] level block per write_batch, booleans packed per batch): TLC finds the        *)
(* violation with two batches. FALSE is the repaired design (levels and booleans            *)
(* accumulated per page, encoded at finalisation), which TLC verifies within the bounds.    *)
EXTENDS Naturals, Sequences, SequencesExt, Bytes, Varint, BitPack, Hybrid
CONSTANTS PerBatchBlocks, MaxRows, PageTarget
VARIABLES lvlRaw,       \* levels accumulated for the current page (repaired design)
          lvlBlocks,    \* level bytes already encoded per batch (pinned design)
          bits,         \* boolean values (0/1) accumulated for the current page
          bitBytes,     \* boolean bytes already packed per batch (pinned design)
          rowsInPage,   \* ghost: the defs of the rows added to the current page
          valsInPage,   \* ghost: the dense boolean values added to the current page
          pages,        \* emitted pages: [bytes, n, defs, vals]
          total
pvars == <<lvlRaw, lvlBlocks, bits, bitBytes, rowsInPage, valsInPage, pages, total>>

\* carquet-shaped RLE encoding of a level sequence (maximal runs >= 8 as RLE, rest bit-packed in
\* groups of 8 with the literal group completed from a following long run - the repaired encoder)
RECURSIVE EncRuns(_)
EncRuns(s) ==
    IF s = <<>> THEN <<>>
    ELSE LET v == s[1]
             RECURSIVE cnt(_)
             cnt(i) == IF i <= Len(s) /\ s[i] = v THEN cnt(i + 1) ELSE i - 1
             n == cnt(1)
         IN IF n >= 8 THEN <<[k |-> "rle", n |-> n, v |-> v]>> \o EncRuns(SubSeq(s, n + 1, Len(s)))
            ELSE LET g == SubSeq(s, 1, IF Len(s) < 8 THEN Len(s) ELSE 8)
                 IN <<[k |-> "bp", vals |-> g \o [i \in 1..(8 - Len(g)) |-> 0]]>> \o EncRuns(SubSeq(s, Len(g) + 1, Len(s)))
LevelBlock(levels) == SerPrefixed(EncRuns(levels), 1)
PackBits(bs) == Pack(bs, 1)

Init == /\ lvlRaw = <<>> /\ lvlBlocks = <<>> /\ bits = <<>> /\ bitBytes = <<>>
        /\ rowsInPage = <<>> /\ valsInPage = <<>> /\ pages = <<>> /\ total = 0

EstimatedSize == (IF PerBatchBlocks THEN Len(lvlBlocks) + Len(bitBytes) ELSE 2 * Len(lvlRaw) + Len(bits)) + 64

FinalizeBytes == IF PerBatchBlocks THEN lvlBlocks \o bitBytes
                 ELSE (IF lvlRaw = <<>> THEN <<>> ELSE LevelBlock(lvlRaw)) \o PackBits(bits)

Flush == /\ pages' = Append(pages, [bytes |-> FinalizeBytes, n |-> Len(rowsInPage), defs |-> rowsInPage, vals |-> valsInPage])
         /\ lvlRaw' = <<>> /\ lvlBlocks' = <<>> /\ bits' = <<>> /\ bitBytes' = <<>>
         /\ rowsInPage' = <<>> /\ valsInPage' = <<>>

\* write_batch(defs, vals): add to the page; flush when the estimate reaches the target (as column_writer does)
WriteBatch(defs, vals) ==
    /\ total + Len(defs) <= MaxRows
    /\ total' = total + Len(defs)
    /\ LET lr == lvlRaw \o defs
           lb == lvlBlocks \o LevelBlock(defs)
           bi == bits \o vals
           bb == bitBytes \o PackBits(vals)
           rp == rowsInPage \o defs
           vp == valsInPage \o vals
           est == (IF PerBatchBlocks THEN Len(lb) + Len(bb) ELSE 2 * Len(lr) + Len(bi)) + 64
       IN IF est >= PageTarget
          THEN /\ pages' = Append(pages, [bytes |-> IF PerBatchBlocks THEN lb \o bb ELSE LevelBlock(lr) \o PackBits(bi),
                                          n |-> Len(rp), defs |-> rp, vals |-> vp])
               /\ lvlRaw' = <<>> /\ lvlBlocks' = <<>> /\ bits' = <<>> /\ bitBytes' = <<>> /\ rowsInPage' = <<>> /\ valsInPage' = <<>>
          ELSE /\ lvlRaw' = lr /\ lvlBlocks' = lb /\ bits' = bi /\ bitBytes' = bb /\ rowsInPage' = rp /\ valsInPage' = vp
               /\ UNCHANGED pages

Batches == UNION {{[defs |-> d, vals |-> [i \in 1..Len(SelectSeq(d, LAMBDA x : x = 1)) |-> (i + n) % 2]] : d \in [1..n -> {0, 1}]} : n \in 1..3}
CloseChunk == rowsInPage # <<>> /\ Flush /\ UNCHANGED total
Next == (\E b \in Batches : WriteBatch(b.defs, b.vals)) \/ CloseChunk

\* ---- format-level verdict: every emitted page decodes (by the format) to the rows added to it
PageDecodes(pg) ==
    LET dl == ParsePrefixed(pg.bytes, 1, 1, pg.n)
    IN /\ dl.ok /\ dl.vals = pg.defs
       /\ LET nn == Len(pg.vals)
              need == (nn + 7) \div 8
          IN /\ dl.p + need - 1 = Len(pg.bytes)                              \* values section is exactly the packed booleans
             /\ Unpack(pg.bytes, dl.p, 1, nn) = pg.vals
EveryPageDecodes == \A i \in 1..Len(pages) : PageDecodes(pages[i])
=============================================================================
