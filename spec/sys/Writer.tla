------------------------------- MODULE Writer -------------------------------
(* The writer API as a state machine (public contract, one action per call).               *)
(* A column's content is the pair (defs, vals): defs has one entry per row (1 = present,   *)
(* 0 = null for OPTIONAL columns; all 0... see Present), vals the dense non-null values   *)
(* as byte strings.  Guards (the Can... predicates) and effects are separate so that trace specifications   *)
(* can name the guard that failed.                                                         *)
EXTENDS Naturals, Sequences, SequencesExt, FiniteSets
VARIABLES wst,      \* "none" | "open" | "failed" | "closed" | "aborted"
          schema,   \* Seq of [name, type, rep, tlen]
          cur,      \* current row group: Seq (per column) of [defs |-> Seq(0..1), vals |-> Seq(bytes)]
          done      \* completed row groups: Seq of cur-shaped values
wvars == <<wst, schema, cur, done>>

NCols == Len(schema)
MaxDef(c) == IF schema[c].rep = 1 THEN 1 ELSE 0
EmptyCols(sch) == [c \in 1..Len(sch) |-> [defs |-> <<>>, vals |-> <<>>]]
Rows(col) == Len(col.defs)
Balanced(g) == \A c, d \in 1..Len(g) : Rows(g[c]) = Rows(g[d])
CountOnes(s) == Len(SelectSeq(s, LAMBDA x : x = 1))

WInit == wst = "none" /\ schema = <<>> /\ cur = <<>> /\ done = <<>>

CanCreate(sch) == wst = "none" /\ Len(sch) >= 1
Create(sch) == /\ CanCreate(sch)
               /\ wst' = "open" /\ schema' = sch /\ cur' = EmptyCols(sch) /\ done' = <<>>

\* rows: defs (one per row; for REQUIRED columns and for OPTIONAL columns written without
\* definition levels every row is present) and the dense values.
\* API contract (carquet.h): nrows >= 1, number of values = number of present rows,
\* withDefs = FALSE only if every row is present.
RowDefs(c, nrows, withDefs, defs) == IF withDefs /\ MaxDef(c) = 1 THEN defs ELSE [i \in 1..nrows |-> MaxDef(c)]
Present(c, d) == d = MaxDef(c)
CanWriteBatch(c, nrows, withDefs, defs, vals) ==
    /\ wst = "open" /\ c \in 1..NCols /\ nrows >= 1
    /\ (withDefs => Len(defs) = nrows)
    /\ Len(vals) = Len(SelectSeq(RowDefs(c, nrows, withDefs, defs), LAMBDA d : Present(c, d)))
WriteBatch(c, nrows, withDefs, defs, vals) ==
    /\ CanWriteBatch(c, nrows, withDefs, defs, vals)
    /\ cur' = [cur EXCEPT ![c] = [defs |-> @.defs \o RowDefs(c, nrows, withDefs, defs), vals |-> @.vals \o vals]]
    /\ UNCHANGED <<wst, schema, done>>

CanNewRowGroup == wst = "open" /\ Balanced(cur)
Flushed == IF Rows(cur[1]) = 0 THEN done ELSE Append(done, cur)
NewRowGroup == /\ CanNewRowGroup
               /\ done' = Flushed /\ cur' = EmptyCols(schema) /\ UNCHANGED <<wst, schema>>

CanClose == wst = "open" /\ Balanced(cur)
Close == /\ CanClose
         /\ done' = Flushed /\ cur' = EmptyCols(schema) /\ wst' = "closed" /\ UNCHANGED schema

\* a call that reports failure: the writer makes no further promise about the file
Fail == wst = "open" /\ wst' = "failed" /\ UNCHANGED <<schema, cur, done>>
Abort == wst \in {"open", "failed"} /\ wst' = "aborted" /\ UNCHANGED <<schema, cur, done>>

\* The table a closed writer has promised: the non-empty row groups in order.
TableWritten == done
TotalRows == FoldLeft(LAMBDA acc, g : acc + Rows(g[1]), 0, done)

TypeOK == /\ wst \in {"none", "open", "failed", "closed", "aborted"}
          /\ (wst # "none" => Len(cur) = NCols)
\* every completed row group is balanced and non-empty; values match present rows
DoneWellFormed == \A g \in 1..Len(done) :
                     /\ Balanced(done[g]) /\ Rows(done[g][1]) >= 1
                     /\ \A c \in 1..NCols : Len(done[g][c].vals) = Len(SelectSeq(done[g][c].defs, LAMBDA d : Present(c, d)))
=============================================================================
