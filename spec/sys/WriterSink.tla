----------------------------- MODULE WriterSink -----------------------------
(* Writer.tla composed with Sink.tla (C18): what the writer's calls do to the output       *)
(* stream and what they may report.  The abstract writer (wst, cur, done) advances only    *)
(* on calls that report success; a call that reports failure moves it to "failed" (no      *)
(* further promise about the file).  The implementation-shaped part `impl` models          *)
(* carquet's file_writer.c: the leading magic is written lazily by the first call, a row   *)
(* group is written by new_row_group / close, close writes footer, length and magic,       *)
(* flushes, and closes the stream if the writer opened it itself (path writers).           *)
(*                                                                                         *)
(* The constants select the design variant, so that TLC shows which designs satisfy the    *)
(* property and which do not:                                                              *)
(*   CheckWrite  the result of every fwrite is checked   (carquet: yes)                    *)
(*   CheckFlush  close checks the result of fflush       (carquet before the fix: no)      *)
(*   CheckClose  close checks the result of fclose       (carquet before the fix: no)      *)
(*   LatchError  close also reports an error the stream recorded earlier (ferror)          *)
(*   RemoveOnAbort  abort removes the file of a path writer                                *)
(*                                                                                         *)
(* The three statements of the property are the operators WSAckComplete, WSFailReported    *)
(* and WSAbortClean; SinkTrace.tla applies the *same* operators to recorded executions.    *)
EXTENDS Writer, Sink
CONSTANTS CheckWrite, CheckFlush, CheckClose, LatchError, RemoveOnAbort
VARIABLE impl
\* impl: [hdr, rg, nrg, owned, exists, handle, anyErr, closeRet]
\*   hdr      leading magic already written          rg   rows buffered for the current row group
\*   nrg      row groups written                     owned  the writer opened the stream (path writer)
\*   exists   the path names a file                  handle the writer handle is live
\*   anyErr   some call returned a non-OK status     closeRet  "none" | "ok" | "err"
wsvars == <<wst, schema, cur, done, sink, impl>>

\* ---- the property, as predicates over observable facts (shared with SinkTrace)
\* OK from close implies all bytes reached the sink
WSAckComplete(closeOk, allReached) == closeOk => allReached
\* the sink failed => some call, at the latest close, returned non-OK
WSFailReported(sinkFailed, anyErr) == sinkFailed => anyErr
\* abort: no handle, and no file behind for path writers
WSAbortClean(owned, handle, exists) == ~handle /\ (owned => ~exists)

\* ---- abstract sizes of the pieces of a file (model checking only; any positive numbers do)
WSHdrLen == 2
WSRgLen(rows) == rows
WSFooterLen(nrg) == 1 + nrg
WSTailLen == 1                        \* footer length field, and again the trailing magic
WSFileLen(groups) == WSHdrLen + FoldLeft(LAMBDA a, g : a + WSRgLen(Rows(g[1])), 0, groups)
                     + WSFooterLen(Len(groups)) + 2 * WSTailLen

WSIdle == [hdr |-> FALSE, rg |-> 0, nrg |-> 0, owned |-> FALSE, exists |-> FALSE, handle |-> FALSE,
           anyErr |-> FALSE, closeRet |-> "none"]
WSInit == WInit /\ sink = SkIdle /\ impl = WSIdle

\* write the pieces `lens` one after the other; stop at the first reported failure if results are checked
RECURSIVE WSEmit(_, _)
WSEmit(S, lens) ==          \* S: set of [s |-> sink, ok |-> BOOLEAN]
    IF lens = <<>> THEN S
    ELSE WSEmit(UNION { IF ~x.ok THEN {x}
                        ELSE { [s |-> o, ok |-> (o.last \/ ~CheckWrite)] : o \in SWriteR(x.s, Head(lens)) }
                        : x \in S }, Tail(lens))
WSStart(s) == {[s |-> s, ok |-> TRUE]}
WSHdrPiece == IF impl.hdr THEN <<>> ELSE <<WSHdrLen>>
WSRgPiece == IF impl.rg > 0 THEN <<WSRgLen(impl.rg)>> ELSE <<>>

\* effect of a call's status on the abstract writer
WSAbs(ok, A) == IF wst = "open" THEN (IF ok THEN A ELSE Fail) ELSE UNCHANGED wvars

WSSchema == << [name |-> <<97>>, type |-> 1, rep |-> 0, tlen |-> 0] >>
WSRowsVals(n) == [i \in 1..n |-> <<i, 0, 0, 0>>]

WSCreate(owned, cap, arm) ==
    /\ Create(WSSchema)
    /\ sink' = SkNew(cap, arm)
    /\ impl' = [WSIdle EXCEPT !.owned = owned, !.exists = owned, !.handle = TRUE]

WSWriteBatch(n) ==
    /\ impl.handle
    /\ \E r \in WSEmit(WSStart(sink), WSHdrPiece) :
          /\ sink' = r.s
          /\ impl' = [impl EXCEPT !.hdr = @ \/ r.ok, !.rg = IF r.ok THEN @ + n ELSE @, !.anyErr = @ \/ ~r.ok]
          /\ WSAbs(r.ok, WriteBatch(1, n, FALSE, <<>>, WSRowsVals(n)))

WSNewRowGroup ==
    /\ impl.handle
    /\ \E r \in WSEmit(WSStart(sink), WSHdrPiece \o WSRgPiece) :
          /\ sink' = r.s
          /\ impl' = [impl EXCEPT !.hdr = TRUE, !.rg = IF r.ok THEN 0 ELSE @,
                                  !.nrg = IF r.ok /\ impl.rg > 0 THEN @ + 1 ELSE @, !.anyErr = @ \/ ~r.ok]
          /\ WSAbs(r.ok, NewRowGroup)

WSClose ==
    /\ impl.handle
    /\ LET nrg2 == impl.nrg + (IF impl.rg > 0 THEN 1 ELSE 0)
       IN \E r \in WSEmit(WSStart(sink), WSHdrPiece \o WSRgPiece \o <<WSFooterLen(nrg2), WSTailLen, WSTailLen>>) :
          \E f \in (IF r.ok THEN SFlushR(r.s) ELSE {r.s}) :             \* fflush only on the success path
          \E c \in (IF impl.owned THEN SCloseR(f) ELSE {f}) :           \* fclose only for owned streams
             LET ok == /\ r.ok
                       /\ (CheckFlush => f.last)
                       /\ (LatchError => ~f.failed)
                       /\ (CheckClose /\ impl.owned => c.last)
             IN /\ sink' = c
                /\ impl' = [impl EXCEPT !.handle = FALSE, !.anyErr = @ \/ ~ok,
                                        !.closeRet = IF ok THEN "ok" ELSE "err"]
                /\ WSAbs(ok, Close)

WSAbort ==
    /\ impl.handle
    /\ Abort
    /\ \E c \in (IF impl.owned THEN SCloseR(sink) ELSE {sink}) : sink' = c
    /\ impl' = [impl EXCEPT !.handle = FALSE, !.exists = IF impl.owned /\ RemoveOnAbort THEN FALSE ELSE @]

\* ---- invariants = the property on the model state
WSInvAck == WSAckComplete(impl.closeRet = "ok", SkEverything(sink))
            /\ (impl.closeRet = "ok" /\ wst = "closed" => sink.pos = WSFileLen(done))
WSInvReported == impl.closeRet # "none" => WSFailReported(sink.failed, impl.anyErr)
WSInvAbort == wst = "aborted" => WSAbortClean(impl.owned, impl.handle, impl.exists)
\* OK from every call => the abstract writer is closed (statuses are consistent with Writer.tla)
WSInvStatus == (impl.closeRet = "ok" /\ ~impl.anyErr) => wst = "closed"
=============================================================================
