------------------------------- MODULE Stats -------------------------------
(* Column statistics and predicate pruning (C16).                                          *)
(*                                                                                         *)
(* Values are PLAIN byte strings (DESIGN.md C.1).  Per physical type the module defines    *)
(* the admissible (pre)orders, what it means for (min, max) to bound a collection of       *)
(* values, when a comparison predicate holds for a value, and the pruning rule `Might`.    *)
(* Nothing here knows carquet.                                                             *)
(*                                                                                         *)
(* Types: 0 BOOLEAN, 1 INT32, 2 INT64, 3 INT96, 4 FLOAT, 5 DOUBLE, 6 BYTE_ARRAY,           *)
(*        7 FIXED_LEN_BYTE_ARRAY.                                                          *)
(* Orders (Orders(t)): the property says "in the type's order"; where the Parquet format   *)
(* leaves the order open every candidate is admissible and a verdict is only taken when    *)
(* it is the same under all of them (DESIGN.md section 5):                                 *)
(*   floats: "ieee"     IEEE comparison, -0 = +0, NaNs are exempt from bounds and compare  *)
(*                      false with everything (so only != holds for them);                 *)
(*           "nanlast"  the IEEE order on non-NaNs, all NaNs equivalent and above +inf;    *)
(*           "nanfirst" ... and below -inf.                                                *)
(*   INT96 (format: order undefined): "lex" bytes, "leu" / "les" 96-bit little-endian      *)
(*           unsigned / signed integer (the latter is also (julian day, nanos) order).     *)
(*   all other types: "std" (signed two's complement; unsigned lexicographic bytes).       *)
EXTENDS Naturals, Sequences, SequencesExt, FiniteSets, W

OPS == {"EQ", "NE", "LT", "LE", "GT", "GE"}
IsFloat(t) == t \in {4, 5}
Orders(t) == IF IsFloat(t) THEN {"ieee", "nanlast", "nanfirst"}
             ELSE IF t = 3 THEN {"lex", "leu", "les"} ELSE {"std"}
\* the order a reference writer uses when it computes statistics
Canon(t) == IF IsFloat(t) THEN "ieee" ELSE IF t = 3 THEN "leu" ELSE "std"

\* ---- byte strings: unsigned lexicographic, a proper prefix is smaller
LexLess(a, b) ==
    LET n == IF Len(a) < Len(b) THEN Len(a) ELSE Len(b)
        RECURSIVE go(_)
        go(i) == IF i > n THEN Len(a) < Len(b)
                 ELSE IF a[i] < b[i] THEN TRUE
                 ELSE IF a[i] > b[i] THEN FALSE
                 ELSE go(i + 1)
    IN go(1)

\* ---- IEEE-754 binary32 / binary64 on little-endian bit patterns
FNeg(a) == a[Len(a)] >= 128
FAbs(a) == [a EXCEPT ![Len(a)] = @ % 128]
FIsZero(a) == \A i \in 1..Len(a) : FAbs(a)[i] = 0
FIsNaN(a) == IF Len(a) = 4
             THEN /\ a[4] % 128 = 127 /\ a[3] >= 128
                  /\ (a[3] % 128 # 0 \/ a[2] # 0 \/ a[1] # 0)
             ELSE /\ a[8] % 128 = 127 /\ a[7] >= 240
                  /\ (a[7] % 16 # 0 \/ \E i \in 1..6 : a[i] # 0)
\* strict IEEE `<` on two non-NaN patterns
FLess(a, b) == IF FIsZero(a) /\ FIsZero(b) THEN FALSE
               ELSE IF FNeg(a) # FNeg(b) THEN FNeg(a)
               ELSE IF FNeg(a) THEN Less(FAbs(b), FAbs(a)) ELSE Less(FAbs(a), FAbs(b))

IsNaN(t, v) == IsFloat(t) /\ FIsNaN(v)

\* ---- a <= b in order o of type t (a preorder; "ieee" is partial: false when a NaN is involved)
Leq(t, o, a, b) ==
    CASE t = 0 -> a[1] <= b[1]
      [] t \in {1, 2} -> ~SLess(b, a)
      [] t = 3 -> (CASE o = "lex" -> ~LexLess(b, a) [] o = "leu" -> ~Less(b, a) [] OTHER -> ~SLess(b, a))
      [] t \in {4, 5} ->
            LET na == FIsNaN(a)
                nb == FIsNaN(b)
            IN IF ~na /\ ~nb THEN ~FLess(b, a)
               ELSE CASE o = "ieee" -> FALSE
                      [] o = "nanlast" -> nb
                      [] OTHER -> na
      [] OTHER -> ~LexLess(b, a)
Lss(t, o, a, b) == Leq(t, o, a, b) /\ ~Leq(t, o, b, a)
Eqv(t, o, a, b) == Leq(t, o, a, b) /\ Leq(t, o, b, a)

\* ---- predicate `v op probe`
Holds(t, o, op, v, p) ==
    CASE op = "EQ" -> Eqv(t, o, v, p)
      [] op = "NE" -> ~Eqv(t, o, v, p)
      [] op = "LT" -> Lss(t, o, v, p)
      [] op = "LE" -> Leq(t, o, v, p)
      [] op = "GT" -> Lss(t, o, p, v)
      [] op = "GE" -> Leq(t, o, p, v)
\* ground truth for a collection of stored non-null values (a sequence)
AnyHolds(t, o, op, data, p) == \E i \in 1..Len(data) : Holds(t, o, op, data[i], p)

\* ---- statistics.  st == [hasMin, min, hasMax, max]; an absent side claims nothing.
Exempt(t, o, v) == o = "ieee" /\ IsNaN(t, v)
LowerOk(t, o, st, v) == Exempt(t, o, v) \/ ~st.hasMin \/ Leq(t, o, st.min, v)
UpperOk(t, o, st, v) == Exempt(t, o, v) \/ ~st.hasMax \/ Leq(t, o, v, st.max)
IsLower(t, o, st, data) == \A i \in 1..Len(data) : LowerOk(t, o, st, data[i])
IsUpper(t, o, st, data) == \A i \in 1..Len(data) : UpperOk(t, o, st, data[i])
IsBound(t, o, st, data) == IsLower(t, o, st, data) /\ IsUpper(t, o, st, data)
\* the admissible-order rule: a claim is refuted only if it is wrong under every order
LowerRefuted(t, st, data) == \A o \in Orders(t) : ~IsLower(t, o, st, data)
UpperRefuted(t, st, data) == \A o \in Orders(t) : ~IsUpper(t, o, st, data)

NoMinMax == [hasMin |-> FALSE, min |-> <<>>, hasMax |-> FALSE, max |-> <<>>]
\* tightest statistics of a sequence of values in order o
MinMax(t, o, data) ==
    LET cand == SelectSeq(data, LAMBDA v : ~Exempt(t, o, v))
    IN IF cand = <<>> THEN NoMinMax
       ELSE [hasMin |-> TRUE, min |-> FoldLeft(LAMBDA m, v : IF Lss(t, o, v, m) THEN v ELSE m, cand[1], cand),
             hasMax |-> TRUE, max |-> FoldLeft(LAMBDA m, v : IF Lss(t, o, m, v) THEN v ELSE m, cand[1], cand)]

\* ---- the pruning rule: may a collection bounded by st contain a value with `v op probe`?
\* Absent statistics never prune.  Under "ieee" NaNs are exempt from the bounds, so a group
\* with min = max = probe may still hold a NaN, for which != holds: != never prunes there.
Might(t, o, op, st, p) ==
    IF ~st.hasMin \/ ~st.hasMax THEN TRUE
    ELSE CASE op = "EQ" -> Leq(t, o, st.min, p) /\ Leq(t, o, p, st.max)
           [] op = "NE" -> (IsFloat(t) /\ o = "ieee") \/ ~(Eqv(t, o, st.min, p) /\ Eqv(t, o, st.max, p))
           [] op = "LT" -> Lss(t, o, st.min, p)
           [] op = "LE" -> Leq(t, o, st.min, p)
           [] op = "GT" -> Lss(t, o, p, st.max)
           [] op = "GE" -> Leq(t, o, p, st.max)

\* what a row-group filter must return: ascending indices (0-based) of the groups that are
\* not pruned, at most cap of them.  mights: Seq(BOOLEAN)
Filter(mights, cap) ==
    LET all == SelectSeq([i \in 1..Len(mights) |-> i - 1], LAMBDA g : mights[g + 1])
    IN SubSeq(all, 1, IF Len(all) < cap THEN Len(all) ELSE cap)

\* ---- value ranges (helpers): does [q] meet [s]?  a range is a statistics-shaped record
InRange(t, o, r, v) == (~r.hasMin \/ Leq(t, o, r.min, v)) /\ (~r.hasMax \/ Leq(t, o, v, r.max))
\* in a total preorder two non-empty intervals meet iff one of the four end points lies in both
EndPoints(r) == (IF r.hasMin THEN {r.min} ELSE {}) \cup (IF r.hasMax THEN {r.max} ELSE {})
Overlaps(t, o, s, q) ==
    \/ EndPoints(s) \cup EndPoints(q) = {}
    \/ \E v \in EndPoints(s) \cup EndPoints(q) : InRange(t, o, s, v) /\ InRange(t, o, q, v)

\* ---- theorems (model-checked on small domains by MC_Stats; the integer case by StatsInt/Apalache)
\* soundness for one stored value; the statement for collections follows because AnyHolds is
\* an existential and IsBound a universal over the collection
SoundV(t, o, op, st, v, p) ==
    (Holds(t, o, op, v, p) /\ LowerOk(t, o, st, v) /\ UpperOk(t, o, st, v)) => Might(t, o, op, st, p)
Sound(t, o, op, st, data, p) ==
    (AnyHolds(t, o, op, data, p) /\ IsBound(t, o, st, data)) => Might(t, o, op, st, p)
=============================================================================
