----------------------------- MODULE HybridEnc -----------------------------
(* The RLE / bit-packed hybrid *encoder* as carquet has it (src/encoding/rle.c):             *)
(* a pending run (prev, rep) and a pending literal group (lit, fewer than 8 values), and the  *)
(* list of runs already written (out). One action per API call: Put(v), Flush.               *)
(*                                                                                          *)
(* Policy when a run ends (value changes, or Flush):                                         *)
(*   rep < 8  : the run's values go to the literal group; a full group of 8 is written as    *)
(*              a one-group bit-packed run.                                                   *)
(*   rep >= 8 : Variant "pad"  - the literal group, if not empty, is padded with zeros to 8   *)
(*                               values and written, then the run is written as an RLE run    *)
(*                               (rle.c: flush_bitpack(); flush_rle(); as found in the tree). *)
(*              Variant "fill" - values of the run are first moved into the literal group     *)
(*                               until it holds 8 and is written; the remainder is an RLE run *)
(*                               if still >= 8, otherwise it becomes the new literal group.   *)
(* Flush ends the pending run and writes a last partial group padded with zeros.              *)
(*                                                                                          *)
(* Correctness = refinement of the format: for every reachable state, the stream that Flush   *)
(* would produce parses back (Hybrid.Parse) to exactly the values consumed so far.            *)
EXTENDS Naturals, Sequences, SequencesExt, Hybrid

Rle(n, v) == [k |-> "rle", n |-> n, v |-> v]
Bp(vals) == [k |-> "bp", vals |-> vals]
PadGroup(l) == l \o [i \in 1..(8 - Len(l)) |-> 0]

EncInit == [hp |-> FALSE, prev |-> 0, rep |-> 0, lit |-> <<>>, out |-> <<>>]

\* append fewer than 8 values to the literal group (which holds fewer than 8)
AddLits(st, vs) ==
    LET all == st.lit \o vs
    IN IF Len(all) >= 8
       THEN [st EXCEPT !.out = Append(@, Bp(SubSeq(all, 1, 8))), !.lit = SubSeq(all, 9, Len(all)), !.rep = 0]
       ELSE [st EXCEPT !.lit = all, !.rep = 0]

\* the pending run (prev, rep >= 1) ends
EndRun(st, variant) ==
    IF st.rep < 8 THEN AddLits(st, [i \in 1..st.rep |-> st.prev])
    ELSE IF st.lit = <<>> THEN [st EXCEPT !.out = Append(@, Rle(st.rep, st.prev)), !.rep = 0]
    ELSE IF variant = "pad"
    THEN [st EXCEPT !.out = @ \o <<Bp(PadGroup(st.lit)), Rle(st.rep, st.prev)>>, !.lit = <<>>, !.rep = 0]
    ELSE LET need == 8 - Len(st.lit)
             rest == st.rep - need
             o1 == Append(st.out, Bp(st.lit \o [i \in 1..need |-> st.prev]))
         IN IF rest >= 8 THEN [st EXCEPT !.out = Append(o1, Rle(rest, st.prev)), !.lit = <<>>, !.rep = 0]
            ELSE [st EXCEPT !.out = o1, !.lit = [i \in 1..rest |-> st.prev], !.rep = 0]

PutStep(st, v, variant) ==
    IF ~st.hp THEN [st EXCEPT !.hp = TRUE, !.prev = v, !.rep = 1]
    ELSE IF v = st.prev THEN [st EXCEPT !.rep = @ + 1]
    ELSE [EndRun(st, variant) EXCEPT !.prev = v, !.rep = 1]

\* the run list after Flush
FlushRuns(st, variant) ==
    LET s2 == IF st.rep > 0 THEN EndRun(st, variant) ELSE st
    IN IF s2.lit # <<>> THEN Append(s2.out, Bp(PadGroup(s2.lit))) ELSE s2.out

\* one-shot encoder (carquet_rle_encode_all): Put every value, then Flush
EncodeRuns(vals, variant) == FlushRuns(FoldLeft(LAMBDA st, v : PutStep(st, v, variant), EncInit, vals), variant)

\* refinement map: what the state stands for, and whether the bytes Flush would write say so
Pending(st) == st.lit \o [i \in 1..st.rep |-> st.prev]
Refines(st, consumed, bw, variant) ==
    LET runs == FlushRuns(st, variant)
        bs == Ser(runs, bw)
        r == Parse(bs, 1, Len(bs), bw, Len(consumed))
    IN /\ r.ok /\ r.vals = consumed
       /\ (consumed # <<>> => r.p = Len(bs) + 1)
\* the stronger state invariant behind it: nothing but the consumed values is in flight or written
Exact(st, consumed) == Expand(st.out) \o Pending(st) = consumed
=============================================================================
