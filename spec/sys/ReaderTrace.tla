----------------------------- MODULE ReaderTrace -----------------------------
(* Trace validation of the reader side (C02, C03): column reader call histories and batch   *)
(* reader output, recorded from the real library on fixture files whose logical content is  *)
(* known from the TLA+ reference writer ("Fixture" event). Deterministic checker with named *)
(* verdicts; executions separated by Reset.                                                 *)
EXTENDS ColumnReader, Bytes, TLC, Json, IOUtils, FiniteSets
VARIABLES l, skip, bad, stats, fix, br
Tr == ndJsonDeserialize(IOEnv.TRACE)
Ev == Tr[l]
rtvars == <<content, maxDef, pos, live, l, skip, bad, stats, fix, br>>

\* ---- batch reader model: rows of the projected flat columns, concatenated over row groups
ColConcat(c) == [defs |-> Flatten([g \in 1..Len(fix.rgs) |-> fix.rgs[g][c].defs]),
                 vals |-> Flatten([g \in 1..Len(fix.rgs) |-> fix.rgs[g][c].vals])]
TotalRows == FoldLeft(LAMBDA acc, g : acc + Len(SelectSeq(g[1].reps, LAMBDA r : r = 0)), 0, fix.rgs)
NonNullIn(defs, md, a, b) == Len(SelectSeq(SubSeq(defs, a, b), LAMBDA d : d = md))

\* one batch column against the model at row position p, rows n: returns set of failed names
BatchColVerdict(bc, fileCol, p, n) ==
    LET md == fix.leaves[fileCol].maxDef
        cc == ColConcat(fileCol)
        wantNull == [i \in 1..n |-> IF cc.defs[p + i] = md THEN 0 ELSE 1]
        v0 == NonNullIn(cc.defs, md, 1, p)
        v1 == NonNullIn(cc.defs, md, 1, p + n)
    IN {k \in {"batch:column-rows", "batch:bitmap", "batch:values"} :
          \/ (k = "batch:column-rows" /\ bc.n # n)
          \/ (k = "batch:bitmap" /\ bc.n = n /\ bc.hasBitmap /\ bc.nulls # wantNull /\ bc.nulls # [i \in 1..n |-> 1 - wantNull[i]])
          \/ (k = "batch:bitmap" /\ bc.n = n /\ ~bc.hasBitmap /\ \E i \in 1..n : wantNull[i] = 1)
          \/ (k = "batch:values" /\ bc.n = n /\ bc.vals # SubSeq(cc.vals, v0 + 1, v1))}
\* polarity actually used by a batch column (0 = unknown/no mixed rows, 1 = bit set means null, 2 = inverse)
Polarity(bc, fileCol, p, n) ==
    LET md == fix.leaves[fileCol].maxDef
        cc == ColConcat(fileCol)
        wantNull == [i \in 1..n |-> IF cc.defs[p + i] = md THEN 0 ELSE 1]
    IN IF ~bc.hasBitmap \/ bc.n # n \/ n = 0 \/ (\A i \in 1..n : wantNull[i] = wantNull[1]) THEN 0
       ELSE IF bc.nulls = wantNull THEN 1 ELSE 2

Verdict ==
    CASE Ev.e = "Fixture" -> {}
      [] Ev.e = "Meta" ->
            {k \in {"meta:rows", "meta:row-groups", "meta:leaves"} :
                    \/ (k = "meta:rows" /\ Ev.rows # TotalRows)
                    \/ (k = "meta:row-groups" /\ Ev.rgs # [g \in 1..Len(fix.rgs) |-> Len(SelectSeq(fix.rgs[g][1].reps, LAMBDA r : r = 0))])
                    \/ (k = "meta:leaves" /\ (Len(Ev.leaves) # Len(fix.leaves) \/ \E c \in 1..Len(fix.leaves) :
                            c <= Len(Ev.leaves) /\ (Ev.leaves[c].type # fix.leaves[c].type \/ Ev.leaves[c].maxDef # fix.leaves[c].maxDef
                                                      \/ Ev.leaves[c].maxRep # fix.leaves[c].maxRep
                                                      \/ Ev.leaves[c].path[1] # fix.leaves[c].path[Len(fix.leaves[c].path)])))}
      [] Ev.e = "GetColumn" ->
            IF ~Ev.ok THEN {"get-column-failed"}
            ELSE IF Ev.maxDef # fix.leaves[Ev.c + 1].maxDef \/ Ev.maxRep # fix.leaves[Ev.c + 1].maxRep THEN {"column-levels"} ELSE {}
      [] Ev.e = "Read" ->
            IF Ev.n < 0 THEN {"read:error-on-valid-file"}
            ELSE IF ~CanRead(Ev.k, Ev.n) THEN
                 (IF Ev.n > Min3(Ev.k, Remaining) THEN {"read:more-than-requested-or-remaining"} ELSE {"read:no-progress"})
            ELSE {k \in {"read:defs", "read:reps", "read:values", "read:remaining", "read:has-next", "read:stale-bytes"} :
                    \/ (k = "read:defs" /\ Ev.levels /\ Ev.defs # ExpDefs(Ev.n))
                    \/ (k = "read:reps" /\ Ev.levels /\ Ev.reps # ExpReps(Ev.n))
                    \/ (k = "read:values" /\ (Ev.levels \/ maxDef = 0) /\ Ev.vals # ExpVals(Ev.n))
                    \/ (k = "read:remaining" /\ Ev.rem # Remaining - Ev.n)
                    \/ (k = "read:has-next" /\ Ev.has # (Remaining - Ev.n > 0))
                    \/ (k = "read:stale-bytes" /\ Ev.stale)}
      [] Ev.e = "Skip" ->
            IF ~CanSkip(IF Ev.k < 0 THEN 0 ELSE Ev.k, Ev.n) THEN {"skip:not-exact"}
            ELSE {k \in {"skip:remaining", "skip:has-next"} :
                    \/ (k = "skip:remaining" /\ Ev.rem # Remaining - Ev.n)
                    \/ (k = "skip:has-next" /\ Ev.has # (Remaining - Ev.n > 0))}
      [] Ev.e = "Query" ->
            {k \in {"query:remaining", "query:has-next"} :
                    \/ (k = "query:remaining" /\ Ev.rem # Remaining)
                    \/ (k = "query:has-next" /\ Ev.has # (Remaining > 0))}
      [] Ev.e = "BatchCreate" -> IF Ev.ok THEN {} ELSE {"batch:create-failed"}
      [] Ev.e = "Batch" ->
            IF Ev.rows > Ev.bs \/ br.pos + Ev.rows > TotalRows THEN {"batch:too-many-rows"}
            ELSE IF Len(Ev.cols) # Len(br.proj) THEN {"batch:column-count"}
            ELSE LET vs == UNION {BatchColVerdict(Ev.cols[j], br.proj[j] + 1, br.pos, Ev.rows) : j \in 1..Len(br.proj)}
                     pols == {Polarity(Ev.cols[j], br.proj[j] + 1, br.pos, Ev.rows) : j \in 1..Len(br.proj)} \ {0}
                 IN vs \cup (IF Cardinality(pols \cup (IF br.pol = 0 THEN {} ELSE {br.pol})) > 1 THEN {"batch:bitmap-polarity-varies"} ELSE {})
      [] Ev.e = "BatchEnd" ->
            {k \in {"batch:error-status", "batch:rows-missing"} :
                    \/ (k = "batch:error-status" /\ Ev.st # 63)
                    \/ (k = "batch:rows-missing" /\ Ev.st = 63 /\ br.pos # TotalRows)}
      [] Ev.e = "KeptBatches" -> IF Ev.changed > 0 THEN {"batch:data-invalidated-before-close"} ELSE {}
      [] Ev.e = "Fault" -> {"fault:" \o Ev.kind}
      [] OTHER -> {"unknown-event"}

Apply ==
    CASE Ev.e = "Fixture" -> fix' = [leaves |-> Ev.leaves, rgs |-> Ev.rgs] /\ UNCHANGED <<content, maxDef, pos, live, br>>
      [] Ev.e = "GetColumn" -> Open(fix.rgs[Ev.g + 1][Ev.c + 1], fix.leaves[Ev.c + 1].maxDef) /\ UNCHANGED <<fix, br>>
      [] Ev.e = "Read" -> Read(Ev.k, Ev.n) /\ UNCHANGED <<fix, br>>
      [] Ev.e = "Skip" -> Skip(IF Ev.k < 0 THEN 0 ELSE Ev.k, Ev.n) /\ UNCHANGED <<fix, br>>
      [] Ev.e = "BatchCreate" -> br' = [proj |-> Ev.proj, pos |-> 0, pol |-> 0] /\ UNCHANGED <<content, maxDef, pos, live, fix>>
      [] Ev.e = "Batch" ->
            LET pols == {Polarity(Ev.cols[j], br.proj[j] + 1, br.pos, Ev.rows) : j \in 1..Len(br.proj)} \ {0}
            IN br' = [br EXCEPT !.pos = @ + Ev.rows, !.pol = IF @ # 0 \/ pols = {} THEN @ ELSE CHOOSE x \in pols : TRUE]
               /\ UNCHANGED <<content, maxDef, pos, live, fix>>
      [] OTHER -> UNCHANGED <<content, maxDef, pos, live, fix, br>>

TInit == CRInit /\ l = 1 /\ skip = FALSE /\ bad = <<>> /\ fix = [leaves |-> <<>>, rgs |-> <<>>]
         /\ br = [proj |-> <<>>, pos |-> 0, pol |-> 0]
         /\ stats = [execs |-> 0, events |-> 0, failed |-> 0]
TReset == /\ l <= Len(Tr) /\ Ev.e = "Reset" /\ l' = l + 1 /\ skip' = FALSE
          /\ content' = [defs |-> <<>>, reps |-> <<>>, vals |-> <<>>] /\ maxDef' = 0 /\ pos' = 0 /\ live' = FALSE
          /\ br' = [proj |-> <<>>, pos |-> 0, pol |-> 0] /\ UNCHANGED <<bad, fix>>
          /\ stats' = [stats EXCEPT !.execs = @ + 1]
TSkip == l <= Len(Tr) /\ Ev.e # "Reset" /\ skip /\ l' = l + 1 /\ UNCHANGED <<content, maxDef, pos, live, skip, bad, stats, fix, br>>
TStep == /\ l <= Len(Tr) /\ Ev.e # "Reset" /\ ~skip /\ l' = l + 1
         /\ LET v == Verdict
            IN IF v = {} THEN Apply /\ UNCHANGED <<skip, bad>> /\ stats' = [stats EXCEPT !.events = @ + 1]
               ELSE /\ bad' = Append(bad, [l |-> l, id |-> Ev.id, e |-> Ev.e, why |-> v, detail |-> ""])
                    /\ skip' = TRUE /\ UNCHANGED <<content, maxDef, pos, live, stats, fix, br>>
TNext == TReset \/ TSkip \/ TStep
Report == l = Len(Tr) + 1 => PrintT(ToJson([verdicts |-> bad, stats |-> stats, lines |-> Len(Tr)]))
TInv == Inv
=============================================================================
