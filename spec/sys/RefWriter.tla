----------------------------- MODULE RefWriter -----------------------------
(* Builders on top of ParquetWrite: from a table (schema + per-leaf content) and layout    *)
(* choices to a file description.  Used to generate fixture files that carquet's writer    *)
(* never produces (C02, C03, C04, C06, C16, C17).                                          *)
EXTENDS ParquetWrite

\* schema element constructors
Leaf(name, type, rep, tlen) == [name |-> name, hasType |-> TRUE, type |-> type, tlen |-> tlen, hasRep |-> TRUE, rep |-> rep, nchild |-> 0, conv |-> 255]
Group(name, rep, nchild) == [name |-> name, hasType |-> FALSE, type |-> 0, tlen |-> 0, hasRep |-> TRUE, rep |-> rep, nchild |-> nchild, conv |-> 255]
Root(nchild) == [name |-> <<115, 99, 104, 101, 109, 97>>, hasType |-> FALSE, type |-> 0, tlen |-> 0, hasRep |-> FALSE, rep |-> 0, nchild |-> nchild, conv |-> 255]

\* number of dense values among levels defs[a..b]
NonNull(defs, a, b, maxDef) == Len(SelectSeq(SubSeq(defs, a, b), LAMBDA d : d = maxDef))

IndexIn(dict, v) == (CHOOSE i \in 1..Len(dict) : dict[i] = v) - 1
Dedup(vals) == FoldLeft(LAMBDA acc, v : IF \E i \in 1..Len(acc) : acc[i] = v THEN acc ELSE Append(acc, v), <<>>, vals)
IdxWidth(n) == IF n <= 1 THEN 1 ELSE WidthOf(n - 1)

\* content: [defs, reps, vals]; cuts: increasing sequence of row positions (in level entries) ending at Len(defs)
\* opt: [style, idxStyle, useDict, dictOffsetField, dictEnc, dataEnc, crc, codec, stats]
MkChunk(leaf, content, cuts, opt) ==
    LET dict == IF opt.useDict /\ content.vals # <<>> THEN Dedup(content.vals) ELSE <<>>
        \* an all-null chunk gets an empty dictionary page (and dictionary-encoded pages of zero indices) only on request
        emptyD == opt.useDict /\ content.vals = <<>> /\ "emptyDict" \in DOMAIN opt /\ opt.emptyDict
        \* index width: the minimal width of the largest index (a dictionary of one entry has width 0 with minW0, as
        \* minimal-width writers emit; width 1 otherwise), optionally wider than needed
        bw == (IF Len(dict) <= 1 /\ "minW0" \in DOMAIN opt /\ opt.minW0 THEN 0 ELSE IdxWidth(Len(dict))) + opt.extraWidth
        page(k) ==
            LET a == IF k = 1 THEN 1 ELSE cuts[k - 1] + 1
                b == cuts[k]
                defs == SubSeq(content.defs, a, b)
                reps == SubSeq(content.reps, a, b)
                v0 == NonNull(content.defs, 1, a - 1, leaf.maxDef)
                nn == NonNull(content.defs, a, b, leaf.maxDef)
                vals == SubSeq(content.vals, v0 + 1, v0 + nn)
                \* which pages are dictionary-encoded: all of them, only the first (the usual fall-back to PLAIN when a
                \* dictionary grows too large), or all but the first (legal, unusual)
                mix == IF "mixEnc" \in DOMAIN opt THEN opt.mixEnc ELSE "all"
                useD == (dict # <<>> \/ emptyD) /\ (mix = "all" \/ (mix = "fallback" /\ k = 1) \/ (mix = "reverse" /\ k > 1))
                idx == IF useD /\ dict # <<>> THEN [i \in 1..nn |-> IndexIn(dict, vals[i])] ELSE <<>>
            IN [n |-> b - a + 1, nn |-> nn,
                defRuns |-> RunStyle(defs, opt.style, leaf.maxDef), repRuns |-> RunStyle(reps, opt.style, leaf.maxRep),
                enc |-> IF useD THEN opt.dataEnc ELSE 0, vals |-> vals,
                encTag |-> IF opt.encTag # 255 THEN opt.encTag ELSE IF useD THEN opt.dataEnc ELSE 0,
                v2 |-> opt.v2, nrows |-> Len(SelectSeq(reps, LAMBDA r : r = 0)),
                bw |-> bw, idxRuns |-> RunStyle(idx, opt.idxStyle, 0),
                crc |-> opt.crc, stats |-> NoStatsW, hmut |-> IF opt.hmutPage = k THEN opt.hmut ELSE [kind |-> "none"],
                bmut |-> IF "bmut" \in DOMAIN opt /\ opt.bmutPage = k THEN opt.bmut ELSE [kind |-> "none"]]
    IN [type |-> leaf.type, tlen |-> leaf.tlen, maxDef |-> leaf.maxDef, maxRep |-> leaf.maxRep, path |-> leaf.path,
        codec |-> opt.codec, codecTag |-> IF opt.codecTag # 255 THEN opt.codecTag ELSE opt.codec, dict |-> dict, dictOffsetField |-> opt.dictOffsetField, dictEnc |-> opt.dictEnc,
        pages |-> [k \in 1..Len(cuts) |-> page(k)], stats |-> opt.stats, emptyDict |-> emptyD,
        \* hostile-file hook (C04): hmutPage = 0 addresses the header of the dictionary page
        dhmut |-> IF opt.hmutPage = 0 THEN opt.hmut ELSE [kind |-> "none"],
        \* body hook: bmutPage = 0 addresses the dictionary page, 99 nothing
        dbmut |-> IF "bmut" \in DOMAIN opt /\ opt.bmutPage = 0 THEN opt.bmut ELSE [kind |-> "none"]]

DefaultOpt == [style |-> "rle", idxStyle |-> "rle", useDict |-> FALSE, dictOffsetField |-> TRUE, dictEnc |-> 0, dataEnc |-> 8,
               crc |-> "none", codec |-> 0, stats |-> NoStatsW, extraWidth |-> 0, v2 |-> FALSE, encTag |-> 255, codecTag |-> 255, hmutPage |-> 0, hmut |-> [kind |-> "none"], mixEnc |-> "all", minW0 |-> FALSE, emptyDict |-> FALSE,
               bmutPage |-> 99, bmut |-> [kind |-> "none"]]
=============================================================================
