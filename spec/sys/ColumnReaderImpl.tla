-------------------------- MODULE ColumnReaderImpl --------------------------
(* Implementation-shaped model of carquet's column reader (column_reader.c +               *)
(* page_reader.c carquet_read_next_page): a chunk is a sequence of decoded pages, each with *)
(* per-row definition levels and a *packed* buffer of its non-null values; the reader keeps *)
(* a page cursor (rows read in the page, non-null values read in the page) and copies into  *)
(* the caller's buffers page by page within one read_batch call.                            *)
(*                                                                                         *)
(* Design switch RowOffsets = TRUE reproduces the pinned commit (values addressed by row    *)
(* offset in the page and in the output); FALSE is the repaired design. The verdict is      *)
(* refinement of ColumnReader.tla: every call returns exactly what the abstract reader      *)
(* allows at its position.                                                                  *)
EXTENDS Naturals, Sequences, SequencesExt
CONSTANTS Pages,          \* Seq of [defs |-> Seq(0..1), vals |-> Seq(value)] with Len(vals) = number of 1s
          RowOffsets, Ks
VARIABLES page, rowsRead, nnRead, delivered, last     \* last: result of the last call (ghost)
ivars == <<page, rowsRead, nnRead, delivered, last>>

Ones(s) == Len(SelectSeq(s, LAMBDA d : d = 1))
AllDefs == FoldLeft(LAMBDA acc, p : acc \o p.defs, <<>>, Pages)
AllVals == FoldLeft(LAMBDA acc, p : acc \o p.vals, <<>>, Pages)
Total == Len(AllDefs)

Init == page = 1 /\ rowsRead = 0 /\ nnRead = 0 /\ delivered = 0 /\ last = [k |-> 0, defs |-> <<>>, vals |-> <<>>, pos |-> 0]

\* one step of the loop inside read_batch: take up to `want` rows from the current page
\* st = [page, rowsRead, nnRead, outDefs, outVals (a buffer of `k` slots, 0 = untouched), got]
Garbage == 99
Step(st, k) ==
    IF st.got >= k \/ st.page > Len(Pages) THEN st
    ELSE LET pg == Pages[st.page]
             avail == Len(pg.defs) - st.rowsRead
         IN IF avail = 0 THEN [st EXCEPT !.page = @ + 1, !.rowsRead = 0, !.nnRead = 0]
            ELSE LET n == IF k - st.got < avail THEN k - st.got ELSE avail
                     defs == SubSeq(pg.defs, st.rowsRead + 1, st.rowsRead + n)
                     nn == Ones(defs)
                     \* source offset in the packed page buffer; number of values copied
                     srcOff == IF RowOffsets THEN st.rowsRead ELSE st.nnRead
                     cnt == IF RowOffsets THEN n ELSE nn
                     src(i) == IF srcOff + i <= Len(pg.vals) THEN pg.vals[srcOff + i] ELSE Garbage
                     \* destination offset in the caller's value buffer
                     dstOff == IF RowOffsets THEN st.got ELSE Ones(st.outDefs)
                     out2 == [j \in 1..k |-> IF j > dstOff /\ j <= dstOff + cnt THEN src(j - dstOff) ELSE st.outVals[j]]
                 IN [st EXCEPT !.rowsRead = @ + n, !.nnRead = @ + nn, !.outDefs = @ \o defs, !.outVals = out2, !.got = @ + n]

RECURSIVE Loop(_, _, _)
Loop(st, k, fuel) == IF fuel = 0 THEN st ELSE Loop(Step(st, k), k, fuel - 1)

ReadBatch(k) ==
    LET st0 == [page |-> page, rowsRead |-> rowsRead, nnRead |-> nnRead, outDefs |-> <<>>, outVals |-> [j \in 1..k |-> 0], got |-> 0]
        st == Loop(st0, k, 2 * Len(Pages) + 2)
    IN /\ page' = st.page /\ rowsRead' = st.rowsRead /\ nnRead' = st.nnRead
       /\ delivered' = delivered + st.got
       /\ last' = [k |-> k, defs |-> st.outDefs, vals |-> SubSeq(st.outVals, 1, Ones(st.outDefs)), pos |-> delivered]

Next == delivered < Total /\ \E k \in Ks : ReadBatch(k)

\* ---- refinement of ColumnReader.tla at the position of the last call
NonNullUpTo(p) == Ones(SubSeq(AllDefs, 1, p))
Refines ==
    LET n == Len(last.defs)
    IN /\ n <= last.k
       /\ (last.k > 0 /\ last.pos < Total => n > 0)
       /\ last.defs = SubSeq(AllDefs, last.pos + 1, last.pos + n)
       /\ last.vals = SubSeq(AllVals, NonNullUpTo(last.pos) + 1, NonNullUpTo(last.pos + n))
       /\ delivered = last.pos + n
=============================================================================
