------------------------------- MODULE Codec -------------------------------
(* Contract of a block codec as carquet exposes it:                                         *)
(*     bound(n)                      advertised worst-case compressed size                  *)
(*     compress(x, dst[cap])   -> ok(len) | err                                             *)
(*     decompress(c, dst[cap]) -> ok(len) | err                                             *)
(* One action per call; every action lists the outcomes the contract allows (C09) and the   *)
(* safety envelope that holds for *any* input bytes (C08).  The observable outcome of a     *)
(* call is a record                                                                         *)
(*     [st |-> "ok" | "err", len |-> reported size, wlen |-> number of leading destination  *)
(*      bytes the call modified, h |-> identity (hash) of the first `len` bytes written]    *)
(* Memory faults (write beyond dst[cap], read beyond the source, leak, hang) are the        *)
(* abstract variable `fault`; sanitizer / guard page / watchdog observe it.                 *)
(*                                                                                         *)
(* Inputs are *LZ-structured descriptors*: sequences of                                     *)
(*     [t |-> "L", n, s]      n incompressible bytes from seed s                            *)
(*     [t |-> "R", off, len]  len bytes copied from `off` back (overlap allowed: runs)      *)
(* (module CodecDesc) expanded to bytes by the replayer; the spec only needs length and     *)
(* identity of x.                                                                          *)
EXTENDS Naturals, Sequences, SequencesExt, FiniteSets, CodecDesc

(* ---- the contract as predicates on one observed call ------------------------------- *)
(* Each operator returns the set of *names of violated clauses* (empty = allowed).        *)

\* compress x (|x| = n) into dst[cap] when the codec advertises `bound` for n
CompressViol(n, bound, cap, out) ==
      (IF cap >= bound /\ out.st # "ok" THEN {"compress-into-bound-refused"} ELSE {})
 \cup (IF out.st = "ok" /\ out.len > cap THEN {"compress-reported-length-exceeds-capacity"} ELSE {})
 \cup (IF out.st = "ok" /\ cap >= bound /\ out.len > bound THEN {"compress-exceeds-bound"} ELSE {})
 \cup (IF out.wlen > cap THEN {"compress-wrote-beyond-capacity"} ELSE {})
      \* "reports the true length": every reported byte was produced by the call
 \cup (IF out.st = "ok" /\ out.len > out.wlen THEN {"compress-reported-length-exceeds-bytes-written"} ELSE {})

\* decompress c = compress(x) into dst[cap]; x = [n |-> length, h |-> identity]
DecompressViol(x, cap, out) ==
      (IF out.wlen > cap THEN {"decompress-wrote-beyond-capacity"} ELSE {})
 \cup (IF out.st = "ok" /\ out.len > cap THEN {"decompress-reported-length-exceeds-capacity"} ELSE {})
 \cup (IF cap = x.n /\ out.st # "ok" THEN {"roundtrip-decompress-failed"} ELSE {})
 \cup (IF cap = x.n /\ out.st = "ok" /\ out.len # x.n THEN {"roundtrip-length-differs"} ELSE {})
 \cup (IF cap = x.n /\ out.st = "ok" /\ out.len = x.n /\ out.h # x.h THEN {"roundtrip-content-differs"} ELSE {})
      \* a destination that cannot hold x can never be reported as a successful full decode
 \cup (IF cap < x.n /\ out.st = "ok" /\ out.len >= x.n THEN {"decompress-small-destination-overreported"} ELSE {})

\* decompress *arbitrary* bytes into dst[cap] (C08): error, or a size within the capacity
ArbitraryViol(cap, out) ==
      (IF out.st = "ok" /\ out.len > cap THEN {"reported-size-exceeds-capacity"} ELSE {})
 \cup (IF out.wlen > cap THEN {"wrote-beyond-capacity"} ELSE {})

(* ---- the state machine --------------------------------------------------------------- *)
VARIABLES phase,   \* "init" | "bounded" | "compressed" | "refused" | "rejected"
          x,       \* [n, h] abstract input
          bound,   \* advertised bound for x.n
          c,       \* [len] the compressed block when phase = "compressed"
          verdict, \* violated clauses of the last call (non-empty only in phase "rejected")
          fault    \* "none" | "oob" | "leak" | "hang" | "crash"
cvars == <<phase, x, bound, c, verdict, fault>>

CInit(x0) == /\ phase = "init" /\ x = x0 /\ bound = 0 /\ c = [len |-> 0]
             /\ verdict = {} /\ fault = "none"

Bound(b) == /\ phase = "init"
            /\ phase' = "bounded" /\ bound' = b
            /\ UNCHANGED <<x, c, verdict, fault>>

\* one compress call with destination capacity cap and observed outcome out
Compress(cap, out) ==
    /\ phase = "bounded"
    /\ LET v == CompressViol(x.n, bound, cap, out) IN
       /\ verdict' = v
       /\ phase' = IF v # {} THEN "rejected" ELSE IF out.st = "ok" THEN "compressed" ELSE "refused"
       /\ c' = IF out.st = "ok" THEN [len |-> out.len] ELSE c
    /\ UNCHANGED <<x, bound, fault>>

Decompress(cap, out) ==
    /\ phase = "compressed"
    /\ LET v == DecompressViol(x, cap, out) IN
       /\ verdict' = v
       /\ phase' = IF v # {} THEN "rejected" ELSE "compressed"
    /\ UNCHANGED <<x, bound, c, fault>>

Fault(f) == fault' = f /\ phase' = "rejected" /\ verdict' = {"fault-" \o f} /\ UNCHANGED <<x, bound, c>>

\* the property: no call is ever rejected by the contract and no fault is observed
Conforms == phase # "rejected" /\ fault = "none"
=============================================================================
