---------------------------- MODULE WriterTrace ----------------------------
(* Trace validation of the writer (C01, C05, C18): every recorded event of an execution of *)
(* the real library must be a step of Writer.tla; the produced file is judged by the       *)
(* reference reader ParquetFile.tla; the content read back through carquet's own reader    *)
(* must be the table the history promised.                                                 *)
(*                                                                                         *)
(* The trace is ndjson (IOEnv.TRACE); executions are separated by {"e":"Reset"}.           *)
(* The checker is deterministic: an event that is not an allowed step is recorded in       *)
(* `bad` with the names of the failed conditions, and the rest of that execution is        *)
(* skipped, so one run judges every execution in the file.                                 *)
EXTENDS Writer, ParquetFile, TLC, Json, IOUtils
VARIABLES l, skip, bad, stats
Tr == ndJsonDeserialize(IOEnv.TRACE)
tvars == <<wst, schema, cur, done, l, skip, bad, stats>>

Ev == Tr[l]
Has(f) == f \in DOMAIN Ev
\* File events of GZIP / ZSTD files carry layout = TRUE (page bodies opaque to the specification)
Layout == Has("layout") /\ Ev.layout

\* ---- comparison of file / read-back content with the promised table
NonEmptyGroups(t) == SelectSeq(t, LAMBDA g : g.numRows > 0)
\* expected per-column content of group g
ExpCol(g, c) == done[g][c]
SchemaMatches(leaves) ==
    /\ Len(leaves) = NCols
    /\ \A c \in 1..NCols : /\ leaves[c].path = <<schema[c].name>>
                           /\ leaves[c].type = schema[c].type
                           /\ leaves[c].rep = schema[c].rep
                           /\ (schema[c].type = 7 => leaves[c].tlen = schema[c].tlen)
                           /\ leaves[c].maxDef = MaxDef(c) /\ leaves[c].maxRep = 0
TableMatches(t) ==
    LET ng == NonEmptyGroups(t)
    IN /\ Len(ng) = Len(done)
       /\ \A g \in 1..Len(ng) :
             /\ ng[g].numRows = Rows(done[g][1])
             /\ \A c \in 1..NCols : /\ ng[g].cols[c].defs = done[g][c].defs
                                    /\ ng[g].cols[c].vals = done[g][c].vals

NonEmptyRgs(f) == SelectSeq(f.rgs, LAMBDA rg : rg.numRows > 0)
\* ---- C05: the file as judged by the reference reader; record of named verdicts
FileChecks(bs) ==
    LET f == ParseFile(bs)
    IN IF ~f.ok THEN [parse |-> FALSE]
       ELSE [parse |-> TRUE, tiling |-> Tiling(f), pageChain |-> PageChain(f), counts |-> CountsAddUp(f),
             tags |-> TagsConsistent(f), crc |-> CrcOk(f), sizes |-> SizesOk(f), rgSizes |-> RowGroupSizesOk(f),
             valuesExact |-> ValuesExact(f), offsets |-> OffsetsOk(f), paths |-> PathsOk(f),
             schema |-> SchemaMatches(f.leaves), rows |-> f.numRows = TotalRows,
             table |-> TableMatches(TableOf(f))]
\* GZIP / ZSTD page bodies are opaque to the specification: everything that does not need the decoded
\* body is still judged (page headers, sizes, offsets, checksums over the stored bytes, counts, schema)
FileChecksLayout(bs) ==
    LET f == ParseLayout(bs)
    IN IF ~f.ok THEN [parse |-> FALSE]
       ELSE [parse |-> TRUE, tiling |-> Tiling(f), pageChain |-> PageChain(f), counts |-> CountsAddUp(f),
             tags |-> TagsConsistent(f), crc |-> CrcOk(f), sizes |-> SizesOk(f), rgSizes |-> RowGroupSizesOk(f),
             offsets |-> OffsetsOk(f), paths |-> PathsOk(f),
             schema |-> SchemaMatches(f.leaves), rows |-> f.numRows = TotalRows,
             groups |-> [g \in 1..Len(NonEmptyRgs(f)) |-> NonEmptyRgs(f)[g].numRows] = [g \in 1..Len(done) |-> Rows(done[g][1])]]
Failed(chk) == {k \in DOMAIN chk : ~chk[k]}
ParseWhy(bs, layout) == LET f == IF layout THEN ParseLayout(bs) ELSE ParseFile(bs) IN IF f.ok THEN "" ELSE f.why

\* ---- the verdict on one event: set of names of violated conditions (empty = allowed step)
Verdict ==
    CASE Ev.e = "Create" ->
            IF ~Ev.ok THEN {"create-failed"} ELSE IF CanCreate(Ev.cols) THEN {} ELSE {"create-not-enabled"}
      [] Ev.e = "WriteBatch" ->
            IF Ev.st # 0 THEN {}                                  \* handled as Fail
            ELSE IF wst = "failed" THEN {}                         \* after a reported failure nothing is promised
            ELSE IF CanWriteBatch(Ev.c + 1, Ev.n, Ev.withDefs, Ev.defs, Ev.vals) THEN {} ELSE {"write-batch-not-enabled"}
      [] Ev.e = "NewRowGroup" -> IF Ev.st # 0 \/ wst = "failed" THEN {} ELSE IF CanNewRowGroup THEN {} ELSE {"new-row-group-not-enabled"}
      [] Ev.e = "Close" -> IF Ev.st # 0 \/ wst = "failed" THEN {} ELSE IF CanClose THEN {} ELSE {"close-not-enabled"}
      [] Ev.e = "File" ->
            IF wst # "closed" THEN {}                              \* no promise about the file
            ELSE LET chk == IF Layout THEN FileChecksLayout(Ev.bytes) ELSE FileChecks(Ev.bytes) IN {"file:" \o k : k \in Failed(chk)}
      [] Ev.e = "SameBytes" ->                                     \* determinism: second write of the same history
            IF wst # "closed" \/ Ev.same THEN {} ELSE {"file:nondeterministic"}
      [] Ev.e = "Open" ->
            IF wst # "closed" THEN {}
            ELSE IF ~Ev.ok THEN {"reopen-failed"}
            ELSE {k \in {"open:rows", "open:groups", "open:schema"} :
                    \/ (k = "open:rows" /\ Ev.rows # TotalRows)
                    \/ (k = "open:groups" /\ SelectSeq(Ev.rgs, LAMBDA n : n > 0) # [g \in 1..Len(done) |-> Rows(done[g][1])])
                    \/ (k = "open:schema" /\ ~SchemaMatches(Ev.leaves))}
      [] Ev.e = "Chunk" ->                                          \* full content of (non-empty group g, column c)
            IF wst # "closed" THEN {}
            ELSE IF Ev.g + 1 > Len(done) \/ Ev.c + 1 > NCols THEN {"read:no-such-chunk"}
            ELSE {k \in {"read:count", "read:defs", "read:vals", "read:remaining", "read:stale-bytes"} :
                    \/ (k = "read:count" /\ Ev.n # Rows(done[Ev.g + 1][Ev.c + 1]))
                    \/ (k = "read:defs" /\ Ev.n = Rows(done[Ev.g + 1][Ev.c + 1]) /\ Ev.defs # done[Ev.g + 1][Ev.c + 1].defs)
                    \/ (k = "read:vals" /\ Ev.vals # done[Ev.g + 1][Ev.c + 1].vals)
                    \/ (k = "read:remaining" /\ Ev.rem # 0)
                    \/ (k = "read:stale-bytes" /\ Ev.stale)}
      [] Ev.e = "Fault" -> {"fault:" \o Ev.kind}
      [] OTHER -> {"unknown-event"}

\* a second failing call after a failure must not disable the step (the checker would stop silently)
FailOrStay == IF wst = "open" THEN Fail ELSE UNCHANGED wvars
Apply ==
    CASE Ev.e = "Create" -> Create(Ev.cols)
      [] Ev.e = "WriteBatch" -> IF Ev.st # 0 \/ wst = "failed" THEN FailOrStay ELSE WriteBatch(Ev.c + 1, Ev.n, Ev.withDefs, Ev.defs, Ev.vals)
      [] Ev.e = "NewRowGroup" -> IF Ev.st # 0 \/ wst = "failed" THEN FailOrStay ELSE NewRowGroup
      [] Ev.e = "Close" -> IF Ev.st # 0 \/ wst = "failed" THEN FailOrStay ELSE Close
      [] OTHER -> UNCHANGED wvars

TInit == WInit /\ l = 1 /\ skip = FALSE /\ bad = <<>> /\ stats = [execs |-> 0, events |-> 0, failed |-> 0]

TReset == /\ l <= Len(Tr) /\ Ev.e = "Reset"
          /\ wst' = "none" /\ schema' = <<>> /\ cur' = <<>> /\ done' = <<>>
          /\ skip' = FALSE /\ l' = l + 1 /\ UNCHANGED bad
          /\ stats' = [stats EXCEPT !.execs = @ + 1]

TSkip == /\ l <= Len(Tr) /\ Ev.e # "Reset" /\ skip
         /\ l' = l + 1 /\ UNCHANGED <<wst, schema, cur, done, skip, bad, stats>>

TStep == /\ l <= Len(Tr) /\ Ev.e # "Reset" /\ ~skip
         /\ LET v == Verdict
            IN IF v = {} THEN /\ Apply /\ UNCHANGED <<skip, bad>>
                              /\ stats' = [stats EXCEPT !.events = @ + 1,
                                                        !.failed = IF Has("st") /\ Ev.st # 0 THEN @ + 1 ELSE @]
               ELSE /\ bad' = Append(bad, [l |-> l, id |-> Ev.id, e |-> Ev.e, why |-> v,
                                            detail |-> IF Ev.e = "File" THEN ParseWhy(Ev.bytes, Layout) ELSE ""])
                    /\ skip' = TRUE /\ UNCHANGED <<wst, schema, cur, done, stats>>
         /\ l' = l + 1

TNext == TReset \/ TSkip \/ TStep
TSpec == TInit /\ [][TNext]_tvars

\* printed once, in the final state
Report == l = Len(Tr) + 1 => PrintT(ToJson([verdicts |-> bad, stats |-> stats, lines |-> Len(Tr)]))
TInv == TypeOK /\ (wst \in {"open", "closed"} => DoneWellFormed)
=============================================================================
