---------------------------- MODULE ColumnReader ----------------------------
(* The column reader API as a state machine over the logical content of one column chunk.  *)
(* content = [defs, reps, vals]: one level entry per delivered "value" slot, vals dense.    *)
(* Weakest faithful reading (DESIGN.md 5): read_batch(k) may return any n with              *)
(* 0 < n <= min(k, remaining) when k > 0 and remaining > 0, and 0 otherwise; skip is exact. *)
EXTENDS Naturals, Sequences, SequencesExt
VARIABLES content, maxDef, pos, live
crvars == <<content, maxDef, pos, live>>

Total == Len(content.defs)
Remaining == Total - pos
NonNullUpTo(p) == Len(SelectSeq(SubSeq(content.defs, 1, p), LAMBDA d : d = maxDef))
Min3(a, b) == IF a < b THEN a ELSE b

\* what a read of n entries starting at pos must deliver
ExpDefs(n) == SubSeq(content.defs, pos + 1, pos + n)
ExpReps(n) == SubSeq(content.reps, pos + 1, pos + n)
ExpVals(n) == SubSeq(content.vals, NonNullUpTo(pos) + 1, NonNullUpTo(pos + n))

CRInit == content = [defs |-> <<>>, reps |-> <<>>, vals |-> <<>>] /\ maxDef = 0 /\ pos = 0 /\ live = FALSE

Open(c, md) == content' = c /\ maxDef' = md /\ pos' = 0 /\ live' = TRUE

\* guard of a read that reported n entries for a request of k
CanRead(k, n) == /\ live /\ k >= 0
                 /\ n <= Min3(k, Remaining)
                 /\ ((k > 0 /\ Remaining > 0) => n > 0)
Read(k, n) == CanRead(k, n) /\ pos' = pos + n /\ UNCHANGED <<content, maxDef, live>>

CanSkip(k, n) == live /\ n = Min3(k, Remaining)
Skip(k, n) == CanSkip(k, n) /\ pos' = pos + n /\ UNCHANGED <<content, maxDef, live>>

Free == live' = FALSE /\ UNCHANGED <<content, maxDef, pos>>

Inv == pos <= Total
=============================================================================
