-------------------------------- MODULE Sink --------------------------------
(* The output stream a writer talks to (C18): a stdio-like buffer in front of a device    *)
(* that can refuse bytes.  Bytes are identified by their stream position 1, 2, 3, ... so   *)
(* that "everything reached the device" is the statement  acc = <<1, ..., pos>> .           *)
(*                                                                                         *)
(*   pos     bytes the application has handed to the stream so far                         *)
(*   buf     stream positions held in the buffer (not yet offered to the device)           *)
(*   acc     stream positions the device accepted, in the order it accepted them           *)
(*   cap     buffer capacity (0 = unbuffered)                                              *)
(*   arm     the failure point: [kind, at, sticky]                                         *)
(*             "none"                                                                       *)
(*             "byte"  the device holds at most `at` bytes (out of space at byte offset at) *)
(*             "op"    the device refuses every byte offered during stream operation `at`   *)
(*             "close" the device's close reports failure (deferred write error)            *)
(*           sticky: the condition persists once reached; otherwise it clears after the     *)
(*           first refusal ("byte") / after operation `at` ("op")                          *)
(*   ops     stream operations performed so far (SWrite / SFlush / SClose, counted from 1)  *)
(*   fired   the armed condition has been reached                                          *)
(*   failed  some device operation reported failure (what the property calls "the sink     *)
(*           fails")                                                                       *)
(*   last    result of the last stream operation (TRUE = the stdio call reported success)  *)
(*   open    the stream has not been closed                                                *)
(*                                                                                         *)
(* stdio has freedom in *when* it offers buffered bytes to the device; the model leaves    *)
(* that freedom (any amount may be pushed during an SWrite as long as the buffer does not  *)
(* exceed cap afterwards), so every conforming stdio is a refinement.  Bytes that were     *)
(* offered and refused are lost (glibc resets the buffer after a failed write).            *)
EXTENDS Naturals, Sequences
VARIABLE sink

SkInf == 1000000000
SkNoArm == [kind |-> "none", at |-> 0, sticky |-> FALSE]
SkNew(cap, arm) == [pos |-> 0, buf |-> <<>>, acc |-> <<>>, cap |-> cap, arm |-> arm, ops |-> 0,
                    fired |-> FALSE, failed |-> FALSE, last |-> TRUE, open |-> TRUE]
SkIdle == [SkNew(0, SkNoArm) EXCEPT !.open = FALSE]

SkMin(a, b) == IF a < b THEN a ELSE b
SkMonus(a, b) == IF a > b THEN a - b ELSE 0
SkRange(a, n) == [i \in 1..n |-> a + i]                \* positions a+1 .. a+n

\* how many more bytes the device takes right now (during operation number s.ops)
SkRoom(s) ==
    CASE s.arm.kind = "byte" -> IF ~s.arm.sticky /\ s.fired THEN SkInf ELSE SkMonus(s.arm.at, Len(s.acc))
      [] s.arm.kind = "op"   -> IF s.ops = s.arm.at \/ (s.arm.sticky /\ s.ops > s.arm.at) THEN 0 ELSE SkInf
      [] OTHER -> SkInf

\* offer the first p buffered bytes to the device; result: the new sink, `last` = all p accepted
SkPush(s, p) ==
    LET take == SkMin(p, SkRoom(s))
        okay == take = p
    IN [s EXCEPT !.acc = @ \o SubSeq(s.buf, 1, take),
                 !.buf = SubSeq(@, p + 1, Len(@)),
                 !.fired = @ \/ ~okay, !.failed = @ \/ ~okay, !.last = okay]

\* ---- the three stream operations as outcome sets (composable inside one writer call)
SkWritePre(s, n) == [s EXCEPT !.ops = @ + 1, !.pos = @ + n, !.buf = @ \o SkRange(s.pos, n)]
SkPushChoices(s1) == SkMonus(Len(s1.buf), s1.cap)..Len(s1.buf)     \* how much stdio may offer during a write
SWriteR(s, n) == LET s1 == SkWritePre(s, n) IN { SkPush(s1, p) : p \in SkPushChoices(s1) }
SFlushR(s) == LET s1 == [s EXCEPT !.ops = @ + 1] IN { SkPush(s1, Len(s1.buf)) }
SCloseR(s) ==
    LET s1 == [s EXCEPT !.ops = @ + 1]
        s2 == SkPush(s1, Len(s1.buf))
        cf == s.arm.kind = "close"
    IN { [s2 EXCEPT !.open = FALSE, !.failed = @ \/ cf, !.fired = @ \/ cf, !.last = @ /\ ~cf] }

\* ---- the same as actions on the variable
SWrite(n) == sink.open /\ n >= 1 /\ \E o \in SWriteR(sink, n) : sink' = o
SFlush == sink.open /\ \E o \in SFlushR(sink) : sink' = o
SClose == sink.open /\ \E o \in SCloseR(sink) : sink' = o

\* ---- facts about the sink alone (part of TypeInv in MC_Sink)
SkEverything(s) == s.acc = SkRange(0, s.pos)                 \* every byte written reached the device
SkTypeOK == /\ sink.pos \in Nat /\ sink.ops \in Nat /\ sink.cap \in Nat
            /\ Len(sink.acc) + Len(sink.buf) <= sink.pos
            /\ (sink.open => Len(sink.buf) <= sink.cap)
\* accepted positions are strictly increasing; nothing is invented or duplicated
SkMonotone == \A i \in 1..Len(sink.acc) : \A j \in 1..Len(sink.acc) : i < j => sink.acc[i] < sink.acc[j]
\* without a failure nothing is lost: after a flush or close every byte is on the device
SkNoSilentLoss == ~sink.failed => sink.acc \o sink.buf = SkRange(0, sink.pos)
\* a stream operation that reports success has not lost anything it offered
SkLossIsReported == (Len(sink.acc) + Len(sink.buf) < sink.pos) => sink.failed
=============================================================================
