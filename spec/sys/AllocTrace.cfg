INIT TInit2
NEXT TNext2
INVARIANTS TInv2 Report2
CHECK_DEADLOCK FALSE
