------------------------------ MODULE Dispatch ------------------------------
(* The runtime dispatcher of carquet's SIMD layer (src/simd/detect.c, src/simd/dispatch.c)   *)
(* as a state machine: capability set -> dispatch table -> calls.                            *)
(*                                                                                            *)
(*   Detect      carquet_init(): CPUID feature bits (host), ANDed with the verification mask  *)
(*               (hook H1, CARQUET_VERIF_CPU_CAP) -> caps, the reported capability set        *)
(*   InitTable   carquet_simd_dispatch_init(): shaped like the code - every entry starts at   *)
(*               the scalar fall-back and is overwritten level by level in the order          *)
(*               SSE4.2, AVX2, AVX-512, each level behind the feature test the code performs  *)
(*               (Guard); the initialised flag is written last                                *)
(*   Call(k)     carquet_dispatch_<k>(): lazily initialises, then calls table[k]              *)
(*                                                                                            *)
(* Specification-level notion of "available": a level may run on a CPU iff every feature its  *)
(* object code may use (Needs = the -m flags its source file is compiled with) is in caps.    *)
(* TableBest: each entry is the highest-priority available variant registered for the kernel, *)
(* override order scalar < SSE4.2 < AVX2 < AVX-512.                                          *)
EXTENDS Naturals, Sequences, FiniteSets

CONSTANTS Features,     \* CPU features the model distinguishes
          Guard,        \* Guard[level]  = features the dispatcher tests before installing `level`
          Needs         \* Needs[level]  = features the object code of `level` may use

Levels == <<"scalar", "sse", "avx2", "avx512">>              \* override order = priority order
Prio(l) == CHOOSE i \in 1..Len(Levels) : Levels[i] = l

\* the 19 entries of carquet_simd_dispatch_t, in declaration order
Entries == <<"prefix_sum_i32", "prefix_sum_i64", "gather_i32", "gather_i64", "gather_float", "gather_double",
             "byte_split_encode_float", "byte_split_decode_float", "byte_split_encode_double",
             "byte_split_decode_double", "unpack_bools", "pack_bools", "find_run_length_i32", "crc32c",
             "match_copy", "match_length", "count_non_nulls", "build_null_bitmap", "fill_def_levels">>
KernelNames == {Entries[i] : i \in 1..Len(Entries)}
\* kernels for which dispatch.c registers AVX2 and AVX-512 variants (every kernel has scalar and SSE4.2)
Wide == {"prefix_sum_i32", "prefix_sum_i64", "gather_i32", "gather_i64", "gather_float", "gather_double",
         "byte_split_encode_float", "byte_split_decode_float", "unpack_bools", "pack_bools", "find_run_length_i32"}
Registered(k) == {"scalar", "sse"} \cup (IF k \in Wide THEN {"avx2", "avx512"} ELSE {})

VARIABLES host,       \* features of the physical CPU
          mask,       \* verification mask (Features when the hook is not used)
          detected, caps,
          pc,         \* "idle" or the step of the initialisation in progress
          pending,    \* kernel whose call triggered the lazy initialisation ("none": explicit init)
          table, inited,
          last        \* [k, v]: kernel and variant of the last completed call
vars == <<host, mask, detected, caps, pc, pending, table, inited, last>>

Init == /\ host \in SUBSET Features /\ mask \in SUBSET Features
        /\ detected = FALSE /\ caps = {}
        /\ pc = "idle" /\ pending = "none"
        /\ table = [k \in KernelNames |-> "unset"] /\ inited = FALSE
        /\ last = [k |-> "none", v |-> "none"]

\* carquet_init()
Detect == /\ pc = "idle" /\ ~detected
          /\ detected' = TRUE /\ caps' = host \cap mask
          /\ UNCHANGED <<host, mask, pc, pending, table, inited, last>>

\* carquet_simd_dispatch_init() entered explicitly or from a dispatch entry point
Begin(k) == /\ pc = "idle" /\ ~inited
            /\ pending' = k
            /\ detected' = TRUE /\ caps' = (IF detected THEN caps ELSE host \cap mask)     \* carquet_get_cpu_info()
            /\ pc' = "scalar"
            /\ UNCHANGED <<host, mask, table, inited, last>>

Install(level) == [k \in KernelNames |-> IF level \in Registered(k) THEN level ELSE table[k]]
Step(level, next) ==
    /\ pc = level
    /\ table' = IF Guard[level] \subseteq caps THEN Install(level) ELSE table
    /\ pc' = next
    /\ UNCHANGED <<host, mask, detected, caps, pending, inited, last>>
SetFlag == /\ pc = "flag" /\ inited' = TRUE
           /\ pc' = (IF pending = "none" THEN "idle" ELSE "call")
           /\ UNCHANGED <<host, mask, detected, caps, pending, table, last>>
InitTable == \/ Step("scalar", "sse") \/ Step("sse", "avx2") \/ Step("avx2", "avx512")
             \/ Step("avx512", "flag") \/ SetFlag

\* carquet_dispatch_<k>()
Call(k) == \/ /\ pc = "idle" /\ inited
              /\ last' = [k |-> k, v |-> table[k]]
              /\ UNCHANGED <<host, mask, detected, caps, pc, pending, table, inited>>
           \/ Begin(k)
Resume == /\ pc = "call"
          /\ last' = [k |-> pending, v |-> table[pending]]
          /\ pc' = "idle" /\ pending' = "none"
          /\ UNCHANGED <<host, mask, detected, caps, table, inited>>

Next == Detect \/ Begin("none") \/ InitTable \/ Resume \/ \E k \in KernelNames : Call(k)

\* ---- properties -----------------------------------------------------------------------------
Available(l, cs) == Needs[l] \subseteq cs
BestOf(k, cs) == CHOOSE l \in Registered(k) :
                    /\ Available(l, cs)
                    /\ \A m \in Registered(k) : Available(m, cs) => Prio(m) <= Prio(l)
BestTable(cs) == [k \in KernelNames |-> BestOf(k, cs)]

TypeOK == /\ caps \subseteq Features /\ pc \in {"idle", "scalar", "sse", "avx2", "avx512", "flag", "call"}
          /\ \A k \in KernelNames : table[k] \in {"unset", "scalar", "sse", "avx2", "avx512"}
\* detection never reports a feature the CPU lacks, and the hook only removes features
CapsSound == detected => (caps = host \cap mask)
\* each entry is the highest-priority available variant
TableBest == inited => table = BestTable(caps)
\* nothing is ever called through an entry that was not written
NoUnsetCall == last.v # "unset"
\* every completed call ran the best available variant
CallBest == last.k # "none" => last.v = BestOf(last.k, caps)
\* the table is written only during initialisation and entries only move up the override order
Rank(v) == IF v = "unset" THEN 0 ELSE Prio(v)
OverrideOrder == [][ \A k \in KernelNames : Rank(table'[k]) >= Rank(table[k]) ]_vars
FrozenAfterInit == [][ inited => table' = table ]_vars
=============================================================================
