CONSTANTS
  CheckWrite = TRUE
  CheckFlush = TRUE
  CheckClose = TRUE
  LatchError = TRUE
  RemoveOnAbort = TRUE
INIT TInit
NEXT TNext
INVARIANTS TInv Report
CHECK_DEADLOCK FALSE
