------------------------------- MODULE Schema -------------------------------
(* Schema trees (C17): ordered labelled forests, their depth-first serialisation as a list  *)
(* of elements with child counts (how Parquet stores a schema), and the textbook definition *)
(* of the maximum definition / repetition level of a leaf: the number of OPTIONAL-or-       *)
(* REPEATED resp. REPEATED nodes on the path from (below) the root to the leaf, itself      *)
(* included.  Levels are defined on *paths*, independently of the DFS walk in ParquetFile.  *)
EXTENDS Naturals, Sequences, SequencesExt, FiniteSets

\* A forest below the root is given by its DFS list of nodes: nodes[i] = [rep, kids].
\* kids = number of children; the list is a valid forest with r roots iff the counter
\* open (= r initially; minus 1 plus kids per node) stays positive before each node and ends at 0.
ValidForest(nodes, r) ==
    LET step(acc, nd) == IF acc.ok /\ acc.open > 0 THEN [ok |-> TRUE, open |-> acc.open - 1 + nd.kids] ELSE [ok |-> FALSE, open |-> 0]
        res == FoldLeft(step, [ok |-> TRUE, open |-> r], nodes)
    IN res.ok /\ res.open = 0 /\ r >= 0

Roots(nodes) == Len(nodes) - FoldLeft(LAMBDA acc, nd : acc + nd.kids, 0, nodes)

\* parent[i] = index of the parent of node i (0 = root), computed by a stack walk
Parents(nodes) ==
    LET step(acc, i) ==
            \* acc.stack: sequence of [node, remaining kids] ; pop exhausted entries first
            LET RECURSIVE trim(_)
                trim(st) == IF st # <<>> /\ st[Len(st)].left = 0 THEN trim(SubSeq(st, 1, Len(st) - 1)) ELSE st
                st0 == trim(acc.stack)
                par == IF st0 = <<>> THEN 0 ELSE st0[Len(st0)].node
                st1 == IF st0 = <<>> THEN st0 ELSE [st0 EXCEPT ![Len(st0)].left = @ - 1]
            IN [stack |-> Append(st1, [node |-> i, left |-> nodes[i].kids]), par |-> Append(acc.par, par)]
    IN FoldLeft(step, [stack |-> <<>>, par |-> <<>>], [i \in 1..Len(nodes) |-> i]).par

RECURSIVE PathOf(_, _)
PathOf(par, i) == IF i = 0 THEN <<>> ELSE Append(PathOf(par, par[i]), i)

IsLeafNode(nodes, i) == nodes[i].kids = 0
LeafIdx(nodes) == SelectSeq([i \in 1..Len(nodes) |-> i], LAMBDA i : IsLeafNode(nodes, i))

\* the textbook levels of node i
MaxDefOf(nodes, par, i) == Len(SelectSeq(PathOf(par, i), LAMBDA j : nodes[j].rep \in {1, 2}))
MaxRepOf(nodes, par, i) == Len(SelectSeq(PathOf(par, i), LAMBDA j : nodes[j].rep = 2))

\* expected view of the reader: leaves in DFS order with path (node indices), levels
Levels(nodes) == LET par == Parents(nodes)
                 IN [k \in 1..Len(LeafIdx(nodes)) |->
                       LET i == LeafIdx(nodes)[k]
                       IN [node |-> i, path |-> PathOf(par, i), maxDef |-> MaxDefOf(nodes, par, i), maxRep |-> MaxRepOf(nodes, par, i)]]
NodeLevels(nodes) == LET par == Parents(nodes)
                     IN [i \in 1..Len(nodes) |-> [maxDef |-> MaxDefOf(nodes, par, i), maxRep |-> MaxRepOf(nodes, par, i)]]
=============================================================================
