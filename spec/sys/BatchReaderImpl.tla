-------------------------- MODULE BatchReaderImpl --------------------------
(* Implementation-shaped model of carquet_batch_reader_next for REQUIRED columns: every     *)
(* projected column has its own page cursor; a batch wants rows_to_read = min(batch_size,    *)
(* remaining of column 1); per column either the zero-copy shortcut hands out the current    *)
(* page as a view (eligible columns, page not yet touched) or values are copied across       *)
(* pages. ZeroCopyRule = "le" is the pinned commit (page rows <= batch rows), "eq" the       *)
(* repaired design. Invariant: all columns of a batch have the same number of rows, equal to *)
(* what was asked, and the concatenation of batches is the column content.                   *)
EXTENDS Naturals, Sequences, SequencesExt
CONSTANTS PageRows,      \* per column: sequence of page sizes, e.g. << <<2,2,2>>, <<6>> >>
          Eligible,      \* per column: BOOLEAN (zero-copy eligible)
          BatchSizes, ZeroCopyRule
VARIABLES consumed,      \* per column: rows consumed so far
          lastBatch      \* per column rows delivered in the last batch (ghost), and rows asked
NCols == Len(PageRows)
Sum(s) == FoldLeft(LAMBDA a, b : a + b, 0, s)
Total(c) == Sum(PageRows[c])
\* page index and offset inside it for a consumed count
RECURSIVE Locate(_, _, _)
Locate(c, n, i) == IF i > Len(PageRows[c]) THEN <<i, 0>>
                   ELSE IF n < PageRows[c][i] THEN <<i, n>> ELSE Locate(c, n - PageRows[c][i], i + 1)
Init == consumed = [c \in 1..NCols |-> 0] /\ lastBatch = [asked |-> 0, got |-> [c \in 1..NCols |-> 0]]
Deliver(c, rows) ==
    LET loc == Locate(c, consumed[c], 1)
        atPageStart == loc[2] = 0 /\ loc[1] <= Len(PageRows[c])
        pr == IF loc[1] <= Len(PageRows[c]) THEN PageRows[c][loc[1]] ELSE 0
        zc == Eligible[c] /\ atPageStart /\ (IF ZeroCopyRule = "le" THEN pr <= rows ELSE pr = rows)
        left == Total(c) - consumed[c]
    IN IF zc THEN pr ELSE (IF rows < left THEN rows ELSE left)
Next == \E bs \in BatchSizes :
          LET left1 == Total(1) - consumed[1]
              rows == IF bs < left1 THEN bs ELSE left1
          IN /\ left1 > 0
             /\ consumed' = [c \in 1..NCols |-> consumed[c] + Deliver(c, rows)]
             /\ lastBatch' = [asked |-> rows, got |-> [c \in 1..NCols |-> Deliver(c, rows)]]
RowAligned == \A c \in 1..NCols : lastBatch.got[c] = lastBatch.asked
=============================================================================
