------------------------------ MODULE Bytes ------------------------------
(* Byte sequences. A byte string is Seq(0..255); positions are 1-based.     *)
EXTENDS Naturals, Sequences, SequencesExt

Byte == 0..255
IsBytes(bs) == \A i \in 1..Len(bs) : bs[i] \in Byte

\* Slice(bs, p, n): n bytes starting at 1-based position p (caller guarantees range)
Slice(bs, p, n) == [i \in 1..n |-> bs[p + i - 1]]
HasBytes(bs, p, n) == p >= 1 /\ n >= 0 /\ p + n - 1 <= Len(bs)

Rep(b, n) == [i \in 1..n |-> b]

Flatten(ss) == FoldLeft(LAMBDA acc, s : acc \o s, <<>>, ss)

\* little-endian encoding of a TLC natural < 2^31 on k bytes (k <= 4 significant)
LE(x, k) == [i \in 1..k |-> IF i = 1 THEN x % 256
                            ELSE IF i = 2 THEN (x \div 256) % 256
                            ELSE IF i = 3 THEN (x \div 65536) % 256
                            ELSE IF i = 4 THEN (x \div 16777216) % 256 ELSE 0]

\* little-endian natural from up to 4 bytes (value must be < 2^31)
FromLE(bs) == FoldLeft(LAMBDA acc, i : acc + bs[i] * (<<1, 256, 65536, 16777216>>)[i], 0,
                       [i \in 1..Len(bs) |-> i])

Min2(a, b) == IF a < b THEN a ELSE b
Max2(a, b) == IF a > b THEN a ELSE b
=============================================================================
