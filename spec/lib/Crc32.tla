------------------------------ MODULE Crc32 ------------------------------
(* Reflected CRC-32, parametrised by the (reflected) polynomial, table driven.             *)
(* A 32-bit value is a pair <<hi16, lo16>> because TLC integers are 32-bit signed.          *)
(*   IEEE 802.3 (zlib, Parquet page CRC): poly = <<16_EDB8, 16_8320>>  i.e. 0xEDB88320       *)
(*   Castagnoli (CRC32C, SSE4.2 crc32 instruction): 0x82F63B78                              *)
EXTENDS Naturals, Sequences, SequencesExt, Bitwise

IEEE == <<60856, 33568>>          \* 0xEDB8, 0x8320
CAST == <<33526, 15224>>          \* 0x82F6, 0x3B78

\* one bit step of the reflected algorithm: c = (c >> 1) ^ (poly if c & 1)
Step1(c, poly) ==
    LET lsb == c[2] % 2
        hi  == c[1] \div 2
        lo  == (c[2] \div 2) + ((c[1] % 2) * 32768)
    IN IF lsb = 1 THEN <<hi ^^ poly[1], lo ^^ poly[2]>> ELSE <<hi, lo>>

Step8(c, poly) == Step1(Step1(Step1(Step1(Step1(Step1(Step1(Step1(c, poly), poly), poly), poly), poly), poly), poly), poly)

TableFor(poly) == [b \in 0..255 |-> Step8(<<0, b>>, poly)]
TableIEEE == TableFor(IEEE)
TableCAST == TableFor(CAST)

\* raw register update with one byte: c = T[(c ^ b) & 0xff] ^ (c >> 8)
Feed(T, c, b) ==
    LET e  == T[(c[2] % 256) ^^ b]
        hi == c[1] \div 256
        lo == (c[2] \div 256) + ((c[1] % 256) * 256)
    IN <<e[1] ^^ hi, e[2] ^^ lo>>

Inv(c) == <<65535 - c[1], 65535 - c[2]>>

\* Update(T, crc, bytes): continue a finished CRC value over more bytes (zlib crc32(crc, buf, len))
UpdateT(T, crc, bs) == Inv(FoldLeft(LAMBDA c, b : Feed(T, c, b), Inv(crc), bs))

Crc32(bs)          == UpdateT(TableIEEE, <<0, 0>>, bs)
Crc32Update(c, bs) == UpdateT(TableIEEE, c, bs)
Crc32c(bs)         == UpdateT(TableCAST, <<0, 0>>, bs)
Crc32cUpdate(c, bs) == UpdateT(TableCAST, c, bs)

\* as 4 little-endian bytes / as a 4-limb word
AsLE(c) == <<c[2] % 256, c[2] \div 256, c[1] % 256, c[1] \div 256>>
OfLE(w) == <<w[3] + 256 * w[4], w[1] + 256 * w[2]>>
=============================================================================
