----------------------------- MODULE XxHash64 -----------------------------
(* XXH64 transcribed from the xxHash specification (doc/xxhash_spec.md), on 8-limb words.  *)
EXTENDS Naturals, Sequences, SequencesExt, W

P1 == <<135, 202, 235, 133, 177, 121, 55, 158>>     \* 0x9E3779B185EBCA87
P2 == <<79, 235, 212, 39, 61, 174, 178, 194>>       \* 0xC2B2AE3D27D4EB4F
P3 == <<249, 121, 55, 158, 177, 103, 86, 22>>       \* 0x165667B19E3779F9
P4 == <<99, 174, 178, 194, 119, 202, 235, 133>>     \* 0x85EBCA77C2B2AE63
P5 == <<197, 103, 86, 22, 47, 235, 212, 39>>        \* 0x27D4EB2F165667C5

Round(acc, input) == Mul(Rotl(Add(acc, Mul(input, P2)), 31), P1)
MergeRound(acc, val) == Add(Mul(XorW(acc, Round(Zero(8), val)), P1), P4)

Read64(bs, p) == [i \in 1..8 |-> bs[p + i - 1]]
Read32(bs, p) == [i \in 1..8 |-> IF i <= 4 THEN bs[p + i - 1] ELSE 0]

Avalanche(h0) ==
    LET h1 == Mul(XorW(h0, Shr(h0, 33)), P2)
        h2 == Mul(XorW(h1, Shr(h1, 29)), P3)
    IN XorW(h2, Shr(h2, 32))

\* seed: 8-limb word; bs: byte sequence; result: 8-limb word
XXH64(bs, seed) ==
    LET n == Len(bs)
        nstripes == n \div 32
        init == <<Add(Add(seed, P1), P2), Add(seed, P2), seed, Sub(seed, P1)>>
        stripe(v, s) == LET p == 32 * (s - 1) + 1
                        IN <<Round(v[1], Read64(bs, p)), Round(v[2], Read64(bs, p + 8)),
                             Round(v[3], Read64(bs, p + 16)), Round(v[4], Read64(bs, p + 24))>>
        v == FoldLeft(stripe, init, Idx(nstripes))
        conv == LET a == Add(Add(Rotl(v[1], 1), Rotl(v[2], 7)), Add(Rotl(v[3], 12), Rotl(v[4], 18)))
                IN MergeRound(MergeRound(MergeRound(MergeRound(a, v[1]), v[2]), v[3]), v[4])
        h0 == IF n >= 32 THEN conv ELSE Add(seed, P5)
        \* total length as a 64-bit word (n < 2^31)
        h1 == Add(h0, FromNat(n, 8))
        p0 == 32 * nstripes + 1
        rem == n - 32 * nstripes
        n8 == rem \div 8
        s8(h, k) == LET k1 == Round(Zero(8), Read64(bs, p0 + 8 * (k - 1)))
                    IN Add(Mul(Rotl(XorW(h, k1), 27), P1), P4)
        h2 == FoldLeft(s8, h1, Idx(n8))
        p1 == p0 + 8 * n8
        rem4 == rem - 8 * n8
        has4 == rem4 >= 4
        h3 == IF has4 THEN Add(Mul(Rotl(XorW(h2, Mul(Read32(bs, p1), P1)), 23), P2), P3) ELSE h2
        p2 == IF has4 THEN p1 + 4 ELSE p1
        n1 == IF has4 THEN rem4 - 4 ELSE rem4
        s1(h, k) == Mul(Rotl(XorW(h, Mul(FromNat(bs[p2 + k - 1], 8), P5)), 11), P1)
        h4 == FoldLeft(s1, h3, Idx(n1))
    IN Avalanche(h4)
=============================================================================
