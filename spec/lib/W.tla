------------------------------- MODULE W -------------------------------
(* Unsigned machine words as sequences of byte limbs, least significant limb first.          *)
(* TLC integers are 32-bit signed, so 32- and 64-bit arithmetic is done limb-wise here.       *)
(* All binary operators expect operands of equal width n = Len(a) and compute modulo 2^(8n). *)
EXTENDS Naturals, Sequences, SequencesExt, Bitwise

P256 == <<1, 256, 65536, 16777216>>
Pow2 == <<1, 2, 4, 8, 16, 32, 64, 128, 256>>          \* Pow2[k+1] = 2^k, k \in 0..8

Idx(n) == [i \in 1..n |-> i]

Zero(n) == [i \in 1..n |-> 0]
Ones(n) == [i \in 1..n |-> 255]

\* x is a TLC natural (< 2^31)
FromNat(x, n) == [i \in 1..n |-> IF i <= 4 THEN (x \div P256[i]) % 256 ELSE 0]

FitsNat(w) == /\ \A i \in 1..Len(w) : i > 4 => w[i] = 0
              /\ Len(w) >= 4 => w[4] < 128

\* only meaningful when FitsNat(w)
ToNat(w) == FoldLeft(LAMBDA acc, i : IF i <= 4 THEN acc + w[i] * P256[i] ELSE acc, 0, Idx(Len(w)))

Resize(w, n) == [i \in 1..n |-> IF i <= Len(w) THEN w[i] ELSE 0]

\* sign-extend a two's complement word to n limbs
SignExtend(w, n) == LET neg == w[Len(w)] >= 128
                    IN [i \in 1..n |-> IF i <= Len(w) THEN w[i] ELSE IF neg THEN 255 ELSE 0]

Add(a, b) ==
    LET step(acc, i) == LET s == a[i] + b[i] + acc[2] IN <<Append(acc[1], s % 256), s \div 256>>
    IN FoldLeft(step, <<<<>>, 0>>, Idx(Len(a)))[1]

NotW(a) == [i \in 1..Len(a) |-> 255 - a[i]]
Neg(a) == Add(NotW(a), FromNat(1, Len(a)))
Sub(a, b) == Add(a, Neg(b))

Mul(a, b) ==
    LET n == Len(a)
        col(k) == FoldLeft(LAMBDA acc, i : acc + a[i] * b[k + 1 - i], 0, Idx(k))
        step(acc, k) == LET s == col(k) + acc[2] IN <<Append(acc[1], s % 256), s \div 256>>
    IN FoldLeft(step, <<<<>>, 0>>, Idx(n))[1]

XorW(a, b) == [i \in 1..Len(a) |-> a[i] ^^ b[i]]
AndW(a, b) == [i \in 1..Len(a) |-> a[i] & b[i]]
OrW(a, b)  == [i \in 1..Len(a) |-> a[i] | b[i]]

Shl(w, k) ==
    LET n == Len(w)
        q == k \div 8
        r == k % 8
        g(i) == IF i >= 1 /\ i <= n THEN w[i] ELSE 0
    IN [i \in 1..n |-> ((g(i - q) * Pow2[r + 1]) % 256) + (g(i - q - 1) \div Pow2[8 - r + 1])]

Shr(w, k) ==
    LET n == Len(w)
        q == k \div 8
        r == k % 8
        g(i) == IF i >= 1 /\ i <= n THEN w[i] ELSE 0
    IN [i \in 1..n |-> (g(i + q) \div Pow2[r + 1]) + ((g(i + q + 1) * Pow2[8 - r + 1]) % 256)]

\* 0 < k < 8*Len(w)
Rotl(w, k) == LET l == Shl(w, k)
                  h == Shr(w, 8 * Len(w) - k)
              IN [i \in 1..Len(w) |-> l[i] + h[i]]

\* unsigned comparison
Less(a, b) ==
    LET n == Len(a)
        RECURSIVE go(_)
        go(i) == IF i = 0 THEN FALSE
                 ELSE IF a[i] < b[i] THEN TRUE
                 ELSE IF a[i] > b[i] THEN FALSE
                 ELSE go(i - 1)
    IN go(n)

IsNeg(w) == w[Len(w)] >= 128
\* signed (two's complement) comparison
SLess(a, b) == IF IsNeg(a) # IsNeg(b) THEN IsNeg(a) ELSE Less(a, b)

Bit(w, k) == (w[(k \div 8) + 1] \div Pow2[(k % 8) + 1]) % 2       \* k-th bit, k from 0
=============================================================================
