------------------------------ MODULE Varint ------------------------------
(* ULEB128 varints and zig-zag, on TLC naturals (values < 2^31) and on 8-limb words (W).   *)
(* Parsers take (bytes, pos) with 1-based pos and return [ok, v, p] (p = next position)    *)
(* or [ok |-> FALSE, why].                                                                 *)
EXTENDS Naturals, Sequences, SequencesExt, W

Bad(why) == [ok |-> FALSE, why |-> why]

\* ---------- naturals (< 2^31) ----------
RECURSIVE UvarNatEnc(_)
UvarNatEnc(x) == IF x < 128 THEN <<x>> ELSE <<128 + (x % 128)>> \o UvarNatEnc(x \div 128)

\* over-long form with exactly k bytes (k >= minimal length, k <= 5): legal ULEB128
UvarNatEncLen(x, k) ==
    [i \in 1..k |-> LET d == IF i <= 4 THEN (x \div (<<1, 128, 16384, 2097152>>)[i]) % 128
                              ELSE (x \div 268435456) % 128
                    IN IF i < k THEN 128 + d ELSE d]

Pow128 == <<1, 128, 16384, 2097152, 268435456>>
\* parse at most 5 bytes; value must fit 31 bits (else "wide": representable only with W)
UvarNatParse(bs, pos) ==
    LET RECURSIVE go(_, _, _)
        go(p, i, acc) ==
            IF p > Len(bs) THEN Bad("truncated-varint")
            ELSE IF i > 5 THEN Bad("varint-too-long")
            ELSE LET b == bs[p]
                     d == b % 128
                 IN IF i = 5 /\ d > 7 THEN Bad("varint-wide")
                    ELSE LET acc2 == acc + d * Pow128[i]
                         IN IF b < 128 THEN [ok |-> TRUE, v |-> acc2, p |-> p + 1]
                            ELSE go(p + 1, i + 1, acc2)
    IN go(pos, 1, 0)

\* ---------- 64-bit words ----------
IsZeroW(w) == \A i \in 1..Len(w) : w[i] = 0
RECURSIVE UvarWEnc(_)
UvarWEnc(w) == LET lo == w[1] % 128
                   rest == Shr(w, 7)
               IN IF IsZeroW(rest) THEN <<lo>> ELSE <<128 + lo>> \o UvarWEnc(rest)

\* parse up to 10 bytes into an 8-limb word (bits beyond 64 are dropped, as decoders do)
UvarWParse(bs, pos) ==
    LET RECURSIVE go(_, _, _)
        go(p, i, acc) ==
            IF p > Len(bs) THEN Bad("truncated-varint")
            ELSE IF i > 10 THEN Bad("varint-too-long")
            ELSE LET b == bs[p]
                     acc2 == OrW(acc, Shl(FromNat(b % 128, 8), 7 * (i - 1)))
                 IN IF b < 128 THEN [ok |-> TRUE, v |-> acc2, p |-> p + 1]
                    ELSE go(p + 1, i + 1, acc2)
    IN go(pos, 1, Zero(8))

\* zig-zag on n-limb two's complement words: (x << 1) ^ (x >> (bits-1) arithmetic)
ZigZagEnc(w) == LET n == Len(w) IN XorW(Shl(w, 1), IF IsNeg(w) THEN Ones(n) ELSE Zero(n))
ZigZagDec(u) == LET n == Len(u) IN XorW(Shr(u, 1), IF u[1] % 2 = 1 THEN Ones(n) ELSE Zero(n))

\* signed small integers <-> words (|x| < 2^31), sign given separately because Naturals only
FromInt(neg, mag, n) == IF neg THEN Neg(FromNat(mag, n)) ELSE FromNat(mag, n)
=============================================================================
