------------------------------- MODULE Plain -------------------------------
(* Parquet PLAIN encoding (Encodings.md "Plain: (PLAIN = 0)") for the 8 physical types.     *)
(* Types are the parquet.thrift Type enum numbers:                                          *)
(*   0 BOOLEAN  1 INT32  2 INT64  3 INT96  4 FLOAT  5 DOUBLE  6 BYTE_ARRAY  7 FIXED_LEN_BYTE_ARRAY *)
(* A value is its little-endian byte string (so "bit-identical" is equality of sequences);  *)
(* a BOOLEAN value is 0 or 1 and is bit-packed LSB first; a BYTE_ARRAY value is its bytes   *)
(* and is written as a 4-byte little-endian length followed by the bytes.                   *)
EXTENDS Naturals, Sequences, SequencesExt, Bytes

BOOLEAN_T == 0  INT32_T == 1  INT64_T == 2  INT96_T == 3
FLOAT_T == 4    DOUBLE_T == 5 BYTE_ARRAY_T == 6  FLBA_T == 7

PBad(why) == [ok |-> FALSE, why |-> why]

Width(t, tlen) == CASE t = INT32_T -> 4 [] t = INT64_T -> 8 [] t = INT96_T -> 12
                    [] t = FLOAT_T -> 4 [] t = DOUBLE_T -> 8 [] t = FLBA_T -> tlen [] OTHER -> 0

PP2 == <<1, 2, 4, 8, 16, 32, 64, 128>>
PackBools(bits) ==
    LET n == Len(bits)
    IN [i \in 1..((n + 7) \div 8) |->
          FoldLeft(LAMBDA acc, b : LET k == 8 * (i - 1) + b
                                   IN IF k <= n THEN acc + bits[k] * PP2[b] ELSE acc,
                   0, <<1, 2, 3, 4, 5, 6, 7, 8>>)]

Ser(t, tlen, vals) ==
    IF t = BOOLEAN_T THEN PackBools(vals)
    ELSE IF t = BYTE_ARRAY_T THEN Flatten([i \in 1..Len(vals) |-> LE(Len(vals[i]), 4) \o vals[i]])
    ELSE Flatten(vals)

\* Parse n values starting at 1-based position pos; [ok, vals, p] with p the next position.
Parse(t, tlen, bs, pos, n) ==
    IF t = BOOLEAN_T THEN
        LET nb == (n + 7) \div 8
        IN IF ~HasBytes(bs, pos, nb) THEN PBad("plain-truncated")
           ELSE [ok |-> TRUE, p |-> pos + nb,
                 vals |-> [k \in 1..n |-> (bs[pos + ((k - 1) \div 8)] \div PP2[((k - 1) % 8) + 1]) % 2]]
    ELSE IF t = BYTE_ARRAY_T THEN
        LET RECURSIVE go(_, _)
            go(p, acc) ==
                IF Len(acc) = n THEN [ok |-> TRUE, vals |-> acc, p |-> p]
                ELSE IF ~HasBytes(bs, p, 4) THEN PBad("plain-truncated-length")
                ELSE IF bs[p + 3] >= 128 THEN PBad("plain-negative-length")
                ELSE LET l == FromLE(Slice(bs, p, 4))
                     IN IF ~HasBytes(bs, p + 4, l) THEN PBad("plain-truncated-bytes")
                        ELSE go(p + 4 + l, Append(acc, Slice(bs, p + 4, l)))
        IN go(pos, <<>>)
    ELSE LET w == Width(t, tlen)
         IN IF w = 0 THEN PBad("plain-bad-type")
            ELSE IF ~HasBytes(bs, pos, n * w) THEN PBad("plain-truncated")
            ELSE [ok |-> TRUE, p |-> pos + n * w,
                  vals |-> [k \in 1..n |-> Slice(bs, pos + (k - 1) * w, w)]]
=============================================================================
