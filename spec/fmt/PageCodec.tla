------------------------------ MODULE PageCodec ------------------------------
(* Page body (de)compression for the reference reader / writer.                             *)
(*   0 UNCOMPRESSED: identity                                                              *)
(*   1 SNAPPY: raw Snappy block (Snappy.tla)                                                *)
(*   7 LZ4_RAW: LZ4 block (Lz4.tla)                                                         *)
(*   5 LZ4 (deprecated): readers in the field accept a raw LZ4 block under this id as well  *)
(*     as the Hadoop framing; the reference reader takes the raw block (weakest reading).   *)
(*   2 GZIP, 6 ZSTD: the entropy-coded forms (deflate Huffman blocks, zstd compressed       *)
(*     blocks) are not transcribed into TLA+; the STORED forms are: a gzip member made of   *)
(*     deflate stored blocks (RFC 1951 3.2.4, RFC 1952) and a zstd frame made of raw        *)
(*     blocks (RFC 8878 3.1.1), with or without Frame_Content_Size. They are what the        *)
(*     reference WRITER emits for those codecs (valid streams any conforming decoder must    *)
(*     accept) and what the reference reader can decode; anything else under those ids is    *)
(*     reported as "codec-not-modelled" (carquet-written files: layout-only parse).          *)
EXTENDS Naturals, Sequences, SequencesExt, PageCodecFull, Crc32
CodecBad(why) == [ok |-> FALSE, why |-> why]
LE4(n) == <<n % 256, (n \div 256) % 256, (n \div 65536) % 256, (n \div 16777216) % 256>>
\* the body cut into pieces of at most k bytes (at least one piece, possibly empty)
RECURSIVE Pieces(_, _)
Pieces(b, k) == IF Len(b) <= k THEN <<b>> ELSE <<SubSeq(b, 1, k)>> \o Pieces(SubSeq(b, k + 1, Len(b)), k)
\* ---- gzip member of stored deflate blocks
GzipStored(body) ==
    LET ps == Pieces(body, IF Len(body) % 3 = 0 THEN 7 ELSE 65535)        \* sometimes many small blocks
        blk(i) == LET d == ps[i] n == Len(d)
                  IN <<IF i = Len(ps) THEN 1 ELSE 0, n % 256, n \div 256, 255 - (n % 256), 255 - (n \div 256)>> \o d
    IN <<31, 139, 8, 0, 0, 0, 0, 0, 0, 255>> \o FoldLeft(LAMBDA acc, i : acc \o blk(i), <<>>, [i \in 1..Len(ps) |-> i])
       \o AsLE(Crc32(body)) \o LE4(Len(body))
\* ---- zstd frame of raw blocks; even lengths: no Frame_Content_Size (window descriptor instead), odd: 4-byte size
ZstdRaw(body) ==
    LET n == Len(body)
        ps == Pieces(body, IF n % 3 = 0 THEN 5 ELSE 100000)
        hdr(i) == LET v == Len(ps[i]) * 8 + (IF i = Len(ps) THEN 1 ELSE 0) IN <<v % 256, (v \div 256) % 256, v \div 65536>>
        blocks == FoldLeft(LAMBDA acc, i : acc \o hdr(i) \o ps[i], <<>>, [i \in 1..Len(ps) |-> i])
    IN <<40, 181, 47, 253>> \o (IF n % 2 = 0 THEN <<0, 80>> ELSE <<160>> \o LE4(n)) \o blocks
\* ---- decoders of exactly these stored forms
GzipStoredDecode(s) ==
    IF Len(s) < 18 \/ SubSeq(s, 1, 4) # <<31, 139, 8, 0>> THEN CodecBad("codec-not-modelled")
    ELSE LET RECURSIVE go(_, _)
             go(p, acc) == IF p + 4 > Len(s) \/ s[p] \notin {0, 1} THEN CodecBad("codec-not-modelled")
                           ELSE LET n == s[p + 1] + 256 * s[p + 2]
                                IN IF s[p + 3] # 255 - s[p + 1] \/ s[p + 4] # 255 - s[p + 2] \/ p + 4 + n > Len(s) THEN CodecBad("gzip-stored-block-invalid")
                                   ELSE IF s[p] = 1 THEN [ok |-> TRUE, v |-> acc \o SubSeq(s, p + 5, p + 4 + n), p |-> p + 5 + n]
                                   ELSE go(p + 5 + n, acc \o SubSeq(s, p + 5, p + 4 + n))
             r == go(11, <<>>)
         IN IF ~r.ok THEN r
            ELSE IF r.p + 7 # Len(s) THEN CodecBad("gzip-trailer-missing")
            ELSE IF SubSeq(s, r.p, r.p + 3) # AsLE(Crc32(r.v)) \/ SubSeq(s, r.p + 4, r.p + 7) # LE4(Len(r.v)) THEN CodecBad("gzip-trailer-wrong")
            ELSE [ok |-> TRUE, v |-> r.v]
ZstdRawDecode(s) ==
    IF Len(s) < 6 \/ SubSeq(s, 1, 4) # <<40, 181, 47, 253>> \/ s[5] \notin {0, 160} THEN CodecBad("codec-not-modelled")
    ELSE LET start == IF s[5] = 0 THEN 7 ELSE 10
             RECURSIVE go(_, _)
             go(p, acc) == IF p + 2 > Len(s) THEN CodecBad("zstd-block-header-short")
                           ELSE LET v == s[p] + 256 * s[p + 1] + 65536 * s[p + 2]
                                    n == v \div 8
                                IN IF (v \div 2) % 4 # 0 THEN CodecBad("codec-not-modelled")
                                   ELSE IF p + 2 + n > Len(s) THEN CodecBad("zstd-raw-block-short")
                                   ELSE IF v % 2 = 1 THEN [ok |-> TRUE, v |-> acc \o SubSeq(s, p + 3, p + 2 + n), p |-> p + 3 + n]
                                   ELSE go(p + 3 + n, acc \o SubSeq(s, p + 3, p + 2 + n))
             r == go(start, <<>>)
         IN IF ~r.ok THEN r
            ELSE IF r.p # Len(s) + 1 THEN CodecBad("zstd-trailing-bytes")
            ELSE IF s[5] = 160 /\ SubSeq(s, 6, 9) # LE4(Len(r.v)) THEN CodecBad("zstd-content-size-wrong")
            ELSE [ok |-> TRUE, v |-> r.v]
Decompress(codec, body, ulen) ==
    IF codec = 0 THEN [ok |-> TRUE, v |-> body]
    ELSE IF codec = 1 THEN (LET r == SnappyDecompress(body) IN IF r.ok THEN [ok |-> TRUE, v |-> r.v] ELSE CodecBad("snappy-body-invalid"))
    ELSE IF codec \in {5, 7} THEN (LET r == Lz4Decompress(body, ulen) IN IF r.ok THEN [ok |-> TRUE, v |-> r.v] ELSE CodecBad("lz4-body-invalid"))
    ELSE IF codec = 2 THEN GzipStoredDecode(body)
    ELSE IF codec = 6 THEN ZstdRawDecode(body)
    ELSE CodecBad("codec-not-modelled")
\* reference compressors (with copies) for the reference writer
CompressRef(codec, body) ==
    IF codec = 1 THEN SnappyCompress(body)
    ELSE IF codec \in {5, 7} THEN Lz4Compress(body)
    ELSE IF codec = 2 THEN GzipStored(body)
    ELSE IF codec = 6 THEN ZstdRaw(body)
    ELSE body
=============================================================================
