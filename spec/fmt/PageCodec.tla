------------------------------ MODULE PageCodec ------------------------------
(* Page body decompression for the reference reader.                                       *)
(*   0 UNCOMPRESSED: identity.                                                             *)
(* Other codecs are added by instances that override Decompress (see PageCodecFull).       *)
EXTENDS Naturals, Sequences
CodecBad(why) == [ok |-> FALSE, why |-> why]
Decompress(codec, body, ulen) ==
    IF codec = 0 THEN [ok |-> TRUE, v |-> body]
    ELSE CodecBad("codec-not-modelled")
=============================================================================
