------------------------------ MODULE PageCodec ------------------------------
(* Page body (de)compression for the reference reader / writer.                             *)
(*   0 UNCOMPRESSED: identity                                                              *)
(*   1 SNAPPY: raw Snappy block (Snappy.tla)                                                *)
(*   7 LZ4_RAW: LZ4 block (Lz4.tla)                                                         *)
(*   5 LZ4 (deprecated): readers in the field accept a raw LZ4 block under this id as well  *)
(*     as the Hadoop framing; the reference reader takes the raw block (weakest reading).   *)
(*   2 GZIP, 6 ZSTD: not transcribed into TLA+ (inflate / zstd internals are out of reach   *)
(*     of the specification); page bodies of those codecs are not judged by the TLA+ reader. *)
EXTENDS Naturals, Sequences, PageCodecFull
CodecBad(why) == [ok |-> FALSE, why |-> why]
Decompress(codec, body, ulen) ==
    IF codec = 0 THEN [ok |-> TRUE, v |-> body]
    ELSE IF codec = 1 THEN (LET r == SnappyDecompress(body) IN IF r.ok THEN [ok |-> TRUE, v |-> r.v] ELSE CodecBad("snappy-body-invalid"))
    ELSE IF codec \in {5, 7} THEN (LET r == Lz4Decompress(body, ulen) IN IF r.ok THEN [ok |-> TRUE, v |-> r.v] ELSE CodecBad("lz4-body-invalid"))
    ELSE CodecBad("codec-not-modelled")
\* reference compressors (with copies) for the reference writer
CompressRef(codec, body) ==
    IF codec = 1 THEN SnappyCompress(body)
    ELSE IF codec \in {5, 7} THEN Lz4Compress(body)
    ELSE body
=============================================================================
