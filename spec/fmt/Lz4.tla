------------------------------- MODULE Lz4 -------------------------------
(* LZ4 block format, transcribed from lz4/doc/lz4_Block_format.md. No knowledge of carquet. *)
(*                                                                                          *)
(*   block    ::= sequence* last                                                            *)
(*   sequence ::= token  litlen-ext*  literals  offset(2, LE)  matchlen-ext*                *)
(*   last     ::= token  litlen-ext*  literals             (the block ends after literals)  *)
(*   token    = (min(L,15) << 4) | min(M-4,15);  a nibble of 15 is followed by bytes that   *)
(*              are added to the length, continuing while the byte is 255.                  *)
(*                                                                                          *)
(* Abstract syntax: a sequence of records [lit |-> chunk, off |-> 0..65535, ml |-> M]       *)
(* where ml >= 4 is a match and ml = 0 means "no match part" (only legal in last position). *)
(* Length encodings are unique in LZ4, so a token list has exactly one serialisation.       *)
EXTENDS Naturals, Sequences, SequencesExt, Bytes, Lz

Sq(lit, off, ml) == [lit |-> lit, off |-> off, ml |-> ml]
LastLits(lit)    == [lit |-> lit, off |-> 0, ml |-> 0]
MINMATCH == 4

HasMatch(s) == s.ml # 0
SeqOut(s)   == CLen(s.lit) + s.ml
OutLen(seqs) == FoldLeft(LAMBDA a, s : a + SeqOut(s), 0, seqs)

\* the list can be written down in the grammar (a match-less sequence ends the block)
Encodable(seqs) ==
    /\ Len(seqs) >= 1
    /\ \A i \in 1..Len(seqs) :
          /\ seqs[i].off \in 0..65535
          /\ (seqs[i].ml = 0 \/ seqs[i].ml >= MINMATCH)
          /\ (i < Len(seqs) => HasMatch(seqs[i]))

(* ---- semantics ----------------------------------------------------------------------- *)
Check(seqs) ==
    LET step(acc, s) ==      \* acc = <<produced, verdict>>
            IF acc[2] # "ok" THEN acc
            ELSE LET n == acc[1] + CLen(s.lit) IN
                 IF ~HasMatch(s) THEN <<n, "ok">>
                 ELSE IF s.off = 0 THEN <<n, "offset-zero">>
                 ELSE IF s.off > n THEN <<n, "offset-beyond-output">>
                 ELSE <<n + s.ml, "ok">>
    IN IF ~Encodable(seqs) THEN "not-encodable" ELSE FoldLeft(step, <<0, "ok">>, seqs)[2]
Valid(seqs) == Check(seqs) = "ok"

Apply(seqs) ==
    FoldLeft(LAMBDA out, s : LET o == out \o CBytes(s.lit) IN
                             IF HasMatch(s) THEN o \o CopyBytes(o, s.off, s.ml) ELSE o,
             <<>>, seqs)
ApplyR(seqs) ==
    FoldLeft(LAMBDA out, s : LET o == RApp(out, s.lit) IN
                             IF HasMatch(s) THEN RApp(o, RCopy(o, s.off, s.ml)) ELSE o,
             <<>>, seqs)

(* End-of-block rules ("End of block conditions" of the format document). They bind the     *)
(* *compressor*: a decoder is not required to reject blocks that break them.                *)
(*  1. the last sequence has only literals;                                                 *)
(*  2. the last 5 bytes of input are literals (so the last sequence has >= 5 literals),     *)
(*     unless the whole block is one literal-only sequence;                                 *)
(*  3. the last match starts at least 12 bytes before the end of the block                  *)
(*     (consequently inputs shorter than 13 bytes are stored as literals).                  *)
LastMatchStart(seqs) ==     \* output position (0-based) where the last match begins
    LET k == Len(seqs) - 1 IN OutLen(SubSeq(seqs, 1, k)) - seqs[k].ml
EndRule1(seqs) == ~HasMatch(seqs[Len(seqs)])
EndRule2(seqs) == Len(seqs) = 1 \/ CLen(seqs[Len(seqs)].lit) >= 5
EndRule3(seqs) == Len(seqs) = 1 \/ LastMatchStart(seqs) + 12 <= OutLen(seqs)
EndRules(seqs) == EndRule1(seqs) /\ EndRule2(seqs) /\ EndRule3(seqs)
FirstBrokenEndRule(seqs) ==
    IF ~EndRule1(seqs) THEN "last-sequence-has-match"
    ELSE IF ~EndRule2(seqs) THEN "last-literals-shorter-than-5"
    ELSE IF ~EndRule3(seqs) THEN "last-match-within-12-of-end" ELSE "ok"

\* a block every conforming decoder must accept
Conformant(seqs) == Valid(seqs) /\ EndRules(seqs)

(* ---- serialisation ------------------------------------------------------------------- *)
\* extension bytes for a length field whose nibble is 15; v = length - 15
LenExt(v) == [i \in 1..(v \div 255) |-> 255] \o <<v % 255>>

SeqHeader(s) ==
    LET L  == CLen(s.lit)
        ln == IF L >= 15 THEN 15 ELSE L
        mn == IF ~HasMatch(s) THEN 0 ELSE IF s.ml - MINMATCH >= 15 THEN 15 ELSE s.ml - MINMATCH
    IN <<(ln * 16) + mn>> \o (IF L >= 15 THEN LenExt(L - 15) ELSE <<>>)
SeqTrailer(s) ==
    IF ~HasMatch(s) THEN <<>>
    ELSE LE(s.off, 2) \o (IF s.ml - MINMATCH >= 15 THEN LenExt(s.ml - MINMATCH - 15) ELSE <<>>)

SerSeq(r, s) == RApp(RApp(RApp(r, B(SeqHeader(s))), s.lit), B(SeqTrailer(s)))
SerR(seqs) == FoldLeft(SerSeq, <<>>, seqs)
Ser(seqs)  == Flat(SerR(seqs))

(* ---- parsing ------------------------------------------------------------------------- *)
Bad(why) == [ok |-> FALSE, why |-> why]

\* extension bytes starting at p: [ok, v (sum), p (after)] ; ok = FALSE when the input ends
ReadExt(bs, p0) ==
    LET RECURSIVE go(_, _)
        go(p, acc) == IF p > Len(bs) THEN [ok |-> FALSE, v |-> acc, p |-> p]
                      ELSE IF bs[p] = 255 THEN go(p + 1, acc + 255)
                      ELSE [ok |-> TRUE, v |-> acc + bs[p], p |-> p + 1]
    IN go(p0, 0)

(* -> [ok, seqs, nib] or Bad(why); `nib` is the (unused) match nibble of the last token when *)
(* the block ends after literals. A block that ends right after a match parses to a list     *)
(* whose last element has a match (breaks end rule 1).                                       *)
(* (A fold over the byte positions, not a recursion over the sequences: linear time and       *)
(* constant evaluation depth also for blocks with tens of thousands of sequences.)            *)
Parse(bs) ==
    LET n == Len(bs)
        Sqn(sq, nx, nib) == [ok |-> TRUE, sq |-> sq, nx |-> nx, nib |-> nib]
        one(p) ==        \* the sequence whose token is at p: [ok, sq, nx, nib] or Bad(why)
            LET tok == bs[p]
                ln  == tok \div 16
                mn  == tok % 16
                le  == IF ln = 15 THEN ReadExt(bs, p + 1) ELSE [ok |-> TRUE, v |-> 0, p |-> p + 1]
            IN
            IF ~le.ok THEN Bad("truncated-literal-length")
            ELSE
            LET L == ln + le.v
                q == le.p + L           \* position after the literals
            IN
            IF ~HasBytes(bs, le.p, L) THEN Bad("truncated-literal")
            ELSE
            LET lits == B(SubSeq(bs, le.p, q - 1)) IN
            IF q > n THEN Sqn(LastLits(lits), n + 1, mn)
            ELSE IF ~HasBytes(bs, q, 2) THEN Bad("truncated-offset")
            ELSE
            LET off == bs[q] + (256 * bs[q + 1])
                me  == IF mn = 15 THEN ReadExt(bs, q + 2) ELSE [ok |-> TRUE, v |-> 0, p |-> q + 2]
            IN
            IF ~me.ok THEN Bad("truncated-match-length")
            ELSE Sqn(Sq(lits, off, MINMATCH + mn + me.v), me.p, 0)
        step(st, i) ==   \* st = [ok, nx (position of the next token), seqs, nib] or Bad(why)
            IF ~st.ok THEN st
            ELSE IF i < st.nx THEN st
            ELSE LET e == one(i) IN
                 IF ~e.ok THEN e ELSE [ok |-> TRUE, nx |-> e.nx, seqs |-> Append(st.seqs, e.sq), nib |-> e.nib]
        fin == FoldLeft(step, [ok |-> TRUE, nx |-> 1, seqs |-> <<>>, nib |-> 0], [i \in 1..n |-> i])
    IN IF ~fin.ok THEN fin
       ELSE IF fin.seqs = <<>> THEN Bad("empty-block")
       ELSE [ok |-> TRUE, seqs |-> fin.seqs, nib |-> fin.nib]

\* the reference decoder: [ok, out, strict] or Bad(why). strict = the block obeys everything
\* the format says about blocks (a decoder must accept it); ~strict = parsable and
\* executable, but it breaks an end-of-block rule or carries a stray nibble (a decoder may
\* accept it - then with exactly this output - or reject it).
Decode(bs) ==
    LET p == Parse(bs) IN
    IF ~p.ok THEN p
    ELSE IF Check(p.seqs) # "ok" THEN Bad(Check(p.seqs))
    ELSE [ok |-> TRUE, out |-> Apply(p.seqs), strict |-> EndRules(p.seqs) /\ p.nib = 0]

(* Does the (parsed) block decode to the given bytes x?  Element-wise, without building the  *)
(* output (see Snappy.Against): literals must equal their slice of x, a match (off, ml) at    *)
(* output position p needs 1 <= off <= p and x[p-off+1+((j-1)%off)] = x[p+j].                 *)
(* Equivalent to Check(seqs) = "ok" /\ Apply(seqs) = x (law checked in MC_Lz4Self).           *)
Against(seqs, x) ==
    LET n == Len(x)
        step(acc, s) ==      \* acc = <<p, verdict>>
            IF acc[2] # "ok" THEN acc
            ELSE LET p == acc[1]
                     L == CLen(s.lit)
                 IN
                 IF p + L > n THEN <<p, "output-longer-than-input">>
                 ELSE IF ~(\A j \in 1..L : CAt(s.lit, j) = x[p + j]) THEN <<p, "literal-differs-from-input">>
                 ELSE IF ~HasMatch(s) THEN <<p + L, "ok">>
                 ELSE LET q == p + L IN
                      IF s.off = 0 THEN <<q, "offset-zero">>
                      ELSE IF s.off > q THEN <<q, "offset-beyond-output">>
                      ELSE IF q + s.ml > n THEN <<q, "output-longer-than-input">>
                      ELSE IF \A j \in 1..s.ml : x[q - s.off + 1 + ((j - 1) % s.off)] = x[q + j] THEN <<q + s.ml, "ok">>
                      ELSE <<q, "match-differs-from-input">>
        r == IF ~Encodable(seqs) THEN <<0, "not-encodable">> ELSE FoldLeft(step, <<0, "ok">>, seqs)
    IN IF r[2] # "ok" THEN r[2] ELSE IF r[1] # n THEN "output-shorter-than-input" ELSE "ok"

DecodeInto(bs, cap) ==
    LET d == Decode(bs) IN
    IF d.ok /\ Len(d.out) > cap THEN Bad("output-exceeds-capacity") ELSE d
=============================================================================
