------------------------------ MODULE Hybrid ------------------------------
(* Parquet RLE / bit-packed hybrid (Encodings.md "Run Length Encoding / Bit-Packing        *)
(* Hybrid"), on naturals (bit width bw <= 31).                                              *)
(*   stream  := run*                                                                       *)
(*   rle run := varint(count << 1)  value in ceil(bw/8) little-endian bytes                 *)
(*   bp run  := varint((groups << 1) | 1)  groups * bw bytes (groups of 8 values, LSB first)*)
(* Abstract run list: [k |-> "rle", n, v] | [k |-> "bp", vals] with Len(vals) % 8 = 0       *)
(* (a final partial group is padded with arbitrary values by the writer).                  *)
(* Zero-length runs (n = 0, or zero groups) are legal and decode to nothing.               *)
EXTENDS Naturals, Sequences, SequencesExt, Bytes, Varint, BitPack

ValBytes(bw) == (bw + 7) \div 8

SerRun(r, bw) ==
    IF r.k = "rle" THEN UvarNatEnc(2 * r.n) \o LE(r.v, ValBytes(bw))
    ELSE UvarNatEnc(2 * (Len(r.vals) \div 8) + 1) \o Pack(r.vals, bw)

Ser(runs, bw) == Flatten([i \in 1..Len(runs) |-> SerRun(runs[i], bw)])
SerPrefixed(runs, bw) == LET b == Ser(runs, bw) IN LE(Len(b), 4) \o b

\* values a run list stands for (before truncation to the value count)
RunVals(r) == IF r.k = "rle" THEN [i \in 1..r.n |-> r.v] ELSE r.vals
Expand(runs) == Flatten([i \in 1..Len(runs) |-> RunVals(runs[i])])

Mask(v, bw) == IF bw >= 31 THEN v ELSE v % P2[bw]

\* Parse the first n values of the stream occupying bs[pos .. pos+len-1].
\* Result: [ok, vals, p] where p is the position after the last run touched, or Bad.
\* A decoder stops as soon as it has n values; bytes after that point are not examined.
Parse(bs, pos, len, bw, n) ==
    LET end == pos + len          \* exclusive
        vb == ValBytes(bw)
        RECURSIVE go(_, _)
        go(p, acc) ==
            IF Len(acc) >= n THEN [ok |-> TRUE, vals |-> SubSeq(acc, 1, n), p |-> p]
            ELSE IF p >= end THEN Bad("hybrid-short")
            ELSE LET h == UvarNatParse(bs, p)
                 IN IF ~h.ok THEN h
                    ELSE IF h.p > end THEN Bad("truncated-varint")
                    ELSE IF h.v % 2 = 0
                    THEN LET cnt == h.v \div 2
                         IN \* the grammar gives every rle run its value bytes, also a zero-length one
                            IF h.p + vb > end THEN Bad("hybrid-truncated-rle")
                            ELSE IF vb = 4 /\ bs[h.p + 3] >= 128 THEN Bad("rle-value-wide")
                            ELSE LET v == Mask(FromLE(Slice(bs, h.p, vb)), bw)
                                     take == Min2(cnt, n - Len(acc))
                                 IN go(h.p + vb, acc \o [i \in 1..take |-> v])
                    ELSE LET groups == h.v \div 2
                             need == n - Len(acc)
                             \* a decoder only needs the groups that hold values it returns
                             g == Min2(groups, (need + 7) \div 8)
                         IN IF bw > 0 /\ groups > len THEN Bad("hybrid-truncated-bp")      \* (also keeps groups * bw a small number)
                            ELSE IF h.p + g * bw > end THEN Bad("hybrid-truncated-bp")
                            ELSE go(h.p + groups * bw, acc \o Unpack(bs, h.p, bw, Min2(8 * g, need)))
    IN go(pos, <<>>)

\* ---- the whole stream as a run list (what a streaming decoder walks through) ----
\* [ok, runs, p]; every run of the stream bs[pos .. pos+len-1], incl. zero-length runs and the padding
\* of a final group. ok = FALSE (with the runs before the damage) if the stream is cut inside a run.
ParseRuns(bs, pos, len, bw) ==
    LET end == pos + len
        vb == ValBytes(bw)
        RECURSIVE go(_, _)
        go(p, acc) ==
            IF p >= end THEN [ok |-> TRUE, runs |-> acc, p |-> p]
            ELSE LET h == UvarNatParse(bs, p)
                 IN IF ~h.ok \/ h.p > end THEN [ok |-> FALSE, runs |-> acc, p |-> p, why |-> "truncated-varint"]
                    ELSE IF h.v % 2 = 0
                    THEN IF h.p + vb > end THEN [ok |-> FALSE, runs |-> acc, p |-> p, why |-> "hybrid-truncated-rle"]
                         ELSE IF vb = 4 /\ bs[h.p + 3] >= 128 THEN [ok |-> FALSE, runs |-> acc, p |-> p, why |-> "rle-value-wide"]
                         ELSE go(h.p + vb, Append(acc, [k |-> "rle", n |-> h.v \div 2,
                                                        v |-> Mask(FromLE(Slice(bs, h.p, vb)), bw)]))
                    ELSE LET groups == h.v \div 2
                         IN IF (bw > 0 /\ groups > len) \/ h.p + groups * bw > end THEN [ok |-> FALSE, runs |-> acc, p |-> p, why |-> "hybrid-truncated-bp"]
                            ELSE IF groups > 4096 THEN [ok |-> FALSE, runs |-> acc, p |-> p, why |-> "run-beyond-model"]
                            ELSE go(h.p + groups * bw, Append(acc, [k |-> "bp", vals |-> Unpack(bs, h.p, bw, 8 * groups)]))
    IN go(pos, <<>>)

\* the stream is a sequence of complete runs (no values are materialised)
WellFormed(bs, pos, len, bw) ==
    LET end == pos + len
        vb == ValBytes(bw)
        RECURSIVE go(_)
        go(p) ==
            IF p >= end THEN TRUE
            ELSE LET h == UvarNatParse(bs, p)
                 IN IF ~h.ok \/ h.p > end THEN FALSE
                    ELSE IF h.v % 2 = 0 THEN (IF h.p + vb > end THEN FALSE ELSE go(h.p + vb))
                    ELSE LET groups == h.v \div 2
                         IN IF bw > 0 /\ groups > len THEN FALSE
                            ELSE IF h.p + groups * bw > end THEN FALSE ELSE go(h.p + groups * bw)
    IN go(pos)

\* ---- 32-bit variant: values are 4-limb words (W), any bw <= 32 ----
SerRunW(r, bw) ==
    IF r.k = "rle" THEN UvarNatEnc(2 * r.n) \o SubSeq(r.v, 1, ValBytes(bw))
    ELSE UvarNatEnc(2 * (Len(r.vals) \div 8) + 1) \o PackW(r.vals, bw)
SerW(runs, bw) == Flatten([i \in 1..Len(runs) |-> SerRunW(runs[i], bw)])

ParseW(bs, pos, len, bw, n) ==
    LET end == pos + len
        vb == ValBytes(bw)
        RECURSIVE go(_, _)
        go(p, acc) ==
            IF Len(acc) >= n THEN [ok |-> TRUE, vals |-> SubSeq(acc, 1, n), p |-> p]
            ELSE IF p >= end THEN Bad("hybrid-short")
            ELSE LET h == UvarNatParse(bs, p)
                 IN IF ~h.ok THEN h
                    ELSE IF h.p > end THEN Bad("truncated-varint")
                    ELSE IF h.v % 2 = 0
                    THEN LET cnt == h.v \div 2
                         IN IF h.p + vb > end THEN Bad("hybrid-truncated-rle")
                            ELSE LET v == MaskW(Resize(Slice(bs, h.p, vb), 4), bw)
                                     take == Min2(cnt, n - Len(acc))
                                 IN go(h.p + vb, acc \o [i \in 1..take |-> v])
                    ELSE LET groups == h.v \div 2
                             need == n - Len(acc)
                             g == Min2(groups, (need + 7) \div 8)
                         IN IF bw > 0 /\ groups > len THEN Bad("hybrid-truncated-bp")
                            ELSE IF h.p + g * bw > end THEN Bad("hybrid-truncated-bp")
                            ELSE go(h.p + groups * bw, acc \o UnpackW(bs, h.p, bw, Min2(8 * g, need), 4))
    IN go(pos, <<>>)

ParsePrefixed(bs, pos, bw, n) ==
    IF pos + 4 > Len(bs) + 1 THEN Bad("level-prefix-truncated")
    ELSE IF bs[pos + 3] >= 128 THEN Bad("level-block-truncated")      \* length >= 2^31: longer than any stream held here
    ELSE LET l == FromLE(Slice(bs, pos, 4))
         IN IF l > Len(bs) \/ pos + 4 + l > Len(bs) + 1 THEN Bad("level-block-truncated")
            ELSE LET r == Parse(bs, pos + 4, l, bw, n)
                 IN IF r.ok THEN [ok |-> TRUE, vals |-> r.vals, p |-> pos + 4 + l] ELSE r
=============================================================================
