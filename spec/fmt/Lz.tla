------------------------------- MODULE Lz -------------------------------
(* Common ground of the LZ77 block formats (Snappy, LZ4): byte ropes and the copy step.   *)
(*                                                                                         *)
(* A *chunk* is either explicit bytes  [b |-> <<..>>]  or a fill descriptor                 *)
(* [n |-> count, s |-> seed, o |-> start]  whose i-th byte (i from 1) is                    *)
(* FillByte(s, o + i - 1).  A *rope* is a sequence of chunks.  Ropes let the format specs   *)
(* talk about megabyte literals (4-byte Snappy literal lengths, 64 KiB offsets) without TLC *)
(* ever materialising them: the replayer expands fill chunks with the same formula.         *)
EXTENDS Naturals, Sequences, SequencesExt, Bytes

B(bs)      == [b |-> bs]
F(n, s, o) == [n |-> n, s |-> s, o |-> o]
IsFill(c)  == "n" \in DOMAIN c
CLen(c)    == IF IsFill(c) THEN c.n ELSE Len(c.b)

\* i counts from 0; all intermediate values stay far below 2^31 for i < 2^30
FillByte(s, i) == (((i % 251) * 7) + ((i \div 251) % 256) + s) % 256
CAt(c, i)  == IF IsFill(c) THEN FillByte(c.s, c.o + i - 1) ELSE c.b[i]          \* i from 1
CBytes(c)  == IF IsFill(c) THEN [i \in 1..c.n |-> FillByte(c.s, c.o + i - 1)] ELSE c.b

RLen(r) == FoldLeft(LAMBDA a, c : a + CLen(c), 0, r)

\* byte at 1-based position p of rope r (linear scan over the chunks)
RAt(r, p) ==
    LET RECURSIVE go(_, _)
        go(k, q) == IF q <= CLen(r[k]) THEN CAt(r[k], q) ELSE go(k + 1, q - CLen(r[k]))
    IN go(1, p)

Flat(r) == FoldLeft(LAMBDA acc, c : acc \o CBytes(c), <<>>, r)

\* append a chunk, merging adjacent explicit chunks and dropping empty ones
RApp(r, c) == IF CLen(c) = 0 THEN r
              ELSE IF r # <<>> /\ ~IsFill(c) /\ ~IsFill(r[Len(r)])
                   THEN [r EXCEPT ![Len(r)] = B(@.b \o c.b)]
                   ELSE Append(r, c)
RCat(r1, r2) == FoldLeft(RApp, r1, r2)

\* first k bytes of a rope (k <= RLen(r))
RTake(r, k) ==
    LET step(acc, c) ==      \* acc = <<rope, remaining>>
            IF acc[2] = 0 THEN acc
            ELSE IF CLen(c) <= acc[2] THEN <<RApp(acc[1], c), acc[2] - CLen(c)>>
            ELSE IF IsFill(c) THEN <<RApp(acc[1], F(acc[2], c.s, c.o)), 0>>
                 ELSE <<RApp(acc[1], B(SubSeq(c.b, 1, acc[2]))), 0>>
    IN FoldLeft(step, <<<<>>, k>>, r)[1]

(* ---- the LZ77 copy step ------------------------------------------------------------ *)
(* Normative definition: the copy proceeds byte by byte, each byte reading the output as  *)
(* extended so far ("offset < length" repeats the last `off` bytes).                      *)
CopyDef(out, off, len) ==
    FoldLeft(LAMBDA o, i : Append(o, o[Len(o) - off + 1]), out, [i \in 1..len |-> i])

\* closed form of the bytes appended by CopyDef (checked equal in MC_SnappySelf)
CopyBytes(out, off, len) == [i \in 1..len |-> out[Len(out) - off + 1 + ((i - 1) % off)]]
RCopy(r, off, len) == LET n == RLen(r)
                      IN B([i \in 1..len |-> RAt(r, n - off + 1 + ((i - 1) % off))])

\* a small explicit test pattern
Pat(n, s) == [i \in 1..n |-> ((i * 37) + (s * 101) + ((i * i) % 7)) % 256]
=============================================================================
