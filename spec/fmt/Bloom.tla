------------------------------- MODULE Bloom -------------------------------
(* Parquet split-block Bloom filter (parquet-format/BloomFilter.md), over a byte array.    *)
(* A filter is a byte sequence whose length is a multiple of 32; block b occupies bytes    *)
(* 32b+1 .. 32b+32 (1-based) as eight little-endian 32-bit words.                          *)
EXTENDS Naturals, Sequences, SequencesExt, Bitwise, W, XxHash64

SALT == << <<123, 19, 182, 71>>,  \* 0x47b6137b
           <<145, 77, 151, 68>>,  \* 0x44974d91
           <<91, 173, 36, 136>>,  \* 0x8824ad5b
           <<157, 40, 183, 162>>, \* 0xa2b7289d
           <<199, 149, 84, 112>>, \* 0x705495c7
           <<75, 66, 241, 45>>,   \* 0x2df1424b
           <<71, 73, 252, 158>>,  \* 0x9efc4947
           <<49, 251, 107, 92>> >>  \* 0x5c6bfb31

\* size rule: at least one block, rounded up to whole 32-byte blocks
RoundSize(n) == IF n < 32 THEN 32 ELSE ((n + 31) \div 32) * 32

Fresh(nbytes) == [i \in 1..RoundSize(nbytes) |-> 0]

NumBlocks(f) == Len(f) \div 32

\* block index = ((h >> 32) * num_blocks) >> 32   (multiply-shift, not modulo)
BlockIndex(h, nblocks) ==
    LET hi == [i \in 1..8 |-> IF i <= 4 THEN h[i + 4] ELSE 0]
    IN ToNat(Shr(Mul(hi, FromNat(nblocks, 8)), 32))

\* bit position (0..31) selected in word i (1..8) by the low 32 bits of the hash
BitPos(h, i) == LET key == [k \in 1..4 |-> h[k]]
                IN Mul(key, SALT[i])[4] \div 8

\* 1-based byte index and bit mask inside the filter for word i of block b
ByteIdx(b, i, pos) == 32 * b + 4 * (i - 1) + (pos \div 8) + 1
BitMask(pos) == Pow2[(pos % 8) + 1]

InsertHash(f, h) ==
    LET b == BlockIndex(h, NumBlocks(f))
        touched == [i \in 1..8 |-> <<ByteIdx(b, i, BitPos(h, i)), BitMask(BitPos(h, i))>>]
    IN [k \in 1..Len(f) |->
          FoldLeft(LAMBDA acc, t : IF t[1] = k THEN acc | t[2] ELSE acc, f[k], touched)]

CheckHash(f, h) ==
    LET b == BlockIndex(h, NumBlocks(f))
    IN \A i \in 1..8 : (f[ByteIdx(b, i, BitPos(h, i))] & BitMask(BitPos(h, i))) # 0

Merge(d, s) == [k \in 1..Len(d) |-> d[k] | s[k]]

\* a value is hashed as XXH64(seed 0) of its PLAIN encoding (bytes given by the caller)
HashPlain(bs) == XXH64(bs, Zero(8))
=============================================================================
