--------------------------- MODULE ThriftCompact ---------------------------
(* Thrift compact protocol (thrift/doc/specs/thrift-compact-protocol.md): generic value    *)
(* trees <-> bytes.                                                                        *)
(*                                                                                         *)
(* Generic values (records, always with fields t and v):                                   *)
(*   [t |-> "bool",   v |-> BOOLEAN]                                                       *)
(*   [t |-> "byte",   v |-> 0..255]                    raw i8 byte                         *)
(*   [t |-> "i16" | "i32" | "i64", v |-> 8-limb word]  two's complement, sign-extended     *)
(*   [t |-> "double", v |-> 8 bytes]                   as stored (little-endian)           *)
(*   [t |-> "binary", v |-> bytes]                                                         *)
(*   [t |-> "uuid",   v |-> 16 bytes]                                                      *)
(*   [t |-> "list" | "set", et |-> type name, v |-> Seq(value)]                            *)
(*   [t |-> "map", kt, vt, v |-> Seq(<<key, value>>)]                                      *)
(*   [t |-> "struct", v |-> Seq([id |-> field id (Nat), val |-> value])]                   *)
(*                                                                                         *)
(* Every legal alternative encoding is a choice of the `sty` (style) record of Ser:        *)
(*   sty.longField  - always use the long field header (type byte + zigzag i16 id)         *)
(*   sty.longList   - always use the 0xF_ list header + varint size                        *)
(*   sty.padVarint  - write sizes as over-long (one extra continuation byte) varints       *)
(*   sty.falseByte  - byte used for FALSE elements of list<bool> (0 or 2, both occur)      *)
(*   sty.padInts    - (optional field) write zig-zag integers and long-form field ids as    *)
(*                    over-long varints (one extra continuation byte, at most 10 bytes)     *)
EXTENDS Naturals, Sequences, SequencesExt, Bytes, W, Varint

TypeId == [bool |-> 1, byte |-> 3, i16 |-> 4, i32 |-> 5, i64 |-> 6, double |-> 7, binary |-> 8,
           list |-> 9, set |-> 10, map |-> 11, struct |-> 12, uuid |-> 13]
TypeName(id) == CASE id = 1 -> "bool" [] id = 2 -> "bool" [] id = 3 -> "byte" [] id = 4 -> "i16"
                  [] id = 5 -> "i32" [] id = 6 -> "i64" [] id = 7 -> "double" [] id = 8 -> "binary"
                  [] id = 9 -> "list" [] id = 10 -> "set" [] id = 11 -> "map" [] id = 12 -> "struct"
                  [] id = 13 -> "uuid" [] OTHER -> "invalid"

DefaultStyle == [longField |-> FALSE, longList |-> FALSE, padVarint |-> FALSE, falseByte |-> 2]

\* ------------------------------------------------------------------ serialisation
SizeVar(n, sty) == IF sty.padVarint THEN UvarNatEncLen(n, Len(UvarNatEnc(n)) + 1) ELSE UvarNatEnc(n)
\* zig-zag varint of an 8-limb word. Fast paths on native integers for |w| < 2^30 (same result as
\* the general limb-wise definition UvarWEnc(ZigZagEnc(w)); MC_ThriftSelf checks the agreement)
ZzWordSlow(w) == UvarWEnc(ZigZagEnc(w))
SmallNatW(w) == FitsNat(w) /\ w[4] < 64
ZzWord(w) == IF SmallNatW(w) THEN UvarNatEnc(2 * ToNat(w))
             ELSE IF IsNeg(w) /\ SmallNatW(NotW(w)) THEN UvarNatEnc((2 * ToNat(NotW(w))) + 1)
             ELSE ZzWordSlow(w)
PadVar(bs) == [i \in 1..Len(bs) |-> IF i = Len(bs) THEN bs[i] + 128 ELSE bs[i]] \o <<0>>
HasPadInts(sty) == "padInts" \in DOMAIN sty /\ sty.padInts
ZzWordS(w, sty) == LET m == ZzWord(w) IN IF HasPadInts(sty) /\ Len(m) < 10 THEN PadVar(m) ELSE m

RECURSIVE SerVal(_, _)
SerFields(fs, sty) ==
    LET step(acc, f) ==
            LET prev == acc[2]
                isBool == f.val.t = "bool"
                tid == IF isBool THEN (IF f.val.v THEN 1 ELSE 2) ELSE TypeId[f.val.t]
                short == f.id > prev /\ f.id - prev <= 15 /\ ~sty.longField
                hdr == IF short THEN <<(f.id - prev) * 16 + tid>>
                       ELSE <<tid>> \o ZzWordS(FromNat(f.id, 8), sty)
                body == IF isBool THEN <<>> ELSE SerVal(f.val, sty)
            IN <<acc[1] \o hdr \o body, f.id>>
    IN FoldLeft(step, <<<<>>, 0>>, fs)[1] \o <<0>>

ElemTypeId(et) == TypeId[et]
SerListHdr(n, et, sty) == IF n < 15 /\ ~sty.longList THEN <<n * 16 + ElemTypeId(et)>>
                          ELSE <<240 + ElemTypeId(et)>> \o SizeVar(n, sty)

SerVal(x, sty) ==
    CASE x.t = "bool"   -> <<IF x.v THEN 1 ELSE sty.falseByte>>        \* only inside containers
      [] x.t = "byte"   -> <<x.v>>
      [] x.t \in {"i16", "i32", "i64"} -> ZzWordS(x.v, sty)
      [] x.t = "double" -> x.v
      [] x.t = "binary" -> SizeVar(Len(x.v), sty) \o x.v
      [] x.t = "uuid"   -> x.v
      [] x.t \in {"list", "set"} ->
            SerListHdr(Len(x.v), x.et, sty) \o Flatten([i \in 1..Len(x.v) |-> SerVal(x.v[i], sty)])
      [] x.t = "map" ->
            IF Len(x.v) = 0 THEN <<0>>
            ELSE SizeVar(Len(x.v), sty) \o <<TypeId[x.kt] * 16 + TypeId[x.vt]>>
                 \o Flatten([i \in 1..Len(x.v) |-> SerVal(x.v[i][1], sty) \o SerVal(x.v[i][2], sty)])
      [] x.t = "struct" -> SerFields(x.v, sty)

\* a top-level struct
TSer(x, sty) == SerVal(x, sty)

\* ------------------------------------------------------------------ parsing
\* All parsers: (bs, p) -> [ok |-> TRUE, v |-> value, p |-> next] | Bad(why). Total on any bytes.
MaxDepth == 64      \* the spec's own recursion guard; deeper inputs are reported as "too-deep"

I16OfZz(w) == w     \* values are kept as sign-extended 64-bit words
\* zig-zag varint at p -> sign-extended word. Encodings of at most 5 bytes and 31 bits take the
\* native-integer path; everything else the limb-wise one (identical results)
ZzParseSlow(bs, p) == LET z == UvarWParse(bs, p)
                      IN IF ~z.ok THEN z ELSE [ok |-> TRUE, v |-> ZigZagDec(z.v), p |-> z.p]
ZzParse(bs, p) == LET f == UvarNatParse(bs, p)
                  IN IF f.ok THEN [ok |-> TRUE, p |-> f.p,
                                   v |-> IF f.v % 2 = 0 THEN FromNat(f.v \div 2, 8) ELSE NotW(FromNat(f.v \div 2, 8))]
                     ELSE ZzParseSlow(bs, p)

RECURSIVE ParseVal(_, _, _, _)
\* parse `n` elements of type id tid
ParseElems(bs, p0, tid, n, depth) ==
    LET RECURSIVE go(_, _, _)
        go(p, k, acc) ==
            IF k = 0 THEN [ok |-> TRUE, v |-> acc, p |-> p]
            ELSE LET r == IF tid \in {1, 2}
                          THEN (IF p > Len(bs) THEN Bad("truncated-bool")
                                ELSE [ok |-> TRUE, v |-> [t |-> "bool", v |-> bs[p] = 1], p |-> p + 1])
                          ELSE ParseVal(bs, p, tid, depth)
                 IN IF ~r.ok THEN r ELSE go(r.p, k - 1, Append(acc, r.v))
    IN go(p0, n, <<>>)

ParseStruct(bs, p0, depth) ==
    LET RECURSIVE go(_, _, _)
        go(p, prev, acc) ==
            IF p > Len(bs) THEN Bad("truncated-struct")
            ELSE LET h == bs[p]
                 IN IF h = 0 THEN [ok |-> TRUE, v |-> [t |-> "struct", v |-> acc], p |-> p + 1]
                    ELSE LET tid == h % 16
                             delta == h \div 16
                             idr == IF delta # 0 THEN [ok |-> TRUE, id |-> prev + delta, p |-> p + 1, neg |-> FALSE]
                                    ELSE LET z == ZzParse(bs, p + 1)
                                         IN IF ~z.ok THEN z
                                            ELSE LET w == z.v
                                                 IN IF IsNeg(w) THEN [ok |-> TRUE, id |-> 0, p |-> z.p, neg |-> TRUE]
                                                    ELSE IF ~FitsNat(w) THEN Bad("field-id-wide")
                                                    ELSE [ok |-> TRUE, id |-> ToNat(w), p |-> z.p, neg |-> FALSE]
                         IN IF ~idr.ok THEN idr
                            ELSE IF idr.neg THEN Bad("negative-field-id")
                            ELSE IF idr.id > 32767 THEN Bad("field-id-exceeds-i16")
                            ELSE IF TypeName(tid) = "invalid" THEN Bad("invalid-type")
                            ELSE IF tid \in {1, 2}
                                 THEN go(idr.p, idr.id, Append(acc, [id |-> idr.id, val |-> [t |-> "bool", v |-> tid = 1]]))
                                 ELSE LET r == ParseVal(bs, idr.p, tid, depth)
                                      IN IF ~r.ok THEN r
                                         ELSE go(r.p, idr.id, Append(acc, [id |-> idr.id, val |-> r.v]))
    IN go(p0, 0, <<>>)

ParseVal(bs, p, tid, depth) ==
    IF depth > MaxDepth THEN Bad("too-deep")
    ELSE CASE tid = 3 -> IF p > Len(bs) THEN Bad("truncated-byte")
                         ELSE [ok |-> TRUE, v |-> [t |-> "byte", v |-> bs[p]], p |-> p + 1]
      [] tid \in {4, 5, 6} ->
            LET z == ZzParse(bs, p)
            IN IF ~z.ok THEN z ELSE [ok |-> TRUE, v |-> [t |-> TypeName(tid), v |-> z.v], p |-> z.p]
      [] tid = 7 -> IF ~HasBytes(bs, p, 8) THEN Bad("truncated-double")
                    ELSE [ok |-> TRUE, v |-> [t |-> "double", v |-> Slice(bs, p, 8)], p |-> p + 8]
      [] tid = 13 -> IF ~HasBytes(bs, p, 16) THEN Bad("truncated-uuid")
                     ELSE [ok |-> TRUE, v |-> [t |-> "uuid", v |-> Slice(bs, p, 16)], p |-> p + 16]
      [] tid = 8 ->
            LET z == UvarNatParse(bs, p)
            IN IF ~z.ok THEN z
               ELSE IF z.v > Len(bs) \/ ~HasBytes(bs, z.p, z.v) THEN Bad("truncated-binary")
               ELSE [ok |-> TRUE, v |-> [t |-> "binary", v |-> Slice(bs, z.p, z.v)], p |-> z.p + z.v]
      [] tid \in {9, 10} ->
            IF p > Len(bs) THEN Bad("truncated-list")
            ELSE LET h == bs[p]
                     et == h % 16
                     sz == IF h \div 16 = 15 THEN UvarNatParse(bs, p + 1)
                           ELSE [ok |-> TRUE, v |-> h \div 16, p |-> p + 1]
                 IN IF ~sz.ok THEN sz
                    ELSE IF TypeName(et) = "invalid" THEN Bad("invalid-elem-type")
                    ELSE IF sz.v > Len(bs) THEN Bad("list-size-exceeds-data")
                    ELSE LET es == ParseElems(bs, sz.p, et, sz.v, depth + 1)
                         IN IF ~es.ok THEN es
                            ELSE [ok |-> TRUE, v |-> [t |-> TypeName(tid), et |-> TypeName(et), v |-> es.v], p |-> es.p]
      [] tid = 11 ->
            LET sz == UvarNatParse(bs, p)
            IN IF ~sz.ok THEN sz
               ELSE IF sz.v = 0 THEN [ok |-> TRUE, v |-> [t |-> "map", kt |-> "byte", vt |-> "byte", v |-> <<>>], p |-> sz.p]
               ELSE IF sz.p > Len(bs) THEN Bad("truncated-map")
               ELSE IF sz.v > Len(bs) THEN Bad("map-size-exceeds-data")
               ELSE LET kt == bs[sz.p] \div 16
                        vt == bs[sz.p] % 16
                        RECURSIVE go(_, _, _)
                        go(q, k, acc) ==
                            IF k = 0 THEN [ok |-> TRUE, v |-> acc, p |-> q]
                            ELSE LET a == ParseElems(bs, q, kt, 1, depth + 1)
                                 IN IF ~a.ok THEN a
                                    ELSE LET b == ParseElems(bs, a.p, vt, 1, depth + 1)
                                         IN IF ~b.ok THEN b
                                            ELSE go(b.p, k - 1, Append(acc, <<a.v[1], b.v[1]>>))
                    IN IF TypeName(kt) = "invalid" \/ TypeName(vt) = "invalid" THEN Bad("invalid-map-type")
                       ELSE LET r == go(sz.p + 1, sz.v, <<>>)
                            IN IF ~r.ok THEN r
                               ELSE [ok |-> TRUE, v |-> [t |-> "map", kt |-> TypeName(kt), vt |-> TypeName(vt), v |-> r.v], p |-> r.p]
      [] tid = 12 -> ParseStruct(bs, p, depth + 1)
      [] OTHER -> Bad("invalid-type")

\* parse a top-level struct starting at p
TParse(bs, p) == ParseStruct(bs, p, 0)

\* ------------------------------------------------------------------ access helpers
HasField(s, id) == \E i \in 1..Len(s.v) : s.v[i].id = id
\* first occurrence wins? Thrift readers take fields in order; a later duplicate overwrites.
FieldIdx(s, id) == CHOOSE i \in 1..Len(s.v) : s.v[i].id = id /\ \A j \in (i + 1)..Len(s.v) : s.v[j].id # id
Field(s, id) == s.v[FieldIdx(s, id)].val
FieldOr(s, id, dflt) == IF HasField(s, id) THEN Field(s, id) ELSE dflt
FieldIs(s, id, types) == HasField(s, id) /\ Field(s, id).t \in types

\* small integers
I(n) == [t |-> "i32", v |-> FromNat(n, 8)]
L(n) == [t |-> "i64", v |-> FromNat(n, 8)]
INeg(n) == [t |-> "i32", v |-> Neg(FromNat(n, 8))]
Bin(bs) == [t |-> "binary", v |-> bs]
Bool(b) == [t |-> "bool", v |-> b]
Struct(fs) == [t |-> "struct", v |-> fs]
List(et, xs) == [t |-> "list", et |-> et, v |-> xs]
F(id, val) == [id |-> id, val |-> val]
IsSmallNat(x) == x.t \in {"i16", "i32", "i64"} /\ ~IsNeg(x.v) /\ FitsNat(x.v)
NatOf(x) == ToNat(x.v)
=============================================================================
