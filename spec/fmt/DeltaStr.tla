------------------------------ MODULE DeltaStr ------------------------------
(* DELTA_BYTE_ARRAY (Encodings.md "Delta Strings (= 7)"): prefix lengths as                  *)
(* DELTA_BINARY_PACKED, then the suffixes as DELTA_LENGTH_BYTE_ARRAY. String i is the first  *)
(* prefix[i] bytes of string i-1 followed by suffix[i].                                      *)
EXTENDS Naturals, Sequences, SequencesExt, Bytes, W
D == INSTANCE DeltaBP
DL == INSTANCE DeltaLen

Common(a, b) ==
    LET m == Min2(Len(a), Len(b))
        RECURSIVE go(_)
        go(i) == IF i > m THEN m ELSE IF a[i] # b[i] THEN i - 1 ELSE go(i + 1)
    IN go(1)

\* pmode: "max" longest common prefix, "zero" no sharing, "short" one byte less than possible.
\* Any prefix length <= the common prefix is a legal encoding of the same strings.
PrefixLens(strs, pmode) ==
    [i \in 1..Len(strs) |->
        IF i = 1 \/ pmode = "zero" THEN 0
        ELSE LET c == Common(strs[i - 1], strs[i])
             IN IF pmode = "short" /\ c > 0 THEN c - 1 ELSE c]

Ser(strs, o, pmode) ==
    LET pl == PrefixLens(strs, pmode)
    IN D!Ser([i \in 1..Len(strs) |-> FromNat(pl[i], 4)], 4, o)
       \o DL!Ser([i \in 1..Len(strs) |-> SubSeq(strs[i], pl[i] + 1, Len(strs[i]))], o)

Parse(bs, pos) ==
    LET d == D!Parse(bs, pos, 4)
    IN IF ~d.ok THEN d
       ELSE LET s == DL!Parse(bs, d.p)
            IN IF ~s.ok THEN s
               ELSE IF Len(s.vals) # Len(d.vals) THEN [ok |-> FALSE, why |-> "dstr-count-mismatch"]
               ELSE IF \E i \in 1..Len(d.vals) : ~FitsNat(d.vals[i]) THEN [ok |-> FALSE, why |-> "dstr-negative-prefix"]
               ELSE LET st == FoldLeft(LAMBDA a, i :
                                  LET pl == ToNat(d.vals[i])
                                  IN IF ~a[1] \/ pl > Len(a[2]) THEN <<FALSE, a[2], a[3]>>
                                     ELSE LET v == SubSeq(a[2], 1, pl) \o s.vals[i]
                                          IN <<TRUE, v, Append(a[3], v)>>,
                                  <<TRUE, <<>>, <<>>>>, [i \in 1..Len(d.vals) |-> i])
                    IN IF ~st[1] THEN [ok |-> FALSE, why |-> "dstr-prefix-longer-than-previous"]
                       ELSE [ok |-> TRUE, vals |-> st[3], p |-> s.p, maxw |-> Max2(d.maxw, s.maxw)]
=============================================================================
