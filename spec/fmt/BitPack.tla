------------------------------ MODULE BitPack ------------------------------
(* Parquet bit packing (LSB first, "RLE/bit-packed hybrid" flavour): the k-th value       *)
(* occupies bits [k*bw, (k+1)*bw) of the stream, bit j of the stream is bit (j % 8) of     *)
(* byte (j \div 8). Values are TLC naturals (bw <= 31) or limb words (any width <= 64).    *)
EXTENDS Naturals, Sequences, SequencesExt, W

P2 == [k \in 0..30 |-> 2^k]
MaxVal(bw) == IF bw >= 31 THEN 2147483647 ELSE P2[bw] - 1      \* largest bw-bit natural (bw <= 31)
NatBit(v, k) == (v \div P2[k]) % 2                     \* k \in 0..30

PackedSize(n, bw) == ((n * bw) + 7) \div 8

\* ---- naturals ----
Pack(vals, bw) ==
    LET n == Len(vals)
        bitAt(j) == IF j < n * bw THEN NatBit(vals[(j \div bw) + 1], j % bw) ELSE 0
    IN [i \in 1..PackedSize(n, bw) |->
          FoldLeft(LAMBDA acc, b : acc + bitAt(8 * (i - 1) + b) * P2[b], 0, <<0, 1, 2, 3, 4, 5, 6, 7>>)]

\* n values of width bw (<= 31) starting at 1-based byte position pos (caller checks bounds)
Unpack(bs, pos, bw, n) ==
    LET byteBit(j) == (bs[pos + (j \div 8)] \div P2[j % 8]) % 2
    IN [k \in 1..n |-> FoldLeft(LAMBDA acc, t : acc + byteBit((k - 1) * bw + t) * P2[t], 0,
                                [t \in 1..bw |-> t - 1])]

\* ---- limb words (width bw <= 8 * limbs) ----
\* reference definitions, bit by bit (kept for the self-check; slow)
PackWRef(words, bw) ==
    LET n == Len(words)
        bitAt(j) == IF j < n * bw THEN Bit(words[(j \div bw) + 1], j % bw) ELSE 0
    IN [i \in 1..PackedSize(n, bw) |->
          FoldLeft(LAMBDA acc, b : acc + bitAt(8 * (i - 1) + b) * P2[b], 0, <<0, 1, 2, 3, 4, 5, 6, 7>>)]
UnpackWRef(bs, pos, bw, n, limbs) ==
    LET byteBit(j) == (bs[pos + (j \div 8)] \div P2[j % 8]) % 2
        word(k) == [l \in 1..limbs |->
                      FoldLeft(LAMBDA acc, b : LET t == 8 * (l - 1) + b
                                               IN IF t < bw THEN acc + byteBit((k - 1) * bw + t) * P2[b] ELSE acc,
                               0, <<0, 1, 2, 3, 4, 5, 6, 7>>)]
    IN [k \in 1..n |-> word(k)]

\* the same functions computed bytewise. Byte i of the stream holds bits [8(i-1), 8i); value k
\* holds bits [(k-1)bw, k*bw): a byte is the sum of the (disjoint) pieces of the values that overlap it.
ByteOfShr(w, s) ==                                  \* byte 0 of (w >> s)
    LET q == s \div 8
        r == s % 8
        g(i) == IF i <= Len(w) THEN w[i] ELSE 0
    IN ((g(q + 1) \div P2[r]) + (g(q + 2) * P2[8 - r])) % 256
PackW(words, bw) ==
    LET n == Len(words)
        piece(k, bb) == LET vb == (k - 1) * bw
                            lo == [l \in 1..Len(words[k]) |-> IF 8 * l <= bw THEN words[k][l]
                                                               ELSE IF 8 * (l - 1) >= bw THEN 0
                                                               ELSE words[k][l] % P2[bw - 8 * (l - 1)]]
                        IN IF vb >= bb THEN (lo[1] * P2[vb - bb]) % 256 ELSE ByteOfShr(lo, bb - vb)
    IN IF bw = 0 THEN <<>>
       ELSE [i \in 1..PackedSize(n, bw) |->
               LET bb == 8 * (i - 1)
                   k1 == (bb \div bw) + 1
                   kx == ((bb + 7) \div bw) + 1
                   k2 == IF kx < n THEN kx ELSE n
               IN FoldLeft(LAMBDA acc, k : acc + piece(k, bb), 0, [j \in 1..(k2 - k1 + 1) |-> k1 + j - 1])]
UnpackW(bs, pos, bw, n, limbs) ==
    LET g(i) == IF i <= Len(bs) THEN bs[i] ELSE 0
        limb(k, l) == LET have == bw - 8 * (l - 1)                 \* bits of the value in this limb and above
                          o == (k - 1) * bw + 8 * (l - 1)
                          i == pos + (o \div 8)
                          r == o % 8
                          raw == ((g(i) \div P2[r]) + (g(i + 1) * P2[8 - r])) % 256
                      IN IF have <= 0 THEN 0 ELSE IF have >= 8 THEN raw ELSE raw % P2[have]
    IN [k \in 1..n |-> [l \in 1..limbs |-> limb(k, l)]]

\* smallest width that holds v
RECURSIVE WidthOf(_)
WidthOf(v) == IF v = 0 THEN 0 ELSE 1 + WidthOf(v \div 2)

\* ---- limb words: helpers used by the 32-bit hybrid and by DELTA_BINARY_PACKED ----
\* number of significant bits of a limb word
WidthW(w) ==
    LET RECURSIVE top(_)
        top(i) == IF i = 0 THEN 0 ELSE IF w[i] # 0 THEN 8 * (i - 1) + WidthOf(w[i]) ELSE top(i - 1)
    IN top(Len(w))
\* largest bw-bit value as a word of `limbs` limbs
MaxW(bw, limbs) == [l \in 1..limbs |-> IF 8 * l <= bw THEN 255
                                        ELSE IF 8 * (l - 1) >= bw THEN 0 ELSE P2[bw - 8 * (l - 1)] - 1]
\* keep the low bw bits
MaskW(w, bw) == LET m == MaxW(bw, Len(w)) IN [l \in 1..Len(w) |-> w[l] & m[l]]

\* ---- a bit stream of items of individual widths (bit_writer / bit_reader) ----
\* items: sequence of [w |-> width 0..64, v |-> 8-limb word]; item k occupies the next w bits, LSB first
PackItems(items) ==
    LET n == Len(items)
        offs == FoldLeft(LAMBDA a, it : Append(a, a[Len(a)] + it.w), <<0>>, items)      \* offs[k] = first bit of item k
        total == offs[n + 1]
        \* item holding bit j (linear scan, items are few)
        RECURSIVE find(_, _)
        find(j, k) == IF j < offs[k + 1] THEN k ELSE find(j, k + 1)
        bitAt(j) == IF j >= total THEN 0 ELSE LET k == find(j, 1) IN Bit(items[k].v, j - offs[k])
    IN [i \in 1..((total + 7) \div 8) |->
          FoldLeft(LAMBDA acc, b : acc + bitAt(8 * (i - 1) + b) * P2[b], 0, <<0, 1, 2, 3, 4, 5, 6, 7>>)]
\* inverse: items of widths ws (sequence of 0..64) read from bs; the stream must hold all the bits
UnpackItems(bs, ws) ==
    LET offs == FoldLeft(LAMBDA a, w : Append(a, a[Len(a)] + w), <<0>>, ws)
        byteBit(j) == (bs[(j \div 8) + 1] \div P2[j % 8]) % 2
        word(k) == [l \in 1..8 |->
                      FoldLeft(LAMBDA acc, b : LET t == 8 * (l - 1) + b
                                               IN IF t < ws[k] THEN acc + byteBit(offs[k] + t) * P2[b] ELSE acc,
                               0, <<0, 1, 2, 3, 4, 5, 6, 7>>)]
    IN [k \in 1..Len(ws) |-> word(k)]
=============================================================================
