--------------------------- MODULE ParquetThrift ---------------------------
(* parquet.thrift (apache/parquet-format) restricted to the structures carquet models:      *)
(* FileMetaData, SchemaElement, LogicalType (+ DecimalType, TimeType, TimeUnit, IntType),    *)
(* RowGroup, ColumnChunk, ColumnMetaData, Statistics, KeyValue, PageEncodingStats,           *)
(* PageHeader, DataPageHeader, DataPageHeaderV2, DictionaryPageHeader.                       *)
(*                                                                                         *)
(* `Schema` is the transcription of the IDL: per struct the field id, the wire type, the    *)
(* element type / struct name, and how the *abstract record* models optionality:           *)
(*   req  - always present on the wire; abstract value is the plain value                   *)
(*   opt  - abstract value is <<>> (absent) or <<v>> (present)                              *)
(*   dflt - the abstract record does not distinguish "absent" from "default value"          *)
(*          (0, empty binary, empty list, the IDL default of a bool): an encoder may emit   *)
(*          the field or not (choice x.explicit), Abs maps both to the default              *)
(* Abstract values: integers are 8-limb two's complement words (W), binaries/strings byte   *)
(* sequences, bools BOOLEAN, i8 a raw byte 0..255, lists sequences, structs records named   *)
(* by `n`. LogicalType is a union: [k |-> "STRING"], [k |-> "DECIMAL", scale, precision],    *)
(* [k |-> "TIME"|"TIMESTAMP", utc, unit |-> "MILLIS"|"MICROS"|"NANOS"],                      *)
(* [k |-> "INTEGER", bitWidth |-> 0..255, signed].                                          *)
(*                                                                                         *)
(*   ToTreeX(kind, a, x)  abstract record -> generic ThriftCompact tree; x.explicit chooses *)
(*                        to emit default-valued dflt fields; x.unk[kind] = insertions      *)
(*                        <<[at, id, val]>> of unknown fields into every struct of `kind`   *)
(*   Abs(kind, tree)      generic tree -> abstract record, ignoring unknown field ids       *)
(*   TypeErrs(kind, tree) names of deviations from the IDL: unknown ids, wrong wire types,  *)
(*                        missing required fields, i32/i16 values out of range              *)
(*   Proj(kind, a, keep)  abstract record with the fields outside keep[kind] defaulted      *)
EXTENDS Naturals, Sequences, SequencesExt, TLC, Bytes, W, Varint, ThriftCompact

\* ------------------------------------------------------------------ the IDL table
Fd(id, n, ty, mode)       == [id |-> id, n |-> n, ty |-> ty, et |-> "", sub |-> "", mode |-> mode, d |-> FALSE]
FdB(id, n, mode, d)       == [id |-> id, n |-> n, ty |-> "bool", et |-> "", sub |-> "", mode |-> mode, d |-> d]
FdS(id, n, sub, mode)     == [id |-> id, n |-> n, ty |-> "struct", et |-> "", sub |-> sub, mode |-> mode, d |-> FALSE]
FdL(id, n, et, sub, mode) == [id |-> id, n |-> n, ty |-> "list", et |-> et, sub |-> sub, mode |-> mode, d |-> FALSE]

Schema == [
  FileMetaData |-> <<
      Fd(1, "version", "i32", "req"),
      FdL(2, "schema", "struct", "SchemaElement", "req"),
      Fd(3, "numRows", "i64", "req"),
      FdL(4, "rowGroups", "struct", "RowGroup", "req"),
      FdL(5, "kv", "struct", "KeyValue", "dflt"),
      Fd(6, "createdBy", "binary", "opt") >>,
  SchemaElement |-> <<
      Fd(1, "type", "i32", "opt"),
      Fd(2, "typeLength", "i32", "dflt"),
      Fd(3, "rep", "i32", "opt"),
      Fd(4, "name", "binary", "req"),
      Fd(5, "numChildren", "i32", "dflt"),
      Fd(6, "conv", "i32", "opt"),
      Fd(7, "scale", "i32", "dflt"),
      Fd(8, "precision", "i32", "dflt"),
      Fd(9, "fieldId", "i32", "opt"),
      FdS(10, "logical", "LogicalType", "opt") >>,
  RowGroup |-> <<
      FdL(1, "columns", "struct", "ColumnChunk", "req"),
      Fd(2, "totalByteSize", "i64", "req"),
      Fd(3, "numRows", "i64", "req"),
      Fd(5, "fileOffset", "i64", "opt"),
      Fd(6, "totalCompressed", "i64", "opt"),
      Fd(7, "ordinal", "i16", "opt") >>,
  ColumnChunk |-> <<
      Fd(1, "filePath", "binary", "opt"),
      Fd(2, "fileOffset", "i64", "req"),
      FdS(3, "meta", "ColumnMetaData", "opt"),
      Fd(4, "offsetIndexOffset", "i64", "opt"),
      Fd(5, "offsetIndexLength", "i32", "opt"),
      Fd(6, "columnIndexOffset", "i64", "opt"),
      Fd(7, "columnIndexLength", "i32", "opt") >>,
  ColumnMetaData |-> <<
      Fd(1, "type", "i32", "req"),
      FdL(2, "encodings", "i32", "", "req"),
      FdL(3, "path", "binary", "", "req"),
      Fd(4, "codec", "i32", "req"),
      Fd(5, "numValues", "i64", "req"),
      Fd(6, "totalUncompressed", "i64", "req"),
      Fd(7, "totalCompressed", "i64", "req"),
      FdL(8, "kv", "struct", "KeyValue", "dflt"),
      Fd(9, "dataPageOffset", "i64", "req"),
      Fd(10, "indexPageOffset", "i64", "opt"),
      Fd(11, "dictPageOffset", "i64", "opt"),
      FdS(12, "stats", "Statistics", "opt"),
      FdL(13, "encodingStats", "struct", "PageEncodingStats", "dflt"),
      Fd(14, "bloomOffset", "i64", "opt"),
      Fd(15, "bloomLength", "i32", "opt") >>,
  Statistics |-> <<
      Fd(1, "max", "binary", "dflt"),
      Fd(2, "min", "binary", "dflt"),
      Fd(3, "nullCount", "i64", "opt"),
      Fd(4, "distinctCount", "i64", "opt"),
      Fd(5, "maxValue", "binary", "dflt"),
      Fd(6, "minValue", "binary", "dflt"),
      FdB(7, "maxExact", "opt", FALSE),
      FdB(8, "minExact", "opt", FALSE) >>,
  KeyValue |-> <<
      Fd(1, "key", "binary", "req"),
      Fd(2, "value", "binary", "opt") >>,
  PageEncodingStats |-> <<
      Fd(1, "pageType", "i32", "req"),
      Fd(2, "encoding", "i32", "req"),
      Fd(3, "count", "i32", "req") >>,
  PageHeader |-> <<
      Fd(1, "type", "i32", "req"),
      Fd(2, "uncompressed", "i32", "req"),
      Fd(3, "compressed", "i32", "req"),
      Fd(4, "crc", "i32", "opt"),
      FdS(5, "data", "DataPageHeader", "opt"),
      FdS(7, "dict", "DictionaryPageHeader", "opt"),
      FdS(8, "v2", "DataPageHeaderV2", "opt") >>,
  DataPageHeader |-> <<
      Fd(1, "numValues", "i32", "req"),
      Fd(2, "encoding", "i32", "req"),
      Fd(3, "defEnc", "i32", "req"),
      Fd(4, "repEnc", "i32", "req"),
      FdS(5, "stats", "Statistics", "opt") >>,
  DataPageHeaderV2 |-> <<
      Fd(1, "numValues", "i32", "req"),
      Fd(2, "numNulls", "i32", "req"),
      Fd(3, "numRows", "i32", "req"),
      Fd(4, "encoding", "i32", "req"),
      Fd(5, "defLen", "i32", "req"),
      Fd(6, "repLen", "i32", "req"),
      FdB(7, "isCompressed", "dflt", TRUE),
      FdS(8, "stats", "Statistics", "opt") >>,
  DictionaryPageHeader |-> <<
      Fd(1, "numValues", "i32", "req"),
      Fd(2, "encoding", "i32", "req"),
      FdB(3, "isSorted", "dflt", FALSE) >> ]

Kinds == DOMAIN Schema
NamesOf(kind) == {Schema[kind][i].n : i \in 1..Len(Schema[kind])}
ByName == [kind \in Kinds |-> [n \in NamesOf(kind) |->
              Schema[kind][CHOOSE i \in 1..Len(Schema[kind]) : Schema[kind][i].n = n]]]
IdsOf(kind) == {Schema[kind][i].id : i \in 1..Len(Schema[kind])}
ById(kind, id) == Schema[kind][CHOOSE i \in 1..Len(Schema[kind]) : Schema[kind][i].id = id]
AllNames == [kind \in Kinds |-> NamesOf(kind)]

IntTypes == {"i16", "i32", "i64"}
DefaultOf(fd) == CASE fd.ty \in IntTypes -> Zero(8)
                   [] fd.ty = "bool" -> fd.d
                   [] fd.ty = "byte" -> 0
                   [] OTHER -> <<>>                     \* binary, list
NoVal(fd) == IF fd.mode = "opt" THEN <<>> ELSE DefaultOf(fd)

\* ------------------------------------------------------------------ LogicalType (union)
LtId == [STRING |-> 1, MAP |-> 2, LIST |-> 3, ENUM |-> 4, DECIMAL |-> 5, DATE |-> 6, TIME |-> 7,
         TIMESTAMP |-> 8, INTEGER |-> 10, UNKNOWN |-> 11, JSON |-> 12, BSON |-> 13, UUID |-> 14,
         FLOAT16 |-> 15]
LtName(id) == CHOOSE k \in DOMAIN LtId : LtId[k] = id
LtIds == {LtId[k] : k \in DOMAIN LtId}
UnitId == [MILLIS |-> 1, MICROS |-> 2, NANOS |-> 3]
UnitName(id) == CHOOSE k \in DOMAIN UnitId : UnitId[k] = id

\* ------------------------------------------------------------------ unknown-field insertion
\* ins = <<[at |-> k, id |-> field id, val |-> generic value]>>: inserted after the k-th field
\* actually emitted (0 = in front, anything >= number of fields = at the end)
InjectSeq(fs, ins) ==
    LET n == Len(fs)
        here(i) == SelectSeq(ins, LAMBDA u : Min2(u.at, n) = i)
        mk(us) == [j \in 1..Len(us) |-> F(us[j].id, us[j].val)]
    IN Flatten([j \in 1..(n + 1) |-> mk(here(j - 1)) \o (IF j <= n THEN <<fs[j]>> ELSE <<>>)])
Inject(fs, kind, x) == IF kind \in DOMAIN x.unk THEN InjectSeq(fs, x.unk[kind]) ELSE fs
PlainX == [explicit |-> FALSE, unk |-> <<>>]
ExplicitX == [explicit |-> TRUE, unk |-> <<>>]

\* ------------------------------------------------------------------ abstract -> tree
I32V(w) == [t |-> "i32", v |-> w]
LtTree(a, x) ==
    LET st(fs, kind) == Struct(Inject(fs, kind, x))
        inner == CASE a.k = "DECIMAL" -> st(<<F(1, I32V(a.scale)), F(2, I32V(a.precision))>>, "DecimalType")
                   [] a.k \in {"TIME", "TIMESTAMP"} ->
                         st(<<F(1, Bool(a.utc)),
                              F(2, st(<<F(UnitId[a.unit], st(<<>>, "EmptyType"))>>, "TimeUnit"))>>, "TimeType")
                   [] a.k = "INTEGER" -> st(<<F(1, [t |-> "byte", v |-> a.bitWidth]), F(2, Bool(a.signed))>>, "IntType")
                   [] OTHER -> st(<<>>, "EmptyType")
    IN st(<<F(LtId[a.k], inner)>>, "LogicalType")

RECURSIVE ToTreeX(_, _, _)
ElemTree(fd, v, x) == IF fd.et = "struct" THEN ToTreeX(fd.sub, v, x) ELSE [t |-> fd.et, v |-> v]
ValTree(fd, v, x) ==
    CASE fd.ty = "struct" -> ToTreeX(fd.sub, v, x)
      [] fd.ty = "list" -> [t |-> "list", et |-> fd.et, v |-> [i \in 1..Len(v) |-> ElemTree(fd, v[i], x)]]
      [] OTHER -> [t |-> fd.ty, v |-> v]
ToTreeX(kind, a, x) ==
    IF kind = "LogicalType" THEN LtTree(a, x)
    ELSE LET tab == Schema[kind]
             present(fd) == CASE fd.mode = "req" -> TRUE
                              [] fd.mode = "opt" -> a[fd.n] # <<>>
                              [] OTHER -> x.explicit \/ a[fd.n] # DefaultOf(fd)
             val(fd) == IF fd.mode = "opt" THEN a[fd.n][1] ELSE a[fd.n]
             sel == SelectSeq(tab, present)
         IN Struct(Inject([i \in 1..Len(sel) |-> F(sel[i].id, ValTree(sel[i], val(sel[i]), x))], kind, x))
ToTree(kind, a) == ToTreeX(kind, a, PlainX)

\* ------------------------------------------------------------------ tree -> abstract
TypeMatches(fd, val) ==
    /\ val.t = fd.ty
    /\ fd.ty = "list" => val.et = fd.et
IsT(s, id, t) == HasField(s, id) /\ Field(s, id).t = t

LtAbs(s) ==
    LET known == SelectSeq(s.v, LAMBDA f : f.id \in LtIds /\ f.val.t = "struct")
    IN IF Len(known) = 0 THEN [k |-> "NONE"]
       ELSE LET f == known[Len(known)]
                k == LtName(f.id)
                in == f.val
                w(id) == IF IsT(in, id, "i32") THEN Field(in, id).v ELSE Zero(8)
                b(id) == IF IsT(in, id, "bool") THEN Field(in, id).v ELSE FALSE
                unit == IF IsT(in, 2, "struct")
                        THEN LET us == SelectSeq(Field(in, 2).v, LAMBDA g : g.id \in {1, 2, 3})
                             IN IF Len(us) = 0 THEN "NONE" ELSE UnitName(us[Len(us)].id)
                        ELSE "NONE"
            IN CASE k = "DECIMAL" -> [k |-> k, scale |-> w(1), precision |-> w(2)]
                 [] k \in {"TIME", "TIMESTAMP"} -> [k |-> k, utc |-> b(1), unit |-> unit]
                 [] k = "INTEGER" -> [k |-> k, bitWidth |-> (IF IsT(in, 1, "byte") THEN Field(in, 1).v ELSE 0),
                                      signed |-> b(2)]
                 [] OTHER -> [k |-> k]

\* index of the last field with this id (0 = none): a later duplicate overrides, as in Thrift readers
LastOf(s, id) == LET idxs == {i \in 1..Len(s.v) : s.v[i].id = id}
                 IN IF idxs = {} THEN 0 ELSE CHOOSE i \in idxs : \A j \in idxs : j <= i
RECURSIVE Abs(_, _)
AbsVal(fd, val) ==
    CASE fd.ty = "struct" -> Abs(fd.sub, val)
      [] fd.ty = "list" -> [i \in 1..Len(val.v) |-> IF fd.et = "struct" THEN Abs(fd.sub, val.v[i]) ELSE val.v[i].v]
      [] OTHER -> val.v
Abs(kind, s) ==
    IF kind = "LogicalType" THEN LtAbs(s)
    ELSE [n \in NamesOf(kind) |->
            LET fd == ByName[kind][n]
                i == LastOf(s, fd.id)
            IN IF i > 0 /\ TypeMatches(fd, s.v[i].val)
               THEN (IF fd.mode = "opt" THEN <<AbsVal(fd, s.v[i].val)>> ELSE AbsVal(fd, s.v[i].val))
               ELSE NoVal(fd)]

\* ------------------------------------------------------------------ conformance to the IDL
InRange(w, bits) ==      \* 8-limb word is the sign extension of a `bits`-bit value
    LET nb == bits \div 8
        neg == w[nb] >= 128
    IN \A i \in (nb + 1)..8 : w[i] = (IF neg THEN 255 ELSE 0)
IntErr(ty, w, where) == IF (ty = "i32" /\ ~InRange(w, 32)) \/ (ty = "i16" /\ ~InRange(w, 16))
                        THEN {"range:" \o where} ELSE {}

LtErrs(s) ==
    LET n == Len(s.v)
        one == IF n = 1 THEN {} ELSE {"union-arity:LogicalType"}
        fe(f) ==
            IF f.id \notin LtIds THEN {"unknown-field:LogicalType." \o ToString(f.id)}
            ELSE IF f.val.t # "struct" THEN {"wire-type:LogicalType." \o LtName(f.id)}
            ELSE LET k == LtName(f.id)
                     in == f.val
                     ids == {in.v[i].id : i \in 1..Len(in.v)}
                     need(id, t, nm) == IF ~HasField(in, id) THEN {"missing:" \o k \o "." \o nm}
                                        ELSE IF Field(in, id).t # t THEN {"wire-type:" \o k \o "." \o nm}
                                        ELSE {}
                     extra(allowed) == {"unknown-field:" \o k \o "." \o ToString(id) : id \in ids \ allowed}
                     unitErrs == IF IsT(in, 2, "struct")
                                 THEN LET u == Field(in, 2)
                                      IN IF Len(u.v) = 1 /\ u.v[1].id \in {1, 2, 3} /\ u.v[1].val.t = "struct"
                                            /\ Len(u.v[1].val.v) = 0 THEN {} ELSE {"union:TimeUnit"}
                                 ELSE {}
                 IN CASE k = "DECIMAL" -> need(1, "i32", "scale") \cup need(2, "i32", "precision") \cup extra({1, 2})
                                          \cup (IF IsT(in, 1, "i32") THEN IntErr("i32", Field(in, 1).v, "DECIMAL.scale") ELSE {})
                                          \cup (IF IsT(in, 2, "i32") THEN IntErr("i32", Field(in, 2).v, "DECIMAL.precision") ELSE {})
                      [] k \in {"TIME", "TIMESTAMP"} -> need(1, "bool", "utc") \cup need(2, "struct", "unit") \cup extra({1, 2}) \cup unitErrs
                      [] k = "INTEGER" -> need(1, "byte", "bitWidth") \cup need(2, "bool", "signed") \cup extra({1, 2})
                      [] OTHER -> extra({})
    IN one \cup UNION {fe(s.v[i]) : i \in 1..n}

RECURSIVE TypeErrs(_, _)
ValErrs(kind, fd, val) ==
    CASE fd.ty = "struct" -> TypeErrs(fd.sub, val)
      [] fd.ty = "list" ->
            IF fd.et = "struct" THEN UNION {TypeErrs(fd.sub, val.v[i]) : i \in 1..Len(val.v)}
            ELSE IF fd.et \in IntTypes THEN UNION {IntErr(fd.et, val.v[i].v, kind \o "." \o fd.n) : i \in 1..Len(val.v)}
            ELSE {}
      [] fd.ty \in IntTypes -> IntErr(fd.ty, val.v, kind \o "." \o fd.n)
      [] OTHER -> {}
TypeErrs(kind, s) ==
    IF kind = "LogicalType" THEN LtErrs(s)
    ELSE LET tab == Schema[kind]
             fe(f) == IF f.id \notin IdsOf(kind) THEN {"unknown-field:" \o kind \o "." \o ToString(f.id)}
                      ELSE LET fd == ById(kind, f.id)
                           IN IF ~TypeMatches(fd, f.val) THEN {"wire-type:" \o kind \o "." \o fd.n}
                              ELSE ValErrs(kind, fd, f.val)
             missing == {"missing:" \o kind \o "." \o tab[i].n :
                            i \in {j \in 1..Len(tab) : tab[j].mode = "req" /\ ~HasField(s, tab[j].id)}}
             dups == {"duplicate:" \o kind \o "." \o ToString(s.v[i].id) :
                            i \in {j \in 1..Len(s.v) : \E l \in 1..(j - 1) : s.v[l].id = s.v[j].id}}
         IN missing \cup dups \cup UNION {fe(s.v[i]) : i \in 1..Len(s.v)}

\* ------------------------------------------------------------------ projection
RECURSIVE Proj(_, _, _)
ProjVal(fd, v, keep) ==
    CASE fd.ty = "struct" /\ fd.sub # "LogicalType" -> Proj(fd.sub, v, keep)
      [] fd.ty = "list" /\ fd.et = "struct" -> [i \in 1..Len(v) |-> Proj(fd.sub, v[i], keep)]
      [] OTHER -> v
Proj(kind, a, keep) ==
    [n \in NamesOf(kind) |->
        LET fd == ByName[kind][n]
        IN IF n \notin keep[kind] THEN NoVal(fd)
           ELSE IF fd.mode = "opt" THEN (IF a[n] = <<>> THEN <<>> ELSE <<ProjVal(fd, a[n][1], keep)>>)
           ELSE ProjVal(fd, a[n], keep)]
=============================================================================
