--------------------------- MODULE PageCodecFull ---------------------------
(* Page-body codecs for the file-level reference reader / writer (ParquetFile / ParquetWrite): *)
(* SNAPPY (raw Snappy block) and LZ4_RAW (LZ4 block) on explicit byte sequences.               *)
(*                                                                                            *)
(*   SnappyDecompress(bytes)          -> [ok |-> TRUE, v |-> bytes] | [ok |-> FALSE, v |-> <<>>, why] *)
(*   Lz4Decompress(bytes, ulen)       -> same; ulen = uncompressed size from the page header    *)
(*   SnappyCompressLit(bytes)         literal-only valid block (minimal length form)            *)
(*   Lz4CompressLit(bytes)            literal-only valid block                                  *)
(*   SnappyCompress(bytes)            greedy reference compressor: copies with offsets          *)
(*   Lz4Compress(bytes)               1, 2, 4, 8 (runs, repeated INT32 / INT64 values), obeying *)
(*                                    the LZ4 end-of-block rules                                *)
(* The decoders are the reference decoders of Snappy.tla / Lz4.tla (no knowledge of carquet).   *)
(* Self-check: MC_PageCodecSelf.                                                                *)
EXTENDS Naturals, Sequences, SequencesExt
LOCAL INSTANCE Bytes
LOCAL INSTANCE Lz
S == INSTANCE Snappy
Z == INSTANCE Lz4

SnappyDecompress(bs) ==
    LET d == S!Decode(bs) IN
    IF d.ok THEN [ok |-> TRUE, v |-> d.out] ELSE [ok |-> FALSE, v |-> <<>>, why |-> d.why]

\* an LZ4 block does not carry its decoded size: the caller knows it (page header)
Lz4Decompress(bs, ulen) ==
    LET d == Z!DecodeInto(bs, ulen) IN
    IF ~d.ok THEN [ok |-> FALSE, v |-> <<>>, why |-> d.why]
    ELSE IF Len(d.out) # ulen THEN [ok |-> FALSE, v |-> <<>>, why |-> "decoded-size-differs-from-header"]
    ELSE [ok |-> TRUE, v |-> d.out]

(* ---- literal-only compressors -------------------------------------------------------- *)
\* smallest number of extra length bytes for a Snappy literal of length n >= 1
MinX(n) == IF n <= 60 THEN 0 ELSE IF n <= 256 THEN 1 ELSE IF n <= 65536 THEN 2 ELSE IF n <= 16777216 THEN 3 ELSE 4
SnappyLit(bs) == S!Lit(MinX(Len(bs)), B(bs))

SnappyCompressLit(bs) == IF bs = <<>> THEN S!Ser(<<>>) ELSE S!Ser(<<SnappyLit(bs)>>)
Lz4CompressLit(bs)    == Z!Ser(<<Z!LastLits(B(bs))>>)

(* ---- greedy reference compressor ----------------------------------------------------- *)
Least(a, b) == IF a < b THEN a ELSE b
Offsets == <<1, 2, 4, 8>>
MaxMatch == 64
\* number of bytes from position i (1-based) that repeat the bytes `off` back, at most lim
MatchLen(bs, i, off, lim) ==
    LET RECURSIVE go(_)
        go(m) == IF m < lim /\ i + m <= Len(bs) /\ bs[i + m] = bs[i + m - off] THEN go(m + 1) ELSE m
    IN go(0)

(* Abstract plan: a sequence of [lit |-> bytes, off, len] (len = 0: trailing literals only).  *)
(* startMax / endMax bound where a match may start / end (LZ4 end-of-block rules).            *)
Plan(bs, startMax, endMax) ==
    LET n == Len(bs)
        best(i) ==      \* <<off, len>> of the first offset giving the longest match, len 0 if none
            LET cand == [k \in 1..Len(Offsets) |->
                           IF Offsets[k] < i /\ i <= startMax
                           THEN MatchLen(bs, i, Offsets[k], Least(MaxMatch, IF endMax + 1 > i THEN endMax + 1 - i ELSE 0))
                           ELSE 0]
                top == FoldLeft(LAMBDA a, k : IF cand[k] > a[2] THEN <<Offsets[k], cand[k]>> ELSE a, <<0, 0>>, [k \in 1..Len(Offsets) |-> k])
            IN top
        step(st, i) ==  \* st = [nx, ls, plan]
            IF i < st.nx THEN st
            ELSE LET b == best(i) IN
                 IF b[2] >= 4
                 THEN [nx |-> i + b[2], ls |-> i + b[2],
                       plan |-> Append(st.plan, [lit |-> SubSeq(bs, st.ls, i - 1), off |-> b[1], len |-> b[2]])]
                 ELSE [st EXCEPT !.nx = i + 1]
        fin == FoldLeft(step, [nx |-> 1, ls |-> 1, plan |-> <<>>], [i \in 1..n |-> i])
    IN Append(fin.plan, [lit |-> SubSeq(bs, fin.ls, n), off |-> 0, len |-> 0])

SnappyTokens(bs) ==
    LET add(acc, p) ==
            LET a1 == IF p.lit = <<>> THEN acc ELSE Append(acc, SnappyLit(p.lit))
            IN IF p.len = 0 THEN a1
               ELSE IF p.len <= 11 THEN Append(a1, S!Copy1(p.off, p.len)) ELSE Append(a1, S!Copy2(p.off, p.len))
    IN FoldLeft(add, <<>>, Plan(bs, Len(bs), Len(bs)))
SnappyCompress(bs) == S!Ser(SnappyTokens(bs))

\* LZ4: the last match starts >= 12 bytes before the end and the last 5 bytes are literals
Lz4Seqs(bs) ==
    LET n == Len(bs)
        pl == Plan(bs, IF n >= 12 THEN n - 12 + 1 ELSE 0, IF n >= 5 THEN n - 5 ELSE 0)
    IN [k \in 1..Len(pl) |-> IF pl[k].len = 0 THEN Z!LastLits(B(pl[k].lit)) ELSE Z!Sq(B(pl[k].lit), pl[k].off, pl[k].len)]
Lz4Compress(bs) == Z!Ser(Lz4Seqs(bs))
=============================================================================
