---------------------------- MODULE ParquetWrite ----------------------------
(* The Parquet file format as an executable reference *writer*: SerFile(desc) -> bytes.     *)
(* Independent of carquet; the inverse of ParquetFile.ParseFile (checked by MC_RefSelf).    *)
(*                                                                                         *)
(* desc == [ elements : Seq([name, hasType, type, tlen, hasRep, rep, nchild, conv]),        *)
(*           rgs      : Seq([numRows, cols : Seq(chunk)]),                                  *)
(*           createdBy: bytes, sty : Thrift style, extras : BOOLEAN (unknown Thrift fields) ]*)
(* chunk == [ type, tlen, maxDef, maxRep, path, codec, dict : Seq(bytes) (<<>> = none),     *)
(*            dictOffsetField : BOOLEAN, pages : Seq(page), stats : stats record or NoStatsW ]*)
(* page  == [ n, defRuns, repRuns (Hybrid run lists), enc (0 PLAIN | 2 | 8),                *)
(*            vals : Seq(bytes) (dense, PLAIN) or idxRuns + bw (dictionary indices),        *)
(*            crc : "none" | "good" | "bad", stats, v2 : BOOLEAN ]                          *)
EXTENDS Naturals, Sequences, SequencesExt, FiniteSets, Bytes, W, Varint, BitPack, Hybrid, ThriftCompact, Crc32, PageCodec, Malformed

WMAGIC == <<80, 65, 82, 49>>
NoStatsW == [has |-> FALSE]

\* ---- PLAIN encoding of dense values
PlainEncode(type, vals) ==
    IF type = 0 THEN Pack([i \in 1..Len(vals) |-> vals[i][1]], 1)
    ELSE IF type = 6 THEN Flatten([i \in 1..Len(vals) |-> LE(Len(vals[i]), 4) \o vals[i]])
    ELSE Flatten(vals)

\* ---- level run lists in several legal styles
RECURSIVE MaxRuns(_)
MaxRuns(s) == IF s = <<>> THEN <<>>
              ELSE LET v == s[1]
                       RECURSIVE cnt(_)
                       cnt(i) == IF i <= Len(s) /\ s[i] = v THEN cnt(i + 1) ELSE i - 1
                       n == cnt(1)
                   IN <<[k |-> "rle", n |-> n, v |-> v]>> \o MaxRuns(SubSeq(s, n + 1, Len(s)))
PadTo8(s, fill) == s \o [i \in 1..((8 - (Len(s) % 8)) % 8) |-> fill]
RECURSIVE Groups8(_, _)
Groups8(s, fill) == IF s = <<>> THEN <<>>
                    ELSE IF Len(s) <= 8 THEN <<[k |-> "bp", vals |-> PadTo8(s, fill)]>>
                    ELSE <<[k |-> "bp", vals |-> SubSeq(s, 1, 8)]>> \o Groups8(SubSeq(s, 9, Len(s)), fill)
\* style: "rle" maximal rle runs | "bp" one bit-packed run (padded) | "bp1" one group per run |
\*        "mix" first group bit-packed then rle runs | "zero" like rle with zero-length runs interleaved |
\*        "pad1" bit-packed, padding of the last group with ones (arbitrary padding is legal)
RunStyle(s, style, maxv) ==
    CASE style = "rle" -> MaxRuns(s)
      [] style = "bp" -> IF s = <<>> THEN <<>> ELSE <<[k |-> "bp", vals |-> PadTo8(s, 0)]>>
      [] style = "pad1" -> IF s = <<>> THEN <<>> ELSE <<[k |-> "bp", vals |-> PadTo8(s, maxv)]>>
      [] style = "bp1" -> Groups8(s, 0)
      [] style = "mix" -> IF Len(s) <= 8 THEN Groups8(s, 0)
                          ELSE <<[k |-> "bp", vals |-> SubSeq(s, 1, 8)]>> \o MaxRuns(SubSeq(s, 9, Len(s)))
      [] style = "zero" -> <<[k |-> "rle", n |-> 0, v |-> maxv], [k |-> "bp", vals |-> <<>>]>>
                           \o Flatten([i \in 1..Len(MaxRuns(s)) |-> <<MaxRuns(s)[i], [k |-> "bp", vals |-> <<>>]>>])

\* ---- compression hook (reference encoders per codec are plugged in by PageCodecW)
CompressW(codec, body) == CompressRef(codec, body)

\* ---- statistics struct
StatsTree(st) ==
    Struct( (IF st.useOld THEN <<F(1, Bin(st.max)), F(2, Bin(st.min))>> ELSE <<>>)
         \o (IF st.hasNulls THEN <<F(3, L(st.nulls))>> ELSE <<>>)
         \o (IF st.useNew THEN <<F(5, Bin(st.max)), F(6, Bin(st.min))>> ELSE <<>>) )

\* unknown fields of several wire types, appended to structs when desc.extras
ExtraFields(base) == << F(base, Bool(TRUE)), F(base + 1, [t |-> "i64", v |-> Ones(8)]),
                        F(base + 3, Bin(<<1, 2, 3>>)), F(base + 20, List("i32", <<I(5), I(6)>>)),
                        F(base + 21, Struct(<<F(1, Bin(<<120>>)), F(2, [t |-> "double", v |-> <<0,0,0,0,0,0,240,63>>])>>)),
                        F(base + 22, [t |-> "map", kt |-> "binary", vt |-> "i32", v |-> << <<Bin(<<107>>), I(1)>> >>]) >>

CrcField(body, kind) ==
    LET c == AsLE(Crc32(body))
        cc == IF kind = "bad" THEN <<(c[1] + 1) % 256, c[2], c[3], c[4]>> ELSE c
    IN [t |-> "i32", v |-> SignExtend(cc, 8)]

\* ---- one page: header ++ stored body; returns [bytes, hdrLen, ulen, clen]
PageBody(ch, pg) ==
    (IF ch.maxRep > 0 THEN SerPrefixed(pg.repRuns, WidthOf(ch.maxRep)) ELSE <<>>)
    \o (IF ch.maxDef > 0 THEN SerPrefixed(pg.defRuns, WidthOf(ch.maxDef)) ELSE <<>>)
    \o (IF pg.enc = 0 THEN PlainEncode(ch.type, pg.vals)
        ELSE <<pg.bw>> \o Ser(pg.idxRuns, pg.bw))      \* the width byte is written even for an all-null page

\* hostile-file hook (C04): a mutation of the UNCOMPRESSED page body (levels, values, indices), applied before
\* compression and checksum, so that the page passes every size / CRC check and the damage reaches the decoders.
\* "sub": one byte replaced; "cut": body truncated, header sizes follow; "cutkeep": truncated, header keeps the old size
NoBodyMut == [kind |-> "none"]
BodyMutOf(x) == IF "bmut" \in DOMAIN x THEN x.bmut ELSE NoBodyMut
MutBody(b, m) == IF m.kind = "sub" THEN [b EXCEPT ![m.at] = m.val]
                 ELSE IF m.kind \in {"cut", "cutkeep"} THEN SubSeq(b, 1, m.at) ELSE b
\* ... and of the STORED (compressed) bytes, checksum recomputed: "ssub" one byte replaced, "scut" truncated; the
\* header keeps the uncompressed size of the intact body, so the decompressor meets a damaged stream behind a good CRC
MutStored(sb, m) == IF m.kind = "ssub" /\ m.at <= Len(sb) THEN [sb EXCEPT ![m.at] = m.val]
                    ELSE IF m.kind = "scut" THEN SubSeq(sb, 1, IF m.at < Len(sb) THEN m.at ELSE Len(sb)) ELSE sb
DataPage(ch, pg, extras, sty) ==
    LET body0 == PageBody(ch, pg)
        bm == BodyMutOf(pg)
        body == MutBody(body0, bm)
        stored == MutStored(CompressW(ch.codec, body), bm)
        dh == Struct(<<F(1, I(pg.n)), F(2, I(pg.encTag)), F(3, I(3)), F(4, I(3))>>
                     \o (IF pg.stats.has THEN <<F(5, StatsTree(pg.stats))>> ELSE <<>>)
                     \o (IF extras THEN ExtraFields(40) ELSE <<>>))
        ph == Struct(<<F(1, I(0)), F(2, I(IF bm.kind = "cutkeep" THEN Len(body0) ELSE Len(body))), F(3, I(Len(stored)))>>
                     \o (IF pg.crc # "none" THEN <<F(4, CrcField(stored, pg.crc))>> ELSE <<>>)
                     \o <<F(5, dh)>>
                     \o (IF extras THEN ExtraFields(60) ELSE <<>>))
        hb == TSer(IF pg.hmut.kind = "none" THEN ph ELSE Apply(ph, pg.hmut), sty)     \* hostile-file hook (C04)
    IN [bytes |-> hb \o stored, hdrLen |-> Len(hb), ulen |-> Len(body), clen |-> Len(stored), tree |-> ph]

\* data page v2: levels without length prefix, never compressed; values section after them
DataPageV2(ch, pg, sty) ==
    LET rl == IF ch.maxRep > 0 THEN Ser(pg.repRuns, WidthOf(ch.maxRep)) ELSE <<>>
        dl == IF ch.maxDef > 0 THEN Ser(pg.defRuns, WidthOf(ch.maxDef)) ELSE <<>>
        vals == IF pg.enc = 0 THEN PlainEncode(ch.type, pg.vals) ELSE <<pg.bw>> \o Ser(pg.idxRuns, pg.bw)
        body == rl \o dl \o vals
        h2 == Struct(<<F(1, I(pg.n)), F(2, I(pg.n - pg.nn)), F(3, I(pg.nrows)), F(4, I(pg.enc)),
                       F(5, I(Len(dl))), F(6, I(Len(rl))), F(7, Bool(FALSE))>>)
        ph == Struct(<<F(1, I(3)), F(2, I(Len(body))), F(3, I(Len(body))), F(8, h2)>>)
        hb == TSer(ph, sty)
    IN [bytes |-> hb \o body, hdrLen |-> Len(hb), ulen |-> Len(body), clen |-> Len(body)]

DictPage(ch, sty) ==
    LET body0 == PlainEncode(ch.type, ch.dict)
        bm == IF "dbmut" \in DOMAIN ch THEN ch.dbmut ELSE NoBodyMut
        body == MutBody(body0, bm)
        stored == MutStored(CompressW(ch.codec, body), bm)
        ph == Struct(<<F(1, I(2)), F(2, I(IF bm.kind = "cutkeep" THEN Len(body0) ELSE Len(body))), F(3, I(Len(stored))),
                       F(7, Struct(<<F(1, I(Len(ch.dict))), F(2, I(ch.dictEnc))>>))>>)
        hb == TSer(IF ch.dhmut.kind = "none" THEN ph ELSE Apply(ph, ch.dhmut), sty)     \* hostile-file hook (C04)
    IN [bytes |-> hb \o stored, hdrLen |-> Len(hb), ulen |-> Len(body), clen |-> Len(stored), tree |-> ph]

\* ---- one chunk placed at file offset `off`: returns [bytes, meta (thrift ColumnChunk)]
ChunkW(ch, off, extras, sty) ==
    LET \* a chunk may carry an EMPTY dictionary page (all values null; writers that always dictionary-encode emit it)
        hasDict == Len(ch.dict) > 0 \/ ("emptyDict" \in DOMAIN ch /\ ch.emptyDict)
        dp == IF hasDict THEN <<DictPage(ch, sty)>> ELSE <<>>
        pgs == dp \o [i \in 1..Len(ch.pages) |-> IF ch.pages[i].v2 THEN DataPageV2(ch, ch.pages[i], sty) ELSE DataPage(ch, ch.pages[i], extras, sty)]
        bytes == Flatten([i \in 1..Len(pgs) |-> pgs[i].bytes])
        tco == Len(bytes)
        tun == FoldLeft(LAMBDA acc, p : acc + p.hdrLen + p.ulen, 0, pgs)
        \* dictionary_page_offset absent: data_page_offset points at the first page of the chunk (the dictionary page),
        \* as written by older parquet-mr; present: it points at the first data page
        dataOff == IF hasDict /\ ch.dictOffsetField THEN off + Len(pgs[1].bytes) ELSE off
        nvals == FoldLeft(LAMBDA acc, p : acc + p.n, 0, ch.pages)
        encs == {ch.pages[i].enc : i \in 1..Len(ch.pages)} \cup {3} \cup (IF hasDict THEN {ch.dictEnc} ELSE {})
        md == Struct(<<F(1, I(ch.type)), F(2, List("i32", [i \in 1..Cardinality(encs) |-> I(SetToSortSeq(encs, <)[i])])),
                       F(3, List("binary", [i \in 1..Len(ch.path) |-> Bin(ch.path[i])])),
                       F(4, I(ch.codecTag)), F(5, L(nvals)), F(6, L(tun)), F(7, L(tco)), F(9, L(dataOff))>>
                     \o (IF hasDict /\ ch.dictOffsetField THEN <<F(11, L(off))>> ELSE <<>>)
                     \o (IF ch.stats.has THEN <<F(12, StatsTree(ch.stats))>> ELSE <<>>)
                     \o (IF extras THEN ExtraFields(30) ELSE <<>>))
    IN [bytes |-> bytes, tun |-> tun,
        cc |-> Struct(<<F(2, L(off)), F(3, md)>> \o (IF extras THEN ExtraFields(20) ELSE <<>>))]

\* LogicalType union (parquet.thrift): lt = [k |-> kind, ...parameters]; TimeUnit is itself a union of empty structs
Empty == Struct(<<>>)
UnitTree(u) == Struct(<<F(CASE u = "ms" -> 1 [] u = "us" -> 2 [] OTHER -> 3, Empty)>>)
LogicalTree(lt) ==
    Struct(<< CASE lt.k = "string" -> F(1, Empty) [] lt.k = "map" -> F(2, Empty) [] lt.k = "list" -> F(3, Empty)
                [] lt.k = "enum" -> F(4, Empty)
                [] lt.k = "decimal" -> F(5, Struct(<<F(1, I(lt.scale)), F(2, I(lt.precision))>>))
                [] lt.k = "date" -> F(6, Empty)
                [] lt.k = "time" -> F(7, Struct(<<F(1, Bool(lt.utc)), F(2, UnitTree(lt.unit))>>))
                [] lt.k = "timestamp" -> F(8, Struct(<<F(1, Bool(lt.utc)), F(2, UnitTree(lt.unit))>>))
                [] lt.k = "integer" -> F(10, Struct(<<F(1, [t |-> "byte", v |-> lt.bits]), F(2, Bool(lt.signed))>>))
                [] lt.k = "null" -> F(11, Empty) [] lt.k = "json" -> F(12, Empty) [] lt.k = "bson" -> F(13, Empty)
                [] lt.k = "uuid" -> F(14, Empty) [] lt.k = "float16" -> F(15, Empty) >>)
HasLt(e) == "lt" \in DOMAIN e /\ e.lt.k # "none"
ElemTree(e) ==
    Struct( (IF e.hasType THEN <<F(1, I(e.type))>> ELSE <<>>)
         \o (IF e.hasType /\ e.type = 7 THEN <<F(2, I(e.tlen))>> ELSE <<>>)
         \o (IF e.hasRep THEN <<F(3, I(e.rep))>> ELSE <<>>)
         \o <<F(4, Bin(e.name))>>
         \o (IF ~e.hasType \/ e.nchild > 0 THEN <<F(5, I(e.nchild))>> ELSE <<>>)
         \o (IF e.conv # 255 THEN <<F(6, I(e.conv))>> ELSE <<>>)
         \o (IF HasLt(e) THEN <<F(10, LogicalTree(e.lt))>> ELSE <<>>) )

Layout(d) ==
    LET \* lay the chunks out one after the other from offset 4
        RECURSIVE layRg(_, _, _)
        layCols(cols, off, acc) ==
            FoldLeft(LAMBDA st, ch : LET w == ChunkW(ch, st.off, d.extras, d.sty)
                                    IN [off |-> st.off + Len(w.bytes), bytes |-> st.bytes \o w.bytes,
                                        ccs |-> Append(st.ccs, w.cc), tun |-> st.tun + w.tun],
                     [off |-> off, bytes |-> <<>>, ccs |-> <<>>, tun |-> 0], cols)
        layRg(g, off, acc) ==
            IF g > Len(d.rgs) THEN acc
            ELSE LET lc == layCols(d.rgs[g].cols, off, <<>>)
                     rgT == Struct(<<F(1, List("struct", lc.ccs)), F(2, L(lc.tun)), F(3, L(d.rgs[g].numRows))>>
                                   \o (IF d.extras THEN ExtraFields(10) ELSE <<>>))
                 IN layRg(g + 1, lc.off, [bytes |-> acc.bytes \o lc.bytes, rgs |-> Append(acc.rgs, rgT)])
    IN layRg(1, 4, [bytes |-> <<>>, rgs |-> <<>>])

FooterTree(d, lay) ==
    LET total == FoldLeft(LAMBDA acc, rg : acc + rg.numRows, 0, d.rgs)
    IN Struct(<<F(1, I(1)), F(2, List("struct", [i \in 1..Len(d.elements) |-> ElemTree(d.elements[i])])),
                F(3, L(total)), F(4, List("struct", lay.rgs))>>
              \o (IF d.createdBy # <<>> THEN <<F(6, Bin(d.createdBy))>> ELSE <<>>)
              \o (IF d.extras THEN ExtraFields(100) ELSE <<>>))

FooterBytes(tree, sty) == LET fb == TSer(tree, sty) IN fb \o LE(Len(fb), 4) \o WMAGIC
Assemble(data, tree, sty) == WMAGIC \o data \o FooterBytes(tree, sty)

SerFile(d) == LET lay == Layout(d) IN Assemble(lay.bytes, FooterTree(d, lay), d.sty)
=============================================================================
