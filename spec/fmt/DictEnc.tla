------------------------------ MODULE DictEnc ------------------------------
(* Dictionary encoding (Encodings.md "Dictionary Encoding (PLAIN_DICTIONARY = 2 and          *)
(* RLE_DICTIONARY = 8)"): the dictionary page holds the distinct values PLAIN encoded, in    *)
(* dictionary order; a data page holds the indices as <bit width: 1 byte> followed by the    *)
(* RLE/bit-packed hybrid (no length prefix) at that width.                                   *)
EXTENDS Naturals, Sequences, SequencesExt, Bytes, Hybrid
P == INSTANCE Plain

SerDict(t, tlen, dict) == P!Ser(t, tlen, dict)
SerIndices(runs, bw) == <<bw>> \o Ser(runs, bw)

\* values for the first n indices; [ok, vals, p] (p relative to the index stream)
Decode(t, tlen, dictBytes, dictCount, idx, n) ==
    LET d == P!Parse(t, tlen, dictBytes, 1, dictCount)
    IN IF ~d.ok THEN d
       ELSE IF Len(idx) < 1 THEN Bad("dict-no-width-byte")
       ELSE IF idx[1] > 32 THEN Bad("dict-width>32")
       ELSE LET bw == idx[1]
                r == IF bw <= 31 THEN Parse(idx, 2, Len(idx) - 1, bw, n)
                     ELSE LET rw == ParseW(idx, 2, Len(idx) - 1, bw, n)
                          IN IF ~rw.ok THEN rw
                             ELSE IF \E i \in 1..n : ~FitsNat(rw.vals[i]) THEN Bad("dict-index-out-of-range")
                             ELSE [ok |-> TRUE, vals |-> [i \in 1..n |-> ToNat(rw.vals[i])], p |-> rw.p]
            IN IF ~r.ok THEN r
               ELSE IF \E i \in 1..n : r.vals[i] >= dictCount THEN Bad("dict-index-out-of-range")
               ELSE [ok |-> TRUE, vals |-> [i \in 1..n |-> d.vals[r.vals[i] + 1]], p |-> r.p, idx |-> r.vals]

\* the dictionary a writer builds: distinct values in order of first occurrence, and the indices
FirstOcc(vals) ==
    FoldLeft(LAMBDA a, v : IF \E i \in 1..Len(a) : a[i] = v THEN a ELSE Append(a, v), <<>>, vals)
IndexOf(dict, v) == CHOOSE i \in 1..Len(dict) : dict[i] = v
=============================================================================
