------------------------------ MODULE Snappy ------------------------------
(* Raw Snappy block format, transcribed from google/snappy format_description.txt.        *)
(* No knowledge of carquet.                                                                *)
(*                                                                                         *)
(*   block   ::= varint(uncompressed length)  element*                                     *)
(*   element ::= literal | copy1 | copy2 | copy4        (low two bits of the tag byte)     *)
(*                                                                                         *)
(* Abstract syntax (token list):                                                           *)
(*   [k |-> "lit", x |-> 0..4, d |-> chunk]   literal, length L = CLen(d) >= 1,            *)
(*        x = 0: L <= 60, tag = (L-1) << 2;  x = 1..4: tag = (59+x) << 2 followed by x     *)
(*        bytes of L-1 little-endian (any x large enough is legal, also non-minimal)       *)
(*   [k |-> "c1", off, len]   len 4..11,  off 0..2047:  tag = off[10:8] len-4 01, off[7:0] *)
(*   [k |-> "c2", off, len]   len 1..64,  off 16 bit LE after tag (len-1) << 2 | 2         *)
(*   [k |-> "c4", off, len]   len 1..64,  off 32 bit LE after tag (len-1) << 2 | 3         *)
(* Offset 0 is expressible but invalid, as is an offset beyond the output produced so far. *)
EXTENDS Naturals, Sequences, SequencesExt, Bytes, Lz

Lit(x, d)      == [k |-> "lit", x |-> x, d |-> d]
Copy1(off, len) == [k |-> "c1", off |-> off, len |-> len]
Copy2(off, len) == [k |-> "c2", off |-> off, len |-> len]
Copy4(off, len) == [k |-> "c4", off |-> off, len |-> len]

IsLit(t)  == t.k = "lit"
TokLen(t) == IF IsLit(t) THEN CLen(t.d) ELSE t.len
OutLen(toks) == FoldLeft(LAMBDA a, t : a + TokLen(t), 0, toks)

Pow256 == <<1, 256, 65536, 16777216>>
\* largest literal length expressible with x extra bytes (x = 4 is capped by TLC's integers)
MaxLitLen(x) == IF x = 0 THEN 60 ELSE IF x = 4 THEN 2147483647 ELSE Pow256[x + 1]

\* the token can be written down in the grammar
Encodable(t) ==
    CASE t.k = "lit" -> t.x \in 0..4 /\ CLen(t.d) >= 1 /\ CLen(t.d) <= MaxLitLen(t.x)
      [] t.k = "c1"  -> t.len \in 4..11 /\ t.off \in 0..2047
      [] t.k = "c2"  -> t.len \in 1..64 /\ t.off \in 0..65535
      [] t.k = "c4"  -> t.len \in 1..64 /\ t.off \in 0..2147483647

(* ---- semantics ----------------------------------------------------------------------- *)
\* first reason why the token list is not a valid element sequence, or "ok"
Check(toks) ==
    LET step(acc, t) ==      \* acc = <<produced, verdict>>
            IF acc[2] # "ok" THEN acc
            ELSE IF ~Encodable(t) THEN <<acc[1], "not-encodable">>
            ELSE IF IsLit(t) THEN <<acc[1] + CLen(t.d), "ok">>
            ELSE IF t.off = 0 THEN <<acc[1], "offset-zero">>
            ELSE IF t.off > acc[1] THEN <<acc[1], "offset-beyond-output">>
            ELSE <<acc[1] + t.len, "ok">>
    IN FoldLeft(step, <<0, "ok">>, toks)[2]
Valid(toks) == Check(toks) = "ok"

\* decoded bytes (explicit); only for Valid token lists with explicit literal chunks
Apply(toks) ==
    FoldLeft(LAMBDA out, t : IF IsLit(t) THEN out \o CBytes(t.d)
                                         ELSE out \o CopyBytes(out, t.off, t.len), <<>>, toks)
\* same on ropes (fill literals stay symbolic)
ApplyR(toks) ==
    FoldLeft(LAMBDA out, t : IF IsLit(t) THEN RApp(out, t.d)
                                         ELSE RApp(out, RCopy(out, t.off, t.len)), <<>>, toks)

(* ---- serialisation ------------------------------------------------------------------- *)
\* minimal little-endian base-128 varint of n < 2^31
Varint(n) ==
    LET RECURSIVE go(_)
        go(v) == IF v < 128 THEN <<v>> ELSE <<128 + (v % 128)>> \o go(v \div 128)
    IN go(n)

Header(t) ==
    CASE t.k = "lit" -> IF t.x = 0 THEN <<(CLen(t.d) - 1) * 4>>
                        ELSE <<(59 + t.x) * 4>> \o LE(CLen(t.d) - 1, t.x)
      [] t.k = "c1"  -> <<((t.off \div 256) * 32) + ((t.len - 4) * 4) + 1, t.off % 256>>
      [] t.k = "c2"  -> <<((t.len - 1) * 4) + 2>> \o LE(t.off, 2)
      [] t.k = "c4"  -> <<((t.len - 1) * 4) + 3>> \o LE(t.off, 4)

SerTok(r, t) == IF IsLit(t) THEN RApp(RApp(r, B(Header(t))), t.d) ELSE RApp(r, B(Header(t)))
\* block with an explicitly declared length (n may disagree with the elements: invalid block)
SerBlockR(n, toks) == FoldLeft(SerTok, <<B(Varint(n))>>, toks)
SerR(toks)  == SerBlockR(OutLen(toks), toks)
SerBlock(n, toks) == Flat(SerBlockR(n, toks))
Ser(toks)   == Flat(SerR(toks))

\* byte length of the serialised element / header
HdrLen(t)  == Len(Header(t))
ElemLen(t) == HdrLen(t) + (IF IsLit(t) THEN CLen(t.d) ELSE 0)

(* ---- parsing ------------------------------------------------------------------------- *)
Bad(why) == [ok |-> FALSE, why |-> why]

\* -> [ok, v, p] (p = position after the varint) ; values >= 2^31 are reported as "huge"
ParseVarint(bs) ==
    LET RECURSIVE go(_, _, _)
        go(p, mul, acc) ==
            IF p > Len(bs) THEN Bad("truncated-varint")
            ELSE IF p > 5 THEN Bad("varint-too-long")
            ELSE LET b == bs[p] IN
                 IF p = 5 /\ (b % 128) > 7 THEN
                     (IF b >= 128 THEN Bad("varint-too-long")
                      ELSE IF b > 15 THEN Bad("varint-overflow") ELSE Bad("length-huge"))
                 ELSE IF b < 128 THEN [ok |-> TRUE, v |-> acc + (b * mul), p |-> p + 1]
                 ELSE go(p + 1, mul * 128, acc + ((b - 128) * mul))
    IN go(1, 1, 0)

\* elements from position p0 to the end of bs: [ok, toks] or Bad(why)
\* (a fold over the byte positions rather than a recursion over the elements: blocks with tens
\*  of thousands of elements are parsed in linear time and constant evaluation depth)
ParseElems(bs, p0) ==
    LET n == Len(bs)
        El(tok, nx) == [ok |-> TRUE, tok |-> tok, nx |-> nx]
        elem(p) ==       \* the element whose tag byte is at p: [ok, tok, nx] or Bad(why)
            LET tag == bs[p]
                ty  == tag % 4
                up  == tag \div 4
            IN
            IF ty = 0 THEN
                IF up < 60 THEN
                    IF ~HasBytes(bs, p + 1, up + 1) THEN Bad("truncated-literal")
                    ELSE El(Lit(0, B(SubSeq(bs, p + 1, p + 1 + up))), p + 2 + up)
                ELSE
                    LET x == up - 59 IN
                    IF ~HasBytes(bs, p + 1, x) THEN Bad("truncated-literal-length")
                    ELSE IF x = 4 /\ bs[p + 4] >= 128 THEN Bad("length-huge")
                    ELSE LET L == FromLE(SubSeq(bs, p + 1, p + x)) + 1 IN
                         IF ~HasBytes(bs, p + 1 + x, L) THEN Bad("truncated-literal")
                         ELSE El(Lit(x, B(SubSeq(bs, p + 1 + x, p + x + L))), p + 1 + x + L)
            ELSE IF ty = 1 THEN
                IF ~HasBytes(bs, p + 1, 1) THEN Bad("truncated-offset")
                ELSE El(Copy1(((up \div 8) * 256) + bs[p + 1], (up % 8) + 4), p + 2)
            ELSE IF ty = 2 THEN
                IF ~HasBytes(bs, p + 1, 2) THEN Bad("truncated-offset")
                ELSE El(Copy2(FromLE(SubSeq(bs, p + 1, p + 2)), up + 1), p + 3)
            ELSE
                IF ~HasBytes(bs, p + 1, 4) THEN Bad("truncated-offset")
                ELSE IF bs[p + 4] >= 128 THEN Bad("offset-huge")
                ELSE El(Copy4(FromLE(SubSeq(bs, p + 1, p + 4)), up + 1), p + 5)
        step(st, i) ==   \* st = [ok, nx (position of the next tag byte), toks] or Bad(why)
            IF ~st.ok THEN st
            ELSE IF i < st.nx THEN st
            ELSE LET e == elem(i) IN
                 IF ~e.ok THEN e ELSE [ok |-> TRUE, nx |-> e.nx, toks |-> Append(st.toks, e.tok)]
        fin == FoldLeft(step, [ok |-> TRUE, nx |-> p0, toks |-> <<>>], [i \in 1..n |-> i])
    IN IF fin.ok THEN [ok |-> TRUE, toks |-> fin.toks] ELSE fin

\* syntactic parse of a block: [ok, n (declared length), toks] or Bad(why)
Parse(bs) ==
    LET v == ParseVarint(bs) IN
    IF ~v.ok THEN v
    ELSE LET e == ParseElems(bs, v.p) IN
         IF ~e.ok THEN e ELSE [ok |-> TRUE, n |-> v.v, toks |-> e.toks]

(* The reference decoder: a block is valid iff it parses, every copy refers to output      *)
(* already produced with a non-zero offset, and the elements produce exactly the declared  *)
(* number of bytes.  -> [ok, out] or Bad(why)                                              *)
Decode(bs) ==
    LET p == Parse(bs) IN
    IF ~p.ok THEN p
    ELSE IF Check(p.toks) # "ok" THEN Bad(Check(p.toks))
    ELSE IF OutLen(p.toks) > p.n THEN Bad("output-longer-than-declared")
    ELSE IF OutLen(p.toks) < p.n THEN Bad("output-shorter-than-declared")
    ELSE [ok |-> TRUE, out |-> Apply(p.toks)]

(* Does the (parsed) block decode to the given bytes x?  Judged element by element without  *)
(* materialising the output: by induction the output produced before an element equals the *)
(* prefix of x, so a literal must equal its slice of x and a copy of (off, len) at output   *)
(* position p must satisfy 1 <= off <= p and x[p-off+1+((j-1)%off)] = x[p+j] for j in      *)
(* 1..len (the byte-by-byte copy semantics).  Equivalent to Check(toks) = "ok" /\          *)
(* Apply(toks) = x (law checked in MC_SnappySelf), but linear in |x| also for megabytes.    *)
(* -> "ok" or the first reason.                                                             *)
Against(toks, x) ==
    LET n == Len(x)
        step(acc, t) ==      \* acc = <<p, verdict>>
            IF acc[2] # "ok" THEN acc
            ELSE LET p == acc[1] IN
                 IF ~Encodable(t) THEN <<p, "not-encodable">>
                 ELSE IF IsLit(t) THEN
                     LET L == CLen(t.d) IN
                     IF p + L > n THEN <<p, "output-longer-than-input">>
                     ELSE IF \A j \in 1..L : CAt(t.d, j) = x[p + j] THEN <<p + L, "ok">>
                     ELSE <<p, "literal-differs-from-input">>
                 ELSE IF t.off = 0 THEN <<p, "offset-zero">>
                 ELSE IF t.off > p THEN <<p, "offset-beyond-output">>
                 ELSE IF p + t.len > n THEN <<p, "output-longer-than-input">>
                 ELSE IF \A j \in 1..t.len : x[p - t.off + 1 + ((j - 1) % t.off)] = x[p + j] THEN <<p + t.len, "ok">>
                 ELSE <<p, "copy-differs-from-input">>
        r == FoldLeft(step, <<0, "ok">>, toks)
    IN IF r[2] # "ok" THEN r[2] ELSE IF r[1] # n THEN "output-shorter-than-input" ELSE "ok"

\* decoding into a destination of `cap` bytes
DecodeInto(bs, cap) ==
    LET d == Decode(bs) IN
    IF d.ok /\ Len(d.out) > cap THEN Bad("output-exceeds-capacity") ELSE d
=============================================================================
