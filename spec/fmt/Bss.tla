-------------------------------- MODULE Bss --------------------------------
(* BYTE_STREAM_SPLIT (Encodings.md, "Byte Stream Split: (BYTE_STREAM_SPLIT = 9)"):          *)
(* for n values of K bytes each, K streams of n bytes; stream j holds byte j of every       *)
(* value, in value order; the streams are concatenated in order 0..K-1. No padding, no      *)
(* header. Values are their K-byte little-endian strings.                                   *)
EXTENDS Naturals, Sequences, SequencesExt, Bytes

Ser(vals, K) ==
    LET n == Len(vals)
    IN [i \in 1..(n * K) |-> vals[((i - 1) % n) + 1][((i - 1) \div n) + 1]]

Parse(bs, pos, K, n) ==
    IF ~HasBytes(bs, pos, n * K) THEN [ok |-> FALSE, why |-> "bss-truncated"]
    ELSE [ok |-> TRUE, p |-> pos + n * K,
          vals |-> [v \in 1..n |-> [j \in 1..K |-> bs[pos + (j - 1) * n + (v - 1)]]]]
=============================================================================
