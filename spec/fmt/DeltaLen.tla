------------------------------ MODULE DeltaLen ------------------------------
(* DELTA_LENGTH_BYTE_ARRAY (Encodings.md "Delta-length byte array (= 6)"): all lengths       *)
(* encoded with DELTA_BINARY_PACKED (as INT32), followed by the concatenated bytes.          *)
EXTENDS Naturals, Sequences, SequencesExt, Bytes, W
D == INSTANCE DeltaBP

Ser(strs, o) == D!Ser([i \in 1..Len(strs) |-> FromNat(Len(strs[i]), 4)], 4, o) \o Flatten(strs)

\* [ok, vals, p]; the number of strings is the count in the length block's header
Parse(bs, pos) ==
    LET d == D!Parse(bs, pos, 4)
    IN IF ~d.ok THEN d
       ELSE IF \E i \in 1..Len(d.vals) : ~FitsNat(d.vals[i]) THEN [ok |-> FALSE, why |-> "dlen-negative-length"]
       ELSE LET lens == [i \in 1..Len(d.vals) |-> ToNat(d.vals[i])]
                \* offsets[i] = position of string i; guard the running sum against 31-bit overflow
                \* <<ok, next position, start positions>>; the running sum is guarded against overflow
                st == FoldLeft(LAMBDA a, l : IF ~a[1] \/ l > Len(bs) \/ a[2] + l > Len(bs) + 1 THEN <<FALSE, a[2], a[3]>>
                                             ELSE <<TRUE, a[2] + l, Append(a[3], a[2])>>,
                               <<TRUE, d.p, <<>>>>, lens)
            IN IF ~st[1] THEN [ok |-> FALSE, why |-> "dlen-truncated-bytes"]
               ELSE [ok |-> TRUE, p |-> st[2], maxw |-> d.maxw,
                     vals |-> [i \in 1..Len(lens) |-> Slice(bs, st[3][i], lens[i])]]
=============================================================================
