------------------------------ MODULE DeltaBP ------------------------------
(* DELTA_BINARY_PACKED (Encodings.md "Delta Encoding (DELTA_BINARY_PACKED = 5)").           *)
(*   header  := <block size in values> <miniblocks per block> <total value count> <first value>  *)
(*              ULEB128       ULEB128                ULEB128             zigzag ULEB128     *)
(*   block   := <min delta> <bit widths of the miniblocks> <miniblocks>                     *)
(*              zigzag ULEB128   one byte per miniblock    bit packed, LSB first             *)
(* The block size is a multiple of 128; the miniblock size (block size / miniblocks) is a   *)
(* multiple of 32. A miniblock always occupies miniblock_size * width / 8 bytes (a partial   *)
(* last miniblock is padded); miniblocks of the last block that hold no value are not        *)
(* stored, their width bytes are present and may have any value. Deltas and the subtraction  *)
(* of the min delta wrap around modulo 2^32 / 2^64.                                          *)
(* Values are limb words (W.tla) of L = 4 (INT32) or 8 (INT64) limbs, two's complement.      *)
EXTENDS Naturals, Sequences, SequencesExt, Bytes, Varint, BitPack

DBad(why) == [ok |-> FALSE, why |-> why]

\* zigzag ULEB128 of a signed L-limb value (numerically independent of L)
ZzVar(w) == UvarWEnc(ZigZagEnc(SignExtend(w, 8)))

SMin(ws) == FoldLeft(LAMBDA m, w : IF SLess(w, m) THEN w ELSE m, ws[1], ws)
Deltas(vals) == [i \in 1..(Len(vals) - 1) |-> Sub(vals[i + 1], vals[i])]

\* Encoder options (every choice is a legal stream):
\*   bs, m   block size and miniblocks per block
\*   widen   bits added to the minimal width of every stored miniblock (capped at 8L)
\*   unused  width byte written for the miniblocks of the last block that hold no value
StdOpts == [bs |-> 128, m |-> 4, widen |-> 0, unused |-> 0]

SerBlock(ds, L, o) ==
    LET ms == o.bs \div o.m
        mn == SMin(ds)
        adj == [i \in 1..Len(ds) |-> Sub(ds[i], mn)]
        used == (Len(ds) + ms - 1) \div ms
        mb(j) == [i \in 1..ms |-> LET k == (j - 1) * ms + i IN IF k <= Len(ds) THEN adj[k] ELSE Zero(L)]
        wneed(j) == FoldLeft(LAMBDA a, w : Max2(a, WidthW(w)), 0, mb(j))
        width == [j \in 1..o.m |-> IF j <= used THEN Min2(8 * L, wneed(j) + o.widen) ELSE o.unused]
    IN ZzVar(mn) \o width \o Flatten([j \in 1..used |-> PackW(mb(j), width[j])])

Ser(vals, L, o) ==
    LET n == Len(vals)
        first == IF n = 0 THEN Zero(L) ELSE vals[1]
        ds == IF n <= 1 THEN <<>> ELSE Deltas(vals)
        nb == (Len(ds) + o.bs - 1) \div o.bs
    IN UvarNatEnc(o.bs) \o UvarNatEnc(o.m) \o UvarNatEnc(n) \o ZzVar(first)
       \o Flatten([b \in 1..nb |-> SerBlock(SubSeq(ds, (b - 1) * o.bs + 1, Min2(b * o.bs, Len(ds))), L, o)])

\* Parse the stream at 1-based pos: [ok, vals, p, total, maxw, bs, m]; all `total` values are
\* decoded, p is the position after the last stored miniblock, maxw the widest stored miniblock.
\* Widths up to 64 are unpacked for either type (the value is then reduced modulo 2^(8L)).
Parse(bs, pos, L) ==
    LET h1 == UvarNatParse(bs, pos)
    IN IF ~h1.ok THEN h1 ELSE
    LET h2 == UvarNatParse(bs, h1.p)
    IN IF ~h2.ok THEN h2 ELSE
    LET h3 == UvarNatParse(bs, h2.p)
    IN IF ~h3.ok THEN h3 ELSE
    LET h4 == UvarWParse(bs, h3.p)
    IN IF ~h4.ok THEN h4 ELSE
    LET bsz == h1.v
        m == h2.v
        total == h3.v
    IN IF bsz = 0 \/ bsz % 128 # 0 THEN DBad("delta-block-size")
       ELSE IF bsz > 1048576 THEN DBad("delta-block-size-beyond-model")     \* keeps miniblock byte counts inside TLC's integers
       ELSE IF m = 0 \/ bsz % m # 0 \/ (bsz \div m) % 32 # 0 THEN DBad("delta-miniblock-count")
       ELSE
    LET ms == bsz \div m
        first == Resize(ZigZagDec(h4.v), L)
        RECURSIVE blocks(_, _, _, _, _), minis(_, _, _, _, _, _, _, _)
        blocks(p, r, last, acc, mw) ==
            IF r = 0 THEN [ok |-> TRUE, vals |-> acc, p |-> p, total |-> total, maxw |-> mw, bs |-> bsz, m |-> m]
            ELSE LET md == UvarWParse(bs, p)
                 IN IF ~md.ok THEN md
                    ELSE IF ~HasBytes(bs, md.p, m) THEN DBad("delta-truncated-widths")
                    ELSE minis(1, md.p, md.p + m, r, last, acc, mw, Resize(ZigZagDec(md.v), L))
        minis(j, wp, p, r, last, acc, mw, mn) ==
            IF r = 0 \/ j > m THEN blocks(p, r, last, acc, mw)
            ELSE LET w == bs[wp + j - 1]
                     nbytes == (ms * w) \div 8
                 IN IF w > 64 THEN DBad("delta-width>64")
                    ELSE IF ~HasBytes(bs, p, nbytes) THEN DBad("delta-truncated-miniblock")
                    ELSE LET take == Min2(r, ms)
                             adj == UnpackW(bs, p, w, take, 8)
                             st == FoldLeft(LAMBDA a, x : LET v == Add(Add(a[1], mn), Resize(x, L))
                                                          IN <<v, Append(a[2], v)>>,
                                            <<last, <<>>>>, adj)
                         IN minis(j + 1, wp, p + nbytes, r - take, st[1], acc \o st[2], Max2(mw, w), mn)
    IN IF total = 0 THEN [ok |-> TRUE, vals |-> <<>>, p |-> h4.p, total |-> 0, maxw |-> 0, bs |-> bsz, m |-> m]
       ELSE blocks(h4.p, total - 1, first, <<first>>, 0)
=============================================================================
