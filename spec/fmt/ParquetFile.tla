---------------------------- MODULE ParquetFile ----------------------------
(* The Parquet file format (parquet-format README.md / parquet.thrift / Encodings.md)     *)
(* as an executable reference reader: ParseFile(bytes) -> abstract file or Bad(why).       *)
(* Shares nothing with carquet. Covers: magic, footer length, Thrift-compact footer,       *)
(* schema tree -> leaves with max definition / repetition levels, row groups, column      *)
(* chunks, page headers, data page v1 (levels in the RLE/bit-packed hybrid with 4-byte     *)
(* length prefix, PLAIN and dictionary-encoded values), dictionary pages, page CRCs.       *)
(* Byte positions are 1-based indices into the file's byte sequence; "offsets" are the     *)
(* 0-based file offsets stored in the metadata.                                            *)
EXTENDS Naturals, Sequences, SequencesExt, FiniteSets, Bytes, W, Varint, BitPack, Hybrid,
        ThriftCompact, Crc32, PageCodec

MAGIC == <<80, 65, 82, 49>>
NoNat == 2147483647

\* physical types
T_BOOLEAN == 0  T_INT32 == 1  T_INT64 == 2  T_INT96 == 3  T_FLOAT == 4  T_DOUBLE == 5
T_BYTE_ARRAY == 6  T_FLBA == 7
\* repetition
R_REQUIRED == 0  R_OPTIONAL == 1  R_REPEATED == 2
\* encodings
E_PLAIN == 0  E_PLAIN_DICT == 2  E_RLE == 3  E_BIT_PACKED == 4  E_RLE_DICT == 8
\* page types
PG_DATA == 0  PG_INDEX == 1  PG_DICT == 2  PG_DATA_V2 == 3

FixedWidth(type, tlen) == CASE type = T_INT32 -> 4 [] type = T_INT64 -> 8 [] type = T_INT96 -> 12
                            [] type = T_FLOAT -> 4 [] type = T_DOUBLE -> 8 [] type = T_FLBA -> tlen
                            [] OTHER -> 0

\* ---- thrift field access with defaults ----
NatF(s, id) == IF FieldIs(s, id, {"i16", "i32", "i64"}) /\ IsSmallNat(Field(s, id))
               THEN NatOf(Field(s, id)) ELSE NoNat
HasNatF(s, id) == NatF(s, id) # NoNat
BinF(s, id) == IF FieldIs(s, id, {"binary"}) THEN Field(s, id).v ELSE <<>>
ListF(s, id) == IF FieldIs(s, id, {"list"}) THEN Field(s, id).v ELSE <<>>
IsStruct(x) == x.t = "struct"

\* ---- PLAIN values: nn values of the physical type from bs[p .. end-1] ----
\* result [ok, vals (Seq of byte strings), p]
PlainDecode(bs, p, end, type, tlen, nn) ==
    IF type = T_BOOLEAN THEN
        LET nb == (nn + 7) \div 8
        IN IF nb > end - p THEN Bad("plain-bool-short")        \* (no sums of untrusted numbers: TLC integers are 32-bit)
           ELSE [ok |-> TRUE, p |-> p + nb,
                 vals |-> [i \in 1..nn |-> <<(bs[p + ((i - 1) \div 8)] \div P2[(i - 1) % 8]) % 2>>]]
    ELSE IF type = T_BYTE_ARRAY THEN
        LET RECURSIVE go(_, _, _)
            go(q, k, acc) ==
                IF k = 0 THEN [ok |-> TRUE, vals |-> acc, p |-> q]
                ELSE IF q + 4 > end THEN Bad("plain-ba-len-short")
                ELSE IF bs[q + 3] >= 128 THEN Bad("plain-ba-len-huge")
                ELSE LET l == FromLE(Slice(bs, q, 4))
                     IN IF l > end - (q + 4) THEN Bad("plain-ba-short")
                        ELSE go(q + 4 + l, k - 1, Append(acc, Slice(bs, q + 4, l)))
        IN go(p, nn, <<>>)
    ELSE LET w == FixedWidth(type, tlen)
         IN IF w = 0 /\ type # T_FLBA THEN Bad("plain-unknown-type")
            ELSE IF w > 0 /\ nn > (end - p) \div w THEN Bad("plain-fixed-short")
            ELSE IF p > end THEN Bad("plain-fixed-short")
            ELSE [ok |-> TRUE, p |-> p + nn * w, vals |-> [i \in 1..nn |-> Slice(bs, p + (i - 1) * w, w)]]

\* ---- schema ----
\* element record from its thrift struct
Elem(s) == [name |-> BinF(s, 4), hasType |-> HasNatF(s, 1), type |-> NatF(s, 1), tlen |-> NatF(s, 2),
            hasRep |-> HasNatF(s, 3), rep |-> NatF(s, 3), nchild |-> IF HasNatF(s, 5) THEN NatF(s, 5) ELSE 0,
            hasConv |-> HasNatF(s, 6), conv |-> NatF(s, 6), hasLogical |-> HasField(s, 10)]

\* Depth-first walk of the element list. Returns [ok, leaves, next] (next = index after subtree).
\* def/rep of a leaf = number of optional-or-repeated / repeated nodes on its path (root excluded).
RECURSIVE Walk(_, _, _, _, _)
Walk(es, i, path, d, r) ==
    IF i > Len(es) THEN Bad("schema-children-exceed-elements")
    ELSE LET e == es[i]
             d2 == IF e.hasRep /\ e.rep \in {R_OPTIONAL, R_REPEATED} THEN d + 1 ELSE d
             r2 == IF e.hasRep /\ e.rep = R_REPEATED THEN r + 1 ELSE r
             path2 == Append(path, e.name)
         IN IF e.nchild = 0
            THEN IF ~e.hasType THEN Bad("schema-leaf-without-type")
                 ELSE [ok |-> TRUE, next |-> i + 1,
                       leaves |-> <<[path |-> path2, type |-> e.type, tlen |-> IF e.tlen = NoNat THEN 0 ELSE e.tlen,
                                     rep |-> IF e.hasRep THEN e.rep ELSE R_REQUIRED,
                                     maxDef |-> d2, maxRep |-> r2, elem |-> i]>>]
            ELSE LET RECURSIVE kids(_, _, _)
                     kids(j, k, acc) ==
                        IF k = 0 THEN [ok |-> TRUE, next |-> j, leaves |-> acc]
                        ELSE LET w == Walk(es, j, path2, d2, r2)
                             IN IF ~w.ok THEN w ELSE kids(w.next, k - 1, acc \o w.leaves)
                 IN kids(i + 1, e.nchild, <<>>)

\* the root (element 1) contributes neither to paths nor to levels
SchemaLeaves(es) ==
    IF Len(es) = 0 THEN Bad("schema-empty")
    ELSE LET root == es[1]
             RECURSIVE kids(_, _, _)
             kids(j, k, acc) ==
                IF k = 0 THEN [ok |-> TRUE, next |-> j, leaves |-> acc]
                ELSE LET w == Walk(es, j, <<>>, 0, 0)
                     IN IF ~w.ok THEN w ELSE kids(w.next, k - 1, acc \o w.leaves)
             r == kids(2, root.nchild, <<>>)
         IN IF ~r.ok THEN r
            ELSE IF r.next # Len(es) + 1 THEN Bad("schema-elements-left-over")
            ELSE r

\* ---- pages ----
CountEq(seq, x) == FoldLeft(LAMBDA acc, y : IF y = x THEN acc + 1 ELSE acc, 0, seq)

\* Levels + values of a v1 data page from its *uncompressed* body `pb`.
DataPageV1(pb, n, enc, leaf, dict) ==
    LET end == Len(pb) + 1
        rl == IF leaf.maxRep > 0 THEN ParsePrefixed(pb, 1, WidthOf(leaf.maxRep), n)
              ELSE [ok |-> TRUE, vals |-> [i \in 1..n |-> 0], p |-> 1]
    IN IF ~rl.ok THEN rl
       ELSE LET dl == IF leaf.maxDef > 0 THEN ParsePrefixed(pb, rl.p, WidthOf(leaf.maxDef), n)
                      ELSE [ok |-> TRUE, vals |-> [i \in 1..n |-> 0], p |-> rl.p]
            IN IF ~dl.ok THEN dl
               ELSE IF \E i \in 1..n : dl.vals[i] > leaf.maxDef \/ rl.vals[i] > leaf.maxRep THEN Bad("level-out-of-range")
               ELSE LET nn == CountEq(dl.vals, leaf.maxDef)
                        vs == IF enc = E_PLAIN THEN PlainDecode(pb, dl.p, end, leaf.type, leaf.tlen, nn)
                              ELSE IF enc \in {E_PLAIN_DICT, E_RLE_DICT} THEN
                                   IF nn = 0 THEN [ok |-> TRUE, vals |-> <<>>, p |-> end]      \* width byte optional when nothing is encoded
                                   ELSE IF dl.p >= end THEN Bad("dict-index-width-missing")
                                   ELSE LET bw == pb[dl.p]
                                        IN IF bw > 31 THEN Bad("dict-index-width")
                                           ELSE LET ix == Parse(pb, dl.p + 1, end - (dl.p + 1), bw, nn)
                                                IN IF ~ix.ok THEN ix
                                                   ELSE IF \E i \in 1..nn : ix.vals[i] >= Len(dict) THEN Bad("dict-index-out-of-range")
                                                   ELSE [ok |-> TRUE, p |-> end, vals |-> [i \in 1..nn |-> dict[ix.vals[i] + 1]]]
                              ELSE Bad("unsupported-encoding")
                    IN IF ~vs.ok THEN vs
                       ELSE [ok |-> TRUE, defs |-> dl.vals, reps |-> rl.vals, vals |-> vs.vals,
                             exact |-> vs.p = end]

\* statistics struct -> record (binary fields as bytes, absent = <<>> with has flags)
StatsOf(s) == [hasMax |-> FieldIs(s, 5, {"binary"}), max |-> BinF(s, 5),
               hasMin |-> FieldIs(s, 6, {"binary"}), min |-> BinF(s, 6),
               hasMaxOld |-> FieldIs(s, 1, {"binary"}), maxOld |-> BinF(s, 1),
               hasMinOld |-> FieldIs(s, 2, {"binary"}), minOld |-> BinF(s, 2),
               hasNulls |-> HasNatF(s, 3), nulls |-> NatF(s, 3)]
NoStats == [hasMax |-> FALSE, max |-> <<>>, hasMin |-> FALSE, min |-> <<>>, hasMaxOld |-> FALSE,
            maxOld |-> <<>>, hasMinOld |-> FALSE, minOld |-> <<>>, hasNulls |-> FALSE, nulls |-> NoNat]

\* Parse the pages of one chunk occupying file offsets [start, start+len) until `want` values
\* have been seen in data pages AND the byte range is exhausted.
\* Returns [ok, pages, endOff] ; each page carries sizes, crc verdict, decoded content.
ChunkPagesX(bs, start, len, codec, leaf, want, decode) ==
    LET endOff == start + len
        RECURSIVE go(_, _, _, _)
        go(off, seen, dict, acc) ==
            IF off = endOff THEN [ok |-> TRUE, pages |-> acc, seen |-> seen]
            ELSE IF off > endOff THEN Bad("page-overruns-chunk")
            ELSE LET h == TParse(bs, off + 1)
                 IN IF ~h.ok THEN [ok |-> FALSE, why |-> "page-header:" \o h.why]
                    ELSE LET ph == h.v
                             hdrLen == h.p - (off + 1)
                             ptype == NatF(ph, 1)
                             ulen == NatF(ph, 2)
                             clen == NatF(ph, 3)
                         IN IF ptype = NoNat \/ ulen = NoNat \/ clen = NoNat THEN Bad("page-header-required-field")
                            \* sizes beyond what any codec can expand a file of this model's size to: rejected here so that
                            \* later sums of page sizes stay inside TLC's 32-bit integers
                            ELSE IF ulen > 134217728 \/ clen > 134217728 THEN Bad("page-size-beyond-model")
                            ELSE IF clen > endOff - (off + hdrLen) THEN Bad("page-body-overruns-chunk")
                            ELSE LET body == Slice(bs, off + hdrLen + 1, clen)
                                     hasCrc == FieldIs(ph, 4, {"i32"})
                                     crc == IF hasCrc THEN SubSeq(Field(ph, 4).v, 1, 4) ELSE <<>>
                                     crcOk == ~hasCrc \/ AsLE(Crc32(body)) = crc
                                     un == IF decode THEN Decompress(codec, body, ulen) ELSE [ok |-> TRUE, v |-> <<>>]
                                     base == [hdrLen |-> hdrLen, clen |-> clen, ulen |-> ulen, off |-> off,
                                              hasCrc |-> hasCrc, crcOk |-> crcOk, ptype |-> ptype]
                                 IN IF ~un.ok THEN un
                                    ELSE IF decode /\ Len(un.v) # ulen THEN Bad("uncompressed-size-mismatch")
                                    ELSE IF ptype = PG_DICT THEN
                                         IF ~FieldIs(ph, 7, {"struct"}) THEN Bad("dict-page-header-missing")
                                         ELSE LET dh == Field(ph, 7)
                                                  n == NatF(dh, 1)
                                                  d == IF n = NoNat THEN Bad("dict-num-values")
                                                       ELSE IF ~decode THEN [ok |-> TRUE, vals |-> <<>>, p |-> 1]
                                                       ELSE PlainDecode(un.v, 1, Len(un.v) + 1, leaf.type, leaf.tlen, n)
                                              IN IF ~d.ok THEN d
                                                 ELSE go(off + hdrLen + clen, seen, d.vals,
                                                         Append(acc, base @@ [kind |-> "dict", n |-> n, enc |-> NatF(dh, 2),
                                                                              exact |-> d.p = Len(un.v) + 1]))
                                    ELSE IF ptype = PG_DATA THEN
                                         IF ~FieldIs(ph, 5, {"struct"}) THEN Bad("data-page-header-missing")
                                         ELSE LET dh == Field(ph, 5)
                                                  n == NatF(dh, 1)
                                                  enc == NatF(dh, 2)
                                              IN IF n = NoNat \/ enc = NoNat \/ NatF(dh, 3) = NoNat \/ NatF(dh, 4) = NoNat
                                                 THEN Bad("data-page-header-required-field")
                                                 ELSE LET c == IF decode THEN DataPageV1(un.v, n, enc, leaf, dict)
                                                               ELSE [ok |-> TRUE, defs |-> <<>>, reps |-> <<>>, vals |-> <<>>, exact |-> TRUE]
                                                      IN IF ~c.ok THEN c
                                                         ELSE go(off + hdrLen + clen, seen + n, dict,
                                                                 Append(acc, base @@ [kind |-> "data", n |-> n, enc |-> enc,
                                                                        defEnc |-> NatF(dh, 3), repEnc |-> NatF(dh, 4),
                                                                        defs |-> c.defs, reps |-> c.reps, vals |-> c.vals,
                                                                        exact |-> c.exact,
                                                                        stats |-> IF FieldIs(dh, 5, {"struct"}) THEN StatsOf(Field(dh, 5)) ELSE NoStats,
                                                                        hasStats |-> FieldIs(dh, 5, {"struct"})]))
                                    ELSE Bad("unsupported-page-type")
    IN go(start, 0, <<>>, <<>>)

\* ---- chunks, row groups, file ----
ChunkOfX(bs, cc, leaf, dataEnd, decode) ==
    IF ~IsStruct(cc) \/ ~FieldIs(cc, 3, {"struct"}) THEN Bad("column-chunk-without-metadata")
    ELSE LET md == Field(cc, 3)
             type == NatF(md, 1)
             codec == NatF(md, 4)
             nvals == NatF(md, 5)
             tun == NatF(md, 6)
             tco == NatF(md, 7)
             dpo == NatF(md, 9)
             dico == NatF(md, 11)
             encs == ListF(md, 2)
             paths == ListF(md, 3)
         IN IF type = NoNat \/ codec = NoNat \/ nvals = NoNat \/ tun = NoNat \/ tco = NoNat \/ dpo = NoNat
               \/ ~FieldIs(md, 2, {"list"}) \/ ~FieldIs(md, 3, {"list"})
            THEN Bad("column-metadata-required-field")
            ELSE IF type # leaf.type THEN Bad("chunk-type-differs-from-schema")
            ELSE LET start == IF dico # NoNat /\ dico > 0 /\ dico < dpo THEN dico ELSE dpo
                 IN IF start < 4 \/ start + tco > dataEnd THEN Bad("chunk-outside-data-region")
                    ELSE LET pg == ChunkPagesX(bs, start, tco, codec, leaf, nvals, decode)
                         IN IF ~pg.ok THEN pg
                            ELSE [ok |-> TRUE,
                                  c |-> [start |-> start, len |-> tco, type |-> type, codec |-> codec, numValues |-> nvals,
                                         totalUncompressed |-> tun, dataPageOffset |-> dpo, dictPageOffset |-> dico,
                                         fileOffset |-> NatF(cc, 2),
                                         encodings |-> {NatOf(encs[i]) : i \in {j \in 1..Len(encs) : IsSmallNat(encs[j])}},
                                         path |-> [i \in 1..Len(paths) |-> IF paths[i].t = "binary" THEN paths[i].v ELSE <<>>],
                                         hasStats |-> FieldIs(md, 12, {"struct"}),
                                         stats |-> IF FieldIs(md, 12, {"struct"}) THEN StatsOf(Field(md, 12)) ELSE NoStats,
                                         pages |-> pg.pages, seen |-> pg.seen]]

RowGroupOfX(bs, rg, leaves, dataEnd, decode) ==
    IF ~IsStruct(rg) \/ ~FieldIs(rg, 1, {"list"}) \/ NatF(rg, 2) = NoNat \/ NatF(rg, 3) = NoNat
    THEN Bad("row-group-required-field")
    ELSE LET cols == Field(rg, 1).v
         IN IF Len(cols) # Len(leaves) THEN Bad("row-group-column-count")
            ELSE LET RECURSIVE go(_, _)
                     go(i, acc) == IF i > Len(cols) THEN [ok |-> TRUE, cols |-> acc]
                                   ELSE LET c == ChunkOfX(bs, cols[i], leaves[i], dataEnd, decode)
                                        IN IF ~c.ok THEN c ELSE go(i + 1, Append(acc, c.c))
                     r == go(1, <<>>)
                 IN IF ~r.ok THEN r
                    ELSE [ok |-> TRUE, rg |-> [numRows |-> NatF(rg, 3), totalByteSize |-> NatF(rg, 2), cols |-> r.cols]]

ParseFileX(bs, decode) ==
    LET n == Len(bs)
    IN IF n < 12 THEN Bad("too-short")
       ELSE IF SubSeq(bs, 1, 4) # MAGIC THEN Bad("leading-magic")
       ELSE IF SubSeq(bs, n - 3, n) # MAGIC THEN Bad("trailing-magic")
       ELSE IF bs[n - 4] >= 128 THEN Bad("footer-length-huge")
       ELSE LET flen == FromLE(Slice(bs, n - 7, 4))
            IN IF flen + 12 > n THEN Bad("footer-length-exceeds-file")
               ELSE LET fstart == n - 8 - flen             \* 0-based offset of the footer
                        f == TParse(SubSeq(bs, 1, n - 8), fstart + 1)
                    IN IF ~f.ok THEN [ok |-> FALSE, why |-> "footer:" \o f.why]
                       ELSE IF f.p # n - 8 + 1 THEN Bad("footer-length-mismatch")
                       ELSE LET md == f.v
                            IN IF NatF(md, 1) = NoNat \/ ~FieldIs(md, 2, {"list"}) \/ NatF(md, 3) = NoNat
                                  \/ ~FieldIs(md, 4, {"list"})
                               THEN Bad("file-metadata-required-field")
                               ELSE LET ses == Field(md, 2).v
                                    IN IF \E i \in 1..Len(ses) : ~IsStruct(ses[i]) \/ ~FieldIs(ses[i], 4, {"binary"})
                                       THEN Bad("schema-element-required-field")
                                       ELSE LET es == [i \in 1..Len(ses) |-> Elem(ses[i])]
                                                lv == SchemaLeaves(es)
                                            IN IF ~lv.ok THEN lv
                                               ELSE LET rgl == Field(md, 4).v
                                                        RECURSIVE go(_, _)
                                                        go(i, acc) ==
                                                           IF i > Len(rgl) THEN [ok |-> TRUE, rgs |-> acc]
                                                           ELSE LET r == RowGroupOfX(bs, rgl[i], lv.leaves, fstart, decode)
                                                                IN IF ~r.ok THEN r ELSE go(i + 1, Append(acc, r.rg))
                                                        rr == go(1, <<>>)
                                                    IN IF ~rr.ok THEN rr
                                                       ELSE [ok |-> TRUE, version |-> NatF(md, 1), numRows |-> NatF(md, 3),
                                                             elements |-> es, leaves |-> lv.leaves, rgs |-> rr.rgs,
                                                             footerStart |-> fstart, footerLen |-> flen,
                                                             createdBy |-> BinF(md, 6)]

ParseFile(bs) == ParseFileX(bs, TRUE)
\* layout only: page headers, sizes, offsets, CRC verdicts; page bodies stay opaque (any codec)
ParseLayout(bs) == ParseFileX(bs, FALSE)
ChunkPages(bs, start, len, codec, leaf, want) == ChunkPagesX(bs, start, len, codec, leaf, want, TRUE)

\* ------------------------------------------------------------------ content
ConcatSeqs(ss) == Flatten(ss)
DataPages(c) == SelectSeq(c.pages, LAMBDA pg : pg.kind = "data")
ChunkDefs(c) == ConcatSeqs([i \in 1..Len(DataPages(c)) |-> DataPages(c)[i].defs])
ChunkReps(c) == ConcatSeqs([i \in 1..Len(DataPages(c)) |-> DataPages(c)[i].reps])
ChunkVals(c) == ConcatSeqs([i \in 1..Len(DataPages(c)) |-> DataPages(c)[i].vals])

\* the table a file holds: per row group, per leaf: [defs, reps, vals]
TableOf(f) == [g \in 1..Len(f.rgs) |->
                  [numRows |-> f.rgs[g].numRows,
                   cols |-> [c \in 1..Len(f.rgs[g].cols) |->
                               [defs |-> ChunkDefs(f.rgs[g].cols[c]), reps |-> ChunkReps(f.rgs[g].cols[c]),
                                vals |-> ChunkVals(f.rgs[g].cols[c])]]]]

\* ------------------------------------------------------------------ structural predicates (C05)
AllChunks(f) == ConcatSeqs([g \in 1..Len(f.rgs) |-> f.rgs[g].cols])

\* chunks tile [4, footerStart) in file order, no gap, no overlap
Tiling(f) ==
    LET cs == AllChunks(f)
    IN IF Len(cs) = 0 THEN f.footerStart = 4
       ELSE /\ cs[1].start = 4
            /\ \A i \in 1..(Len(cs) - 1) : cs[i].start + cs[i].len = cs[i + 1].start
            /\ cs[Len(cs)].start + cs[Len(cs)].len = f.footerStart

\* page sizes chain exactly through the chunk (ChunkPages already enforces that pages end at the
\* chunk end; here: sum of header+compressed sizes = total_compressed_size)
PageChain(f) ==
    \A i \in 1..Len(AllChunks(f)) :
        LET c == AllChunks(f)[i]
        IN FoldLeft(LAMBDA acc, pg : acc + pg.hdrLen + pg.clen, 0, c.pages) = c.len

\* value counts: data pages -> chunk -> row group -> file (flat schemas: values = rows)
CountsAddUp(f) ==
    /\ \A g \in 1..Len(f.rgs) : \A c \in 1..Len(f.rgs[g].cols) :
          LET ch == f.rgs[g].cols[c]
          IN /\ ch.seen = ch.numValues
             /\ (f.leaves[c].maxRep = 0 => ch.numValues = f.rgs[g].numRows)
             /\ (f.leaves[c].maxRep > 0 => CountEq(ChunkReps(ch), 0) = f.rgs[g].numRows)
    /\ FoldLeft(LAMBDA acc, rg : acc + rg.numRows, 0, f.rgs) = f.numRows

\* encodings / codec tags: every encoding a page uses is listed in the chunk's encodings
TagsConsistent(f) ==
    \A i \in 1..Len(AllChunks(f)) :
        LET c == AllChunks(f)[i]
        IN \A j \in 1..Len(c.pages) :
              LET pg == c.pages[j]
              IN /\ pg.enc \in c.encodings
                 /\ (pg.kind = "data" /\ ChunkDefs(c) # <<>> =>
                        \/ pg.defEnc \in c.encodings \/ TRUE)     \* level encodings need not be listed by all writers

CrcOk(f) == \A i \in 1..Len(AllChunks(f)) : \A j \in 1..Len(AllChunks(f)[i].pages) : AllChunks(f)[i].pages[j].crcOk

\* uncompressed sizes: page bodies (already enforced), chunk total = sum(header + uncompressed body)
SizesOk(f) ==
    \A i \in 1..Len(AllChunks(f)) :
        LET c == AllChunks(f)[i]
        IN FoldLeft(LAMBDA acc, pg : acc + pg.hdrLen + pg.ulen, 0, c.pages) = c.totalUncompressed

\* row group total_byte_size = sum of the chunks' total_uncompressed_size
RowGroupSizesOk(f) ==
    \A g \in 1..Len(f.rgs) :
        FoldLeft(LAMBDA acc, c : acc + c.totalUncompressed, 0, f.rgs[g].cols) = f.rgs[g].totalByteSize

ValuesExact(f) == \A i \in 1..Len(AllChunks(f)) : \A j \in 1..Len(AllChunks(f)[i].pages) : AllChunks(f)[i].pages[j].exact

\* data_page_offset points at the first data page, dictionary_page_offset (if any) at the dict page
OffsetsOk(f) ==
    \A i \in 1..Len(AllChunks(f)) :
        LET c == AllChunks(f)[i]
            firstData == CHOOSE j \in 1..Len(c.pages) : c.pages[j].kind = "data" /\ \A k \in 1..(j - 1) : c.pages[k].kind # "data"
        IN (\E j \in 1..Len(c.pages) : c.pages[j].kind = "data") => c.pages[firstData].off = c.dataPageOffset

PathsOk(f) == \A g \in 1..Len(f.rgs) : \A c \in 1..Len(f.rgs[g].cols) : f.rgs[g].cols[c].path = f.leaves[c].path
=============================================================================
