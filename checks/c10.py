"""C10 - Built-in Snappy and LZ4 speak the standard formats.

Deciding method (both directions, oracle = TLC executing spec/fmt/Snappy.tla and spec/fmt/Lz4.tla):

 (1) spec-encode -> carquet-decode: MC_SnappyGen / MC_Lz4Gen enumerate token lists over every tag
     kind / length encoding / offset class, serialise them and compute the bytes a conforming
     decoder returns, plus the invalid blocks derived from each list; MC_SnappyBytes / MC_Lz4Bytes
     judge every byte string over a boundary alphabet up to a small length. carquet's decompressor
     must return exactly the expected bytes for valid blocks and an error for invalid ones.
 (2) carquet-compress -> spec-decode: inputs described by TLC-enumerated LZ-structured descriptors
     are compressed by carquet, the (input, block) pairs are logged and validated by TLC
     (MC_SnappyTrace / MC_Lz4Trace): the block must be valid, decode to the input and, for LZ4,
     obey the end-of-block rules.

The system libsnappy / liblz4 are run on the same cases first, only to self-check the TLA+ specs
(disagreement = InfraError, never a violation).
"""
import os

from vlib import common
from checks import codecs_lib as cl
from checks.codecs_lib import rope_str, bytes_rope, desc_str

LEVEL = "model_checking"

SNAPPY_ALPHA = "{0, 1, 2, 3, 4, 5, 240, 244, 252, 29, 225, 6, 254, 255, 128, 65}"
LZ4_ALPHA = "{0, 1, 2, 16, 20, 15, 31, 240, 255, 64, 254, 79}"


# ---------------------------------------------------------------------------------------
# direction 1: token lists
# ---------------------------------------------------------------------------------------

def gen_cases(fmt, tier, workers=None):
    runs = []
    if fmt == "snappy":
        if tier == "quick":
            runs = [("Depth = 2\nFullDepth = 2\nHuge = FALSE", None), ("Depth = 3\nFullDepth = 1\nHuge = FALSE", None)]
        else:
            runs = [("Depth = 3\nFullDepth = 2\nHuge = FALSE", None), ("Depth = 2\nFullDepth = 2\nHuge = TRUE", None)]
        mod = "MC_SnappyGen"
    else:
        if tier == "quick":
            runs = [("Depth = 2\nFullDepth = 1\nHugeMl = {65040, 65041, 131072}", None), ("Depth = 3\nFullDepth = 0\nHugeMl = {}", None)]
        else:
            runs = [("Depth = 3\nFullDepth = 1\nHugeMl = {}", None),
                    ("Depth = 2\nFullDepth = 1\nHugeMl = {65039, 65040, 65041, 65042, 65535, 65536, 65554, 70000, 131072, 200000}", None)]
        mod = "MC_Lz4Gen"
    cases, results = [], []
    done = cl.parallel({k: (lambda consts=consts: cl.tlc_gen(mod, consts, what="%s %s" % (mod, consts.replace("\n", " ")), workers=workers))
                        for k, (consts, flt) in enumerate(runs)})
    import json
    seen = set()
    for k, (consts, flt) in enumerate(runs):
        r = done[k]
        results.append(r)
        for c in r.cases:
            items = c["toks"] if fmt == "snappy" else c["seqs"]
            key = json.dumps(items, sort_keys=True)
            if key in seen:
                continue      # the runs overlap on short lists
            seen.add(key)
            cases.append(c)
    return cases, results


def feature(fmt, c):
    """Name of the grammar feature exercised by the last element (used in signatures)."""
    if fmt == "snappy":
        t = c["toks"][-1]
        if t["k"] == "lit":
            return "lit-x%d" % t["x"]
        return "%s%s" % (t["k"], "-overlap" if t["off"] < t["len"] else "")
    seqs = c["seqs"]
    if len(seqs) == 1:
        return "literals-only" + ("-ext" if seqs[0]["lit"] >= 15 else "")
    m = seqs[-2]
    return "match%s%s%s" % ("-overlap" if m["off"] < m["ml"] else "", "-mlext" if m["ml"] >= 19 else "",
                            "-litext" if m["lit"] >= 15 else "")


def dir1_lines(fmt, cases):
    p = fmt[0]
    lines = []
    for i, c in enumerate(cases):
        s = rope_str(c["s"])
        lines.append("%s%de exp %s" % (p, i, rope_str(c["out"])))
        lines.append("%s%dv dec %s %d %s" % (p, i, fmt, c["n"], s))
        lines.append("%s%dw dec %s %d %s" % (p, i, fmt, c["n"] + 1, s))
        for j, b in enumerate(c["bad"]):
            lines.append("%s%db%d dec %s %d %s" % (p, i, j, fmt, b["cap"], rope_str(b["s"])))
    return lines


def last_byte(rope):
    for ch in reversed(rope or []):
        if "b" in ch and ch["b"]:
            return ch["b"][-1]
        if "n" in ch and ch["n"]:
            return None
    return None


def refcheck_dir1(fmt, cases, res, faults):
    """The system library must agree with the spec on these cases (spec self-check)."""
    p = fmt[0]
    if faults:
        raise common.InfraError("reference %s crashed on a generated case: %s" % (fmt, faults[0].signature()))
    lenient_bad = {"offset-zero"} if fmt == "lz4" else set()    # liblz4 does not check offset 0
    for i, c in enumerate(cases):
        exp = res.get("%s%de" % (p, i))
        strict = c.get("strict", True)
        for tag in ("v", "w"):
            got = res.get("%s%d%s" % (p, i, tag))
            if not exp or not got:
                raise InfraError_missing(fmt, i)
            okv = got[0] == "0" and got[1] == exp[0] and got[2] == exp[1]
            if strict and not okv:
                raise common.InfraError("spec/%s disagreement: reference library does not return the spec's output for valid block %s (%s) got %s" % (
                    fmt, c.get("toks", c.get("seqs")), tag, got[:2]))
            if not strict and got[0] == "0" and not okv:
                raise common.InfraError("spec/%s disagreement on lenient block %s" % (fmt, c.get("seqs")))
        for j, b in enumerate(c["bad"]):
            got = res.get("%s%db%d" % (p, i, j))
            if got and got[0] == "0" and b["why"] not in lenient_bad:
                raise common.InfraError("spec/%s disagreement: reference library accepts block the spec calls invalid (%s) derived from %s" % (
                    fmt, b["why"], c.get("toks", c.get("seqs"))))


def InfraError_missing(fmt, i):
    return common.InfraError("reference %s harness lost case %d" % (fmt, i))


def prefix_keys(fmt, items):
    """Keys of the proper non-empty prefixes of a token list, as the generators build them."""
    import json
    keys = []
    for k in range(1, len(items)):
        if fmt == "snappy":
            pre = items[:k]
        else:
            pre = items[:k - 1] + [{"lit": items[k - 1]["lit"], "off": 0, "ml": 0}]
        keys.append(json.dumps(pre, sort_keys=True))
    return keys


def judge_dir1(chk, fmt, cases, res, faults, leaky):
    import json
    p = fmt[0]
    dec = fmt + "-dec"
    n_valid = n_bad = n_lenient_rej = implied = 0
    failures = []          # (kind, case index, tag, cap, got, exp)
    for i, c in enumerate(cases):
        items = c.get("toks", c.get("seqs"))
        exp = res.get("%s%de" % (p, i))
        strict = c.get("strict", True)
        nontrivial = len(items) > 1 or (fmt == "snappy" and items[0]["x"] > 0) or (fmt == "lz4" and items[0]["lit"] >= 15)
        chk.count((fmt, "valid", items), nontrivial)
        if i % 1499 == 7:
            chk.sample({"fmt": fmt, "tokens": items, "stream": rope_str(c["s"])[:160], "expected_len": c["n"], "strict": strict})
        for tag, cap in (("v", c["n"]), ("w", c["n"] + 1)):
            cid = "%s%d%s" % (p, i, tag)
            got = res.get(cid)
            if got is None or exp is None:
                continue
            n_valid += 1
            if got[0] != "0":
                if strict:
                    failures.append(("rejects-valid", i, tag, cap, got, exp))
                else:
                    n_lenient_rej += 1
            elif got[1] != exp[0] or got[2] != exp[1]:
                failures.append(("wrong-output", i, tag, cap, got, exp))
        for j, b in enumerate(c["bad"]):
            cid = "%s%db%d" % (p, i, j)
            chk.count((fmt, "bad", items, j), True)
            got = res.get(cid)
            if got is None:
                continue
            n_bad += 1
            if got[0] == "0":
                chk.violation("%s:accepts-trailing-input" % dec if b.get("trail") else "%s:accepts-invalid:%s" % (dec, b["why"]),
                              "%s decompress returns OK (%s bytes) for an invalid block (%s) derived from %s: stream=%s cap=%d" % (
                                  fmt, got[1], b["why"], items, rope_str(b["s"])[:300], b["cap"]),
                              {"fmt": fmt, "why": b["why"], "stream": rope_str(b["s"]), "cap": b["cap"], "base": items})
    # The case space is prefix closed: report a failing list only if none of its proper prefixes
    # fails too (the element added last is then the one the decoder mishandles).
    failing = {json.dumps(cases[i].get("toks", cases[i].get("seqs")), sort_keys=True) for _, i, _, _, _, _ in failures}
    for kind, i, tag, cap, got, exp in failures:
        c = cases[i]
        items = c.get("toks", c.get("seqs"))
        if any(k in failing for k in prefix_keys(fmt, items)):
            implied += 1
            continue
        feat = feature(fmt, c)
        rep = {"fmt": fmt, "tokens": items, "stream": rope_str(c["s"]), "cap": cap, "expect": rope_str(c["out"])}
        if kind == "rejects-valid":
            chk.violation("%s:rejects-valid:%s" % (dec, feat), "%s decompress rejects (status %s) a valid block: %s cap=%d stream=%s" % (
                fmt, got[0], items, cap, rope_str(c["s"])[:300]), rep)
        else:
            chk.violation("%s:wrong-output:%s" % (dec, feat), "%s decompress returns OK with wrong bytes for %s: expected len %s %s got len %s %s" % (
                fmt, items, exp[0], exp[1][:64], got[1], got[2][:64]), rep)
    for f in faults:
        # find the stream of the faulting case
        cid = f.case_id
        lb, stream = None, "?"
        if cid[0] != p:
            continue
        try:
            i = int("".join(ch for ch in cid[1:].split("b")[0] if ch.isdigit()))
            c = cases[i]
            isbad = "b" in cid[1:]
            rope = c["bad"][int(cid.split("b")[1])]["s"] if isbad else c["s"]
            cap = c["bad"][int(cid.split("b")[1])]["cap"] if isbad else c["n"] + (1 if cid.endswith("w") else 0)
            lb, stream = last_byte(rope), rope_str(rope)
        except Exception:
            cap = 0
        chk.violation(cl.fault_sig(dec, f, lb), "fault in %s decompress: %s on stream %s (capacity %d)" % (fmt, f.signature(), stream[:300], cap),
                      {"fmt": fmt, "stream": stream, "cap": cap, "stderr": getattr(f, "stderr", "")[-1500:]})
    for cid in leaky:
        chk.violation("%s:leak" % dec, "leak after %s decompress case %s" % (fmt, cid), cid)
    chk.part(fmt + "-spec-to-impl", valid_streams=n_valid, invalid_streams=n_bad, lenient_rejected=n_lenient_rej,
             token_lists=len(cases), faults=len(faults), failures_implied_by_a_failing_prefix=implied)
    chk.cov["traces_validated_against_impl"] += n_valid + n_bad


# ---------------------------------------------------------------------------------------
# direction 1b: every byte string over a boundary alphabet
# ---------------------------------------------------------------------------------------

def bytes_cases(fmt, tier, workers=None):
    if fmt == "snappy":
        consts = "MaxLen = %d\nAlphabet = %s\nCaps = {0, 1, 2, 5, 70}" % (3 if tier == "quick" else 4, SNAPPY_ALPHA)
        mod = "MC_SnappyBytes"
    else:
        consts = "MaxLen = %d\nAlphabet = %s\nCaps = {0, 1, 4, 5, 300}" % (4 if tier == "quick" else 5, LZ4_ALPHA)
        mod = "MC_Lz4Bytes"
    r = cl.tlc_gen(mod, consts, what=mod, workers=workers)
    return r.cases, r


TAIL_CONSTS = ("Firsts = {8, 9, 16, 64, 70}\nOffs = {8, 9, 16, 64}\n"
               "Lens = {4, 5, 6, 7, 8, 9, 10, 11, 12, 13, 14, 15, 16, 17, 18, 19, 20}\nTails = %s")
TAIL_PREFIX = {"snappy": "T", "lz4": "U"}


def tail_cases(fmt, tier, workers=None):
    """Blocks whose match/copy ends at or near the end of the output x exact / cutting capacities."""
    if fmt == "snappy":
        r = cl.tlc_gen("MC_SnappyTail", TAIL_CONSTS % "{0, 1, 3, 7}", what="MC_SnappyTail", workers=workers)
    else:
        r = cl.tlc_gen("MC_Lz4Tail", TAIL_CONSTS % "{99, 0, 1, 3, 7}", what="MC_Lz4Tail", workers=workers)
    return r.cases, r


def bytes_lines(fmt, cases, prefix=None):
    p = prefix or fmt[0].upper()
    lines = []
    for i, c in enumerate(cases):
        s = bytes_rope(c["s"])
        for cap in c["j"]:
            lines.append("%s%d_%s dec %s %s %s" % (p, i, cap, fmt, cap, s))
    return lines


def refcheck_bytes(fmt, cases, res, faults, prefix=None):
    if faults:
        raise common.InfraError("reference %s crashed on a byte-string case: %s" % (fmt, faults[0].signature()))
    p = prefix or fmt[0].upper()
    for i, c in enumerate(cases):
        for cap, j in c["j"].items():
            got = res.get("%s%d_%s" % (p, i, cap))
            if not got:
                continue
            ok = got[0] == "0"
            if j["exp"] == "accept" and not (ok and got[2] == common.hexs(j["out"])):
                raise common.InfraError("spec/%s disagreement: reference rejects/garbles %s (cap %s) the spec accepts" % (fmt, c["s"], cap))
            if j["exp"] == "lenient" and ok and got[2] != common.hexs(j["out"]):
                raise common.InfraError("spec/%s disagreement on lenient %s" % (fmt, c["s"]))
            if j["exp"] == "reject" and ok and not (fmt == "lz4" and j["why"] == "offset-zero"):
                raise common.InfraError("spec/%s disagreement: reference accepts %s (cap %s) the spec rejects (%s)" % (fmt, c["s"], cap, j["why"]))


def judge_bytes(chk, fmt, cases, res, faults, leaky, prefix=None, part="byte-strings", cls="bytes"):
    p = prefix or fmt[0].upper()
    dec = fmt + "-dec"
    n = acc = rej = 0
    for i, c in enumerate(cases):
        for cap, j in c["j"].items():
            got = res.get("%s%d_%s" % (p, i, cap))
            chk.count((fmt, "bytes", c["s"], cap), j["exp"] != "open")
            if not got:
                continue
            n += 1
            ok = got[0] == "0"
            rep = {"fmt": fmt, "stream": bytes_rope(c["s"]), "cap": int(cap), "spec": j}
            if j["exp"] == "accept":
                acc += 1
                if not ok:
                    chk.violation("%s:rejects-valid:%s" % (dec, cls), "%s decompress rejects valid block %s (cap %s), spec output %s" % (
                        fmt, bytes(c["s"]).hex(), cap, bytes(j["out"]).hex()), rep)
                elif got[2] != common.hexs(j["out"]):
                    chk.violation("%s:wrong-output:%s" % (dec, cls), "%s decompress of %s (cap %s) gives %s, spec says %s" % (
                        fmt, bytes(c["s"]).hex(), cap, got[2], bytes(j["out"]).hex()), rep)
            elif j["exp"] == "lenient":
                if ok and got[2] != common.hexs(j["out"]):
                    chk.violation("%s:wrong-output:%s" % (dec, cls), "%s decompress of %s (cap %s) gives %s, spec says %s" % (
                        fmt, bytes(c["s"]).hex(), cap, got[2], bytes(j["out"]).hex()), rep)
            elif j["exp"] == "reject":
                rej += 1
                if ok:
                    chk.violation("%s:accepts-trailing-input" % dec if j.get("trail") else "%s:accepts-invalid:%s" % (dec, j["why"]),
                                  "%s decompress returns OK (%s bytes: %s) for invalid block %s (cap %s): %s" % (
                                      fmt, got[1], got[2][:40], bytes(c["s"]).hex(), cap, j["why"]), rep)
    for f in faults:
        lb, stream = None, "?"
        try:
            i = int(f.case_id[1:].split("_")[0])
            lb, stream = (cases[i]["s"][-1] if cases[i]["s"] else None), bytes_rope(cases[i]["s"])
            cap = int(f.case_id.split("_")[1])
        except Exception:
            cap = 0
        chk.violation(cl.fault_sig(dec, f, lb), "fault in %s decompress: %s on stream %s (capacity %d)" % (fmt, f.signature(), stream, cap),
                      {"fmt": fmt, "stream": stream, "cap": cap, "stderr": getattr(f, "stderr", "")[-1500:]})
    for cid in leaky:
        chk.violation("%s:leak" % dec, "leak after %s decompress case %s" % (fmt, cid), cid)
    chk.part(fmt + "-" + part, executed=n, must_accept=acc, must_reject=rej, strings=len(cases), faults=len(faults))
    chk.cov["traces_validated_against_impl"] += n


# ---------------------------------------------------------------------------------------
# direction 1c: blocks of the reference compressors of PageCodecFull.tla (used by the file-level
# reference writer): self-checked in TLC, then decoded by the libraries and by carquet
# ---------------------------------------------------------------------------------------

def pagecodec_cases(tier, workers=None):
    lens = "{0, 1, 4, 5, 11, 12, 13, 14, 16, 17, 18, 30, 61, 100, 300}" if tier == "quick" else \
        "{0, 1, 2, 3, 4, 5, 6, 11, 12, 13, 14, 15, 16, 17, 18, 19, 20, 30, 60, 61, 62, 100, 257, 300, 1000, 3000}"
    r = cl.tlc_gen("MC_PageCodecSelf", 'Lens = %s\nKinds = {"zeros", "int32", "int64", "noise", "mixed"}' % lens,
                   what="MC_PageCodecSelf", workers=workers)
    return r.cases, r


PC_KEYS = (("sl", "snappy"), ("sc", "snappy"), ("zl", "lz4"), ("zc", "lz4"))


def pagecodec_lines(cases):
    return ["p%d%s dec %s %d %s" % (i, k, fmt, c["n"], bytes_rope(c[k])) for i, c in enumerate(cases) for k, fmt in PC_KEYS]


def judge_pagecodec(chk, cases, rres, res):
    n = 0
    for i, c in enumerate(cases):
        want = ["0", str(c["n"]), common.hexs(c["x"])]
        for k, fmt in PC_KEYS:
            cid = "p%d%s" % (i, k)
            if rres.get(cid) != want:
                raise common.InfraError("PageCodecFull.%s block for %d-byte input is not decoded by the system %s library: %s" % (
                    k, c["n"], fmt, rres.get(cid)))
            got = res.get(cid)
            chk.count((fmt, "pagecodec", k, c["x"]), c["n"] > 0)
            if got is None:
                continue
            n += 1
            rep = {"fmt": fmt, "stream": bytes_rope(c[k]), "cap": c["n"], "expect": common.hexs(c["x"])}
            if got[0] != "0":
                chk.violation("%s-dec:rejects-valid:reference-compressor" % fmt, "%s decompress rejects valid block %s" % (fmt, bytes(c[k]).hex()[:300]), rep)
            elif got != want:
                chk.violation("%s-dec:wrong-output:reference-compressor" % fmt, "%s decompress of %s gives %s" % (fmt, bytes(c[k]).hex()[:300], got[2][:80]), rep)
    chk.part("pagecodec-reference-compressor", blocks=n, inputs=len(cases))
    chk.cov["traces_validated_against_impl"] += n


# ---------------------------------------------------------------------------------------
# direction 2: carquet-compress -> spec-decode
# ---------------------------------------------------------------------------------------

def dir2_descs(tier, workers=None):
    if tier == "quick":
        consts = ("LitLens = {1, 5, 12, 61, 2100}\nRepOffs = {1, 8, 2048}\nRepLens = {4, 12, 64, 65, 66, 67, 68, 264}\n"
                  "Pads <- PadNone\nMaxSegs = 3\nMaxTotal = 2700\nConfigs <- CfgLz\nCapSels <- CapB")
    else:
        consts = ("LitLens = {1, 4, 5, 6, 11, 12, 13, 61, 257, 2100}\nRepOffs = {1, 2, 7, 8, 2047, 2048}\n"
                  "RepLens = {4, 11, 12, 64, 65, 66, 67, 68, 130, 1000}\nPads <- PadNone\nMaxSegs = 3\nMaxTotal = 4096\n"
                  "Configs <- CfgLz\nCapSels <- CapB")
    r = cl.tlc_gen("MC_CodecCases", consts, what="MC_CodecCases (C10 inputs)", workers=workers)
    # every literal-run length in front of a match and every match length (the length encodings have periods:
    # LZ4 15 + 255k, Snappy 60 / 256 / 64), not only the hand-picked boundaries above
    top = 560 if tier == "quick" else 1400
    rng = lambda a, b: "{%s}" % ", ".join(map(str, range(a, b + 1)))
    cases = list(r.cases)
    for lits, offs, lens in ((rng(1, top), "{8}", "{64}"), ("{20}", "{1, 8}", rng(4, top))):
        r2 = cl.tlc_gen("MC_CodecCases", "LitLens = %s\nRepOffs = %s\nRepLens = %s\nPads <- PadNone\nMaxSegs = 2\nMaxTotal = %d\n"
                        "Configs <- CfgLz\nCapSels <- CapB" % (lits, offs, lens, top + 100), what="MC_CodecCases (C10 sweeps)", workers=workers)
        cases += r2.cases
        r.distinct = (r.distinct or 0) + (r2.distinct or 0)
    r.cases = cases
    return r.cases, r


def big_descs(tier, workers=None):
    """Large periodic inputs (recurrence distance around the offset limits / 16-bit position tables)."""
    if tier == "quick":
        consts = ('Codecs = {"snappy", "lz4"}\nSnappyPeriods = {32767, 32768, 32769, 65535, 65536, 65537, 131072}\n'
                  'Lz4Periods = {65534, 65535, 65536, 65537}\nReps = {2}\nCycles = {20480}')
    else:
        consts = ('Codecs = {"snappy", "lz4"}\nSnappyPeriods = {16384, 32767, 32768, 32769, 65535, 65536, 65537, 131071, 131072, 131073}\n'
                  'Lz4Periods = {32768, 65534, 65535, 65536, 65537, 131072}\nReps = {2, 3}\nCycles = {16385, 20480, 40000}')
    r = cl.tlc_gen("MC_CodecBig", consts, what="MC_CodecBig", workers=workers)
    return r.cases, r


def rec_lines(cases):
    return ["r%d rec %s 0 %s" % (i, c["codec"], desc_str(c["desc"])) for i, c in enumerate(cases)]


def validate(fmt, recs, what, chunk=3000, workers=None, max_bytes=6000000):
    """recs: list of (id, xhex, chex). Returns ({id: verdict} from TLC, [TlcResult]).
    Chunks are bounded in count and in bytes (large inputs get chunks of their own)."""
    mod = "MC_SnappyTrace" if fmt == "snappy" else "MC_Lz4Trace"
    verd, rs = {}, []
    chunks, cur, size = [], [], 0
    for rec in sorted(recs, key=lambda r: len(r[1])):
        sz = (len(rec[1]) + len(rec[2])) // 2
        if cur and (len(cur) >= chunk or size + sz > max_bytes):
            chunks.append(cur)
            cur, size = [], 0
        cur.append(rec)
        size += sz
    if cur:
        chunks.append(cur)
    for part in chunks:
        objs = [{"id": rid, "x": list(common.unhex(x)), "c": list(common.unhex(c))} for rid, x, c in part]
        path = cl.write_ndjson(objs)
        try:
            r = cl.tlc_gen(mod, "Group = %d" % (8 if len(part) > 64 else 1), env={"CASES": path}, what=what, workers=workers)
        finally:
            os.unlink(path)
        rs.append(r)
        verd.update({v["id"]: v for v in r.cases})
    return verd, rs


def recs_of(cases, res, fmt):
    return [("r%d" % i, res["r%d" % i][1], res["r%d" % i][2]) for i, c in enumerate(cases)
            if c["codec"] == fmt and "r%d" % i in res and res["r%d" % i][0] == "0"]


def dir2(chk, cases, rres, rfaults, res, faults, leaky):
    """cases: descriptors; rres/res: `rec` results of the reference build and of carquet."""
    if [f for f in rfaults if f.case_id.startswith("r")]:
        raise common.InfraError("reference compressor crashed: " + rfaults[0].signature())
    W = max(2, common.NCPU // 4)
    jobs = {}
    for fmt in ("snappy", "lz4"):
        jobs["ref-" + fmt] = (lambda fmt=fmt: validate(fmt, recs_of(cases, rres, fmt), "reference %s blocks" % fmt, workers=W))
        jobs["impl-" + fmt] = (lambda fmt=fmt: validate(fmt, recs_of(cases, res, fmt), "carquet %s blocks" % fmt, workers=W))
    done = cl.parallel(jobs)
    # spec self-check: blocks produced by libsnappy / liblz4 must validate
    for fmt in ("snappy", "lz4"):
        verd, _ = done["ref-" + fmt]
        nref = len(recs_of(cases, rres, fmt))
        badv = [v for v in verd.values() if v["v"] != "ok"]
        if badv or len(verd) != nref or nref == 0:
            raise common.InfraError("spec self-check: %s.tla does not validate blocks from the system library: %s (%d/%d)" % (
                fmt, badv[:3], len(verd), nref))
        chk.part(fmt + "-ref-selfcheck", blocks=nref)
    # the implementation
    for f in faults:
        if not f.case_id.startswith("r"):
            continue
        i = int(f.case_id[1:])
        chk.violation(cl.fault_sig(cases[i]["codec"] + "-enc", f), "fault in %s compress on %s: %s" % (
            cases[i]["codec"], desc_str(cases[i]["desc"]), f.signature()), {"case": cases[i], "stderr": getattr(f, "stderr", "")[-1500:]})
    for cid in leaky:
        if cid.startswith("r"):
            chk.violation("enc:leak", "leak after compress case", cases[int(cid[1:])])
    for fmt in ("snappy", "lz4"):
        enc = fmt + "-enc"
        for i, c in enumerate(cases):
            got = res.get("r%d" % i)
            if c["codec"] == fmt and got is not None and got[0] != "0":
                chk.violation("%s:compress-into-bound-failed" % enc, "%s compress into bound failed (status %s) on %s" % (
                    fmt, got[0], desc_str(c["desc"])), c)
        recs = recs_of(cases, res, fmt)
        verd, rs = done["impl-" + fmt]
        for r in rs:
            chk.add_tlc(r)
        if len(verd) != len(recs):
            raise common.InfraError("TLC validated %d of %d %s blocks" % (len(verd), len(recs), fmt))
        stats = {}
        for rid, x, cx in recs:
            v = verd[rid]
            c = cases[int(rid[1:])]
            st = v.get("kinds") or v.get("st") or {}
            for k, n in st.items():
                stats[k] = stats.get(k, 0) + n
            chk.count((fmt, "enc", c["desc"]), len(c["desc"]) > 1)
            if int(rid[1:]) % 499 == 3:
                chk.sample({"fmt": fmt, "input_desc": desc_str(c["desc"]), "block": cx[:160], "verdict": v["v"], "tokens": st})
            if v["v"] == "ok":
                continue
            rep = {"fmt": fmt, "desc": desc_str(c["desc"]), "x": x if len(x) <= 16384 else x[:256] + "...", "block": cx if len(cx) <= 16384 else cx[:256] + "...",
                   "verdict": v}
            if v["v"] == "invalid-block":
                chk.violation("%s:invalid-block:%s" % (enc, v["why"]), "%s compress of %s produced a block the format defines as invalid (%s): %s" % (
                    fmt, desc_str(c["desc"]), v["why"], cx[:200]), rep)
            elif v["v"] == "decodes-to-different-bytes":
                chk.violation("%s:decodes-to-different-bytes" % enc, "%s compress of %s produced a block that decodes to other bytes: %s" % (
                    fmt, desc_str(c["desc"]), cx[:200]), rep)
            else:
                chk.violation("%s:%s:%s" % (enc, v["v"], v["why"]), "%s compress of %s (%d bytes) breaks %s: block %s" % (
                    fmt, desc_str(c["desc"]), c["n"], v["why"], cx[:200]), rep)
        chk.part(fmt + "-impl-to-spec", blocks_validated=len(recs), token_kinds_seen=stats)
        chk.cov["traces_validated_against_impl"] += len(recs)


# ---------------------------------------------------------------------------------------

def run_replay(chk, binary, path):
    """Re-execute one stored failing case (replays/C10/*.json) against the current /repo."""
    import json
    rep = json.load(open(path))
    case, sig = rep["case"], rep["signature"]
    if "desc" in case and "block" in case:          # compressor direction: re-compress, re-validate with TLC
        fmt = case["fmt"]
        res, faults, _ = cl.run_parallel(binary, ["r0 rec %s 0 %s" % (fmt, case["desc"])])
        if faults or "r0" not in res or res["r0"][0] != "0":
            chk.violation(sig, "replay: %s compress of %s fails again" % (fmt, case["desc"]), case)
            return
        verd, rs = validate(fmt, [("r0", res["r0"][1], res["r0"][2])], "replay")
        chk.add_tlc(rs[0])
        chk.count(case["desc"])
        if verd["r0"]["v"] != "ok":
            chk.violation(sig, "replay: %s compress of %s -> %s: %s" % (fmt, case["desc"], res["r0"][2][:200], verd["r0"]), case)
        return
    fmt, stream, cap = case["fmt"], case["stream"], case["cap"]
    stream = stream if stream[:1] in ("h", "f", "-") else "h" + stream
    lines = ["d0 dec %s %d %s" % (fmt, cap, stream)]
    if "expect" in case:
        lines.append("e0 exp %s" % case["expect"])
    res, faults, leaky = cl.run_parallel(binary, lines)
    chk.count((fmt, stream, cap))
    got = res.get("d0")
    if faults or leaky or got is None:
        chk.violation(sig, "replay: fault again on %s" % stream[:200], case)
    elif "expect" in case:     # the spec's expected output was stored with the case
        if got[0] != "0" or got[1:] != res["e0"]:
            chk.violation(sig, "replay: %s decompress of %s gives %s, spec expects %s" % (fmt, stream[:200], got[:2], res["e0"][:1]), case)
    elif "spec" in case and case["spec"]["exp"] == "accept":
        if got[0] != "0" or got[2] != common.hexs(case["spec"]["out"]):
            chk.violation(sig, "replay: %s decompress of %s gives %s" % (fmt, stream[:200], got), case)
    elif got[0] == "0" and not ("spec" in case and case["spec"]["exp"] in ("lenient", "open")):
        chk.violation(sig, "replay: %s decompress still accepts the invalid block %s" % (fmt, stream[:200]), case)


def run(chk, tier, replay):
    binary = common.build_harness("h_codec")
    if replay:
        return run_replay(chk, binary, replay)
    refbin = common.build_harness("h_codec", extra=cl.REF_EXTRA)
    chk.assumptions += [
        "TLC executes spec/fmt/Snappy.tla and spec/fmt/Lz4.tla (transcribed from format_description.txt and lz4_Block_format.md); "
        "the specs are self-checked (Parse.Ser = id, vectors) and cross-checked against libsnappy 1.1.9 / liblz4 1.9.4 on the very cases used",
        "LZ4: blocks that parse and execute but break an end-of-block rule may be accepted (with exactly the spec's bytes) or rejected; "
        "empty input and Snappy varints above 2^31 are not judged",
        "harness/h_codec.c only expands descriptors, copies bytes and prints status/length/bytes"]
    # 1. everything TLC generates, concurrently (each job has its own JVM)
    W = max(2, common.NCPU // 4)
    gen = cl.parallel({
        "self": lambda: cl.selfcheck_run(tier, workers=W),
        "gen-snappy": lambda: gen_cases("snappy", tier, workers=W),
        "gen-lz4": lambda: gen_cases("lz4", tier, workers=W),
        "bytes-snappy": lambda: bytes_cases("snappy", tier, workers=W),
        "bytes-lz4": lambda: bytes_cases("lz4", tier, workers=W),
        "tail-snappy": lambda: tail_cases("snappy", tier, workers=W),
        "tail-lz4": lambda: tail_cases("lz4", tier, workers=W),
        "descs": lambda: dir2_descs(tier, workers=W),
        "big": lambda: big_descs(tier, workers=W),
        "pagecodec": lambda: pagecodec_cases(tier, workers=W)})
    for r in gen["self"]:
        chk.add_tlc(r)
    chk.part("spec-selfcheck", states=sum(r.distinct for r in gen["self"]))
    lines = []
    for fmt in ("snappy", "lz4"):
        for r in gen["gen-" + fmt][1]:
            chk.add_tlc(r)
        chk.add_tlc(gen["bytes-" + fmt][1])
        chk.add_tlc(gen["tail-" + fmt][1])
        lines += dir1_lines(fmt, gen["gen-" + fmt][0]) + bytes_lines(fmt, gen["bytes-" + fmt][0])
        lines += bytes_lines(fmt, gen["tail-" + fmt][0], prefix=TAIL_PREFIX[fmt])
    descs = gen["descs"][0] + gen["big"][0]
    chk.add_tlc(gen["descs"][1])
    chk.add_tlc(gen["big"][1])
    chk.part("large-inputs", cases=len(gen["big"][0]), max_bytes=max([c["n"] for c in gen["big"][0]] or [0]))
    lines += rec_lines(descs)
    pcases = gen["pagecodec"][0]
    chk.add_tlc(gen["pagecodec"][1])
    lines += pagecodec_lines(pcases)
    # 2. the same cases on the system libraries (spec self-check) and on carquet
    half = max(2, cl.NPROC // 2)
    costs = [cl.line_cost(ln) for ln in lines]
    ran = cl.parallel({"ref": lambda: cl.run_parallel(refbin, lines, leaks=False, nproc=half, costs=costs, cost_limit=48e6),
                       "impl": lambda: cl.run_parallel(binary, lines, nproc=cl.NPROC, costs=costs, cost_limit=48e6)})
    rres, rfaults, _ = ran["ref"]
    res, faults, leaky = ran["impl"]
    for fmt in ("snappy", "lz4"):
        p = fmt[0]
        refcheck_dir1(fmt, gen["gen-" + fmt][0], rres, [f for f in rfaults if f.case_id[0] == p])
        refcheck_bytes(fmt, gen["bytes-" + fmt][0], rres, [f for f in rfaults if f.case_id[0] == p.upper()])
        tp = TAIL_PREFIX[fmt]
        refcheck_bytes(fmt, gen["tail-" + fmt][0], rres, [f for f in rfaults if f.case_id[0] == tp], prefix=tp)
    for fmt in ("snappy", "lz4"):
        p = fmt[0]
        judge_dir1(chk, fmt, gen["gen-" + fmt][0], res, [f for f in faults if f.case_id[0] == p], [c for c in leaky if c[0] == p])
        judge_bytes(chk, fmt, gen["bytes-" + fmt][0], res, [f for f in faults if f.case_id[0] == p.upper()],
                    [c for c in leaky if c[0] == p.upper()])
        tp = TAIL_PREFIX[fmt]
        judge_bytes(chk, fmt, gen["tail-" + fmt][0], res, [f for f in faults if f.case_id[0] == tp], [c for c in leaky if c[0] == tp],
                    prefix=tp, part="match-at-end", cls="match-at-end")
    judge_pagecodec(chk, pcases, rres, res)
    # 3. carquet's compressors, validated by TLC
    dir2(chk, descs, rres, rfaults, res, faults, leaky)
    chk.cov["rule"] = ("spec->impl: one evaluation per (block, capacity) replayed on carquet's decompressor; distinct = distinct "
                       "(token list | derived invalid block | byte string x capacity); non-trivial = more than one element or an extended "
                       "length form, every invalid block, every judged byte string. impl->spec: one per compressed block validated by TLC, "
                       "non-trivial = input descriptor with >= 2 segments")
