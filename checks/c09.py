"""C09 - Codecs round-trip every input and honour their size bounds.

Deciding method: TLC enumerates (MC_CodecCases) LZ-structured input descriptors
<<L(n, seed) | R(off, len)>>* [pad to a total size] over boundary parameters x codec x level x
destination capacity {0, 1, bound-1, bound, bound+1}; harness/h_codec.c expands each descriptor,
performs bound / compress / decompress calls with exact-size (ASan heap or guard-paged) buffers
and logs what happened; TLC replays every log through the actions of spec/sys/Codec.tla
(MC_CodecTrace) and reports each call the contract does not allow.

Honest scope: the specification decides the shape space and the contract. What inflate / zstd do
internally is outside the specification (level: exploration).
"""
import os

from vlib import common
from checks import codecs_lib as cl
from checks.codecs_lib import desc_str

LEVEL = "exploration"

BOUNDARY_LITS = "{1, 59, 60, 61, 255, 256, 257, 65535, 65536, 65537}"
BOUNDARY_OFFS = "{1, 2, 4, 7, 8, 15, 16, 2047, 2048, 32767, 32768, 65535, 65536, 131072}"
BOUNDARY_LENS = "{4, 11, 12, 60, 64, 65, 66, 67, 68, 130, 264, 65535, 65536, 65540}"


def profiles(tier):
    """(name, constants, simulate) for MC_CodecCases."""
    P = []

    def prof(name, lits, offs, lens, pads, segs, total, cfg, caps, sim=None):
        P.append((name, "LitLens = %s\nRepOffs = %s\nRepLens = %s\nPads <- %s\nMaxSegs = %d\nMaxTotal = %d\nConfigs <- %s\nCapSels %s %s" % (
            lits, offs, lens, pads, segs, total, cfg, "=" if caps.startswith("{") else "<-", caps), sim))

    # every literal-run length / match length up to a few multiples of the length-encoding periods (LZ4: 15 + 255k,
    # Snappy: 60 / 256 / 64), not only the hand-picked boundaries
    def rng(a, b):
        return "{%s}" % ", ".join(map(str, range(a, b + 1)))
    top = 560 if tier == "quick" else 1400
    prof("lit-sweep", rng(1, top), "{8}", "{64}", "PadNone", 2, top + 100, "CfgLz" if tier == "quick" else "CfgFew", "CapB")
    prof("len-sweep", "{20}", "{1, 8}", rng(4, top), "PadNone", 2, top + 100, "CfgLz" if tier == "quick" else "CfgFew", "CapB")
    # every destination capacity from 0 to beyond the bound for small incompressible / short inputs (the region between
    # "obviously too small" and the bound is where a relaxed pre-check meets an off-by-one in a per-run space check)
    def caps(a, b):
        return "{%s}" % ", ".join('"%d"' % k for k in range(a, b + 1))
    prof("cap-sweep", "{15, 16, 24, 40, 100}", "{1}", "{4}", "PadNone", 1, 120, "CfgLz" if tier == "quick" else "CfgFew", caps(0, 140))
    if tier != "quick":
        prof("cap-sweep-270", "{255, 270, 300}", "{1}", "{4}", "PadNone", 1, 320, "CfgLz", caps(250, 340))
    if tier == "quick":
        prof("tiny", "{1, 12, 13, 14, 15, 16}", "{1}", "{11, 15}", "PadNone", 2, 64, "CfgAll", "CapAll")
        prof("boundary", "{1, 60, 61, 256, 257, 65536, 65537}", "{1, 8, 2047, 2048, 32768, 65535, 65536}",
             "{4, 12, 64, 68, 264, 65536}", "PadNone", 2, 140000, "CfgFew", "CapTight")
        prof("block", "{1, 65536}", "{1}", "{4}", "PadBlock", 1, 70000, "CfgEdge", "CapB")
        prof("huge", "{1, 65537}", "{1}", "{4}", "PadHuge", 1, 70000, "CfgEdge", "CapB")
        prof("sampled", BOUNDARY_LITS, BOUNDARY_OFFS, BOUNDARY_LENS, "PadNone", 4, 300000, "CfgAll", "CapAll", 1500)
    else:
        prof("tiny", "{1, 2, 11, 12, 13, 14, 15, 16, 17}", "{1, 2, 12}", "{4, 11, 12, 15}", "PadTiny", 2, 64, "CfgAll", "CapAll")
        prof("boundary-tight", BOUNDARY_LITS, BOUNDARY_OFFS, BOUNDARY_LENS, "PadNone", 2, 140000, "CfgAll", "CapTight")
        prof("boundary-caps", BOUNDARY_LITS, BOUNDARY_OFFS, BOUNDARY_LENS, "PadNone", 2, 140000, "CfgEdge", "CapAll")
        prof("block", "{1, 60, 65536}", "{1}", "{4}", "PadBlock", 1, 70000, "CfgAll", "CapTight")
        prof("huge", "{1, 65536, 65537}", "{1}", "{4}", "PadHuge", 1, 70000, "CfgAll", "CapB")
        prof("sampled", BOUNDARY_LITS, BOUNDARY_OFFS, BOUNDARY_LENS, "PadNone", 4, 300000, "CfgAll", "CapAll", 20000)
    return P


def gen(chk, tier):
    cases = []
    seen = set()
    for name, consts, sim in profiles(tier):
        if sim:
            r = cl.tlc_gen("MC_CodecCases", consts, what="MC_CodecCases " + name, simulate=sim, depth=10)
        else:
            r = cl.tlc_gen("MC_CodecCases", consts, what="MC_CodecCases " + name)
        chk.add_tlc(r)
        k = 0
        for c in r.cases:
            key = (desc_str(c["desc"]), c["codec"], c["level"], c["cap"])
            if key in seen:
                continue
            seen.add(key)
            c["profile"] = name
            cases.append(c)
            k += 1
        chk.part("gen-" + name, cases=k, tlc_states=r.distinct)
    return cases


def cost(c):
    lv = c["level"]
    w = {"snappy": 1, "lz4": 1, "gzip": 3 + lv, "zstd": 2 + lv * lv // 4}[c["codec"]]
    return c["n"] * w


def observation(cid, c, t):
    """harness key=value tokens -> event list for MC_CodecTrace."""
    st_ok = t["st"] == 0
    wlen = t["wlen"]
    nondet = (t["st"], t["clen"]) != (t["st2"], t["clen2"])
    if nondet:
        wlen = max(wlen, t["clen"])
    ev = [{"op": "bound", "b": t["bound"]},
          {"op": "compress", "cap": t["cap"], "out": {"st": "ok" if st_ok else "err", "len": t["clen"], "wlen": wlen, "h": ""}}]
    if st_ok and "dst" in t:
        ev.append({"op": "decompress", "cap": t["n"], "out": {"st": "ok" if t["dst"] == 0 else "err", "len": t["dlen"],
                                                               "wlen": t["dwl"], "h": t["dh"]}})
        if "s_cap" in t:
            ev.append({"op": "decompress", "cap": t["s_cap"], "out": {"st": "ok" if t["s_st"] == 0 else "err",
                                                                      "len": t["s_dlen"], "wlen": 0, "h": ""}})
    return {"id": cid, "n": t["n"], "xh": t["xh"], "ev": ev}, nondet


def validate(chk, obs, chunk=40000):
    verd = {}
    for k in range(0, len(obs), chunk):
        path = cl.write_ndjson(obs[k:k + chunk])
        try:
            r = cl.tlc_gen("MC_CodecTrace", "Group = 64", env={"OBS": path}, what="MC_CodecTrace")
        finally:
            os.unlink(path)
        chk.add_tlc(r)
        for v in r.cases:
            if v["v"] != "accepted" or v["id"] not in verd:
                verd[v["id"]] = v
    return verd


def run_replay(chk, binary, path):
    """Re-execute one stored failing case (replays/C09/*.json) against the current /repo."""
    import json
    rep = json.load(open(path))
    line = "t0 " + rep["case"]["line"].split(" ", 1)[1]
    res, faults, leaky = cl.run_parallel(binary, [line], per_case_timeout=120.0)
    chk.count(line)
    if faults or leaky or "t0" not in res:
        chk.violation(rep["signature"], "replay: fault again on %s" % line, rep["case"])
        return
    t = cl.kv(res["t0"])
    o, _ = observation("t0", None, t)
    verd = validate(chk, [o])
    if verd["t0"]["v"] != "accepted":
        for clause in verd["t0"]["clauses"]:
            chk.violation(rep["signature"], "replay: %s -> clause '%s' violated; observed %s" % (line, clause, t), rep["case"])


def run(chk, tier, replay):
    binary = common.build_harness("h_codec")
    if replay:
        return run_replay(chk, binary, replay)
    chk.assumptions += [
        "spec/sys/Codec.tla is the contract (one action per call, allowed outcomes); spec/sys/CodecDesc.tla the input shape space",
        "written extent of a call = last destination byte changed in either of two runs over complementary fill patterns",
        "zlib / libzstd are uninstrumented system libraries: their buffers end at a PROT_NONE guard page; snappy / lz4 use exact-size ASan heap buffers",
        "a compress call into a destination smaller than the bound may succeed; the block must then still round-trip"]
    cases = gen(chk, tier)
    # expensive cases first and spread over the workers
    order = sorted(range(len(cases)), key=lambda i: -cost(cases[i]))
    lines = ["t%d rt %s %d %s %s" % (i, cases[i]["codec"], cases[i]["level"], cases[i]["cap"], desc_str(cases[i]["desc"])) for i in order]
    res, faults, leaky = cl.run_parallel(binary, lines, per_case_timeout=120.0, costs=[cost(cases[i]) for i in order], batch=300)
    obs, nondet = [], 0
    for i, c in enumerate(cases):
        cid = "t%d" % i
        got = res.get(cid)
        chk.count((desc_str(c["desc"]), c["codec"], c["level"], c["cap"]), c["n"] > 0)
        if got is None:
            continue
        t = cl.kv(got)
        if "st" not in t:
            raise common.InfraError("harness output not understood: %s" % got)
        o, nd = observation(cid, c, t)
        nondet += nd
        obs.append(o)
        c["obs"] = t
        if i % 2999 == 11:
            chk.sample({"input": desc_str(c["desc"]), "n": c["n"], "codec": c["codec"], "level": c["level"], "cap": c["cap"],
                        "observed": {k: t[k] for k in ("bound", "cap", "st", "clen", "wlen") if k in t}})
    verd = validate(chk, obs)
    if len(verd) != len(obs):
        raise common.InfraError("MC_CodecTrace judged %d of %d logs" % (len(verd), len(obs)))
    nacc = 0
    for i, c in enumerate(cases):
        v = verd.get("t%d" % i)
        if v is None:
            continue
        if v["v"] == "accepted":
            nacc += 1
            continue
        who = "%s" % c["codec"]
        if v["v"] == "stuck":
            raise common.InfraError("trace stuck at %s for %s" % (v, c))
        for clause in v["clauses"]:
            chk.violation("%s:%s" % (who, clause),
                          "%s level %d, input %s (%d bytes), capacity %s: contract clause '%s' violated at event %d; observed %s" % (
                              c["codec"], c["level"], desc_str(c["desc"]), c["n"], c["cap"], clause, v["at"], c.get("obs")),
                          {"case": {k: c[k] for k in ("desc", "n", "codec", "level", "cap")}, "line": "x rt %s %d %s %s" % (
                              c["codec"], c["level"], c["cap"], desc_str(c["desc"])), "observed": c.get("obs"), "verdict": v})
    for f in faults:
        i = int(f.case_id[1:])
        c = cases[i]
        chk.violation(cl.fault_sig(c["codec"], f),
                      "fault during %s level %d on input %s capacity %s: %s" % (c["codec"], c["level"], desc_str(c["desc"]), c["cap"], f.signature()),
                      {"line": "x rt %s %d %s %s" % (c["codec"], c["level"], c["cap"], desc_str(c["desc"])), "stderr": getattr(f, "stderr", "")[-1500:]})
    for cid in leaky:
        c = cases[int(cid[1:])]
        chk.violation("%s:leak" % c["codec"], "allocation left after %s calls on %s" % (c["codec"], desc_str(c["desc"])), c)
    by = {}
    for c in cases:
        by[c["codec"]] = by.get(c["codec"], 0) + 1
    chk.part("contract", logs_validated=len(obs), accepted=nacc, faults=len(faults), nondeterministic_compress=nondet,
             per_codec=by, max_input=max([c["n"] for c in cases] or [0]))
    chk.cov["traces_validated_against_impl"] += len(obs)
    chk.cov["rule"] = ("one evaluation per (input descriptor, codec, level, capacity selector) executed on carquet (bound, 2 x compress, "
                       "2 x decompress) and validated by TLC against Codec.tla; distinct = distinct tuples; non-trivial = non-empty input")
