"""C17 - schema trees map to the right leaf columns and def/rep levels.

Deciding method: TLC enumerates every ordered forest with N nodes below the root and every labelling
by {REQUIRED, OPTIONAL, REPEATED} (MC_SchemaGen over Schema.tla); for each it computes the expected
leaves and levels from the *path* definition and lets the TLA+ reference writer emit a Parquet file
with that schema (and checks on the spot that the reference reader's independent DFS walk agrees).
carquet opens each file; the schema seen through the public accessors, column lookup by name and
the levels the column readers actually use are compared with the specification's. Builder: flat
schemas of every size through growth past the initial capacities.
"""
from vlib import common
from vlib.common import hexs
from checks import rcommon

LEVEL = "model_checking"

CFG = 'CONSTANTS\n Sizes = %s\n PerShape = %d\nINIT Init\nNEXT Next\nINVARIANT Emit\nCHECK_DEADLOCK FALSE\n'


def gen(chk, sizes, per_shape=0):
    simulate = None
    r = common.run_tlc("MC_SchemaGen", constants_text=CFG % ("{%s}" % ", ".join(map(str, sizes)), per_shape),
                       workers=8, timeout=2400, heap="12g", tseed=common.seed())
    if "spec self-check failed" in r.out:
        raise common.InfraError("Schema.tla vs ParquetFile.SchemaLeaves disagree\n" + r.out[-1500:])
    if r.rc != 0 and not (simulate and r.cases):
        raise common.InfraError("MC_SchemaGen failed\n" + r.out[-1500:])
    chk.add_tlc(r)
    return r.cases


def judge_tree(chk, case, toks, fault):
    base = {"kids": case["kids"], "reps": case["reps"], "root_repetition": case.get("rootRep", 255), "file_hex": bytes(case["bytes"]).hex()}
    shape = "nested" if any(k > 0 for k in case["kids"]) else "flat"
    if fault:
        chk.violation("schema:fault:" + fault, "fault opening schema file", base)
        return
    if toks is None:
        return
    d = dict(t.split("=", 1) for t in toks if "=" in t)
    if d.get("O") != "ok":
        chk.violation("schema:open-failed:" + shape, "valid schema-only file rejected: %s" % d.get("O"), base)
        return
    els, leaves = case["elements"], case["leaves"]
    h = d["H"].split(";")
    f = h[0].split(":")
    if int(f[0]) != len(els) or int(f[1]) != len(leaves):
        chk.violation("schema:counts", "num_elements/num_columns %s/%s, expected %d/%d" % (f[0], f[1], len(els), len(leaves)), base)
        return
    lvl = [None] + case["nodeLevels"]
    for i, (ef, want) in enumerate(zip(f[2:], els)):
        p = ef.split(",")
        name = [] if p[0] in ("-", "?") else list(bytes.fromhex(p[0]))
        if name != want["name"]:
            chk.violation("schema:element-name", "element %d name %s want %s" % (i, name, want["name"]), base)
        if bool(int(p[1])) != want["isLeaf"]:
            chk.violation("schema:is-leaf", "element %d is_leaf %s" % (i, p[1]), base)
        if want["isLeaf"] and (int(p[2]) != want["type"] or (want["type"] == 7 and int(p[4]) != want["tlen"])):
            chk.violation("schema:element-type", "element %d type/tlen %s/%s want %d/%d" % (i, p[2], p[4], want["type"], want["tlen"]), base)
        if i > 0 and int(p[3]) != want["rep"]:
            chk.violation("schema:element-repetition", "element %d repetition %s want %d" % (i, p[3], want["rep"]), base)
        if len(p) > 7 and i > 0:
            wl = want.get("lt", {"k": "none"})
            unit = {"ms": 0, "us": 1, "ns": 2}
            exp = {"none": "x", "string": "1/0/0", "map": "2/0/0", "list": "3/0/0", "enum": "4/0/0", "date": "6/0/0", "null": "10/0/0",
                   "json": "11/0/0", "bson": "12/0/0", "uuid": "13/0/0", "float16": "14/0/0"}.get(wl["k"])
            if wl["k"] == "decimal":
                exp = "5/%d/%d" % (wl["scale"], wl["precision"])
            elif wl["k"] == "integer":
                exp = "9/%d/%d" % (wl["bits"], int(wl["signed"]))
            elif wl["k"] in ("time", "timestamp"):
                exp = "%d/%d/%d" % (7 if wl["k"] == "time" else 8, unit[wl["unit"]], int(wl["utc"]))
            if p[7] != exp:
                chk.violation("schema:logical-type:" + wl["k"], "element %d logical type accessor gives %s, the file states %s (%s)" % (i, p[7], exp, wl), base)
        if i > 0 and want["isLeaf"] and (int(p[5]), int(p[6])) != (lvl[i]["maxDef"], lvl[i]["maxRep"]):
            chk.violation("schema:node-level-accessor:" + shape, "carquet_schema_node_max_def/rep_level of leaf element %d = (%s,%s), path definition says (%d,%d)" % (
                i, p[5], p[6], lvl[i]["maxDef"], lvl[i]["maxRep"]), base)
    finds = [] if h[1] == "-" else [int(x) for x in h[1].split(",")]
    if finds != list(range(len(leaves))):          # names are unique (n00, n01, ...)
        chk.violation("schema:find-column", "find_column by leaf names gives %s" % finds, base)
    if len(h) > 4:
        absent = [int(x) for x in h[4].split(",")]
        # a proper prefix of the shortest leaf name, that name + one character, and a foreign name are not columns
        if any(x not in (-1, -9) for x in absent):
            chk.violation("schema:find-column:absent-name-found", "find_column of names that are not columns returned %s (want -1)" % absent, base)
    if h[2] != "1" or h[3] != "1":
        chk.violation("schema:get-element-out-of-range", "get_element(out of range) did not return NULL", base)
    # leaf table used by the readers (M) and by column readers (K)
    m = d["M"].split(":")
    for k, (lf, want) in enumerate(zip(m[6:], leaves)):
        p = lf.split(",")
        if (int(p[4]), int(p[5])) != (want["maxDef"], want["maxRep"]):
            chk.violation("schema:leaf-levels:" + shape, "leaf %d levels (%s,%s) want (%d,%d)" % (k, p[4], p[5], want["maxDef"], want["maxRep"]), base)
        if list(bytes.fromhex(p[0])) != want["name"]:
            chk.violation("schema:leaf-order", "leaf %d is %s, want %s" % (k, p[0], want["name"]), base)
    ks = [t[2:] for t in toks if t.startswith("K=")]
    for k, (kv, want) in enumerate(zip(ks, leaves)):
        if not kv.startswith("ok"):
            chk.violation("schema:get-column-failed:" + shape, "get_column(0,%d) failed: %s" % (k, kv), base)
            continue
        p = kv.split(":")
        if (int(p[3]), int(p[4])) != (want["maxDef"], want["maxRep"]):
            chk.violation("schema:column-reader-levels:" + shape, "column reader %d uses (%s,%s) want (%d,%d)" % (k, p[3], p[4], want["maxDef"], want["maxRep"]), base)


def builder_part(chk, tier, binary):
    """Flat schemas through the builder: TLC-free part kept minimal: expectations are the path
    definition applied to a flat forest (def = [rep != REQUIRED], rep level = [rep = REPEATED])."""
    sizes = [1, 2, 63, 64, 65, 129] + ([1000] if tier != "quick" else [])
    lines, exp = [], {}
    for n in sizes:
        cols = [("c%04d" % i, [1, 2, 4, 5, 6, 0, 7][i % 7], i % 3, 3 if i % 7 == 6 else 0) for i in range(n)]
        cid = "bld%d" % n
        lines.append(cid + " " + " ".join("S:%s:%d:%d:%d" % (hexs(nm.encode()), t, r, l) for nm, t, r, l in cols) + " H")
        exp[cid] = cols
    res, faults, leaky = common.run_harness_leaks(binary, lines)
    for f in faults:
        chk.violation("schema-builder:fault:" + f.signature(), "fault building schema", f.case_id)
    for cid, cols in exp.items():
        chk.count(("builder", len(cols)), True)
        toks = res.get(cid)
        if not toks:
            continue
        h = [t for t in toks if t.startswith("H=")][0][2:].split(";")
        f = h[0].split(":")
        if int(f[0]) != len(cols) + 1 or int(f[1]) != len(cols):
            chk.violation("schema-builder:counts", "builder with %d columns reports %s elements / %s columns" % (len(cols), f[0], f[1]), {"n": len(cols)})
            continue
        for i, (ef, (nm, t, r, l)) in enumerate(zip(f[3:], cols)):
            p = ef.split(",")
            if bytes.fromhex(p[0]).decode() != nm or int(p[2]) != t or int(p[3]) != r or (t == 7 and int(p[4]) != l):
                chk.violation("schema-builder:element", "builder element %d = %s want %s" % (i + 1, p, (nm, t, r, l)), {"n": len(cols)})
                break
            want = (1 if r != 0 else 0, 1 if r == 2 else 0)
            if (int(p[5]), int(p[6])) != want:
                chk.violation("schema-builder:levels:rep%d" % r, "builder leaf %d (repetition %d) levels (%s,%s) want %s" % (i, r, p[5], p[6], want), {"n": len(cols)})
                break
        finds = [int(x) for x in h[1].split(",")]
        if finds != list(range(len(cols))):
            chk.violation("schema-builder:find-column", "find_column results wrong for %d columns" % len(cols), {"n": len(cols)})
        if len(h) > 5 and h[5] != "-":
            # the per-leaf level tables (what the writer works from) must say the same as the node accessors, for every
            # leaf, also those recorded before the arrays grew
            for i, (lt, (nm, t, r, l)) in enumerate(zip(h[5].split(","), cols)):
                want = "%d/%d/%d" % (1 if r != 0 else 0, 1 if r == 2 else 0, i + 1)
                if lt != want:
                    chk.violation("schema-builder:leaf-table", "builder with %d columns: leaf table entry %d (def/rep/element) is %s, want %s" % (
                        len(cols), i, lt, want), {"n": len(cols), "leaf": i})
                    break
    chk.part("builder", sizes=sizes)


def run(chk, tier, replay):
    chk.assumptions += ["Levels by the path definition (Schema.tla); the reference reader's DFS walk is checked against it for every generated schema",
                        "Leaf names are unique in generated trees and every later name is a proper prefix of every earlier one (n + x^k)"]
    binary = common.build_harness("h_file")
    cases = gen(chk, [1, 2, 3, 4] if tier == "quick" else [1, 2, 3, 4, 5])
    if tier != "quick":
        cases += gen(chk, [6, 7, 8], per_shape=24)
    with rcommon.Fixtures(cases, tag="sch") as fx:
        lines = []
        for i, c in enumerate(cases):
            toks = ["s%d" % i, "O:%s:%s" % (fx.paths[i], "fmb"[i % 3]), "M", "H"]
            toks += ["K:0:%d" % k for k in range(len(c["leaves"]))]
            toks.append("Z")
            lines.append(" ".join(toks))
        res, faults, leaky = common.run_harness_parallel(binary, lines, nproc=8)
    fault_of = {f.case_id: f.signature() for f in faults}
    for cid in leaky:
        fault_of[cid] = "leak"
    for i, c in enumerate(cases):
        cid = "s%d" % i
        chk.count(("tree", c["kids"], c["reps"], c.get("rootRep", 255)), any(k > 0 for k in c["kids"]))
        judge_tree(chk, c, res.get(cid), fault_of.get(cid))
    for i in range(0, len(cases), max(1, len(cases) // 3)):
        c = cases[i]
        chk.sample({"child_counts_dfs": c["kids"], "repetitions": c["reps"], "expected_leaves": c["leaves"]})
    chk.cov["traces_validated_against_impl"] += len(res)
    chk.cov["exhaustive"] = True
    builder_part(chk, tier, binary)
    chk.cov["rule"] = ("all ordered forests with N nodes below the root (N in the tier's set, exhaustive) x all 3^N labellings; larger N sampled; "
                       "distinct = (shape, labelling); non-trivial = has >= 1 group; plus builder sizes")
