"""Thrift part of C08: parquet_parse_file_metadata, parquet_parse_page_header and the thrift_read_* /
thrift_skip primitives on arbitrary bytes.

`run_part(chk, tier)` is called from checks/c08.py; `python3 -m checks.c08_thrift quick` runs it alone.

Inputs (all defined by spec/mc/MC_ThriftFuzz.tla, derived from the Thrift grammar of
ThriftCompact/ParquetThrift):
  * explicit: every mutant of small valid encodings - truncation after every byte, substitution of
    every byte by the boundary bytes (0x00 0x01 0x0f 0x10 0x15 0x19 0x1c 0x7f 0x80 0xf0 0xff, every
    type nibble, size nibbles 0/1/14/15), inflation of the varint at every position to ~2^14 / <2^31 /
    >=2^31 / ~2^64 / 11 bytes, one appended byte - each with the spec's verdict `valid` (TParse accepts,
    consumes everything, TypeErrs = {});
  * bulk: the same mutant set of larger encodings (page headers and footers with statistics, unknown
    fields of every wire type, alternative styles; generic trees), enumerated by the replayer from the
    base; the number of mutants per class is computed by TLC and compared;
  * bombs: pre ++ rep^n ++ post for rep in 0x19, 0x1a, 0x1c, 0x1b, ..., n = 10^2 .. 10^6, bare and behind
    unknown-field headers; huge: list/set/map/binary headers with sizes around 2^31, 2^32, 2^63, 2^64 in
    known and unknown fields; random: VERIF_SEED-seeded bytes, bare and behind a valid prefix.
Entries: fm (file metadata, result dumped so every parsed field is read), ph (page header), gr (walk with
thrift_read_*), sk (thrift_skip of a struct). Every call gets an exact-size heap copy under ASan.
Oracle: watchdog (terminates), ASan/LSan (reads within the input, nothing left allocated), and the
envelope "error, or consumed <= input size" evaluated by TLC (MC_ThriftFuzzTrace). Evidence only: how many
inputs the spec calls valid were accepted by carquet.
"""
import json
import os
import subprocess
import sys

from vlib import common
from vlib.common import hexs

LEVEL = "exploration"
DEV = bool(os.environ.get("C13_DEV"))
ENTRIES = {"FileMetaData": ["fm", "gr", "sk"], "PageHeader": ["ph", "gr", "sk"], "generic": ["gr", "sk", "fm", "ph"]}
ALL = ["fm", "ph", "gr", "sk"]
FIXED = [0x00, 0x01, 0x0f, 0x10, 0x15, 0x19, 0x1c, 0x7f, 0x80, 0xf0, 0xff]
INFL = [[0x7f], [0xff, 0xff, 0xff, 0x07], [0xff, 0xff, 0xff, 0x0f], [0xff] * 8 + [0x01], [0xff] * 10]


def gen(part, tier, nrand, workers):
    cfg = ('CONSTANTS\n Family = {}\n Tier = "%s"\n Seed = %d\n NRand = %d\n Part = "%s"\nINIT FInit\nNEXT FNext\n'
           'CHECK_DEADLOCK FALSE\n' % (tier, common.seed(), nrand, part))
    r = common.run_tlc("MC_ThriftFuzz", constants_text=cfg, workers=workers, heap="3g", timeout=900)
    common.tlc_ok(r, "MC_ThriftFuzz " + part)
    if not r.cases:
        raise common.InfraError("MC_ThriftFuzz %s produced nothing\n%s" % (part, r.out[-1500:]))
    return r


def fault_sig(f):
    """<asan-kind>:<frame>; for a stack overflow the top frame is arbitrary, so the frame is the function
    that recurses (the most frequent carquet frame of the report)"""
    if f.kind == "stack-overflow":
        fr = {}
        for fm in common._re_frame.finditer(getattr(f, "stderr", "")):
            if "/src/" in fm.group(2):
                fr[fm.group(1)] = fr.get(fm.group(1), 0) + 1
        if fr:
            return "stack-overflow:" + max(sorted(fr), key=lambda k: fr[k])
    return f.signature()


def mutant_bytes(base, cls, pos, arg):
    """mirror of MC_ThriftFuzz!MutantsAt, used only to report the input of a fault"""
    b = list(base)
    if cls == "T":
        return b[:pos]
    if cls == "S":
        b[pos] = arg
        return b
    if cls == "I":
        return b[:pos] + [b[pos] | 0x80] + INFL[arg] + b[pos + 1:]
    return b + [arg]


def locate(binary, line):
    """re-run one fz line with a marker before every call; the last marker names the faulting mutant"""
    e = dict(os.environ)
    e.update(common.ASAN_ENV)
    e["FZ_VERBOSE"] = "1"
    try:
        p = subprocess.run([binary], input=line + "\n", stdout=subprocess.PIPE, stderr=subprocess.DEVNULL, text=True,
                           env=e, timeout=600)
        out = p.stdout
    except subprocess.TimeoutExpired as ex:
        out = ex.stdout.decode() if isinstance(ex.stdout, bytes) else (ex.stdout or "")
    marks = [l for l in out.splitlines() if l.startswith("M ")]
    if not marks:
        return None
    _, cls, pos, arg = marks[-1].split()
    return cls, int(pos), int(arg)


def run_part(chk, tier):
    from concurrent.futures import ThreadPoolExecutor
    binary = common.build_harness("h_thrift")
    quick = tier == "quick"
    nrand = 200 if quick else 2000
    W = 4 if DEV else max(3, common.NCPU // 4)
    with ThreadPoolExecutor(max_workers=1 if DEV else 3) as ex:
        ress = list(ex.map(lambda p: gen(p, tier, nrand, W), ["explicit", "bulk", "misc"]))
    for r in ress:
        chk.add_tlc(r)

    lines, meta = [], {}

    def add(cmd, info):
        cid = "t%d" % len(lines)
        lines.append("%s %s" % (cid, cmd))
        meta[cid] = info

    nex = nbulk = 0
    for r in ress:
        for c in r.cases:
            if c["fz"] == "explicit":
                for m in c["muts"]:
                    for i, en in enumerate(ENTRIES[c["kind"]]):
                        # `valid` is a statement about the typed entry (fm / ph) and about well-formedness (gr, sk)
                        add("raw %s %s" % (en, hexs(m["bytes"])), {"k": "one", "entry": en, "bytes": m["bytes"], "valid": m["valid"],
                                                                   "what": "%s:%s@%d" % (c["base"], m["cls"], m["pos"])})
                    nex += 1
            elif c["fz"] == "bulk":
                for en in ENTRIES[c["kind"]]:
                    for cls in "TSIA":
                        add("fz %s %s %s" % (en, hexs(c["bytes"]), cls), {"k": "bulk", "entry": en, "base": c["bytes"], "cls": cls,
                                                                          "expect": c["nmut"][cls], "what": c["base"]})
                nbulk += 1
            elif c["fz"] == "bombs":
                for b in c["items"]:
                    for en in ALL:
                        add("bomb %s %s %s %d %s" % (en, hexs(b["pre"]), hexs(b["rep"]), b["n"], hexs(b["post"])),
                            {"k": "one", "entry": en, "bomb": b, "valid": False, "what": "bomb:%s^%d" % (hexs(b["rep"]), b["n"])})
            else:
                for bs in c["items"]:
                    for en in ALL:
                        add("raw %s %s" % (en, hexs(bs)), {"k": "one", "entry": en, "bytes": bs, "valid": False, "what": c["what"]})
    # spread the heavy (bulk) lines over the worker processes
    nproc = 4 if DEV else common.NCPU
    heavy = [l for l in lines if meta[l.split(" ", 1)[0]]["k"] == "bulk"]
    light = [l for l in lines if meta[l.split(" ", 1)[0]]["k"] != "bulk"]
    heavy.sort(key=lambda l: -meta[l.split(" ", 1)[0]]["expect"] * len(meta[l.split(" ", 1)[0]]["base"]))
    buckets = [[] for _ in range(nproc)]
    for i, l in enumerate(heavy):
        buckets[i % nproc].append(l)
    for i, l in enumerate(light):
        buckets[i % nproc].append(l)
    ordered = [l for b in buckets for l in b]
    # run_harness_parallel cuts `ordered` into nproc contiguous chunks of equal length: pad-free because buckets differ by <= 1
    res, faults, leaky = common.run_harness_parallel(binary, ordered, nproc=nproc, per_case_timeout=120.0)

    by_line = {l.split(" ", 1)[0]: l for l in lines}
    for f in faults:
        m = meta.get(f.case_id)
        if m is None:
            chk.violation("c08:thrift:?:%s" % f.signature(), "fault outside a case: %s" % f.signature(), getattr(f, "stderr", ""))
            continue
        rep = {"line": by_line[f.case_id], "what": m["what"], "stderr": getattr(f, "stderr", "")[-3000:]}
        if m["k"] == "bulk":
            loc = locate(binary, by_line[f.case_id])
            if loc:
                rep["mutant"] = {"cls": loc[0], "pos": loc[1], "arg": loc[2]}
                rep["input_hex"] = hexs(mutant_bytes(m["base"], *loc))
        elif "bytes" in m:
            rep["input_hex"] = hexs(m["bytes"])
        chk.violation("c08:thrift:%s:%s" % (m["entry"], fault_sig(f)),
                      "%s on %s input (%s)" % (f.signature(), m["entry"], m["what"]), rep)
    for cid in leaky:
        m = meta.get(cid, {"entry": "?", "what": "?"})
        chk.violation("c08:thrift:%s:leak" % m["entry"], "memory left allocated after %s (%s)" % (m["entry"], m["what"]),
                      {"line": by_line.get(cid, cid)})

    # the envelope, judged by TLC
    recs = []
    ncalls = 0
    for cid, m in meta.items():
        out = res.get(cid)
        if out is None:
            continue
        if out[0] == "ERR":
            raise common.InfraError("h_thrift: " + " ".join(out))
        if m["k"] == "one":
            n = int(out[2]) if len(out) > 2 else len(m["bytes"])
            recs.append({"e": "One", "id": cid, "entry": m["entry"], "n": n, "st": int(out[0]), "used": int(out[1]), "valid": bool(m["valid"])})
            ncalls += 1
            chk.count(("thrift", m["entry"], m["what"], m.get("bytes") or m.get("bomb")), True)
        else:
            recs.append({"e": "Bulk", "id": cid, "entry": m["entry"], "calls": int(out[0]), "expect": m["expect"],
                         "any": out[3] != "na", "maxex": 0 if out[3] == "na" else int(out[3])})
            ncalls += int(out[0])
            chk.cov["evaluations"] += int(out[0]) - 1
            chk.count(("thrift", m["entry"], m["what"], m["cls"]), True)
    verdicts, stats, tres = common.validate_traces("MC_ThriftFuzzTrace", [[r] for r in recs], nproc=2 if (quick or DEV) else 4, heap="2g")
    va = vr = 0
    for r in tres:
        chk.add_tlc(r)
        st = r.cases[-1]["stats"]
        va += st["validAccepted"]
        vr += st["validRejected"]
    for v in verdicts:
        m = meta[v["id"]]
        for why in v["why"]:
            if why.startswith("infra:"):
                raise common.InfraError("replayer and MC_ThriftFuzz disagree on the mutant set of %s/%s: %s" % (m["what"], m.get("cls"), res.get(v["id"])))
            chk.violation("c08:thrift:%s:%s" % (m["entry"], why), "%s: %s (%s) -> %s" % (m["entry"], why, m["what"], res.get(v["id"])),
                          {"line": by_line[v["id"]]})
    rej = [m["what"] for cid, m in meta.items() if m["k"] == "one" and m["valid"] and cid in res and res[cid][0] != "0"]
    chk.sample({"thrift_input": lines[0][:200]})
    chk.cov["traces_validated_against_impl"] += len(recs)
    chk.part("thrift", calls=ncalls, harness_lines=len(lines), explicit_mutants=nex, bulk_bases=nbulk, crashes=len(faults),
             spec_valid_accepted=va, spec_valid_rejected=vr, spec_valid_rejected_examples=sorted(set(rej))[:10],
             rule="Thrift: one evaluation = one call of fm/ph/gr/sk on one input (explicit mutants, bulk mutants enumerated by the "
                  "replayer and counted against TLC's NMutants, bombs, huge sizes, seeded random); distinct = distinct (entry, input) "
                  "for explicit inputs and (entry, base, mutation class) for bulk")


if __name__ == "__main__":
    tier = sys.argv[1] if len(sys.argv) > 1 else "quick"
    chk = common.Check("C08-thrift", tier, LEVEL)      # own evidence/replay names: does not touch C08's
    run_part(chk, tier)
    sys.exit(chk.finish())
