"""Decompressor part of C08: carquet_{snappy,lz4,gzip,zstd}_decompress on arbitrary bytes.

`run_part(chk, tier)` is meant to be called from checks/c08.py; `run()` makes the module usable
on its own (`bin/vcheck c08_codecs` is not registered; use `python3 -m checks.c08_codecs quick`).

Inputs (all chosen by TLC):
  * MC_SnappyBytes / MC_Lz4Bytes: every byte string over a boundary alphabet (tag bytes, length
    bytes, 0x00/0xff...) up to a small length - prefix closed, so every decoder transition is also
    cut after every byte - x 5 capacities;
  * MC_SnappyGen / MC_Lz4Gen: the derived invalid blocks of valid token lists (truncations,
    offset 0 / beyond output, wrong declared length, destination too small);
  * MC_SnappyTail / MC_Lz4Tail: blocks whose match (offsets 8, 9, 16, 64; every length 4..20) ends at
    or within 7 bytes of the end of the output (LZ4 also: block ends in a match), decoded into
    exactly the output size, one less / more, and capacities cutting inside the match / the
    trailing literals;
  * MC_CodecFuzz: mutations (truncate, drop tail, set / xor byte near the head, the tail, in the
    middle, append) of valid blocks produced by the codec itself, and seeded noise behind
    plausible headers, x capacities {0, n-1, n, n+1} / {0, 1, 64, 4096}.
Oracle: the envelope Codec.ArbitraryViol (error, or reported size <= capacity), evaluated by TLC
(MC_CodecTrace); AddressSanitizer (snappy, lz4: exact-size heap buffers), guard pages (gzip,
zstd run inside uninstrumented zlib / libzstd), watchdog and LeakSanitizer observe `fault`.
"""
import os
import sys

from vlib import common
from checks import codecs_lib as cl
from checks.codecs_lib import rope_str, bytes_rope, desc_str

LEVEL = "exploration"


def fuzz_cases(tier, workers=None):
    if tier == "quick":
        consts = ('Bases = {"empty", "lit20", "run", "mixed"}\nConfigs <- CfgQuick\n'
                  'MutClass = {"T", "E", "S", "s", "X", "x", "A", "M", "C"}\nSeeds = {1, 2, 3, 4, 5, 6, 7, 8}\nNoiseLens = {0, 1, 2, 3, 5, 8, 16, 64, 1000}')
    else:
        consts = ('Bases = {"empty", "one", "lit20", "run", "mixed", "text", "far"}\nConfigs <- CfgThorough\n'
                  'MutClass = {"T", "E", "S", "s", "X", "x", "A", "M", "C"}\nSeeds = {%s}\nNoiseLens = {0, 1, 2, 3, 4, 5, 6, 7, 8, 12, 16, 33, 64, 255, 1000, 5000}' % (
                      ", ".join(str(i) for i in range(1, 41))))
    r = cl.tlc_gen("MC_CodecFuzz", consts, what="MC_CodecFuzz", workers=workers)
    return r.cases, r


def run_part(chk, tier):
    # late import: c10 owns the generators for the two formats that have a format spec
    from checks import c10
    binary = common.build_harness("h_codec")
    lines, meta = [], {}

    def add(codec, cap, src, info):
        cid = "z%d" % len(lines)
        lines.append("%s fz %s %d %s" % (cid, codec, cap, src))
        meta[cid] = (codec, cap, src, info)

    nbytes = ngen = ntail = 0
    W = max(2, common.NCPU // 4)
    jobs = {"fuzz": lambda: fuzz_cases(tier, workers=W)}
    for fmt in ("snappy", "lz4"):
        jobs["bytes-" + fmt] = (lambda fmt=fmt: c10.bytes_cases(fmt, tier, workers=W))
        jobs["tail-" + fmt] = (lambda fmt=fmt: c10.tail_cases(fmt, tier, workers=W))
        # derived invalid blocks: the quick tier takes Snappy's only (LZ4's are replayed under ASan by C10 anyway)
        if tier != "quick" or fmt == "snappy":
            jobs["gen-" + fmt] = (lambda fmt=fmt: c10.gen_cases(fmt, "quick", workers=W))
    gen = cl.parallel(jobs)
    for fmt in ("snappy", "lz4"):
        bcases, r = gen["bytes-" + fmt]
        chk.add_tlc(r)
        for c in bcases:
            for cap in c["j"]:
                add(fmt, int(cap), "raw:" + bytes_rope(c["s"]), ("bytes", c["s"][-1] if c["s"] else None))
                nbytes += 1
        tcases, r = gen["tail-" + fmt]
        chk.add_tlc(r)
        for c in tcases:
            for cap in c["j"]:
                add(fmt, int(cap), "raw:" + bytes_rope(c["s"]), ("match-at-end", c["s"][-1] if c["s"] else None))
                ntail += 1
        if "gen-" + fmt not in gen:
            continue
        gcases, rs = gen["gen-" + fmt]
        for r in rs:
            chk.add_tlc(r)
        for c in gcases:
            for b in c["bad"]:
                add(fmt, b["cap"], "raw:" + rope_str(b["s"]), ("derived-invalid:" + b["why"], c10.last_byte(b["s"])))
                ngen += 1
    fcases, r = gen["fuzz"]
    chk.add_tlc(r)
    for c in fcases:
        if c["k"] == "mut":
            add(c["codec"], c["cap"], "mut:%d:%s:%s" % (c["level"], desc_str(c["desc"]), c["m"]), ("mutation", None))
        else:
            rope = ([{"b": c["hdr"]}] if c["hdr"] else []) + [{"n": c["n"], "s": c["seed"], "o": c["seed"] * 977}]
            if c["seed"] % 2:
                add(c["codec"], c["cap"], "rnd:%d:%d" % (c["seed"] * 31 + len(c["hdr"]), c["n"]), ("noise", None))
            else:
                add(c["codec"], c["cap"], "raw:" + rope_str(rope), ("header+fill", None))
    res, faults, leaky = cl.run_parallel(binary, lines, per_case_timeout=30.0, batch=2000,
                                         costs=[cl.line_cost(ln) for ln in lines], cost_limit=48e6)

    # the envelope, judged by TLC against Codec.tla
    obs = []
    for cid, (codec, cap, src, info) in meta.items():
        got = res.get(cid)
        chk.count((codec, cap, src), True)
        if got is None:
            continue
        if got[0] == "ERR":
            raise common.InfraError("harness could not build fuzz case %s: %s" % (lines[int(cid[1:])], got))
        obs.append({"id": cid, "n": 0, "xh": "", "ev": [{"op": "arbitrary", "cap": cap, "out": {
            "st": "ok" if got[0] == "0" else "err", "len": int(got[1]), "wlen": 0, "h": ""}}]})
    verd = {}
    for k in range(0, len(obs), 60000):
        path = cl.write_ndjson(obs[k:k + 60000])
        try:
            r = cl.tlc_gen("MC_CodecTrace", "Group = 256", env={"OBS": path}, what="MC_CodecTrace (C08)")
        finally:
            os.unlink(path)
        chk.add_tlc(r)
        for v in r.cases:
            if v["v"] != "accepted" or v["id"] not in verd:
                verd[v["id"]] = v
    if len(verd) != len(obs):
        raise common.InfraError("MC_CodecTrace judged %d of %d calls" % (len(verd), len(obs)))
    accepted = 0
    for cid, v in verd.items():
        codec, cap, src, info = meta[cid]
        if v["v"] == "accepted":
            accepted += 1
            continue
        for clause in v["clauses"]:
            chk.violation("%s-dec:%s" % (codec, clause), "%s decompress of %s into %d bytes: %s (observed %s)" % (
                codec, src[:300], cap, clause, res.get(cid)), {"line": lines[int(cid[1:])], "observed": res.get(cid)})
    for f in faults:
        codec, cap, src, info = meta.get(f.case_id, ("?", 0, "?", ("?", None)))
        chk.violation(cl.fault_sig(codec + "-dec", f, info[1]),
                      "fault in %s decompress (%s) of %s into %d bytes: %s" % (codec, info[0], src[:300], cap, f.signature()),
                      {"line": lines[int(f.case_id[1:])] if f.case_id[1:].isdigit() else f.case_id, "stderr": getattr(f, "stderr", "")[-1500:]})
    for cid in leaky:
        codec, cap, src, info = meta[cid]
        chk.violation("%s-dec:leak" % codec, "allocation left after %s decompress of %s" % (codec, src[:200]), lines[int(cid[1:])])
    ok_calls = sum(1 for cid in meta if res.get(cid, ["1"])[0] == "0")
    by = {}
    for cid, m in meta.items():
        by[m[0]] = by.get(m[0], 0) + 1
    for i in (5, len(lines) // 2, len(lines) - 7):
        if 0 <= i < len(lines):
            chk.sample({"call": lines[i], "result": res.get("z%d" % i)})
    chk.part("decompressors", calls=len(obs), accepted_by_contract=accepted, returned_ok=ok_calls, faults=len(faults),
             byte_strings=nbytes, match_at_end=ntail, derived_invalid=ngen, fuzz=len(fcases), per_codec=by)
    chk.cov["traces_validated_against_impl"] += len(obs)
    return len(obs)


def run(chk, tier, replay):
    run_part(chk, tier)
    chk.cov["rule"] = "one evaluation per decompress call (input, capacity); distinct = distinct (codec, capacity, input source)"


if __name__ == "__main__":
    tier = sys.argv[1] if len(sys.argv) > 1 else "quick"
    # stand-alone debugging run: same verdict logic as under C08, evidence moved out of /verif/evidence
    chk = common.Check("C08", tier, LEVEL)
    try:
        run(chk, tier, None)
        real = os.path.join(common.VERIF, "evidence", "C08.json")
        keep = open(real).read() if os.path.exists(real) else None
        rc = chk.finish()
        os.replace(real, os.path.join(common.scratch_root(), "C08-codecs-part.json"))
        if keep is not None:
            open(real, "w").write(keep)
        print("evidence of this part: " + os.path.join(common.scratch_root(), "C08-codecs-part.json"))
        sys.exit(rc)
    except common.InfraError as ex:
        print("INFRA-ERROR:", ex, file=sys.stderr)
        sys.exit(2)
