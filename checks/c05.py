"""C05 - every file the writer reports complete is structurally valid Parquet.

Deciding method: the bytes of every file produced from a TLC-generated write history are parsed by
the TLA+ reference reader (ParquetFile.tla, executed by TLC inside WriterTrace.tla), which must
accept the file, find every structural predicate true (tiling, page chain, counts, tags, CRC, sizes)
and recover exactly the table the history promised. Determinism: the same history written twice
(second time with a perturbed heap) must give identical bytes.
"""
from vlib import common
from checks import wcommon
from checks.c01 import report

LEVEL = "model_checking"


def configs(tier):
    cs = [(c, p) for c in sorted(wcommon.SPEC_DECODABLE) for p in ((64, 128, 1 << 20) if tier == "quick" else (64, 128, 4096, 1 << 20))]
    # GZIP / ZSTD: page bodies are opaque to the specification, everything around them is judged (layout-only parse)
    cs += [(c, p) for c in sorted(set(wcommon.CODECS) - wcommon.SPEC_DECODABLE) for p in ((64, 1 << 20) if tier == "quick" else (64, 4096, 1 << 20))]
    return cs


def codec_function_part(chk, tier):
    """Writer.tla makes the file a function of the history (CompressW is an operator, not a state machine): the page
    compressors must therefore be functions of their input. Each TLC-enumerated LZ-structured input is compressed in two
    processes, after different predecessors (original / reversed order, all codecs interleaved); the blocks must be
    identical. State kept between calls (static or thread-local match tables, contexts) shows up here."""
    from checks import c10, codecs_lib as cl
    cases, r = c10.dir2_descs(tier)
    chk.add_tlc(r)
    r2 = cl.tlc_gen("MC_CodecFn", "Counts = {9, 40, 130%s}\nMods = {1, 2, 3, 5, 16%s}\nVCounts = {60, 500}\nVSeeds = {%s}\nLitLens = {3, 17}\nRepOffs = {8, 24, 40}\n"
                    "RepLens = {5, 64, 300}\nMaxSegs = %d" % (("", "", ", ".join(map(str, range(1, 13))), 2) if tier == "quick" else (", 512", ", 7, 100", ", ".join(map(str, range(1, 41))), 2)), what="MC_CodecFn")
    chk.add_tlc(r2)
    page_like = sorted({cl.desc_str(c["desc"]) for c in r2.cases})
    binary = common.build_harness("h_codec")
    descs = sorted({cl.desc_str(c["desc"]) for c in cases})
    if tier == "quick":
        descs = descs[::max(1, len(descs) // 1000)]
    descs = sorted(set(descs) | set(page_like))
    cap = 4000 if tier == "quick" else 40000
    if len(descs) > cap:                       # deterministic thinning (keeps the order-of-magnitude of the run time)
        descs = descs[::len(descs) // cap + 1]
    lines = ["k%d_%s rec %s 0 %s" % (i, cod, cod, d) for i, d in enumerate(descs) for cod in ("snappy", "lz4", "gzip", "zstd")]
    a, fa, _ = cl.run_parallel(binary, lines, nproc=4, batch=(len(lines) + 3) // 4, leaks=False)
    rl = list(reversed(lines))
    b, fb, _ = cl.run_parallel(binary, rl, nproc=3, batch=(len(rl) + 2) // 3, leaks=False)
    n = 0
    for ln in lines:
        cid = ln.split(" ", 1)[0]
        if cid not in a or cid not in b:
            continue
        n += 1
        chk.count(("codec-fn", ln.split(" ", 1)[1]), True)
        if a[cid] != b[cid]:
            cod = cid.split("_")[1]
            chk.violation("file:nondeterministic:compressor-" + cod,
                          "%s: the same input compressed twice (different predecessors in the process) gives different blocks" % cod,
                          {"line": ln, "first": a[cid], "second": b[cid]})
    for f in fa + fb:
        chk.violation("fault:" + f.signature(), "fault while compressing", getattr(f, "stderr", ""))
    chk.part("compressors_are_functions", inputs=len(descs), compared=n, codecs=["snappy", "lz4", "gzip", "zstd"])


def histories(chk, tier):
    hs = []
    if tier == "quick":
        hs += wcommon.gen_histories(chk, [1], [1, 2, 3, 4], 1, 2)
        hs += wcommon.gen_histories(chk, [2, 3, 4, 5, 6, 7, 8], [0, 2, 9], 3, 2, nullmode="runs", simulate=25, depth=40, workers=4)
    else:
        hs += wcommon.gen_histories(chk, [1], [1, 2, 3, 4, 5], 1, 3)
        hs += wcommon.gen_histories(chk, [2, 3], [0, 1, 2], 2, 2, limit=3000)
        hs += wcommon.gen_histories(chk, [2, 3, 4, 5, 6, 7, 8], [0, 1, 2, 9, 17], 3, 3, nullmode="runs", anyorder=True,
                                    simulate=24, depth=60, workers=8)
    return hs


def run(chk, tier, replay):
    chk.assumptions += ["Reference reader = ParquetFile.tla (+ThriftCompact, Hybrid, Crc32) transcribed from the format documents, self-checked (MC_ThriftSelf, MC_HybridSelf, MC_LibSelf)",
                        "Page bodies of GZIP / ZSTD pages are opaque to the TLA+ reader: for those files every predicate that does not need the decoded body is judged (ParseLayout)",
                        "Determinism is observed on two runs (perturbed heap, different predecessor in the process) and on every compressor called twice after different predecessors; absence of uninitialised reads is not proved"]
    for m in ("MC_ThriftSelf",):
        r = common.tlc_ok(common.run_tlc(m, workers=4, want_cases=False), m)
        if r.violated:
            raise common.InfraError(m + " self-check failed")
        chk.add_tlc(r)
    hs = histories(chk, tier) + wcommon.count_boundary_histories(chk, tier)
    cfgs = configs(tier)
    execs, meta, files, faults = wcommon.run_histories(chk, hs, cfgs, modes=(), with_file=True, determinism=True)
    # TLC parses every byte of these files (ParquetFile.tla incl. Snappy / LZ4 decoding): files of a few thousand rows
    # cost seconds each, so the longest histories (C01 reads them back through carquet) are left out here
    lg = [h for h in wcommon.long_histories(chk, tier)
          if len(h) > 2 and sum(o["n"] for o in h if o["op"] == "WriteBatch") <= 5000]
    lg = lg[::3] if tier == "quick" else lg[::2]
    lcfgs = [(0, 1024), (1, 1 << 20), (5, 300), (2, 4096), (6, 64)]
    e3, m3, f3, _ = wcommon.run_histories(chk, lg, lcfgs, modes=(), with_file=True, determinism=True, label="l")
    execs += e3
    meta.update(m3)
    files.update(f3)
    hs = hs + lg
    seen = set()
    for cid, (ops, codec, page) in meta.items():
        fb = files.get(cid)
        npages_hint = sum(1 for o in ops if o["op"] == "WriteBatch")
        chk.count(("file", fb.hex() if fb else cid), wcommon.nontrivial_history(ops) or npages_hint > 1)
    for i in range(0, len(hs), max(1, len(hs) // 3)):
        chk.sample({"history": hs[i]})
    verdicts, stats, ress = common.validate_traces("WriterTrace", execs)
    for r in ress:
        chk.add_tlc(r)
    chk.cov["traces_validated_against_impl"] += stats["execs"]
    chk.part("files", parsed_by_tlc=stats["execs"], events=stats["events"], histories=len(hs),
             configs=[(wcommon.CODECS[c], p) for c, p in cfgs])
    report(chk, verdicts, meta, lambda w: w.startswith("file:") or w.startswith("fault:"))
    codec_function_part(chk, tier)
    chk.cov["rule"] = ("one case per (history, codec, page_size); the produced bytes are parsed by ParquetFile.tla; distinct = distinct file "
                       "bytes; non-trivial = >= 2 batches in some column or >= 1 null")
