"""C05 - every file the writer reports complete is structurally valid Parquet.

Deciding method: the bytes of every file produced from a TLC-generated write history are parsed by
the TLA+ reference reader (ParquetFile.tla, executed by TLC inside WriterTrace.tla), which must
accept the file, find every structural predicate true (tiling, page chain, counts, tags, CRC, sizes)
and recover exactly the table the history promised. Determinism: the same history written twice
(second time with a perturbed heap) must give identical bytes.
"""
from vlib import common
from checks import wcommon
from checks.c01 import report

LEVEL = "model_checking"


def configs(tier):
    cs = [(c, p) for c in sorted(wcommon.SPEC_DECODABLE) for p in ((64, 128, 1 << 20) if tier == "quick" else (64, 128, 4096, 1 << 20))]
    return cs


def histories(chk, tier):
    hs = []
    if tier == "quick":
        hs += wcommon.gen_histories(chk, [1], [1, 2, 3, 4], 1, 2)
        hs += wcommon.gen_histories(chk, [2, 3, 4, 5, 6, 7, 8], [0, 2, 9], 3, 2, nullmode="runs", simulate=25, depth=40, workers=4)
    else:
        hs += wcommon.gen_histories(chk, [1], [1, 2, 3, 4, 5], 1, 3)
        hs += wcommon.gen_histories(chk, [2, 3], [0, 1, 2], 2, 2, limit=3000)
        hs += wcommon.gen_histories(chk, [2, 3, 4, 5, 6, 7, 8], [0, 1, 2, 9, 17], 3, 3, nullmode="runs", anyorder=True,
                                    simulate=200, depth=60, workers=8)
    return hs


def run(chk, tier, replay):
    chk.assumptions += ["Reference reader = ParquetFile.tla (+ThriftCompact, Hybrid, Crc32) transcribed from the format documents, self-checked (MC_ThriftSelf, MC_HybridSelf, MC_LibSelf)",
                        "Page bodies of codecs the TLA+ reader cannot decompress are not judged here: " + str(sorted(set(wcommon.CODECS) - wcommon.SPEC_DECODABLE)),
                        "Determinism is observed on two runs (perturbed heap), absence of uninitialised reads is not proved"]
    for m in ("MC_ThriftSelf",):
        r = common.tlc_ok(common.run_tlc(m, workers=4, want_cases=False), m)
        if r.violated:
            raise common.InfraError(m + " self-check failed")
        chk.add_tlc(r)
    hs = histories(chk, tier)
    cfgs = configs(tier)
    execs, meta, files, faults = wcommon.run_histories(chk, hs, cfgs, modes=(), with_file=True, determinism=True)
    seen = set()
    for cid, (ops, codec, page) in meta.items():
        fb = files.get(cid)
        npages_hint = sum(1 for o in ops if o["op"] == "WriteBatch")
        chk.count(("file", fb.hex() if fb else cid), wcommon.nontrivial_history(ops) or npages_hint > 1)
    for i in range(0, len(hs), max(1, len(hs) // 3)):
        chk.sample({"history": hs[i]})
    verdicts, stats, ress = common.validate_traces("WriterTrace", execs)
    for r in ress:
        chk.add_tlc(r)
    chk.cov["traces_validated_against_impl"] += stats["execs"]
    chk.part("files", parsed_by_tlc=stats["execs"], events=stats["events"], histories=len(hs),
             configs=[(wcommon.CODECS[c], p) for c, p in cfgs])
    report(chk, verdicts, meta, lambda w: w.startswith("file:") or w.startswith("fault:"))
    chk.cov["rule"] = ("one case per (history, codec, page_size); the produced bytes are parsed by ParquetFile.tla; distinct = distinct file "
                       "bytes; non-trivial = >= 2 batches in some column or >= 1 null")
