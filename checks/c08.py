"""C08 - component decoders are safe on arbitrary bytes and respect capacities.

Deciding method: each format module's grammar in TLA+ is used as a generator of byte strings around
the decoder's state transitions (valid encodings, every truncation, boundary bytes, mutations,
declared lengths / bit widths / counts / capacities at and around the needed size), produced by TLC;
a replayer calls the internal entry points with exact-size heap buffers under ASan; the abstract
`fault` variable must stay "none" and every call must return an error or a size within the
declared capacity. Parts: codecs (Snappy/LZ4/GZIP/ZSTD decompressors), encodings (RLE hybrid, PLAIN,
DELTA_*, BYTE_STREAM_SPLIT, dictionary, bit packing), Thrift (file metadata / page header parsers).
"""
import importlib

from vlib import common

LEVEL = "exploration"
PARTS = ["c08_codecs", "c08_encodings", "c08_thrift"]


def run(chk, tier, replay):
    from concurrent.futures import ThreadPoolExecutor
    mods = []
    for p in PARTS:
        try:
            mods.append((p, importlib.import_module("checks." + p)))
        except ImportError:
            continue
    # the parts are independent (own TLC runs, own harness binaries): run them side by side
    with ThreadPoolExecutor(max_workers=len(mods) or 1) as ex:
        futs = [(p, ex.submit(m.run_part, chk, tier)) for p, m in mods]
        for p, f in futs:
            f.result()
    ran = [p for p, _ in mods]
    if not ran:
        raise common.InfraError("no C08 part available")
    chk.part("parts", ran=ran)
    if not chk.cov.get("rule"):
        chk.cov["rule"] = "see parts"
