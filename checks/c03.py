"""C03 - file, mmap and in-memory-buffer reading are observationally equivalent.

Deciding method: the three I/O paths are three implementations of the same ColumnReader / batch
reader specification: the C02 machinery (TLC-generated call histories and batch configurations on
reference-written fixtures, TLC trace validation against ReaderTrace.tla) is run once per path and
with checksum verification on and off; each path must be accepted by the same specification on the
same fixture content (which implies pairwise equality of metadata, column content and batches).
Zero-copy: delivered batches are kept alive and re-read after later Next calls and after the batch
reader is freed, before the reader is closed; any change or invalid access is a violation.
"""
from checks import c02, rcommon

LEVEL = "model_checking"


def design_model(chk):
    """BatchReaderImpl.tla: the zero-copy branch of the batch reader must keep all columns of a batch
    row-aligned; the `page rows <= batch rows` rule of the pinned commit must be rejected."""
    from vlib import common
    r = common.run_tlc("MC_BatchReaderImpl", cfg="MC_BatchReaderImpl_fixed", workers=2, want_cases=False)
    if r.violated:
        chk.violation("batch-reader-design:" + r.violated, "TLC: the zero-copy batch design violates row alignment", r.out[-2500:])
    elif r.rc != 0:
        raise common.InfraError("MC_BatchReaderImpl failed\n" + r.out[-1500:])
    chk.add_tlc(r)
    r2 = common.run_tlc("MC_BatchReaderImpl", cfg="MC_BatchReaderImpl_pinned", workers=2, want_cases=False)
    if not r2.violated:
        raise common.InfraError("BatchReaderImpl no longer rejects the pinned zero-copy rule (vacuous model)")
    chk.part("design_model", states=r.distinct, pinned_design_counterexample_found=True)


def run(chk, tier, replay):
    design_model(chk)
    chk.assumptions += ["Each I/O path is validated against the same specification and fixture content; equality across paths follows",
                        "Batch boundaries may differ between paths (recorded, not a violation); row alignment inside a batch may not",
                        "Kept batches are only touched before their own free and before reader close (API contract)"]
    rcommon.self_check(chk)
    c02.run_modes(chk, tier, ("f", "m", "b"), verify=1, label="c03v")
    if tier != "quick":
        c02.run_modes(chk, tier, ("f", "m", "b"), verify=0, label="c03n")
    chk.cov["rule"] = ("C02 histories/configurations x {fread, mmap, buffer} (x verify_checksums in thorough); fixtures mix zero-copy-eligible "
                       "(REQUIRED fixed-width PLAIN uncompressed) and non-eligible columns with several small pages; distinct = (fixture, chunk/config, history, mode)")
