"""C06 - spec-valid files from another writer decode to the values stored in them.

Deciding method: the "independent specification-following writer" is the TLA+ reference writer
(ParquetWrite.tla / RefWriter.tla, executed by TLC): MC_RefGen enumerates tables (flat with all
eight physical types incl. INT96; nested with optional/repeated ancestors; long runs over several
pages) x layouts (level run kinds, dictionary / plain, dictionary offset present/absent, page splits,
CRC, unknown Thrift fields, long-form headers) and emits the file bytes together with the levels
and values every chunk stores. carquet reads every chunk in all three I/O modes; the result must
equal what the specification wrote. Unsupported features: error or correct values.
"""
from vlib import common
from checks import rcommon

LEVEL = "model_checking"


def lines_for(i, path, case, modes):
    toks = ["r%d" % i]
    for m in modes:
        toks += ["O:%s:%s:1" % (path, m), "M"]
        for c in range(len(case["leaves"])):
            toks += ["K:0:%d" % c, "D:%d" % (1000 if (i + c) % 3 else (1 + (i % 3)))]
        toks.append("Z")
    return " ".join(toks)


def judge(chk, i, case, toks, modes, fault):
    leaves, want = case["leaves"], case["chunks"]
    unsupported = case["mode"] == "unsupported"
    base = {"t": case["t"], "np": case["np"], "extras": case["extras"], "long": case["long"], "opt": case["opt"],
            "file_hex": bytes(case["bytes"]).hex()}
    if fault is not None:
        chk.violation("c06:fault:%s" % fault, "fault %s reading reference file %s" % (fault, rcommon.features(case)), base)
        return
    if toks is None:
        return
    # split tokens per mode
    per_mode, cur = [], None
    for t in toks:
        if t.startswith("O="):
            cur = [t]
            per_mode.append(cur)
        elif cur is not None:
            cur.append(t)
    for m, mt in zip(modes, per_mode):
        if mt[0] != "O=ok":
            if not unsupported:
                chk.violation("c06:open-failed:%s" % "+".join(f for f in rcommon.features(case) if f in ("nodictoff", "v2") or f.startswith("codec")) ,
                              "valid reference file rejected at open (%s, mode %s) features %s" % (mt[0], m, rcommon.features(case)), base)
            continue
        ks = [t[2:] for t in mt if t.startswith("K=")]
        ds = [t[2:] for t in mt if t.startswith("D=")]
        di = 0
        for c, leaf in enumerate(leaves):
            feats = "+".join(rcommon.features(case, leaf))
            if c >= len(ks) or not ks[c].startswith("ok"):
                if not unsupported:
                    chk.violation("c06:get-column-failed:" + feats, "get_column failed on valid file col %d mode %s: %s" % (c, m, ks[c] if c < len(ks) else "?"), base)
                continue
            kf = ks[c].split(":")
            if (int(kf[3]), int(kf[4])) != (leaf["maxDef"], leaf["maxRep"]):
                chk.violation("c06:levels:def%d-rep%d-instead-of-def%d-rep%d" % (int(kf[3]), int(kf[4]), leaf["maxDef"], leaf["maxRep"]),
                              "column reader uses max levels (%s,%s), schema says (%d,%d) for leaf %s" % (kf[3], kf[4], leaf["maxDef"], leaf["maxRep"], leaf["path"]), base)
            d = rcommon.parse_D(ds[di], leaf["type"], leaf["tlen"]); di += 1
            w = want[c]
            n = d["delivered"]
            prefix_ok = (d["defs"] == w["defs"][:n] and d["reps"] == w["reps"][:n]
                         and d["vals"] == w["vals"][:len(d["vals"])]
                         and len(d["vals"]) == sum(1 for x in w["defs"][:n] if x == leaf["maxDef"]))
            complete = n == len(w["defs"]) and not d["error"]
            if unsupported:
                if not prefix_ok:
                    chk.violation("c06:unsupported-decoded-wrong:" + feats, "unsupported feature decoded to wrong values col %d mode %s: got %s want %s" % (c, m, d, w), base)
                elif not complete and not d["error"]:
                    chk.violation("c06:unsupported-silent-short:" + feats, "unsupported feature: short read without error col %d mode %s" % (c, m), base)
            else:
                if d["error"] or n != len(w["defs"]):
                    chk.violation("c06:read-failed:" + feats, "valid file col %d (%s) mode %s: delivered %d of %d, error=%s" % (c, leaf["path"], m, n, len(w["defs"]), d["error"]), base)
                elif d["defs"] != w["defs"]:
                    chk.violation("c06:wrong-defs:" + feats, "col %d mode %s defs %s want %s" % (c, m, d["defs"], w["defs"]), base)
                elif d["reps"] != w["reps"]:
                    chk.violation("c06:wrong-reps:" + feats, "col %d mode %s reps %s want %s" % (c, m, d["reps"], w["reps"]), base)
                elif d["vals"] != w["vals"]:
                    chk.violation("c06:wrong-vals:" + feats, "col %d mode %s vals %s want %s" % (c, m, d["vals"][:6], w["vals"][:6]), base)


def run(chk, tier, replay):
    chk.assumptions += ["Independent writer = ParquetWrite.tla/RefWriter.tla; it is validated against the independent TLA+ reader (MC_RefSelf: ParseFile(SerFile(d)) recovers d and all structural predicates hold)",
                        "Codecs produced by the spec itself: UNCOMPRESSED, SNAPPY, LZ4 (Snappy.tla / Lz4.tla compressors), GZIP (stored deflate blocks) and ZSTD (raw-block frames, with and without content size)",
                        "Unsupported-feature files with a PLAIN payload under a foreign encoding tag are judged 'error or correct', as the property states"]
    rcommon.self_check(chk)
    modes = ("f", "m", "b")
    binary = common.build_harness("h_file")
    n = 40 if tier == "quick" else 2000
    cases = rcommon.gen_files(chk, (1, 2, 3, 4, 5), "valid", simulate=n, workers=8)
    cases += rcommon.gen_files(chk, (1, 2, 3, 4), "unsupported", workers=6)
    with rcommon.Fixtures(cases) as fx:
        lines = [lines_for(i, fx.paths[i], c, modes) for i, c in enumerate(cases)]
        res, faults, leaky = common.run_harness_parallel(binary, lines)
    fault_of = {f.case_id: f.signature() for f in faults}
    for cid in leaky:
        fault_of[cid] = "leak"
    for i, c in enumerate(cases):
        cid = "r%d" % i
        nondefault = bool(rcommon.features(c)) or c["extras"] or c["long"] or c["np"] > 1
        chk.count(("ref", bytes(c["bytes"]).hex()), nondefault)
        judge(chk, i, c, res.get(cid), modes, fault_of.get(cid))
    for i in range(0, len(cases), max(1, len(cases) // 4)):
        c = cases[i]
        chk.sample({"table": c["t"], "pages": c["np"], "extras": c["extras"], "long_form": c["long"], "opt": c["opt"],
                    "file_bytes": len(c["bytes"]), "features": rcommon.features(c)})
    chk.cov["traces_validated_against_impl"] += len(res)
    chk.part("files", valid=sum(1 for c in cases if c["mode"] == "valid"), unsupported=sum(1 for c in cases if c["mode"] != "valid"), modes=modes)
    chk.cov["rule"] = ("cases = states of MC_RefGen (table x page split x unknown-fields x long-form x layout options; valid layouts sampled by "
                       "tlc -simulate with VERIF_SEED, unsupported-feature layouts exhaustive); distinct = distinct file bytes; non-trivial = uses "
                       ">= 1 feature carquet's own writer never emits")
