"""C07 - parallel reading is independent of thread count and scheduling.

Deciding method (explicit TLA+ specification + TLC, bound to the code in both directions):

 * spec/sys/ParRead.tla (PlusCal) models one carquet_batch_reader_next call in fread mode: tasks =
   projected columns, dynamic work queue, barrier between the prefetch loop and the main loop, and
   per page load the steps Seek(header) / ReadHeader / Seek(body) / ReadBody on the ONE shared
   stream position, then Decode / Publish; the seek+read lock is a CONSTANT switch.
   TLC: without the lock EveryReadReturnsItsOwnBytes is violated (counterexample = the interleaving),
   with the lock all invariants and NoLostTask (weak fairness) hold.
 * trace-driven instantiation: a num_threads = 1 run of the real code records (hook H2 + ftell) the
   hook points every task passes, with the real offsets/lengths; these are ParRead's CONSTANT step
   lists. TLC (MC_ParReadGen) then produces schedules - exhaustively, pairwise, or by simulation -
   each with the model's predictions (first foreign read `bad`, first lock-forbidden step `lockv`).
 * the harness h_par replays every schedule into the real code through H2 (bounded waits), and also
   runs num_threads in {1,2,3,4,8,16} x {fread,mmap,buffer} unforced; N independent readers start in
   a fresh process from a barrier with TLC-chosen first API calls.
 * oracle: ParReadTrace.tla (deterministic trace checker run by TLC) compares every run with the
   num_threads = 1 run of the same file (which is first checked against the table that was written),
   and every concurrent independent reader with its solo run.
 * spec/sys/LazyInit.tla models crc32.c / detect.c / dispatch.c lazy initialisation.
"""
import json
import math
import os
import random
import shutil
import subprocess
from concurrent.futures import ThreadPoolExecutor

from vlib import common
from checks import wcommon

LEVEL = "model_checking"
END_OF_DATA = 63
WIDTH = {0: 1, 1: 4, 2: 8, 3: 12, 4: 4, 5: 8}
TIMEOUT_US = int(os.environ.get("VERIF_C07_TIMEOUT_US", "20000"))
MAXPAR = int(os.environ.get("VERIF_MAXPAR", "0"))


_T0 = [None]


def lap(what):
    import time
    now = time.time()
    if _T0[0] is not None:
        common.log("C07 phase %-28s %.1fs" % (what, now - _T0[0]))
    _T0[0] = now


def par(n):
    """parallelism, capped by VERIF_MAXPAR (shared box) - affects wall time only"""
    return max(1, min(n, MAXPAR)) if MAXPAR > 0 else n

H_ENV = {"ASAN_OPTIONS": common.ASAN_ENV["ASAN_OPTIONS"].replace("detect_leaks=1", "detect_leaks=0"),
         "OMP_WAIT_POLICY": "passive", "OMP_DYNAMIC": "false", "OMP_THREAD_LIMIT": "64"}


# ------------------------------------------------------------------------------------------
# model checking of the specifications themselves (no implementation involved)
# ------------------------------------------------------------------------------------------

def model_checks(chk, tier):
    """(module, cfg, expected violated invariant or None). A result different from the expectation is
    an error of the specification layer -> InfraError, never a VIOLATION."""
    jobs = [("MC_ParRead", "MC_ParRead_nolock", "EveryReadReturnsItsOwnBytes"),
            ("MC_ParRead", "MC_ParRead_seq", None),
            ("MC_ParRead", "MC_ParRead_lock2", None),
            ("MC_ParRead", "MC_ParRead_nolock_struct_q", None),
            ("MC_LazyInit", "MC_LazyInit_crc", None),
            ("MC_LazyInit", "MC_LazyInit_disp2", None),
            ("MC_LazyInit", "MC_LazyInit_cpu_strict", "CpuInfoStable"),     # carquet_init as found: memset race
            ("MC_LazyInit", "MC_LazyInit_cpu_fixed", None),                  # without the memset
            ("MC_LazyInit", "MC_LazyInit_disp2_fixed", None),
            ("MC_LazyInit", "MC_LazyInit_kernel_strict", "KernelUseSeesFinal"),
            ("MC_LazyInit", "MC_LazyInit_early_crc", "UseSeesFinalEquivalent"),
            ("MC_LazyInit", "MC_LazyInit_early_disp", "UseSeesFinalEquivalent")]
    if tier == "thorough":
        jobs += [("MC_ParRead", "MC_ParRead_lock", None), ("MC_ParRead", "MC_ParRead_nolock_struct", None),
                 ("MC_LazyInit", "MC_LazyInit_disp", None)]

    def one(j):
        return j, common.run_tlc(j[0], cfg=j[1], workers=2 if tier == "quick" else 4, timeout=800, want_cases=False, heap="3g")
    out, tl = {}, []
    with ThreadPoolExecutor(max_workers=par(6)) as ex:
        for (mod, cfg, expect), r in ex.map(one, jobs):
            if r.error or r.rc not in (0, 12, 13):
                raise common.InfraError("%s/%s: TLC failed (%s)\n%s" % (mod, cfg, r.error or r.rc, r.out[-2000:]))
            if (r.violated or (None if r.rc == 0 else "temporal")) != expect:
                raise common.InfraError("%s/%s: expected %s, TLC says %s\n%s" % (mod, cfg, expect or "no violation", r.violated or r.rc, r.out[-2500:]))
            tl.append(r)
            out[cfg] = {"distinct": r.distinct, "states": r.states, "result": expect or "holds", "depth": r.depth}
    return out, tl


# ------------------------------------------------------------------------------------------
# fixtures: TLC (MC_ParFix) -> h_file -> parquet files written by carquet's own writer
# ------------------------------------------------------------------------------------------

FIX_CFG = """CONSTANTS
  SchemaIds = %s
  BatchPlanIds = %s
  GroupChoices = %s
  NullModes = %s
INIT Init
NEXT Next
INVARIANTS Emit
CHECK_DEADLOCK FALSE
"""


def tset(xs, q=False):
    return "{%s}" % ", ".join(('"%s"' % x) if q else str(x) for x in xs)


def gen_fixture_histories(chk, sids, pids, groups, modes):
    r = common.run_tlc("MC_ParFix", constants_text=FIX_CFG % (tset(sids), tset(pids), tset(groups), tset(modes, True)),
                       workers=4, timeout=600, heap="3g")
    if r.error or r.rc != 0 or not r.cases:
        raise common.InfraError("MC_ParFix failed rc=%s\n%s" % (r.rc, r.out[-2000:]))
    chk.add_tlc(r)
    return {(c["sid"], c["pid"], c["groups"], c["mode"]): c["ops"] for c in r.cases}


def tok_of(typ, v):
    return bytes(v).hex() if len(v) else "-"


def table_of(ops):
    cols = ops[0]["cols"]
    table = [[] for _ in cols]
    for op in ops[1:]:
        if op["op"] != "WriteBatch":
            continue
        c = op["c"]
        vals = iter(op["vals"])
        if op["withDefs"]:
            for d in op["defs"]:
                table[c].append(tok_of(cols[c]["type"], next(vals)) if d == 1 else "N")
        else:
            for _ in range(op["n"]):
                table[c].append(tok_of(cols[c]["type"], next(vals)))
    return table


class Fixture:
    def __init__(self, fid, key, ops, codec, page, path):
        self.fid, self.key, self.ops, self.codec, self.page, self.path = fid, key, ops, codec, page, path
        self.cols = ops[0]["cols"]
        self.table = table_of(ops)
        self.rgs = None

    def desc(self):
        return {"sid": self.key[0], "pid": self.key[1], "groups": self.key[2], "nulls": self.key[3],
                "codec": self.codec, "page": self.page, "ops": self.ops}


def write_fixtures(chk, hists, plan, fdir):
    """plan: list of (key, codec, page). Returns the fixtures whose write succeeded."""
    binary = common.build_harness("h_file")
    fixtures, lines = [], []
    for i, (key, codec, page) in enumerate(plan):
        if key not in hists:
            raise common.InfraError("fixture key %s not generated by MC_ParFix" % (key,))
        f = Fixture("fx%d" % i, key, hists[key], codec, page, os.path.join(fdir, "fx%d.parquet" % i))
        fixtures.append(f)
        lines.append(wcommon.history_line(f.fid, f.ops, codec, page, f.path, read=False, dump=False))
    res, faults = common.run_harness(binary, lines, env=H_ENV)
    good, bad = [], []
    for f in fixtures:
        toks = res.get(f.fid)
        ok = toks is not None and all(t in ("W=ok", "B=0", "G=0", "C=0") for t in toks) and os.path.exists(f.path)
        (good if ok else bad).append(f)
    if bad:
        chk.part("fixtures_unwritable", ids=[(f.key, f.codec, (res.get(f.fid) or ["crash"])[-3:]) for f in bad])
    return good


# ------------------------------------------------------------------------------------------
# h_par driver and output parsing (pure re-formatting)
# ------------------------------------------------------------------------------------------

def run_lines(binary, lines, nproc, chunk=150):
    chunks = [lines[i:i + chunk] for i in range(0, len(lines), chunk)]
    results, faults = {}, []

    def work(ch):
        return common.run_harness(binary, ch, per_case_timeout=90.0, env=H_ENV)
    with ThreadPoolExecutor(max_workers=par(nproc)) as ex:
        for r, f in ex.map(work, chunks):
            results.update(r)
            faults.extend(f)
    return results, faults


def split_rows(col, nv, bm, hx):
    """one batch column 'nv,bitmap,hex' -> row tokens ("N" = null)"""
    typ, tlen = col["type"], col["tlen"]
    if hx.startswith("!"):
        return [hx]
    raw = b"" if hx == "-" else bytes.fromhex(hx)
    nulls = [False] * nv if bm in ("x", "-") else [ch == "1" for ch in bm]
    out, p = [], 0
    for isnull in nulls:
        if isnull:
            out.append("N")
            continue
        if typ == 6:
            n = int.from_bytes(raw[p:p + 4], "little")
            v = raw[p + 4:p + 4 + n]
            p += 4 + n
        else:
            w = WIDTH.get(typ, tlen)
            v = raw[p:p + w]
            p += w
        out.append(v.hex() if len(v) else "-")
    if p != len(raw):
        out.append("!trailing")
    return out


def parse_run(toks, fx, proj):
    """harness tokens -> (calls compact, calls as row tokens, hook logs, meta, S fields)"""
    calls, rows, hooks, meta, sfield, opened = [], [], [], None, None, False
    pend_hook = None
    for t in toks:
        key, _, val = t.partition("=")
        if key == "O":
            opened = val == "ok"
        elif key == "M":
            f = val.split(":")
            meta = {"rows": int(f[0]), "rgs": [] if f[1] == "-" else [int(x) for x in f[1].split(",")], "ncols": int(f[2])}
        elif key == "H":
            pend_hook = [] if val == "-" else [tuple(int(x) for x in e.split(".")) for e in val.split(",")]
        elif key == "N":
            f = val.split(":")
            st = int(f[0])
            hooks.append(pend_hook or [])
            pend_hook = None
            if st != 0 or len(f) < 3:
                calls.append({"st": st, "rows": -1, "ns": [], "cols": []})
                rows.append([])
                continue
            cc, rr, ns = [], [], []
            for j, ent in enumerate(f[3:]):
                if ent.startswith("err"):
                    cc.append(ent); ns.append(-1); rr.append(["!" + ent])
                    continue
                nv, bm, hx = ent.split(",")
                cc.append(bm + "," + hx); ns.append(int(nv))
                rr.append(split_rows(fx.cols[proj[j]] if j < len(proj) else fx.cols[0], int(nv), bm, hx))
            calls.append({"st": st, "rows": int(f[1]), "ns": ns, "cols": cc})
            rows.append(rr)
        elif key == "S":
            g = [int(x) for x in val.split(":")]
            sfield = {"realised": g[0] == 1, "cursor": g[1], "len": g[2], "timeouts": g[3], "extra": g[4],
                      "waitidx": g[5], "cur_at_to": g[6]}
        elif key == "T" and val.startswith("err"):
            calls.append({"st": -int(val.split(":")[1]) - 1000, "rows": -1, "ns": [], "cols": []})
            rows.append([])
    if not opened:
        calls.append({"st": -999, "rows": -1, "ns": [], "cols": []})
        rows.append([])
    return calls, rows, hooks, meta, sfield


# ------------------------------------------------------------------------------------------
# trace-driven instantiation of ParRead
# ------------------------------------------------------------------------------------------

def loads_of(entries):
    """hook log entries [(col, point, pos)] of ONE column in one call -> list of loads, each a list of
    model steps; a load = dictionary page (points 0..6) or data page (8..14)"""
    loads, cur = [], None
    for (_, point, pos) in entries:
        k = point & 7
        if k == 0:
            cur = {"pts": {}, "dict": point < 8}
            loads.append(cur)
        if cur is not None:
            cur["pts"][k] = pos
    out = []
    for ld in loads:
        p = ld["pts"]
        steps = []
        # a load that stops after the header (a data-page loader that finds an unannounced
        # dictionary page and starts over) has only the first pair
        if 1 in p and 2 in p:
            steps += [{"k": "SH", "a": p[1]}, {"k": "RH", "a": p[2] - p[1]}]
        if 4 in p and 5 in p:
            steps += [{"k": "SB", "a": p[4]}, {"k": "RB", "a": p[5] - p[4]}]
        if not steps:
            raise common.InfraError("dry run: page load without I/O in hook log %s" % (p,))
        steps.append({"k": "DEC", "a": 0})
        if 6 in p:
            steps.append({"k": "PUB", "a": 0})
        out.append((ld["dict"], steps))
    return out


def model_of_run(fx, proj, hooks, calls, rgs):
    """per call: {'pre': [[steps] per task], 'main': ...}; the prefetch loop loads (dictionary +) the
    first data page of a column exactly in the first call of a row group (batch_reader.c:337-345)."""
    starts, acc = set(), 0
    for n in rgs:
        starts.add(acc)
        acc += n
    delivered, out = 0, []
    for ci, log in enumerate(hooks):
        first = delivered in starts and calls[ci]["st"] == 0
        pre, main = [], []
        for col in proj:
            ent = [e for e in log if e[0] == col]
            lds = loads_of(ent)
            p, m = [], []
            if first:
                # everything up to and including the first data page
                idx = next((i for i, (isdict, _) in enumerate(lds) if not isdict), len(lds) - 1)
                for i, (_, st) in enumerate(lds):
                    (p if i <= idx else m).extend(st)
            else:
                for _, st in lds:
                    m.extend(st)
            pre.append(p)
            main.append(m)
        out.append({"pre": pre, "main": main})
        if calls[ci]["st"] == 0:
            delivered += calls[ci]["rows"]
    return out


def nio(steps):
    return sum(1 for s in steps if s["k"] in ("SH", "RH", "SB", "RB"))


def seq_sched(model_call):
    """the sequential order of the I/O steps of one call, as task numbers (1-based)"""
    s = []
    for ph in ("pre", "main"):
        for t, steps in enumerate(model_call[ph]):
            s += [t + 1] * nio(steps)
    return s


def multinomial(ns):
    tot, r = 0, 1
    for n in ns:
        for i in range(1, n + 1):
            tot += 1
            r = r * tot // i
    return r


def interleaves(sched, model_call):
    """non-trivial: some task's I/O steps of one phase are not contiguous in the schedule"""
    npre = sum(nio(s) for s in model_call["pre"])
    for part in (sched[:npre], sched[npre:]):
        seen, last = set(), None
        for t in part:
            if t != last and t in seen:
                return True
            seen.add(t)
            last = t
    return False


def tlc_schedules(chk, case, mode, pair_phase="pre", plans=(), simulate=None, tseed=None, pair_tasks=None):
    d = os.path.join(common.scratch_root(), "c07-cases-%d" % os.getpid())
    os.makedirs(d, exist_ok=True)
    obj = dict(case)
    obj.update({"mode": mode, "pairPhase": pair_phase, "plans": [list(p) for p in plans],
                "pairTasks": list(pair_tasks) if pair_tasks else list(range(1, case["n"] + 1))})
    path = os.path.join(d, "case-%d-%d.json" % (os.getpid(), random.getrandbits(40)))
    with open(path, "w") as fh:
        json.dump(obj, fh)
    try:
        r = common.run_tlc("MC_ParReadGen", cfg="MC_ParReadGen", workers=2, timeout=600, env={"CASE": path}, heap="3g",
                           simulate=simulate, depth=100000 if simulate else None, tseed=tseed)
    finally:
        os.unlink(path)
    if r.violated:
        raise common.InfraError("MC_ParReadGen: executor invariant %s violated\n%s" % (r.violated, r.out[-2500:]))
    if (r.error or r.rc != 0) and not (simulate and r.cases):
        raise common.InfraError("MC_ParReadGen failed rc=%s %s\n%s" % (r.rc, r.error, r.out[-2500:]))
    return r


# ------------------------------------------------------------------------------------------
# the check
# ------------------------------------------------------------------------------------------

def fixture_plan(tier):
    """(key=(sid,pid,groups,nulls), codec, page)"""
    if tier == "quick":
        return [((4, 3, 1, "none"), 1, 64),      # 8 x REQUIRED INT32, SNAPPY (the Appendix B shape)
                ((1, 1, 2, "alt"), 6, 64),       # INT32, INT64?  ZSTD, 2 row groups
                ((3, 2, 1, "runs"), 0, 64),      # 4 columns, UNCOMPRESSED (serial prefetch, parallel main loop)
                ((5, 1, 1, "alt"), 1, 64),       # 8 mixed types REQUIRED/OPTIONAL, SNAPPY
                ((2, 5, 1, "alt"), 6, 64)]       # BYTE_ARRAY?, DOUBLE, BOOLEAN  ZSTD
    P = 64
    return [((4, 3, 1, "none"), 1, P), ((4, 3, 1, "none"), 6, P), ((4, 3, 1, "none"), 0, P), ((4, 3, 1, "none"), 2, P),
            ((4, 3, 1, "none"), 5, P),
            ((5, 1, 1, "alt"), 1, P), ((5, 1, 1, "alt"), 6, P), ((5, 6, 1, "alt"), 0, P),
            ((1, 1, 2, "alt"), 6, P), ((1, 1, 2, "alt"), 1, P), ((1, 2, 2, "runs"), 0, P),
            ((2, 5, 1, "alt"), 6, P), ((2, 2, 2, "runs"), 2, P),
            ((3, 2, 1, "runs"), 0, P), ((3, 2, 1, "runs"), 5, P), ((3, 6, 1, "alt"), 1, P),
            ((6, 1, 1, "alt"), 1, P), ((6, 3, 1, "none"), 6, P),
            ((7, 2, 2, "runs"), 1, P), ((7, 2, 2, "runs"), 0, P),
            ((5, 4, 1, "alt"), 6, 1 << 20)]     # one page per chunk (default-sized pages)


def batch_sizes(fx, tier):
    return [7, 40] if tier == "quick" else [7, 25, 40, 1000]


def run(chk, tier, replay):
    chk.assumptions += [
        "The oracle is the library's own num_threads = 1 behaviour on the same file (checked first against the table written)",
        "Schedules are total orders of the gated hook points (seek/read of page header and body); local steps commute",
        "LazyInit assumes sequentially consistent word-sized stores (no compiler/CPU reordering of the plain flag store)",
        "ThreadSanitizer is not an oracle: C07 is a statement about returned content",
        "TLC; ParRead.tla, ParReadTrace.tla, LazyInit.tla; h_par copies bytes only"]
    if replay:
        return run_replay(chk, replay)
    rng = random.Random(common.seed())
    lap("start")
    bg = ThreadPoolExecutor(max_workers=1)
    mc_future = bg.submit(model_checks, chk, tier)       # the specifications are model-checked while the code runs

    fdir = os.path.join(common.scratch_root(), "c07-files-%d" % os.getpid())
    shutil.rmtree(fdir, ignore_errors=True)
    os.makedirs(fdir)
    try:
        plan = fixture_plan(tier)
        keys = sorted(set(k for k, _, _ in plan))
        hists = gen_fixture_histories(chk, sorted({k[0] for k in keys}), sorted({k[1] for k in keys}),
                                      sorted({k[2] for k in keys}), sorted({k[3] for k in keys}))
        fixtures = write_fixtures(chk, hists, plan, fdir)
        if not fixtures:
            raise common.InfraError("no fixture could be written")
        lap("fixtures")
        execs, meta = explore(chk, tier, fixtures, rng)
        execs2, meta2 = independent_readers(chk, tier, fixtures, rng)
        lap("independent readers")
        team_shortfall(chk, tier, fixtures)
        lap("team shortfall")
        big_batch(chk, tier)
        lap("big batch")
        execs += execs2
        meta.update(meta2)
        mc_out, mc_tl = mc_future.result()     # raises InfraError if a specification-level expectation failed
        for r in mc_tl:
            chk.add_tlc(r)
        chk.part("model_checks", **mc_out)
        lap("model checks (joined)")
        judge(chk, execs, meta)
        lap("trace validation")
    finally:
        shutil.rmtree(fdir, ignore_errors=True)
        shutil.rmtree(os.path.join(common.scratch_root(), "c07-cases-%d" % os.getpid()), ignore_errors=True)


def cfg_line(cid, kind, fx, mode, bs, verify, threads, proj, sched="-", timeout=None):
    pj = ",".join(str(c) for c in proj) if proj is not None else "-"
    if kind == "dry":
        return "%s dry %s %s %d %d %s" % (cid, fx.path, mode, bs, verify, pj)
    return "%s run %s %s %d %d %d %s %s %d" % (cid, fx.path, mode, bs, verify, threads, pj, sched, timeout or TIMEOUT_US)


def explore(chk, tier, fixtures, rng):
    binary = common.build_harness("h_par")
    quick = tier == "quick"
    # ---- 1. reference runs (num_threads = 1): dry run in fread mode, plain run in mmap/buffer mode
    refs, lines = {}, []
    for fx in fixtures:
        ncol = len(fx.cols)
        projs = [None]
        if ncol >= 3:
            projs.append([ncol - 1, 0] if quick else [ncol - 1, 0, 1])
        for bs in batch_sizes(fx, tier):
            for mode in ("f", "m", "b"):
                for verify in ((0,) if quick else (0, 1)):
                    for proj in projs:
                        if proj is not None and (mode != "f" or verify):
                            continue
                        rid = "ref_%s_%s_%d_%d_%s" % (fx.fid, mode, bs, verify, "all" if proj is None else "p")
                        refs[rid] = {"fx": fx, "mode": mode, "bs": bs, "verify": verify, "proj": proj}
                        lines.append(cfg_line(rid, "dry" if mode == "f" else "run", fx, mode, bs, verify, 1, proj))
    res, faults = run_lines(binary, lines, nproc=8)
    fault_ids = {f.case_id: f for f in faults}
    for rid, rf in list(refs.items()):
        fx = rf["fx"]
        proj = rf["proj"] if rf["proj"] is not None else list(range(len(fx.cols)))
        rf["projl"] = proj
        if rid in fault_ids or rid not in res:
            rf["fault"] = fault_ids[rid].signature() if rid in fault_ids else "no-output"
            continue
        calls, rows, hooks, meta, _ = parse_run(res[rid], fx, proj)
        rf.update(calls=calls, rows=rows, hooks=hooks)
        if meta:
            fx.rgs = meta["rgs"]
    for fx in fixtures:
        if fx.rgs is None:
            fx.rgs = [len(fx.table[0])]
    lap("reference runs")

    # ---- 2. runs: thread sweep (unforced) and forced schedules
    runs = {}          # cid -> dict(ref=rid, threads, forced, sched(model, call), bad, lockv, ...)
    lines = []
    reps = 2 if quick else 4
    for rid, rf in refs.items():
        if "calls" not in rf:
            continue
        fx = rf["fx"]
        for threads in (2, 3, 4, 8, 16):
            for rep in range(reps if rf["mode"] == "f" else max(1, reps // 2)):
                cid = "%s_t%d_%d" % (rid.replace("ref_", "sw_"), threads, rep)
                runs[cid] = {"ref": rid, "threads": threads, "forced": False, "rep": rep}
                lines.append(cfg_line(cid, "run", fx, rf["mode"], rf["bs"], rf["verify"], threads, rf["proj"]))
    nsweep = len(lines)

    # forced schedules: TLC jobs per (reference run, target call, team size)
    jobs = []
    budget_per_job = 60 if quick else 500
    for rid, rf in refs.items():
        if rf["mode"] != "f" or "calls" not in rf or rf["verify"]:
            continue
        fx = rf["fx"]
        model = model_of_run(fx, rf["projl"], rf["hooks"], rf["calls"], fx.rgs)
        rf["model"] = model
        ntask = len(rf["projl"])
        seen_shapes = set()
        targets = []
        for ci, mc in enumerate(model):
            active = sum(1 for t in range(ntask) if nio(mc["pre"][t]) + nio(mc["main"][t]) > 0)
            shape = (tuple(nio(s) for s in mc["pre"]), tuple(nio(s) for s in mc["main"]))
            if active >= 2 and shape not in seen_shapes:
                seen_shapes.add(shape)
                targets.append(ci)
        if quick:
            # a budgeted selection: the 8-column SNAPPY file (Appendix B shape) gets the most attention
            first = fx is fixtures[0]
            if rf["proj"] is not None and not first:
                continue
            if ntask >= 8 and not first and rf["bs"] == 7:
                continue
            for ci in targets[:1]:
                jobs.append((rid, ci, min(ntask, 8)))
                if first and ntask >= 8 and rf["bs"] > 7 and rf["proj"] is None:
                    jobs.append((rid, ci, 2))
        else:
            # thorough budget: ~45 TLC jobs (20 k schedules): every fixture at batch_size 40 (prefetch + main
            # loop in the first call), every other one at 7, a later (main-loop only) call and smaller teams
            # for some of them
            fi = fixtures.index(fx)
            if rf["proj"] is not None or rf["bs"] not in (7, 40) or not targets:
                continue
            if rf["bs"] == 7 and fi % 2:
                continue
            jobs.append((rid, targets[0], min(ntask, 8)))
            if rf["bs"] == 40 and ntask > 2 and fi % 2 == 0:
                jobs.append((rid, targets[0], 2 if fi % 4 == 0 else 3))
            if rf["bs"] == 40 and len(targets) > 1 and fi % 3 == 0:
                jobs.append((rid, targets[1], min(ntask, 8)))
    compressed = lambda fx: fx.codec != 0

    def gen(job):
        rid, ci, team = job
        rf = refs[rid]
        mc = rf["model"][ci]
        ntask = len(rf["projl"])
        case = {"n": ntask, "preT": team if compressed(rf["fx"]) else 1, "mainT": team, "lock": False,
                "pre": mc["pre"], "main": mc["main"]}
        pre_counts = [nio(s) for s in mc["pre"]]
        main_counts = [nio(s) for s in mc["main"]]
        est = (multinomial(pre_counts) if case["preT"] > 1 else 1) * multinomial(main_counts)
        if est <= 1:
            return job, est, [], []
        out, tl = [], []
        if est <= 10000:
            r = tlc_schedules(chk, case, "all")          # includes every schedule the lock admits (lockv = 0)
            tl.append(r)
            out += [(c, "all") for c in r.cases]
        else:
            ptasks = None
            if ntask > 4:       # pairs among a seeded sample of the tasks (all pairs when <= 4 tasks)
                ptasks = sorted(random.Random(common.seed() * 31 + ci + team).sample(range(1, ntask + 1), 3 if quick else 5))
            r = tlc_schedules(chk, case, "pair", pair_phase="both", pair_tasks=ptasks)
            tl.append(r)
            out += [(c, "pair") for c in r.cases]
            if not quick or ntask >= 8:
                r = tlc_schedules(chk, case, "all", simulate=40 if quick else 150, tseed=common.seed() + ci)
                tl.append(r)
                out += [(c, "sim") for c in r.cases]
            if not quick:
                # random schedules the lock admits (Lock = TRUE): feasible on any implementation
                lcase = dict(case)
                lcase["lock"] = True
                r = tlc_schedules(chk, lcase, "all", simulate=100, tseed=common.seed() + 7 + ci)
                tl.append(r)
                out += [(c, "lock") for c in r.cases]
        return job, est, out, tl

    gen_stats = {"tlc_jobs": len(jobs), "generated": 0, "by_kind": {}}
    forced_lines = []
    with ThreadPoolExecutor(max_workers=par(6)) as ex:
        results = list(ex.map(gen, jobs))
    lap("TLC schedule generation")
    for (rid, ci, team), est, cases, tl in results:
        for r in tl:
            chk.add_tlc(r)
        if os.environ.get("VERIF_C07_DEBUG"):
            common.log("gen %s call %d team %d est %d: %s" % (rid, ci, team, est, [(len(r.cases), r.distinct, round(r.wall, 1)) for r in tl]))
        rf = refs[rid]
        fx = rf["fx"]
        model = rf["model"]
        seen, uniq = set(), []
        for c, kind in cases:
            k = tuple(c["sched"])
            if k in seen:
                continue
            seen.add(k)
            uniq.append((c, kind))
        gen_stats["generated"] += len(uniq)
        # sample within the tier's budget, keeping every kind represented
        rng.shuffle(uniq)
        by = {}
        for c, kind in uniq:
            by.setdefault(kind + ("+adm" if c["lockv"] == 0 else ""), []).append(c)
        picked = []
        quota = max(10, budget_per_job // max(1, len(by)))
        for kind, cs in sorted(by.items()):
            picked += [(c, kind) for c in cs[:quota]]
            gen_stats["by_kind"][kind] = gen_stats["by_kind"].get(kind, 0) + min(len(cs), quota)
        prefix = []
        for cj in range(ci):
            prefix += seq_sched(model[cj])
        suffix = []
        for cj in range(ci + 1, len(model)):
            suffix += seq_sched(model[cj])
        for n, (c, kind) in enumerate(picked):
            full = prefix + c["sched"] + suffix
            cols = ",".join(str(rf["projl"][t - 1]) for t in full)
            cid = "%s_c%d_T%d_%d" % (rid.replace("ref_", "fo_"), ci, team, n)
            runs[cid] = {"ref": rid, "threads": team, "forced": True, "call": ci, "sched": c["sched"], "kind": kind,
                         "bad": c["bad"], "lockv": c["lockv"], "offset": len(prefix), "cols": cols,
                         "nontrivial": interleaves(c["sched"], model[ci])}
            forced_lines.append(cfg_line(cid, "run", fx, "f", rf["bs"], 0, team, rf["proj"], sched=cols))
    lines += forced_lines
    res, faults = run_lines(binary, lines, nproc=5)
    fault_ids = {f.case_id: f for f in faults}

    # repeat-before-count: a lock-admitted schedule that was not realised is retried with a long wait
    retry = []
    for cid, rn in runs.items():
        if rn["forced"] and cid in res:
            rf = refs[rn["ref"]]
            _, _, _, _, s = parse_run(res[cid], rf["fx"], rf["projl"])
            if s and not s["realised"] and rn["lockv"] == 0:
                retry.append(cfg_line(cid, "run", rf["fx"], "f", rf["bs"], 0, rn["threads"], rf["proj"], sched=rn["cols"], timeout=300000))
    if retry:
        res2, faults2 = run_lines(binary, retry, nproc=3)
        res.update(res2)
        for f in faults2:
            fault_ids[f.case_id] = f

    lap("replay of %d runs" % len(lines))
    # ---- 3. trace events
    execs, meta = [], {}
    stats = {"sweep_runs": 0, "forced_replayed": 0, "forced_realised": 0, "forced_infeasible": 0,
             "lock_admitted": 0, "lock_admitted_realised": 0, "lock_forbidden": 0, "lock_forbidden_realised": 0,
             "lock_forbidden_stopped_at_lockv": 0, "model_bad": 0, "model_bad_prefix_realised": 0, "retried": len(retry)}
    by_ref = {}
    for cid, rn in runs.items():
        by_ref.setdefault(rn["ref"], []).append(cid)
    for rid, rf in refs.items():
        fx = rf["fx"]
        head = [{"id": rid, "e": "Fixture", "table": fx.table}]
        if "calls" not in rf:
            execs.append(head + [{"id": rid, "e": "Fault", "kind": rf.get("fault", "?")}])
            meta[rid] = {"kind": "ref", "fx": fx.desc(), "cfg": {k: rf[k] for k in ("mode", "bs", "verify", "proj")}, "fault": rf.get("fault")}
            continue
        head.append({"id": rid, "e": "Seq", "proj": rf["projl"], "calls": rf["calls"],
                     "toks": [r for r, c in zip(rf["rows"], rf["calls"]) if c["st"] == 0]})
        meta[rid] = {"kind": "ref", "fx": fx.desc(), "cfg": {k: rf[k] for k in ("mode", "bs", "verify", "proj")}}
        evs = []
        for cid in by_ref.get(rid, []):
            rn = runs[cid]
            m = {"kind": "run", "fx": fx.desc(), "cfg": {"mode": rf["mode"], "bs": rf["bs"], "verify": rf["verify"], "proj": rf["proj"],
                                                       "threads": rn["threads"], "forced": rn["forced"]}}
            for k in ("call", "sched", "bad", "lockv", "cols", "kind"):
                if k in rn:
                    m["cfg"][k if k != "kind" else "gen"] = rn[k]
            meta[cid] = m
            if cid in fault_ids or cid not in res:
                sig = fault_ids[cid].signature() if cid in fault_ids else "no-output"
                m["fault"] = sig
                evs.append({"id": cid, "e": "Fault", "kind": sig})
                continue
            calls, _, _, _, s = parse_run(res[cid], fx, rf["projl"])
            ev = {"id": cid, "e": "Run", "threads": rn["threads"], "forced": rn["forced"], "calls": calls,
                  "realised": bool(s and s["realised"]), "bad": rn.get("bad", 0), "lockv": rn.get("lockv", 0)}
            evs.append(ev)
            if rn["forced"]:
                stats["forced_replayed"] += 1
                real = bool(s and s["realised"])
                stats["forced_realised" if real else "forced_infeasible"] += 1
                adm = rn["lockv"] == 0
                stats["lock_admitted" if adm else "lock_forbidden"] += 1
                if real:
                    stats["lock_admitted_realised" if adm else "lock_forbidden_realised"] += 1
                elif not adm and s and s["cur_at_to"] == rn["offset"] + rn["lockv"] - 1:
                    stats["lock_forbidden_stopped_at_lockv"] += 1
                if rn["bad"]:
                    stats["model_bad"] += 1
                    if s and s["cursor"] >= rn["offset"] + rn["bad"]:
                        stats["model_bad_prefix_realised"] += 1      # followed up to and including the foreign read
                m["cfg"]["realised"] = real
                chk.count(("forced", fx.key, fx.codec, rf["bs"], rn["threads"], rn["call"], tuple(rn["sched"])), rn["nontrivial"])
            else:
                stats["sweep_runs"] += 1
                chk.count(("sweep", fx.key, fx.codec, rf["mode"], rf["bs"], rf["verify"], tuple(rf["projl"]), rn["threads"]),
                          rn["threads"] >= 2 and len(rf["projl"]) >= 2)
        # one execution per <= 60 runs, each with its own copy of the reference
        for i in range(0, max(1, len(evs)), 60):
            execs.append(head + evs[i:i + 60])
    gen_stats.update(stats)
    gen_stats["fixtures"] = [(f.key, wcommon.CODECS[f.codec], f.page) for f in fixtures]
    gen_stats["reference_runs"] = len(refs)
    gen_stats["timeout_us"] = TIMEOUT_US
    chk.part("schedules", **gen_stats)
    for cid in [c for c in runs if runs[c]["forced"]][:3]:
        chk.sample({"forced": meta[cid]["cfg"]})
    return execs, meta


# ------------------------------------------------------------------------------------------
# independent readers (fresh processes)
# ------------------------------------------------------------------------------------------

INDEP_CFG = """CONSTANTS
  Ns = %s
  NProgs = %d
INIT Init
NEXT Next
INVARIANTS Emit
CHECK_DEADLOCK FALSE
"""
PROGS = ["I", "K", "D", "OfC", "OfB1", "VfC", "VfB1", "OmC", "VmB2", "ObC", "VbB2"]


def team_shortfall(chk, tier, fixtures):
    """num_threads is a request: the OpenMP runtime may deliver a smaller team (thread limit, nested region, dynamic
    adjustment). The batches must not depend on the delivered team size: runs with num_threads = 4 and 8 under
    OMP_THREAD_LIMIT = 1, 2, 3 are compared with the num_threads = 1 run of the same configuration."""
    binary = common.build_harness("h_par")
    fxs = [f for f in fixtures if len(f.cols) >= 2][:(3 if tier == "quick" else 12)] or fixtures[:1]
    n, bad = 0, 0
    for fx in fxs:
        proj = list(range(len(fx.cols)))
        for mode in ("f", "m"):
            for bs in batch_sizes(fx, tier)[:2]:
                ref, rf = common.run_harness(binary, [cfg_line("r", "run", fx, mode, bs, 0, 1, None)], env=H_ENV, per_case_timeout=90.0)
                if rf or "r" not in ref:
                    continue
                want = parse_run(ref["r"], fx, proj)[:2]
                for limit in (1, 2, 3):
                    for threads in (4, 8):
                        env = dict(H_ENV)
                        env["OMP_THREAD_LIMIT"] = str(limit)
                        res, faults = common.run_harness(binary, [cfg_line("t", "run", fx, mode, bs, 0, threads, None)], env=env, per_case_timeout=90.0)
                        n += 1
                        chk.count(("team", fx.fid, mode, bs, limit, threads), True)
                        got = parse_run(res["t"], fx, proj)[:2] if "t" in res else None
                        if faults or got != want:
                            bad += 1
                            chk.violation("par:team-smaller-than-requested:%s" % ("fault" if faults else "batches-differ"),
                                          "fixture %s mode %s batch_size %d: num_threads=%d under OMP_THREAD_LIMIT=%d %s" % (
                                              fx.desc(), mode, bs, threads, limit,
                                              "faults: " + faults[0].signature() if faults else "returns other batches than num_threads=1"),
                                          {"fixture": fx.desc(), "mode": mode, "bs": bs, "threads": threads, "omp_thread_limit": limit,
                                           "got": str(got)[:600], "want": str(want)[:600]})
    chk.part("team_shortfall", runs=n, differing=bad)


def big_batch(chk, tier):
    """Per-batch buffers of tens of megabytes (a wide FIXED_LEN_BYTE_ARRAY column read in one batch): limits, pools or
    scratch space that depend on the thread count show up only at this scale. The batches (digests) and statuses for
    num_threads 4, 16 and 0 (= all cores) must equal those of num_threads 1."""
    binary = common.build_harness("h_file")
    path = os.path.join(common.scratch_root(), "c07-big-%d.parquet" % os.getpid())
    rows, tlen = (24000, 3000) if tier == "quick" else (40000, 4000)
    try:
        res, faults = common.run_harness(binary, ["g L:%s:%d:%d:0" % (path, tlen, rows)], per_case_timeout=300.0, env=H_ENV)
        if faults or res.get("g") != ["L=0"]:
            raise common.InfraError("could not write the large fixture: %s %s" % (res.get("g"), [f.signature() for f in faults]))
        n = 0
        for mode in ("f", "m"):
            out = {}
            for threads in (1, 4, 16, 0):
                line = "t O:%s:%s:0 T:%d:%d:0:- N N Y Z" % (path, mode, rows, threads)
                r, f = common.run_harness(binary, [line], per_case_timeout=300.0, env=H_ENV)
                out[threads] = ("fault:" + f[0].signature()) if f else [x for x in r.get("t", []) if x.startswith("N=")]
                n += 1
                chk.count(("big", mode, threads, rows, tlen), True)
            for threads in (4, 16, 0):
                if out[threads] != out[1]:
                    chk.violation("par:big-batch:differs-from-single-threaded",
                                  "one batch of %d rows x FIXED_LEN_BYTE_ARRAY(%d) (%d MB), mode %s: num_threads=%d gives %s, num_threads=1 gives %s" % (
                                      rows, tlen, rows * tlen >> 20, mode, threads, str(out[threads])[:200], str(out[1])[:200]),
                                  {"rows": rows, "tlen": tlen, "mode": mode, "threads": threads})
        chk.part("big_batch", runs=n, megabytes_per_batch=rows * tlen >> 20)
    finally:
        try:
            os.unlink(path)
        except OSError:
            pass


def independent_readers(chk, tier, fixtures, rng):
    binary = common.build_harness("h_par")
    quick = tier == "quick"
    ns = [2, 4] if quick else [2, 4, 8]
    progs = PROGS[:7] if quick else PROGS
    r = common.run_tlc("MC_IndepGen", constants_text=INDEP_CFG % (tset(ns), len(progs)), workers=4, timeout=600, heap="3g")
    if r.error or r.rc != 0 or not r.cases:
        raise common.InfraError("MC_IndepGen failed rc=%s\n%s" % (r.rc, r.out[-2000:]))
    chk.add_tlc(r)
    assigns = [c["progs"] for c in r.cases]
    rng.shuffle(assigns)
    want = 110 if quick else 2000
    fxs = [f for f in fixtures if f.codec in (1, 6)][:(2 if quick else 6)] or fixtures[:1]
    trials = []
    # (a) every lazily initialised API raced against itself (all threads make the same first call),
    # repeated; (b) every pair of first calls; (c) random assignments up to the tier's budget
    homog = [a for a in assigns if len(set(a)) == 1 and a[0] in ("I", "K", "D", "VfC", "VfB1", "OfC")]
    for rep in range(4 if quick else 40):
        for a in homog:
            trials.append(a)
    trials += [a for a in assigns if len(a) == 2 and len(set(a)) == 2]
    rest = [a for a in assigns if len(a) > 2 and len(set(a)) > 1]
    trials += rest[:max(0, want - len(trials))]
    trials = [(fxs[i % len(fxs)], a) for i, a in enumerate(trials[:max(want, len(homog))])]
    env = dict(os.environ)
    env.update(common.ASAN_ENV)
    env.update(H_ENV)

    def one(args):
        fx, a = args
        try:
            p = subprocess.run([binary, "indep", fx.path] + list(a), stdout=subprocess.PIPE, stderr=subprocess.PIPE,
                               text=True, env=env, timeout=120)
        except subprocess.TimeoutExpired:
            return None, "hang:indep"
        if p.returncode != 0:
            kind, frame = common.asan_signature(p.stderr)
            return None, "%s:%s" % (kind, frame)
        outs = {}
        for ln in p.stdout.splitlines():
            f = ln.split(" ", 3)
            if len(f) == 4 and f[0] == "T":
                outs[int(f[1])] = (f[2], f[3])
        return outs, None
    solos = [(fx, [p]) for fx in fxs for p in progs]
    with ThreadPoolExecutor(max_workers=par(8)) as ex:
        solo_res = list(ex.map(one, solos))
    with ThreadPoolExecutor(max_workers=par(6)) as ex:
        trial_res = list(ex.map(one, trials))
    execs, meta = [], {}
    per_fx = {}
    for (fx, a), (outs, err) in zip(solos, solo_res):
        if err or not outs:
            raise common.InfraError("solo run of program %s failed: %s" % (a, err))
        per_fx.setdefault(fx.fid, []).append({"id": "solo_%s_%s" % (fx.fid, a[0]), "e": "Solo", "prog": a[0], "out": outs[0][1]})
    n = 0
    for i, ((fx, a), (outs, err)) in enumerate(zip(trials, trial_res)):
        tid = "ind_%s_%d" % (fx.fid, i)
        meta[tid] = {"kind": "indep", "fx": fx.desc(), "cfg": {"progs": a}}
        evs = per_fx.setdefault(fx.fid, [])
        if err or not outs:
            meta[tid]["fault"] = err
            evs.append({"id": tid, "e": "Fault", "kind": err or "no-output"})
            continue
        for j in sorted(outs):
            evs.append({"id": tid, "e": "Conc", "prog": outs[j][0], "out": outs[j][1], "n": len(a), "i": j})
        n += 1
        chk.count(("indep", fx.key, fx.codec, tuple(a)), len(set(a)) >= 1 and len(a) >= 2)
    for fid, evs in per_fx.items():
        execs.append(evs)
    chk.part("independent_readers", trials=len(trials), completed=n, thread_counts=ns, programs=progs,
             assignments_generated=len(assigns), fixtures=[f.fid for f in fxs])
    chk.sample({"independent": trials[0][1] if trials else None})
    return execs, meta


# ------------------------------------------------------------------------------------------
# verdicts
# ------------------------------------------------------------------------------------------

def judge(chk, execs, meta):
    verdicts, stats, ress = common.validate_traces("ParReadTrace", execs, nproc=par(8))
    for r in ress:
        chk.add_tlc(r)
    chk.cov["traces_validated_against_impl"] += stats["execs"]
    drift = {"lock-admitted-not-realised": 0, "lock-forbidden-realised": 0}
    unusable = []
    nviol = 0
    for v in verdicts:
        why = sorted(v["why"])
        m = meta.get(v["id"], {})
        cfg = m.get("cfg", {})
        for w in why:
            if w.startswith("drift:"):
                drift[w[6:]] = drift.get(w[6:], 0) + 1
            elif w.startswith("seq:"):
                unusable.append((v["id"], w, m.get("fx", {}).get("sid"), m.get("fx", {}).get("codec")))
            elif w == "fault":
                chk.violation("fault:%s" % m.get("fault", "?"), "%s: the run crashed / hung: %s (cfg %s)" % (v["id"], m.get("fault"), brief(cfg)), m)
                nviol += 1
            elif w == "differs-from-solo":
                prog = v.get("detail") or "?"
                api = {"I": "cpu-info", "K": "crc32", "D": "dispatch"}.get(prog, "reader-" + prog)
                chk.violation("indep:%s:differs-from-solo" % api,
                              "%s: thread running program %s (%s) returned something different from its solo run when started concurrently "
                              "in a fresh process (programs %s)" % (v["id"], prog, api, cfg.get("progs")), m)
                nviol += 1
            elif w in ("status-differs", "rows-differ", "misaligned-batch", "content-differs"):
                mode = {"f": "fread", "m": "mmap", "b": "buffer"}.get(cfg.get("mode"), "?")
                if cfg.get("forced"):
                    cause = "interleaved-seek-read" if cfg.get("bad") else "schedule-model-ok"
                else:
                    cause = "threads>1"
                sig = "par:%s:%s:%s" % (mode, cause, w)
                chk.violation(sig, "%s: batch reader output differs from the num_threads=1 run at call %s (%s); %s" % (
                    v["id"], v.get("detail"), w, brief(cfg)), m)
                nviol += 1
    chk.part("verdicts", events=stats["events"], executions=stats["execs"], rejected_events=stats["failed"],
             model_drift=drift, unusable_fixtures=unusable[:10], alarms=nviol)
    conf = "ParRead(Lock=TRUE)" if drift.get("lock-forbidden-realised", 0) == 0 else "ParRead(Lock=FALSE)"
    chk.part("conformance", code_behaves_as=conf)
    chk.cov["rule"] = ("evaluation = one complete read of a fixture through the batch reader under a forced schedule / a thread count, or one "
                       "fresh-process trial of N independent readers; distinct = distinct (fixture, codec, batch_size, threads, mode, schedule) "
                       "resp. (fixture, programs); non-trivial = the schedule interleaves the hook points of >= 2 tasks (sweeps: >= 2 threads and >= 2 columns)")


def brief(cfg):
    c = dict(cfg)
    if "cols" in c:
        c.pop("cols")
    return json.dumps(c, sort_keys=True)[:400]


# ------------------------------------------------------------------------------------------
# replay of a stored violation
# ------------------------------------------------------------------------------------------

def run_replay(chk, path):
    with open(path) as fh:
        rep = json.load(fh)
    case = rep["case"]
    fxd = case["fx"]
    fdir = os.path.join(common.scratch_root(), "c07-replay-%d" % os.getpid())
    shutil.rmtree(fdir, ignore_errors=True)
    os.makedirs(fdir)
    try:
        key = (fxd["sid"], fxd["pid"], fxd["groups"], fxd["nulls"])
        fixtures = write_fixtures(chk, {key: fxd["ops"]}, [(key, fxd["codec"], fxd["page"])], fdir)
        if not fixtures:
            raise common.InfraError("replay: fixture could not be written")
        fx = fixtures[0]
        cfg = case["cfg"]
        if case["kind"] == "indep":
            execs, meta = replay_indep(chk, fx, cfg)
        else:
            binary = common.build_harness("h_par")
            proj = cfg.get("proj")
            projl = proj if proj is not None else list(range(len(fx.cols)))
            lines = [cfg_line("ref", "dry" if cfg["mode"] == "f" else "run", fx, cfg["mode"], cfg["bs"], cfg["verify"], 1, proj)]
            for i in range(5):
                lines.append(cfg_line("rp%d" % i, "run", fx, cfg["mode"], cfg["bs"], cfg["verify"], cfg.get("threads", 1), proj,
                                      sched=cfg.get("cols", "-") if cfg.get("forced") else "-"))
            res, faults = common.run_harness(binary, lines, env=H_ENV, per_case_timeout=90)
            fid = {f.case_id: f for f in faults}
            if "ref" not in res:
                raise common.InfraError("replay: reference run failed")
            calls, rows, _, _, _ = parse_run(res["ref"], fx, projl)
            evs = [{"id": "ref", "e": "Fixture", "table": fx.table},
                   {"id": "ref", "e": "Seq", "proj": projl, "calls": calls, "toks": [r for r, c in zip(rows, calls) if c["st"] == 0]}]
            meta = {"ref": {"kind": "ref", "fx": fx.desc(), "cfg": cfg}}
            for i in range(5):
                cid = "rp%d" % i
                meta[cid] = {"kind": "run", "fx": fx.desc(), "cfg": cfg}
                if cid in fid or cid not in res:
                    meta[cid]["fault"] = fid[cid].signature() if cid in fid else "no-output"
                    evs.append({"id": cid, "e": "Fault", "kind": meta[cid]["fault"]})
                    continue
                c2, _, _, _, s = parse_run(res[cid], fx, projl)
                evs.append({"id": cid, "e": "Run", "threads": cfg.get("threads", 1), "forced": bool(cfg.get("forced")), "calls": c2,
                            "realised": bool(s and s["realised"]), "bad": cfg.get("bad", 0), "lockv": cfg.get("lockv", 0)})
                chk.count(("replay", i), True)
            execs = [evs]
        judge(chk, execs, meta)
    finally:
        shutil.rmtree(fdir, ignore_errors=True)


def replay_indep(chk, fx, cfg):
    binary = common.build_harness("h_par")
    env = dict(os.environ)
    env.update(common.ASAN_ENV)
    env.update(H_ENV)

    def one(a):
        p = subprocess.run([binary, "indep", fx.path] + list(a), stdout=subprocess.PIPE, stderr=subprocess.PIPE, text=True, env=env, timeout=120)
        outs = {}
        for ln in p.stdout.splitlines():
            f = ln.split(" ", 3)
            if len(f) == 4 and f[0] == "T":
                outs[int(f[1])] = (f[2], f[3])
        return outs, (None if p.returncode == 0 else "%s:%s" % common.asan_signature(p.stderr))
    evs, meta = [], {}
    for p in sorted(set(cfg["progs"])):
        outs, err = one([p])
        if err or not outs:
            raise common.InfraError("replay: solo run failed: %s" % err)
        evs.append({"id": "solo", "e": "Solo", "prog": p, "out": outs[0][1]})
    for i in range(20):
        tid = "rp%d" % i
        outs, err = one(cfg["progs"])
        meta[tid] = {"kind": "indep", "fx": fx.desc(), "cfg": cfg}
        if err or not outs:
            meta[tid]["fault"] = err
            evs.append({"id": tid, "e": "Fault", "kind": err or "no-output"})
            continue
        for j in sorted(outs):
            evs.append({"id": tid, "e": "Conc", "prog": outs[j][0], "out": outs[j][1], "n": len(cfg["progs"]), "i": j})
        chk.count(("replay-indep", i), True)
    return [evs], meta
