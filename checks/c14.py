"""C14 - page checksums are IEEE CRC-32 and page damage is always detected.

Deciding method: (1) the CRC function: MC_HashCases (Crc32.tla, table-driven bit-exact IEEE CRC on
16-bit halves, composition law checked by TLC on the spec) emits (a, b, crc(a), crc(a||b)) for every
length/split; replayed on carquet_crc32 / carquet_crc32_update at several alignments.
(2) damage: files written by carquet from TLC-generated histories; the TLA+ reference reader gives
the page-body byte ranges (MC_PageMap); every damage of the tier inside a page body is applied and the
damaged file is read through every open path; the recorded outcomes are validated by TLC against
DamageTrace.tla (error at the damaged page, nothing from it delivered, earlier rows intact, no
spurious error on intact chunks / undamaged files).
"""
import json
import os
import random

from vlib import common
from vlib.common import hexs
from checks import wcommon

LEVEL = "fault_enumeration"


def crc_part(chk, tier):
    binary = common.build_harness("h_util")
    maxlen = 40 if tier == "quick" else 70
    pats = "{0, 2, 3}" if tier == "quick" else "{0, 1, 2, 3, 4}"
    # large inputs: implementations pick code paths by length (slicing loops, hardware CRC for big buffers, ...)
    big = "{4096, 65535, 65536, 65537, 70001}" if tier == "quick" else "{4096, 32768, 65535, 65536, 65537, 70001, 131072, 300000, 1048577}"
    cfgt = ('CONSTANTS\n MaxLen = %d\n Patterns = %s\n Kind = "crc"\n BigLens = %s\nINIT Init\nNEXT Next\n'
            'INVARIANT Emit\nCHECK_DEADLOCK FALSE\n' % (maxlen, pats, big))
    r = common.run_tlc("MC_HashCases", constants_text=cfgt, timeout=3000)
    if r.violated:
        chk.violation("crc-spec:composition", "CRC composition law fails on the specification itself", r.out[-1500:])
        return
    common.tlc_ok(r, "MC_HashCases crc")
    chk.add_tlc(r)
    lines, exp = [], {}
    k = 0
    mis_set = (0, 1, 3, 8) if tier == "quick" else tuple(range(16))
    for c in r.cases:
        d = c["a"] + c["b"]
        for mis in mis_set:
            cid = "c%d" % k; k += 1
            lines.append("%s crc %s %d" % (cid, hexs(d), mis))
            exp[cid] = ((hexs(c["cd"]),), c, "crc")
        cid = "c%d" % k; k += 1
        lines.append("%s crcu %s %s %d" % (cid, hexs(c["a"]), hexs(c["b"]), mis_set[k % len(mis_set)]))
        exp[cid] = ((hexs(c["ca"]), hexs(c["cd"])), c, "crcu")
    res, faults, leaky = common.run_harness_parallel(binary, lines, nproc=8)
    for cid, (want, c, kind) in exp.items():
        chk.count(("crc", kind, c["a"], c["b"]), len(c["a"]) + len(c["b"]) > 0)
        got = res.get(cid)
        if got is None:
            continue
        if tuple(got[:len(want)]) != want:
            n = len(c["a"]) + len(c["b"])
            cls = "len>=8" if n >= 8 else "len<8"
            chk.violation("crc:%s:%s" % (kind, cls), "CRC-32 mismatch (%s) a=%s b=%s expected %s got %s" % (kind, c["a"], c["b"], want, got), c)
    for f in faults:
        chk.violation("crc:" + f.signature(), "fault in crc case", getattr(f, "stderr", ""))
    for cid in leaky:
        chk.violation("crc:leak", "leak in crc", exp[cid][1])
    if r.cases:
        chk.sample({"crc_case": r.cases[len(r.cases) // 2]})
    chk.part("crc_function", cases=len(exp), tlc_states=r.distinct)
    chk.cov["traces_validated_against_impl"] += len(res)


def crc_boundary_histories():
    """Boundary values of the checksum FIELD: an uncompressed REQUIRED INT32 page whose last value is solved so that the
    IEEE CRC-32 of the page body is exactly 0x00000000 resp. 0xFFFFFFFF (a reader must not read either as 'no checksum')."""
    import zlib
    tbl = []
    for i in range(256):
        c = i
        for _ in range(8):
            c = (c >> 1) ^ 0xEDB88320 if c & 1 else c >> 1
        tbl.append(c)
    top = {tbl[i] >> 24: i for i in range(256)}
    out = []
    for target in (0x00000000, 0xFFFFFFFF):
        prefix = b"".join((1000 + 37 * i).to_bytes(4, "little") for i in range(7))
        r, w = zlib.crc32(prefix) ^ 0xFFFFFFFF, target ^ 0xFFFFFFFF
        idx, x = [0] * 4, w
        for i in range(3, -1, -1):
            idx[i] = top[x >> 24]
            x = ((x ^ tbl[idx[i]]) << 8) & 0xFFFFFFFF
        last, st = [], r
        for i in range(4):
            last.append(idx[i] ^ (st & 0xFF))
            st = (st >> 8) ^ tbl[idx[i]]
        body = prefix + bytes(last)
        if zlib.crc32(body) != target:
            continue                       # (the solver is checked against zlib; a wrong solution is simply not used)
        vals = [list(body[4 * i:4 * i + 4]) for i in range(8)]
        out.append([{"op": "Create", "cols": [{"name": [99, 48, 48, 48], "type": 1, "rep": 0, "tlen": 0}]},
                    {"op": "WriteBatch", "c": 0, "n": 8, "withDefs": False, "defs": [0] * 8, "vals": vals}, {"op": "Close"}])
    return out


def damage_part(chk, tier):
    rnd = random.Random(common.seed())
    binary = common.build_harness("h_file")
    # fixtures: few histories, several pages per chunk (page_size 64 => one page per batch)
    hs = wcommon.gen_histories(chk, [2, 3], [3, 4], 2, 2, simulate=12 if tier == "quick" else 60, depth=40, workers=4)
    hs = [h for h in hs if wcommon.nontrivial_history(h)][: (5 if tier == "quick" else 40)]
    hs += wcommon.gen_histories(chk, [1], [4], 1, 3, limit=3)
    hs += crc_boundary_histories()
    # every codec carquet can write; GZIP / ZSTD bodies are opaque to the specification: their page map comes from the
    # layout-only reference parse (page headers, sizes, checksums), their content from the read of the undamaged file
    cfgs = [(c, 64) for c in sorted(wcommon.CODECS)]
    execs, meta, files, faults = wcommon.run_histories(chk, hs, cfgs, modes=(), with_file=False, label="d")
    fdir = os.path.join(common.scratch_root(), "dmg-%d" % os.getpid())
    os.makedirs(fdir, exist_ok=True)
    try:
        srcs = {}
        with open(os.path.join(fdir, "files.ndjson"), "w") as fh:
            for cid, fb in files.items():
                if not fb:
                    continue
                p = os.path.join(fdir, cid + ".src")
                open(p, "wb").write(fb)
                srcs[cid] = (p, fb)
                fh.write(json.dumps({"id": cid, "bytes": list(fb), "layout": meta[cid][1] not in wcommon.SPEC_DECODABLE}) + "\n")
        r = common.tlc_ok(common.run_tlc("MC_PageMap", workers=1, env={"TRACE": os.path.join(fdir, "files.ndjson")}), "MC_PageMap")
        chk.add_tlc(r)
        lines, info = [], {}
        k = 0
        modes = ("f", "m", "b")
        for pm in r.cases:
            cid = pm["id"]
            if not pm["ok"] or cid not in srcs:
                raise common.InfraError("reference reader rejects an undamaged carquet file %s (run C05)" % cid)
            src, fb = srcs[cid]
            ops = meta[cid][0]
            chunks = sorted({(p["g"], p["c"]) for p in pm["pages"]})
            damages = [(-1, b"")]
            layout = meta[cid][1] not in wcommon.SPEC_DECODABLE
            for p in pm["pages"]:
                if layout and tier == "quick" and p["k"] > 3:
                    continue
                for off in range(p["len"]):
                    pos = p["first"] + off
                    if tier == "quick":
                        kinds = [bytes([1 << rnd.randrange(8)])]
                        if off % 3 == 0:
                            kinds.append(bytes([0xff]))
                        if off % 5 == 0:
                            kinds.append(bytes(rnd.randrange(1, 256) if i in (0, 3) else rnd.randrange(256) for i in range(4)))
                    else:
                        kinds = [bytes([1 << b]) for b in range(8)] + [bytes([0xff]), bytes([fb[pos] ^ 0x00]) if fb[pos] else bytes([1]),
                                 bytes(rnd.randrange(1, 256) if i in (0, 3) else rnd.randrange(256) for i in range(4))]
                    for m in kinds:
                        # keep the burst inside this page body
                        m = m[: max(1, min(len(m), p["len"] - off))]
                        if any(m):
                            damages.append((pos, m))
            for (pos, mask) in damages:
                for mode in modes:
                    # verify: 1 explicit, 0 explicit (memory safety only), "d" = NULL options / untouched defaults
                    # (documented default: verification on)
                    for verify in ((1, 0, "d") if pos < 0 else (1, 0) if k % 4 == 0 else ("d",) if k % 4 == 2 else (1,)):
                        lid = "x%d" % k; k += 1
                        dst = "@DST@"
                        toks = [lid, "J:%s:%s:%d:%s" % (dst, src, max(pos, 0), hexs(mask) if pos >= 0 else "00"),
                                "O:%s:%s:%s" % (dst, mode, verify)]
                        for (g, c) in chunks:
                            toks += ["K:%d:%d" % (g, c), "D:%d" % (2 if k % 2 else 1000)]
                        toks.append("Z")
                        lines.append(" ".join(toks))
                        info[lid] = (cid, pos, mask, mode, verify, chunks, ops)
        def per_chunk(i, ln):
            return ln.replace("@DST@", os.path.join(fdir, "dst%d.parquet" % i))
        res, hf, leaky = common.run_harness_parallel(binary, lines, line_for_chunk=per_chunk)
        fault_of = {f.case_id: f.signature() for f in hf}
        for lid in leaky:
            fault_of[lid] = "leak"
        # group events per fixture file: File event then all reads
        by_file = {}
        for lid, (cid, pos, mask, mode, verify, chunks, ops) in info.items():
            toks = res.get(lid)
            if cid not in by_file:
                layout = meta[cid][1] not in wcommon.SPEC_DECODABLE
                by_file[cid] = [{"id": cid, "e": "File", "bytes": list(srcs[cid][1]), "layout": layout, "content": []}]
            evs = by_file[cid]
            cols = ops[0]["cols"]
            chk.count(("dmg", cid, pos, mask.hex(), mode, verify), pos >= 0)
            if lid in fault_of and toks is None:
                evs.append({"id": lid, "e": "Read", "g": chunks[0][0], "c": chunks[0][1], "pos": pos, "verify": bool(verify),
                            "delivered": 0, "error": True, "defs": [], "vals": [], "fault": fault_of[lid]})
                continue
            if toks is None:
                continue
            if not any(t == "O=ok" for t in toks):
                # open itself failed: an error was reported before any page was read
                for (g, c) in chunks:
                    evs.append({"id": lid, "e": "Read", "g": g, "c": c, "pos": pos, "verify": bool(verify), "delivered": 0,
                                "error": True, "defs": [], "vals": [], "fault": ""})
                continue
            ds = [t[2:] for t in toks if t.startswith("D=")]
            ks = [t[2:] for t in toks if t.startswith("K=")]
            di = 0
            for j, (g, c) in enumerate(chunks):
                if j >= len(ks) or not ks[j].startswith("ok"):
                    evs.append({"id": lid, "e": "Read", "g": g, "c": c, "pos": pos, "verify": bool(verify), "delivered": 0,
                                "error": True, "defs": [], "vals": [], "fault": ""})
                    continue
                f = ds[di].split(":"); di += 1
                typ, tlen = cols[c]["type"], cols[c]["tlen"]
                ev = {"id": lid, "e": "Read", "g": g, "c": c, "pos": pos, "verify": bool(verify),
                      "delivered": int(f[0]), "error": f[1] == "1",
                      "defs": [] if f[2] == "-" else [ord(ch) - 48 for ch in f[2]],
                      "vals": wcommon.dec_vals(typ, tlen, f[3]), "fault": fault_of.get(lid, "")}
                evs.append(ev)
                if evs[0]["layout"] and pos < 0 and mode == "f" and verify == 1 and not ev["error"] \
                        and not any(x["g"] == g and x["c"] == c for x in evs[0]["content"]):
                    evs[0]["content"].append({"g": g, "c": c, "defs": ev["defs"], "vals": ev["vals"]})
        verdicts, stats, ress = common.validate_traces("DamageTrace", list(by_file.values()))
        for rr in ress:
            chk.add_tlc(rr)
        chk.cov["traces_validated_against_impl"] += stats["events"]
        chk.part("damage", fixtures=len(by_file), damaged_reads=len(info), reads_with_error_reported=stats.get("detected", 0))
        if info:
            lid = sorted(info)[len(info) // 2]
            cid, pos, mask, mode, verify, chunks, ops = info[lid]
            chk.sample({"fixture": cid, "damage_pos": pos, "xor_mask": mask.hex(), "mode": mode, "verify": verify, "history": ops})
        for v in verdicts:
            cid, pos, mask, mode, verify, chunks, ops = info.get(v["id"], (v["id"], None, b"", None, None, None, None))
            for w in sorted(v["why"]):
                chk.violation(w, "fixture %s damage pos=%s mask=%s mode=%s verify=%s: %s" % (cid, pos, mask.hex() if mask else "", mode, verify, sorted(v["why"])),
                              {"fixture": cid, "pos": pos, "mask": mask.hex() if mask else "", "mode": mode, "verify": verify, "history": ops,
                               "file_hex": srcs[cid][1].hex() if cid in srcs else None})
    finally:
        for fn in os.listdir(fdir):
            os.unlink(os.path.join(fdir, fn))
        os.rmdir(fdir)


def run(chk, tier, replay):
    chk.assumptions += ["Damage positions = page-body byte ranges computed by the TLA+ reference reader on the undamaged file",
                        "Fixtures use every codec carquet writes; for GZIP/ZSTD (no TLA+ model of the body) the page map is the layout-only reference parse and the expected content is what the undamaged file reads as",
                        "Crc32.tla validated against the published check value CBF43926 (MC_LibSelf)"]
    r = common.tlc_ok(common.run_tlc("MC_LibSelf", workers=1, want_cases=False), "MC_LibSelf")
    if r.violated:
        raise common.InfraError("library self-check failed")
    chk.add_tlc(r)
    crc_part(chk, tier)
    damage_part(chk, tier)
    chk.cov["rule"] = ("CRC: every length 0..MaxLen x pattern x split point (x alignments); damage: every byte of every page body of every fixture x "
                       "damage kinds of the tier (single bit, 0xff, 32-bit burst) x {fread,mmap,buffer} x verify; distinct = distinct "
                       "(fixture, position, mask, mode, verify) resp. (a, b); non-trivial = a damaged read / non-empty CRC input")
