"""C19 - allocation failure gives a clean error or the correct result, nothing else.

Deciding method
  * AllocFault.tla is the API protocol under one failing allocation request (which statuses a call
    may report, when the fault-free effect is owed, closability, fault = "none"). MC_Alloc model
    checks it on small client programs (every call the fault may hit x every allowed outcome x every
    client policy) and enumerates the allowed outcome shapes.
  * MC_AllocGen steps every scenario of the catalogue through the fault-free behaviour of the
    specification and emits the concrete calls with their fault-free expected result.
  * h_alloc replays each scenario once per allocation request k = 1..K made by libcarquet inside the
    armed window (K measured on the k = 0 run), the k-th request returning NULL (link-time wrap of
    malloc/calloc/realloc/strdup, harness allocations excluded).
  * Every faulty execution is validated by TLC against AllocTrace.tla (AllocFault + Writer.tla +
    the table comparison of WriterTrace); ASan / LeakSanitizer / SIGSEGV are bound to `fault`.
"""
import collections
import json
import os
import re
import subprocess
import tempfile
from concurrent.futures import ThreadPoolExecutor

from vlib import common
from vlib.common import hexs
from checks import wcommon

LEVEL = "fault_enumeration"
NPROC = int(os.environ.get("C19_NPROC", "0")) or common.NCPU      # C19_NPROC=4 on a shared box
WRAP = ("-Wl,--wrap=malloc,--wrap=calloc,--wrap=realloc,--wrap=strdup",)

QUICK = ["s_grow", "w_snappy", "w_groups_c", "w_long", "r_fread", "b_mmap"]
THOROUGH = QUICK + ["s_flat", "s_group", "s_long", "w_plain", "w_gzip", "w_lz4", "w_zstd", "w_file", "w_close", "w_cont",
                    "w_wide", "r_mmap", "r_buffer", "r_zstd", "r_lz4", "r_long", "r_cont", "b_fread", "b_buffer",
                    "b_cont", "b_par", "w_wide160", "r_wide160", "b_wide160", "w_snappy_c", "w_plain_n", "r_fread_n", "r_mmap_n",
                    "b_mmap_n", "b_buffer_n"]
# only fault = none is judged: b_par is multi-threaded (the k-th request is not a fixed one); w_wide160 would
# cost ~800 trace events x ~700 fault points (its allocation sites are judged for content in w_long)
UNJUDGED_DATA = {"b_par", "w_wide160"}

GEN_CFG = """CONSTANT ScnIds = {%s}
INIT Init
NEXT Next
INVARIANTS Inv Emit
CHECK_DEADLOCK FALSE
"""


# ----------------------------------------------------------------------------------------
# specification side: protocol model check, scenario generation
# ----------------------------------------------------------------------------------------

def protocol_model(chk):
    r = common.run_tlc("MC_Alloc", workers=4)
    if r.violated:
        raise common.InfraError("MC_Alloc: invariant %s of AllocFault.tla violated\n%s" % (r.violated, r.out[-2500:]))
    common.tlc_ok(r, "MC_Alloc")
    chk.add_tlc(r)
    shapes = collections.defaultdict(int)
    for c in r.cases:
        shapes[shape_key(c["shape"])] += 1
    if not shapes:
        raise common.InfraError("MC_Alloc printed no behaviours")
    chk.part("protocol_model", terminal_behaviours=len(r.cases), allowed_shapes=len(shapes), states=r.distinct)
    return set(shapes)


def shape_key(s):
    return "hit=%s/%s err=%s%s%s%s" % (s["hitKind"], s["hitRes"], s["errKind"], " late" if s["late"] else "",
                                       " more" if s["moreErr"] else "", " cont" if s["cont"] else "")


def gen_scenarios(chk, ids):
    r = common.run_tlc("MC_AllocGen", constants_text=GEN_CFG % ", ".join('"%s"' % i for i in ids), workers=4)
    if r.violated:
        raise common.InfraError("MC_AllocGen: invariant %s violated\n%s" % (r.violated, r.out[-2500:]))
    common.tlc_ok(r, "MC_AllocGen")
    chk.add_tlc(r)
    out = {c["id"]: c for c in r.cases}
    missing = [i for i in ids if i not in out]
    if missing:
        raise common.InfraError("MC_AllocGen did not emit " + str(missing))
    return out


# ----------------------------------------------------------------------------------------
# scenario -> harness line
# ----------------------------------------------------------------------------------------

def name_tok(n):
    if isinstance(n, dict):
        return "*%dx%d" % (n["rep"], n["n"])
    return hexs(n)


NO_NAME = [255, 253]                   # the library returned NULL where a name is owed


def long_name(b, n):
    """A name of n copies of byte b travels through the trace as a short escape sequence (injective on the
    names the scenarios use), so that 40 KB names do not have to be spelled out in every event."""
    return [255, 254, b] + list(n.to_bytes(4, "big"))


def norm_name(n):
    if isinstance(n, dict):
        return long_name(n["rep"], n["n"])
    return list(n)


def name_of_tok(t):
    if t in ("?",):
        return list(NO_NAME)
    if t.startswith("*"):
        b, n = t[1:].split("x")
        return long_name(int(b), int(n))
    return [] if t == "-" else list(bytes.fromhex(t))


def norm_cols(cols):
    return [dict(c, name=norm_name(c["name"])) for c in cols]


def write_tokens(scn, path):
    ops = scn["ops"]
    s = scn["scenario"]
    toks = []
    cols = ops[0]["cols"]
    for c in cols:
        toks.append("S:%s:%d:%d:%d" % (name_tok(c["name"]), c["type"], c["rep"], c["tlen"]))
    w = ["W:%s:%d:%d:%s" % (path, s["codec"], s["page"], s["wmode"])]
    for op in ops[1:]:
        if op["op"] == "WriteBatch":
            typ = cols[op["c"]]["type"]
            defs = "".join(str(d) for d in op["defs"]) if op["withDefs"] else "-"
            w.append("B:%d:%d:%s:%s" % (op["c"], op["n"], defs, hexs(wcommon.enc_vals(typ, op["vals"]))))
        elif op["op"] == "NewRowGroup":
            w.append("G")
        elif op["op"] == "Close":
            w.append("C")
    return toks, w


def prog_tokens(scn, path):
    out = []
    for p in scn["prog"]:
        o = p["op"]
        if o == "ROpen":
            out.append("O:%s:%s:%d" % (path, p["mode"], p["verify"])); out.append("M")
        elif o == "GetColumn":
            out.append("K:%d:%d" % (p["g"], p["c"]))
        elif o == "Read":
            out.append("R:%d" % p["k"])
        elif o == "SkipRows":
            out.append("P:%d" % p["k"])
        elif o == "FreeColumn":
            out.append("X")
        elif o == "CloseReader":
            out.append("Z")
        elif o == "BatchCreate":
            out.append("T:%d:%d:0:%s" % (p["bs"], p["threads"], ",".join(map(str, p["proj"])) if p["proj"] else "-"))
        elif o == "BatchNext":
            out.append("N")
        elif o == "FreeBatches":
            out.append("U")
        elif o == "FreeBatchReader":
            out.append("Y")
        elif o == "SchemaCreate":
            out.append("Dc")
        elif o == "AddColumn":
            out.append("Dl:%s:%d:%d:%d" % (name_tok(p["name"]), p["type"], p["rep"], p["tlen"]))
        elif o == "AddGroup":
            out.append("Dg:%s:%d" % (name_tok(p["name"]), p["rep"]))
        elif o == "SchemaDump":
            out.append("Dd")
        elif o == "SchemaFree":
            out.append("Df")
        else:
            raise common.InfraError("unknown program op " + o)
    return out


def scenario_line(cid, scn, k, path="@PATH@"):
    s = scn["scenario"]
    kind = s["kind"]
    pol = s["policy"]
    head = [cid, "k:%d" % k, "E:%s" % pol]
    if kind == "schema":
        return " ".join(head + ["!"] + prog_tokens(scn, path) + ["~"])
    st, w = write_tokens(scn, path)
    if kind == "write":
        ops = scn["ops"]
        ngroups = 1 + sum(1 for o in ops if o["op"] == "NewRowGroup")
        ncols = len(ops[0]["cols"])
        rb = ["O:%s:f" % path, "M"]
        for g in range(ngroups):
            for c in range(ncols):
                rb += ["K:%d:%d" % (g, c), "R:%d" % (scn["rows"] + 3)]
        rb.append("Z")
        if s.get("win") == "close":
            return " ".join(head + ["u:" + path] + st + w[:-1] + ["!"] + w[-1:] + ["~", "F:" + path] + rb)
        return " ".join(head + ["u:" + path] + st + ["!"] + w + ["~", "F:" + path] + rb)
    return " ".join(head + ["u:" + path] + st + w + ["!"] + prog_tokens(scn, path) + ["~"])


# ----------------------------------------------------------------------------------------
# running the harness: one allocation failure per case, crash / leak / hang isolation
# ----------------------------------------------------------------------------------------

_re_frame = re.compile(r"#\d+ 0x[0-9a-f]+ in (\S+) (\S+)")
_re_asan = re.compile(r"ERROR: AddressSanitizer: (.+?)(?: on | \(|$)", re.M)
GENERIC = ("buffer.c", "arena.c")
ASAN_KIND = {"SEGV": "crash", "heap-use-after-free": "uaf", "heap-buffer-overflow": "oob", "stack-buffer-overflow": "oob",
             "global-buffer-overflow": "oob", "attempting double-free": "double-free", "stack-overflow": "crash",
             "attempting free": "double-free", "negative-size-param": "oob", "memcpy-param-overlap": "oob"}


def carquet_frames(text):
    out = []
    for fn, loc in _re_frame.findall(text):
        fn = re.sub(r"\.(_omp_fn|constprop|isra|part|cold)(\.\d+)?", "", fn)
        if "/src/" in loc and "/harness/" not in loc and "libsanitizer" not in loc:
            f = loc.rsplit("/", 1)[-1]
            parts = f.split(":")
            out.append((fn, parts[0], parts[1] if len(parts) > 1 else "?"))
    return out


def site_of(frames, skip_generic=True):
    for fn, f, ln in frames:
        if skip_generic and f in GENERIC:
            continue
        return "%s@%s" % (fn, f)
    return ("%s@%s" % (frames[0][0], frames[0][1])) if frames else "?"


class CaseResult:
    def __init__(self):
        self.toks = None          # result tokens (None = process died inside the case)
        self.fault = None         # (fault kind, asan kind, frame, report excerpt)
        self.inject = None        # frames of the failed request
        self.leak_frames = None


def _split_stderr(err):
    segs = {}
    cur = None
    for part in re.split(r"^@@CASE (\S+)\n", err, flags=re.M)[1:]:
        if cur is None:
            cur = part
        else:
            segs[cur] = segs.get(cur, "") + part
            cur = None
    return segs


def _run_chunk(binary, lines, env, per_case_timeout):
    results = {}
    pending = list(lines)
    e = dict(os.environ)
    e.update(common.ASAN_ENV)
    e["OMP_NUM_THREADS"] = "4"
    e.update(env or {})
    guard = 0
    while pending:
        guard += 1
        if guard > 10 * len(lines) + 10:
            raise common.InfraError("h_alloc runner does not make progress")
        errf = tempfile.TemporaryFile(mode="w+")
        p = subprocess.Popen([binary], stdin=subprocess.PIPE, stdout=subprocess.PIPE, stderr=errf, text=True, env=e)
        hung = False
        try:
            out, _ = p.communicate("\n".join(pending) + "\n", timeout=per_case_timeout + 0.25 * len(pending))
        except subprocess.TimeoutExpired:
            p.kill()
            out, _ = p.communicate()
            hung = True
        errf.seek(0)
        err = errf.read()
        errf.close()
        segs = _split_stderr(err)
        current = None
        done = set()
        for ln in out.splitlines():
            if ln.startswith("BEGIN "):
                current = ln[6:].strip()
            elif current is not None and ln.split(" ", 1)[0] == current and re.search(r" A=\d+:\d( LEAK)?$", ln):
                r = results.setdefault(current, CaseResult())
                r.toks = ln.split(" ")[1:]
                done.add(current)
                current = None
        for cid, seg in segs.items():
            r = results.setdefault(cid, CaseResult())
            m = re.search(r"@@INJECT \S+ (\d+)\n(.*?)@@END", seg, re.S)
            if m:
                r.inject = carquet_frames(m.group(2))
            if cid in done and r.toks and r.toks[-1] == "LEAK":
                lm = re.search(r"(?:Direct|Indirect) leak of .*?\n(.*?)(?:\n\n|\Z)", seg, re.S)
                r.leak_frames = carquet_frames(lm.group(1)) if lm else []
                r.leak_text = seg[seg.find("LeakSanitizer"):][:3000] if "LeakSanitizer" in seg else ""
        if current is not None:
            # the process died (or hung) inside `current`
            seg = segs.get(current, "")
            r = results.setdefault(current, CaseResult())
            if hung:
                r.fault = ("hang", "hang", "?", "")
            else:
                rep = re.sub(r"@@INJECT.*?@@END\n", "", seg, flags=re.S)
                m = _re_asan.search(rep)
                akind = m.group(1).strip() if m else ("signal/exit rc=%s" % p.returncode)
                first = rep[rep.find("ERROR: AddressSanitizer"):] if m else rep
                frames = carquet_frames(first.split("\n\n")[0])
                r.fault = (ASAN_KIND.get(akind, "crash"), akind, site_of(frames, skip_generic=False), first[:3500])
            idx = [i for i, ln in enumerate(pending) if ln.split(" ", 1)[0] == current]
            pending = pending[idx[0] + 1:] if idx else []
        else:
            if not done:
                raise common.InfraError("h_alloc produced no result (rc=%s)\n%s" % (p.returncode, err[-2000:]))
            pending = [ln for ln in pending if ln.split(" ", 1)[0] not in done]
    return results


def run_cases(binary, lines, nproc=None, env=None, per_case_timeout=60.0):
    nproc = nproc or NPROC
    lines = list(lines)
    nchunks = max(1, min(nproc * 3, len(lines)))
    chunks = [lines[i::nchunks] for i in range(nchunks)]        # interleaved: neighbours in k land in different processes
    fdir = tempfile.mkdtemp(prefix="c19-files-", dir=common.scratch_root())
    def work(a):
        i, ch = a
        path = os.path.join(fdir, "f%d.parquet" % i)
        return _run_chunk(binary, [ln.replace("@PATH@", path) for ln in ch], env, per_case_timeout)
    results = {}
    try:
        with ThreadPoolExecutor(max_workers=nproc) as ex:
            for r in ex.map(work, list(enumerate(chunks))):
                results.update(r)
    finally:
        for fn in os.listdir(fdir):
            try:
                os.unlink(os.path.join(fdir, fn))
            except OSError:
                pass
        try:
            os.rmdir(fdir)
        except OSError:
            pass
    return results


# ----------------------------------------------------------------------------------------
# harness tokens -> trace events (pure re-formatting)
# ----------------------------------------------------------------------------------------

def _int(s, bad=-999):
    try:
        return int(s)
    except ValueError:
        return bad


def parse_M(val):
    f = val.split(":")
    rows, nrg = int(f[0]), int(f[1])
    rgs = [] if f[3] == "-" else [int(x) for x in f[3].split(",")]
    leaves = []
    for lf in f[6:]:
        p = lf.split(",")
        if len(p) != 6 or not all(re.fullmatch(r"-?\d+", x) for x in p[1:]):
            common.log("C19: odd leaf in metadata dump: %r" % lf[:120])
            leaves.append({"path": [name_of_tok("?")], "type": -1, "rep": -1, "tlen": -1, "maxDef": -1, "maxRep": -1})
            continue
        nm = name_of_tok(p[0])
        leaves.append({"path": [nm], "type": int(p[1]), "rep": int(p[2]), "tlen": int(p[3]), "maxDef": int(p[4]), "maxRep": int(p[5])})
    return rows, nrg, rgs, leaves


def events_of(cid, scn, toks, collapse_fixture=False):
    """Returns (events, meta) where meta has count / fired / leak. collapse_fixture: replace the (fault-free,
    all-OK) write history of a reader scenario by one Fixture event carrying the table promised for it."""
    s = scn["scenario"]
    kind = s["kind"]
    ops = scn["ops"]
    cols = ops[0]["cols"] if ops else []
    prog = scn["prog"]
    ev = []
    meta = {"count": 0, "fired": 0, "leak": False}
    # the commands that produce tokens, in order, with their window flag
    cmds = []
    if kind == "schema":
        cmds = [(p, True) for p in prog]
    else:
        w = [(o, kind == "write" and (s.get("win") != "close" or o["op"] == "Close")) for o in ops]
        if kind == "write":
            ngroups = 1 + sum(1 for o in ops if o["op"] == "NewRowGroup")
            rb = [({"op": "File"}, False), ({"op": "RbOpen"}, False)]
            for g in range(ngroups):
                for c in range(len(cols)):
                    rb += [({"op": "RbColumn", "g": g, "c": c}, False), ({"op": "RbRead"}, False)]
            rb.append(({"op": "RbClose"}, False))
            cmds = w + rb
        else:
            cmds = w + [(p, True) for p in prog]
    # expand: ROpen consumes O and M tokens
    i = 0
    toks = list(toks)
    if toks and toks[-1] == "LEAK":
        meta["leak"] = True
        toks.pop()
    if toks and toks[-1].startswith("A="):
        a = toks.pop()[2:].split(":")
        meta["count"], meta["fired"] = int(a[0]), int(a[1])
    pos = 0
    stale = False
    live = {"col": False, "br": False, "reader": False}
    rb_sel = None
    rb_nonempty = None
    rb_open = None
    coltype = None
    proj = None

    def nxt():
        nonlocal pos, stale
        while pos < len(toks) and toks[pos].startswith("L="):
            stale = True
            pos += 1
        if pos >= len(toks):
            return None, None, False
        key, _, val = toks[pos].partition("=")
        pos += 1
        hit = False
        if pos < len(toks) and toks[pos] == "h=1":
            hit = True
            pos += 1
        return key, val, hit

    for op, armed in cmds:
        o = op["op"]
        key, val, hit = nxt()
        if key is None:
            break
        base = {"id": cid, "armed": armed, "hit": hit}
        if val in ("skip", "nowriter", "noreader", "nocol", "nobr", "noschema"):
            if o in ("ROpen", "RbOpen"):
                nxt()                       # the M token
            continue
        if o == "Create":
            ev.append(dict(base, e="Create", cols=norm_cols(cols), ok=(val == "ok")))
        elif o == "WriteBatch":
            ev.append(dict(base, e="WriteBatch", c=op["c"], n=op["n"], withDefs=op["withDefs"], defs=op["defs"], vals=op["vals"], st=_int(val)))
        elif o == "NewRowGroup":
            ev.append(dict(base, e="NewRowGroup", st=_int(val)))
        elif o == "Close":
            if key == "A":
                ev.append(dict(base, e="Abort"))
            else:
                ev.append(dict(base, e="Close", st=_int(val.split(":")[0])))
        elif o == "File":
            meta["file"] = val
        elif o == "RbOpen":
            rb_open = {"id": cid, "e": "Open", "ok": val == "ok", "rows": -1, "rgs": [], "leaves": [], "mode": "f"}
            k2, v2, _ = nxt()
            if val == "ok" and k2 == "M" and v2 not in ("noreader",):
                rows, nrg, rgs, leaves = parse_M(v2)
                rb_open.update(rows=rows, rgs=rgs, leaves=leaves)
                rb_nonempty = [j for j, n in enumerate(rgs) if n > 0]
            ev.append(rb_open)
        elif o == "RbColumn":
            rb_sel = (op["g"], op["c"], val) if val.startswith("ok") else None
        elif o == "RbRead":
            if rb_sel is None or rb_nonempty is None or rb_sel[0] not in rb_nonempty:
                continue
            _, typ, tlen, _, _ = rb_sel[2].split(":")
            f = val.split(":")
            n = int(f[0])
            defs = [] if f[1] == "-" else [ord(ch) - 48 for ch in f[1]]
            ev.append({"id": cid, "e": "Chunk", "g": rb_nonempty.index(rb_sel[0]), "c": rb_sel[1], "n": n, "defs": defs,
                       "vals": wcommon.dec_vals(int(typ), int(tlen), f[3]), "rem": int(f[4]), "stale": False})
        elif o == "RbClose":
            pass
        elif o == "ROpen":
            e = dict(base, e="ROpen", ok=(val == "ok"), rows=-1, rgs=[], leaves=[], mode=op["mode"])
            k2, v2, h2 = nxt()
            if val == "ok" and k2 == "M":
                rows, nrg, rgs, leaves = parse_M(v2)
                e.update(rows=rows, rgs=rgs, leaves=leaves)
                e["hit"] = hit or h2
                live["reader"] = True
            ev.append(e)
        elif o == "GetColumn":
            f = val.split(":")
            if f[0] == "ok":
                coltype = (int(f[1]), int(f[2]), int(f[3]))
                live["col"] = True
                ev.append(dict(base, e="GetColumn", g=op["g"], c=op["c"], ok=True, type=coltype[0], tlen=coltype[1], maxdef=coltype[2]))
            else:
                ev.append(dict(base, e="GetColumn", g=op["g"], c=op["c"], ok=False, type=-1, tlen=-1, maxdef=-1))
        elif o == "Read":
            f = val.split(":")
            n = int(f[0])
            defs = [] if f[1] == "-" else [ord(ch) - 48 for ch in f[1]]
            ev.append(dict(base, e="Read", k=op["k"], n=n, defs=defs, vals=wcommon.dec_vals(coltype[0], coltype[1], f[3]) if n > 0 else [],
                           rem=int(f[4]), stale=stale))
            stale = False
        elif o == "SkipRows":
            f = val.split(":")
            ev.append(dict(base, e="SkipRows", k=op["k"], n=int(f[0]), rem=int(f[1])))
        elif o == "FreeColumn":
            if live["col"]:
                ev.append(dict(base, e="FreeColumn"))
            live["col"] = False
        elif o == "BatchCreate":
            ok = val == "ok"
            proj = list(op["proj"]) if op["proj"] else list(range(len(cols)))
            live["br"] = ok
            ev.append(dict(base, e="BatchCreate", ok=ok, bs=op["bs"], threads=op["threads"], proj=proj))
        elif o == "BatchNext":
            f = val.split(":")
            e = dict(base, e="BatchNext", st=_int(f[0]), has=len(f) > 1, rows=0, cols=[])
            if len(f) > 1:
                e["rows"] = int(f[1])
                for j, cf in enumerate(f[3:]):
                    if cf.startswith("err"):
                        e["cols"].append({"ok": False, "nv": 0, "bitmap": False, "nulls": [], "vals": []})
                        continue
                    nv, bm, vh = cf.split(",")
                    c = cols[proj[j]] if j < len(proj) and proj[j] < len(cols) else {"type": 1, "tlen": 0}
                    e["cols"].append({"ok": True, "nv": int(nv), "bitmap": bm != "x",
                                      "nulls": [] if bm in ("x", "-") else [ord(ch) - 48 for ch in bm],
                                      "vals": wcommon.dec_vals(c["type"], c["tlen"], vh)})
            ev.append(e)
        elif o == "FreeBatches":
            ev.append(dict(base, e="FreeBatches"))
        elif o == "FreeBatchReader":
            if live["br"]:
                ev.append(dict(base, e="FreeBatchReader"))
            live["br"] = False
        elif o == "CloseReader":
            if live["col"]:
                ev.append(dict(base, e="FreeColumn", hit=False)); live["col"] = False
            if live["br"]:
                ev.append(dict(base, e="FreeBatchReader", hit=False)); live["br"] = False
            if live["reader"]:
                ev.append(dict(base, e="CloseReader"))
            live["reader"] = False
        elif o == "SchemaCreate":
            live["schema"] = val == "ok"
            ev.append(dict(base, e="SchemaCreate", ok=(val == "ok")))
        elif o == "AddColumn":
            ev.append(dict(base, e="AddColumn", name=norm_name(op["name"]), type=op["type"], rep=op["rep"], tlen=op["tlen"], st=_int(val)))
        elif o == "AddGroup":
            ev.append(dict(base, e="AddGroup", name=norm_name(op["name"]), rep=op["rep"], idx=_int(val)))
        elif o == "SchemaDump":
            f = val.split(":")
            ne, nl = int(f[0]), int(f[1])
            elems = []
            for ef in f[2:2 + ne]:
                p = ef.split(",")
                if len(p) < 6:
                    elems.append({"name": name_of_tok("?"), "leaf": False, "type": -1, "rep": -1, "tlen": -1})
                    continue
                elems.append({"name": name_of_tok(p[0]), "leaf": p[1] == "1", "type": int(p[2]), "rep": int(p[3]), "tlen": int(p[4])})
            ev.append(dict(base, e="SchemaDump", ne=ne, nl=nl, elems=elems, leaves=[int(x) for x in f[2 + ne:2 + ne + nl]]))
        elif o == "SchemaFree":
            if live.get("schema"):
                ev.append(dict(base, e="SchemaFree"))
            live["schema"] = False
    ev.append({"id": cid, "e": "End", "leak": meta["leak"]})
    if collapse_fixture and kind in ("read", "batch"):
        nw = len(ops)
        head = ev[:nw]
        if len(head) == nw and all(e["e"] in ("Create", "WriteBatch", "NewRowGroup", "Close") and status_of(e) == "ok" and not e["armed"] for e in head):
            ev = [{"id": cid, "e": "Fixture", "cols": norm_cols(cols), "table": scn["table"]}] + ev[nw:]
    return ev, meta


STEP_KIND = {"Create": "make", "WriteBatch": "use", "NewRowGroup": "use", "Close": "rel", "Abort": "rel", "ROpen": "make",
             "GetColumn": "make", "Read": "use", "SkipRows": "use", "FreeColumn": "rel", "BatchCreate": "make",
             "BatchNext": "use", "FreeBatches": "rel", "FreeBatchReader": "rel", "CloseReader": "rel", "SchemaCreate": "make",
             "AddColumn": "use", "AddGroup": "use", "SchemaDump": "use", "SchemaFree": "rel"}


def status_of(e):
    n = e["e"]
    if n in ("Create", "ROpen", "GetColumn", "BatchCreate", "SchemaCreate"):
        return "ok" if e["ok"] else "err"
    if n in ("WriteBatch", "NewRowGroup", "Close", "AddColumn"):
        return "ok" if e["st"] == 0 else "err"
    if n in ("Read", "SkipRows"):
        return "ok" if e["n"] >= 0 else "err"
    if n == "BatchNext":
        return "ok" if e["st"] in (0, 63) else "err"
    if n == "AddGroup":
        return "ok" if e["idx"] >= 0 else "err"
    return "ok"


def shape_of(events):
    """The outcome shape of an observed execution (same abstraction as MC_Alloc!Shape; evidence only)."""
    calls = [(STEP_KIND[e["e"]], status_of(e), e.get("hit", False)) for e in events if e["e"] in STEP_KIND and e.get("armed")]
    h = next((i for i, c in enumerate(calls) if c[2]), None)
    errs = [i for i, c in enumerate(calls) if c[1] == "err"]
    e0 = errs[0] if errs else None
    return shape_key({"hitKind": "none" if h is None else calls[h][0], "hitRes": "-" if h is None else calls[h][1],
                      "errKind": "none" if e0 is None else calls[e0][0],
                      "late": h is not None and e0 is not None and e0 > h, "moreErr": len(errs) > 1,
                      "cont": e0 is not None and any(c[0] != "rel" for c in calls[e0 + 1:])})


# ----------------------------------------------------------------------------------------
# the check
# ----------------------------------------------------------------------------------------

def validate(execs, nproc=None):
    """AllocTrace validation. Returns (verdicts, summed stats, tlc results)."""
    verdicts, _, ress = common.validate_traces("AllocTrace", execs, nproc=min(nproc or NPROC, NPROC), timeout=700)
    stats = collections.Counter()
    for r in ress:
        for k, v in r.cases[-1]["stats"].items():
            stats[k] += v
    return verdicts, stats, ress


FILE_LIMIT = 6000      # bytes; larger files are judged by the read-back only


def with_file_event(ev, scn, meta, baseline_hex):
    """UNCOMPRESSED files are additionally parsed by the TLA+ reference reader (WriterTrace's File judgement)
    unless they are byte-identical to the fault-free file of the scenario, which was parsed once."""
    s = scn["scenario"]
    fh = meta.get("file")
    if s["kind"] != "write" or s["codec"] not in wcommon.SPEC_DECODABLE or fh in (None, "absent", "readerr", "-"):
        return ev
    if fh == baseline_hex or len(fh) // 2 > FILE_LIMIT:
        return ev
    pos = next((j for j, e in enumerate(ev) if e["e"] == "Open"), len(ev) - 1)
    return ev[:pos] + [{"id": ev[0]["id"], "e": "File", "bytes": list(bytes.fromhex(fh))}] + ev[pos:]


DATA_CLASS = {"write": "ok-but-file-differs", "read": "ok-but-values-differ", "batch": "ok-but-values-differ", "schema": "ok-but-schema-differs"}


def signature(kind, res, why):
    """alloc:<scenario kind>:<function@file>[:<what>] - one name per distinct defect site."""
    inj = site_of(res.inject) if res is not None and res.inject else "?"
    if why.startswith("fault:"):
        if res is not None and res.fault:
            return "alloc:%s:%s" % (kind, res.fault[2])
        if res is not None and res.leak_frames is not None:
            return "alloc:%s:leak:%s" % (kind, site_of(res.leak_frames))
        return "alloc:%s:%s" % (kind, why)
    if why == "error-without-fault":
        return "alloc:%s:error-without-fault" % kind
    if why.startswith("harness:"):
        return "alloc:%s:%s" % (kind, why)
    return "alloc:%s:%s:%s" % (kind, inj, DATA_CLASS[kind])


def run(chk, tier, replay):
    chk.assumptions += [
        "One failing request per execution; requests counted are the direct malloc/calloc/realloc/strdup calls of libcarquet.a objects "
        "inside the armed window (harness, libc FILE buffers, zlib/zstd/libgomp internals are neither counted nor failed)",
        "A call may report the failure late (an error from a later call of the window is accepted once the failure was delivered); "
        "after a handle reported an error its later results are not judged (memory safety only); success on a handle that never "
        "reported an error owes the fault-free effect computed by Writer.tla from the recorded arguments",
        "Files are judged by reading them back through carquet's fread reader without faults (table comparison of WriterTrace.tla)",
        "Batch scenarios run with num_threads=1 so that the k-th request is a fixed one; the multi-threaded variant judges fault = none only",
        "TLC; AllocFault.tla / AllocTrace.tla / Writer.tla; ASan, LeakSanitizer and SIGSEGV are observers of `fault`"]
    allowed = protocol_model(chk)
    ids = QUICK if tier == "quick" else THOROUGH
    if os.environ.get("C19_ONLY"):                      # development aid: restrict the catalogue
        ids = os.environ["C19_ONLY"].split(",")
    only = None
    if replay:
        with open(replay) as fh:
            rp = json.load(fh)["case"]
        ids = [rp["scenario"]]
        only = rp.get("k")
    scns = gen_scenarios(chk, ids)
    binary = common.build_harness("h_alloc", extra=WRAP)

    # 1. fault-free runs: K per scenario, and the baseline must itself be a behaviour of the specification
    base = run_cases(binary, [scenario_line("%s.0" % i, scns[i], 0) for i in ids], env={"VH_INJECT_STACK": "0"})
    execs, K, excluded, base_file = [], {}, {}, {}
    files_differ = collections.Counter()
    for i in ids:
        r = base.get("%s.0" % i)
        if r is None or r.toks is None:
            excluded[i] = "fault-free run died: %s" % (r.fault[:3] if r and r.fault else "?",)
            continue
        ev, meta = events_of("%s.0" % i, scns[i], r.toks)
        K[i] = meta["count"]
        base_file[i] = meta.get("file")
        ev = with_file_event(ev, scns[i], meta, None)
        if i not in UNJUDGED_DATA:
            execs.append(ev)
    verdicts, stats0, ress = validate(execs, nproc=4)
    for r in ress:
        chk.add_tlc(r)
    for v in verdicts:
        excluded[v["id"].rsplit(".", 1)[0]] = "fault-free run is not a behaviour of the specification: %s at %s" % (sorted(v["why"]), v["e"])
    if excluded:
        common.log("C19: scenarios excluded (baseline): %s" % excluded)
    if len(excluded) == len(ids):
        raise common.InfraError("every fault-free run failed: %s" % excluded)
    chk.part("baseline", K={i: K.get(i) for i in ids}, excluded=excluded)

    # 2. every k
    lines, meta_of = [], {}
    for i in ids:
        if i in excluded:
            continue
        for k in range(1, K[i] + 1):
            if only is not None and k != only:
                continue
            cid = "%s.%d" % (i, k)
            meta_of[cid] = (i, k)
            lines.append(scenario_line(cid, scns[i], k))
    common.log("C19: %d scenarios, %d fault points" % (len(ids) - len(excluded), len(lines)))
    results = run_cases(binary, lines)

    # 3. events, trace validation
    def build_execs(results, cids):
        execs = []
        for cid in cids:
            i, k = meta_of[cid]
            r = results.get(cid)
            if r is None:
                continue
            if r.toks is None:
                execs.append([{"id": cid, "e": "Fault", "kind": r.fault[0] if r.fault else "crash"}])
                continue
            ev, meta = events_of(cid, scns[i], r.toks, collapse_fixture=True)
            r.meta = meta
            r.shape = shape_of(ev)
            n0 = len(ev)
            ev = with_file_event(ev, scns[i], meta, base_file.get(i))
            all_ok = all(status_of(e) == "ok" for e in ev if e["e"] in STEP_KIND)
            if all_ok and meta.get("file") not in (None, "absent", "readerr") and meta.get("file") != base_file.get(i):
                files_differ[i] += 1
            if i in UNJUDGED_DATA:
                ev = [e for e in ev if e["e"] in ("End", "Fault")]
            execs.append(ev)
        return execs
    execs = build_execs(results, list(meta_of))
    verdicts, stats, ress = validate(execs)
    for r in ress:
        chk.add_tlc(r)
    chk.cov["traces_validated_against_impl"] += stats["execs"] + stats0["execs"]

    # 4. coverage
    sites, shapes_seen, per_scn = set(), collections.Counter(), {}
    for cid, (i, k) in meta_of.items():
        r = results.get(cid)
        if r is None:
            continue
        fired = bool(r.inject) or (r.toks is not None and getattr(r, "meta", {}).get("fired"))
        chk.count((i, k), bool(fired))
        d = per_scn.setdefault(i, {"K": K[i], "fired": 0, "crashed": 0, "leaked": 0})
        d["fired"] += 1 if fired else 0
        d["crashed"] += 1 if r.fault else 0
        d["leaked"] += 1 if r.leak_frames is not None else 0
        if r.inject:
            sites.add("%s:%s" % (site_of(r.inject, skip_generic=False), r.inject[0][2]))
        if r.toks is not None and i not in UNJUDGED_DATA:
            shapes_seen[r.shape] += 1
    outside = sorted(s for s in shapes_seen if s not in allowed)
    chk.part("files", all_calls_ok_but_bytes_differ_from_fault_free_file=dict(files_differ))
    by_file = collections.Counter(x.split("@")[1].split(":")[0] for x in sites)
    chk.part("fault_points", scenarios=per_scn, total=len(meta_of), distinct_allocation_sites=len(sites),
             sites_by_file=dict(by_file), sites=sorted(sites))
    chk.part("outcomes", shapes_seen=dict(shapes_seen), allowed_shapes=len(allowed),
             allowed_shapes_seen=len([s for s in shapes_seen if s in allowed]), shapes_outside_small_model=outside,
             trace_stats=dict(stats))
    for i in ids[:3]:
        if i in scns:
            chk.sample({"scenario": i, "kind": scns[i]["scenario"]["kind"], "K": K.get(i), "line": scenario_line(i + ".k", scns[i], 1)[:600]})

    # 5. verdicts -> violations (each signature is re-executed once before it is reported)
    found = collections.OrderedDict()
    for v in verdicts:
        cid = v["id"]
        i, k = meta_of[cid]
        r = results.get(cid)
        kind = scns[i]["scenario"]["kind"]
        for w in sorted(v["why"]):
            sig = signature(kind, r, w)
            found.setdefault(sig, []).append((cid, w, v))
    confirm_lines, want = [], {}
    for sig, occ in found.items():
        for cid, w, v in occ[:2]:
            i, k = meta_of[cid]
            rc = cid + "r"
            meta_of[rc] = (i, k)
            want.setdefault(sig, []).append(rc)
            confirm_lines.append(scenario_line(rc, scns[i], k))
    confirmed = set()
    if confirm_lines:
        res2 = run_cases(binary, confirm_lines)
        v2, _, ress2 = validate(build_execs(res2, [ln.split(" ", 1)[0] for ln in confirm_lines]), nproc=4)
        again = set()
        for v in v2:
            i, k = meta_of[v["id"]]
            for w in v["why"]:
                again.add((v["id"], signature(scns[i]["scenario"]["kind"], res2.get(v["id"]), w)))
        for sig, rcs in want.items():
            if any((rc, sig) in again for rc in rcs):
                confirmed.add(sig)
    chk.part("alarms", signatures={s: len(set(c for c, _, _ in o)) for s, o in found.items()}, confirmed_on_rerun=len(confirmed))
    for sig, occ in found.items():
        if sig not in confirmed:
            common.log("C19: %s not reproduced on re-execution (%d occurrences) - not reported" % (sig, len(occ)))
            chk.part("unrepeatable", **{sig: len(occ)})
            continue
        cid, w, v = occ[0]
        i, k = meta_of[cid]
        r = results.get(cid)
        ks = sorted(set(meta_of[c][1] for c, _, _ in occ))
        inj = ["%s@%s:%s" % f for f in (r.inject or [])[:4]] if r else []
        what = "scenario %s, allocation request k=%d fails (%d fault points of this signature: %s): %s at event %s; failed request at %s" % (
            i, k, len(ks), ks[:12], w, v["e"], " <- ".join(inj) or "?")
        if r is not None and r.fault:
            what += "; %s: %s" % (r.fault[1], r.fault[2])
        for _cid, _w, _v in occ:
            chk.violation(sig, what, {"scenario": i, "k": k, "why": w, "event": v["e"], "line": scenario_line(cid, scns[i], k, "/tmp/c19-replay.parquet")[:4000],
                                      "injected_at": inj, "report": (r.fault[3] if r is not None and r.fault else getattr(r, "leak_text", ""))[:2500]})
    chk.cov["rule"] = ("one case per (scenario, k): scenario from MC_AllocGen (schema build; write of a multi-type nullable table per codec; "
                       "open + column reads; batch reads per I/O mode; client policies abort/close/continue), k = index of the failing "
                       "allocation request, 1..K with K measured on the fault-free run; non-trivial = the k-th request was actually made "
                       "(the failure was delivered); distinct = distinct (scenario, k)")
