"""C18 - truncated files are rejected and failed writes are never reported OK.

Deciding method (fault enumeration driven by TLA+ specifications):
  * design level: TLC model-checks WriterSink.tla (Writer.tla x Sink.tla) over every history, buffer
    capacity and failure point within small bounds; the variant that checks every stream result
    satisfies the three statements of the property, the variants "close ignores fflush/fclose",
    "no error latch", "abort forgets remove", "fwrite result ignored" violate them (this also shows
    that the invariants bind).
  * implementation level: TLC-generated write histories (MC_WriterGen over Writer.tla) are replayed by
    harness/h_sink.c on carquet with a failure point armed in the output sink at every stream
    operation and at every k-th byte offset (fopencookie stream for carquet_writer_create_file with
    unbuffered / small / default stdio buffers; RLIMIT_FSIZE, /dev/full, a full tmpfs and a failing
    fclose for the path writer), with abort at every point of the history, and every proper prefix
    of every produced file is opened through fread / mmap / buffer.  The recorded executions are
    validated by TLC against SinkTrace.tla, which applies the same predicates as the model
    (WSAckComplete, WSFailReported, WSAbortClean) and decides "the prefix is a complete file" with
    the TLA+ reference reader ParquetFile.ParseFile.
"""
import json
import os
import subprocess

from vlib import common
from vlib.common import hexs
from checks import wcommon

LEVEL = "fault_enumeration"
WRAP = ("-Wl,--wrap=fopen,--wrap=fwrite,--wrap=fflush,--wrap=fclose",)
UNKNOWN_CAP = 1000000
# (fault/abort runs, prefix cuts) planned per tier
BUDGET = {"quick": (16000, 30000), "thorough": (180000, 150000), "replay": (10 ** 9, 10 ** 9)}


def nproc():
    """parallelism of harness processes and TLC trace validators (VERIF_NPROC caps it on a shared box)"""
    try:
        return max(1, int(os.environ.get("VERIF_NPROC", common.NCPU)))
    except ValueError:
        return common.NCPU


def tick(t0, what):
    import time
    common.log("C18 %-28s %.1fs" % (what, time.time() - t0))
    return time.time()

# design variants: cfg -> invariant expected to be violated (None = must hold)
MODELS = [("MC_Sink_fixed", None), ("MC_Sink_stop", None), ("MC_Sink_asis", "InvAck"), ("MC_Sink_nolatch", "InvAck"),
          ("MC_Sink_noremove", "InvAbort"), ("MC_Sink_nowrite", "InvAck")]


# --------------------------------------------------------------------------------------
# harness lines
# --------------------------------------------------------------------------------------

def schema_tokens(ops):
    return ["S:%s:%d:%d:%d" % (hexs(c["name"]), c["type"], c["rep"], c["tlen"]) for c in ops[0]["cols"]]


def call_tokens(ops, upto=None, end="C"):
    """tokens for the calls ops[1:upto]; `end` replaces / follows them (C close, A abort)"""
    cols = ops[0]["cols"]
    toks = []
    calls = ops[1:] if upto is None else ops[1:1 + upto]
    for op in calls:
        if op["op"] == "WriteBatch":
            typ = cols[op["c"]]["type"]
            defs = "".join(str(d) for d in op["defs"]) if op["withDefs"] else "-"
            toks.append("B:%d:%d:%s:%s" % (op["c"], op["n"], defs, hexs(wcommon.enc_vals(typ, op["vals"]))))
        elif op["op"] == "NewRowGroup":
            toks.append("G")
        elif op["op"] == "Close":
            if end == "C":
                toks.append("C")
    if end == "A":
        toks.append("A")
    return toks


class RunCfg:
    """one run of a history: sink kind + buffer + failure point + how it ends"""

    def __init__(self, kind, buf="d", arm="n", sticky=0, upto=None, end="C", path=None, model_arm=None):
        self.kind, self.buf, self.arm, self.sticky, self.upto, self.end, self.path = kind, buf, arm, sticky, upto, end, path
        self.model_arm = model_arm          # what the device does, in Sink.tla terms, if the harness arm does not say it

    def label(self):
        return "%s/%s/%s/%d/%s%s" % (self.kind, self.path or self.buf, self.arm, self.sticky, self.end,
                                    "" if self.upto is None else "@%d" % self.upto)

    def wtoken(self, codec, page):
        if self.kind == "c":
            return "W:c:%d:%d:%s:%s:%d" % (codec, page, self.buf, self.arm, self.sticky)
        return "W:p:%d:%d:%s:%s:%d" % (codec, page, self.path or "@PATH@", self.arm, self.sticky)

    def cap(self):
        if self.kind == "c" and self.buf == "u":
            return 0
        if self.kind == "c" and self.buf.startswith("s"):
            return int(self.buf[1:])
        return UNKNOWN_CAP

    def arm_record(self):
        if self.model_arm:
            return self.model_arm
        k = self.arm[0]
        if k == "b":
            return {"kind": "byte", "at": int(self.arm[1:]), "sticky": bool(self.sticky)}
        if k == "o":
            return {"kind": "op", "at": int(self.arm[1:]), "sticky": bool(self.sticky)}
        if k == "c":
            return {"kind": "close", "at": 0, "sticky": False}
        return {"kind": "none", "at": 0, "sticky": False}


def run_line(rid, ops, codec, page, rc):
    return " ".join([rid] + schema_tokens(ops) + [rc.wtoken(codec, page)] + call_tokens(ops, rc.upto, rc.end))


# --------------------------------------------------------------------------------------
# harness output -> trace events (pure re-formatting)
# --------------------------------------------------------------------------------------

def parse_ops(s):
    if s == "-" or not s:
        return []
    out = []
    for e in s.split(","):
        f = e[1:].split("/")
        out.append({"op": e[0], "n": int(f[0]), "ok": f[1] == "1", "acc": int(f[2]), "df": f[3] == "1"})
    return out


def events_of_run(gid, rid, ops, toks, rc, ref_bytes=None):
    """harness tokens of one run -> events.  ref_bytes = None: run 1 of a group (full arguments); otherwise the
    compact form: call events carry k (ordinal of the call in the history, arguments are those of run 1) and an
    OK close whose bytes equal ref_bytes carries sameAsRef instead of the bytes (lossless de-duplication)"""
    cols = ops[0]["cols"]
    compact = ref_bytes is not None
    ev, opi = [], 1
    base = {"id": gid, "run": rid + " " + rc.label()}
    nops, closed_bytes = 0, None
    for t in toks:
        key, _, val = t.partition("=")
        f = val.split(":")
        if key == "W":
            ev.append(dict(base, e="Create", cols=cols, ok=val == "ok", kind=rc.kind, cap=rc.cap(), arm=rc.arm_record()))
        elif key in ("B", "G") and f[0].lstrip("-").isdigit():
            op = ops[opi]; opi += 1
            o = parse_ops(f[3]); nops += len(o)
            e = dict(base, st=int(f[0]), sf=f[1] == "1", acc=int(f[2]), ops=o)
            if key == "B":
                e.update(e="WriteBatch")
                if not compact:
                    e.update(c=op["c"], n=op["n"], withDefs=op["withDefs"], defs=op["defs"], vals=op["vals"])
            else:
                e.update(e="NewRowGroup")
            if compact:
                e["k"] = opi - 1
            ev.append(e)
        elif key == "C" and f[0].lstrip("-").isdigit():
            o = parse_ops(f[3]); nops += len(o)
            b = bytes.fromhex(f[4]) if f[4] != "-" else b""
            if int(f[0]) == 0:
                closed_bytes = b
            e = dict(base, e="Close", st=int(f[0]), sf=f[1] == "1", acc=int(f[2]), ops=o, fds=int(f[5]))
            if compact and int(f[0]) == 0 and len(b) > 0 and b == ref_bytes:
                e["sameAsRef"] = True
            else:
                e["bytes"] = list(b)
            ev.append(e)
        elif key == "A" and f[0] == "ok":
            o = parse_ops(f[4]); nops += len(o)
            ev.append(dict(base, e="Abort", exists=int(f[1]), fds=int(f[2]), acc=int(f[3]), ops=o))
        elif key == "LEAK" or t == "LEAK":
            pass
        else:
            ev.append(dict(base, e="Fault", kind="harness:" + t[:40]))
    return ev, nops, closed_bytes


PFX_MODES = {"f": "fread", "m": "mmap", "b": "buffer"}


def prefix_events(gid, toks_list, flen):
    """X= tokens (possibly several ranges) -> one Prefixes event per open path"""
    per = {m: {} for m in PFX_MODES}
    for tok in toks_list:
        val = tok.partition("=")[2]
        if val == "-":
            continue
        for item in val.split(";"):
            m, cut, verdict = item.split(":", 2)
            per[m][int(cut)] = verdict
    evs, hist = [], {}
    for m, name in PFX_MODES.items():
        cuts = sorted(per[m])
        v, opened, faults = [], [], []
        for c in cuts:
            r = per[m][c]
            leak = r.endswith("+l")
            if leak:
                r = r[:-2]
            if r.startswith("e"):
                bad_msg = r.endswith("!")
                code = int(r[1:].rstrip("!"))
                v.append(0 if code == 0 else 9003 if bad_msg else code)
                hist[code] = hist.get(code, 0) + 1
            elif r.startswith("o"):
                rows, nrg, ncol = r[1:].split("/")
                v.append(9001)
                opened.append({"cut": c, "rows": int(rows), "nrg": int(nrg), "ncol": int(ncol)})
            else:
                v.append(9002)
                faults.append({"cut": c, "kind": r[1:]})
            if leak and v[-1] != 9002:
                if v[-1] == 9001:
                    opened.pop()
                v[-1] = 9004
                faults.append({"cut": c, "kind": "leak"})
        evs.append({"id": gid, "run": "prefixes/" + name, "e": "Prefixes", "mode": name, "lo": cuts[0] if cuts else 0,
                    "v": v, "opened": opened, "faults": faults})
    return evs, hist


# --------------------------------------------------------------------------------------
# the plan
# --------------------------------------------------------------------------------------

def histories(chk, tier):
    """TLC-generated write histories: a stride through the exhaustive set of the one-column schema
    (all null patterns x batch splits x row-group cuts) plus random walks over the schema catalogue"""
    def stride(xs, n):
        xs = sorted(xs, key=lambda h: json.dumps(h, sort_keys=True))
        return xs[::max(1, len(xs) // n)][:n]
    hs = []
    if tier == "quick":
        hs += stride(wcommon.gen_histories(chk, [1], [2, 3], 2, 2, workers=4), 8)
        hs += stride(wcommon.gen_histories(chk, [2, 3, 4, 5, 6, 7, 8], [0, 2, 9], 3, 2, nullmode="runs", simulate=8, depth=40, workers=4), 10)
    else:
        hs += stride(wcommon.gen_histories(chk, [1], [1, 2, 3], 2, 2, workers=6), 30)
        hs += stride(wcommon.gen_histories(chk, [2, 3], [0, 2, 3], 2, 2, workers=6, limit=20000), 30)
        # columns in any order only for the small schemas (the interleavings are enumerated, not sampled)
        hs += stride(wcommon.gen_histories(chk, [2, 3], [0, 1, 2, 9], 2, 3, nullmode="runs", anyorder=True,
                                           simulate=8, depth=60, workers=6), 15)
        hs += stride(wcommon.gen_histories(chk, [2, 3, 4, 5, 6, 7, 8], [0, 2, 9, 17], 3, 3, nullmode="runs",
                                           simulate=8, depth=60, workers=6), 40)
    seen, out = set(), []
    for h in hs:
        k = json.dumps(h, sort_keys=True)
        if k not in seen:
            seen.add(k)
            out.append(h)
    return out


def embedded_history():
    """A REQUIRED BYTE_ARRAY column whose single value is itself a complete (empty) Parquet file:
    the prefix of the outer file that ends with the embedded file is a complete Parquet file, so the
    `unless the prefix is itself a complete Parquet file` branch of the property is exercised.
    The embedded bytes are produced by carquet for the same schema with no rows."""
    return [{"op": "Create", "cols": [{"name": [115], "type": 6, "rep": 0, "tlen": 0}]}, {"op": "Close"}]


def trunc_configs(tier):
    if tier == "quick":
        return [(0, 64), (1, 1 << 20), (6, 64)]
    return [(0, 64), (0, 1 << 20), (1, 64), (2, 1 << 20), (5, 128), (6, 64)]


def sink_configs(tier):
    return [(0, 1 << 20), (1, 64)] if tier == "quick" else [(0, 1 << 20), (0, 64), (1, 64), (6, 1 << 20)]


def fault_runs(flen, nops, step, tier, extra_paths):
    """the failure points for one history whose fault-free file has flen bytes and nops stream ops"""
    offs = sorted(set(list(range(0, flen, step)) + [flen - 1, flen - 4, flen - 5, flen - 8, flen - 9, 3, 4, 5]) & set(range(0, flen)))
    runs = []
    bufs = ["u", "s16", "d"] if tier == "quick" else ["u", "s16", "s256", "d"]
    for buf in bufs:
        for sticky in (1, 0):
            for k in offs:
                runs.append(RunCfg("c", buf, "b%d" % k, sticky))
            for j in range(1, nops + 1):
                runs.append(RunCfg("c", buf, "o%d" % j, sticky))
    # path writer: out of space at byte k (RLIMIT_FSIZE), device refusing during stream op j, failing fclose
    for sticky in (1, 0):
        for k in offs:
            runs.append(RunCfg("p", arm="b%d" % k, sticky=sticky))
        for j in range(1, nops + 2):
            runs.append(RunCfg("p", arm="o%d" % j, sticky=sticky))
    runs.append(RunCfg("p", arm="c"))
    for p in extra_paths:          # /dev/full (through a symlink), full tmpfs: a device that takes no byte
        runs.append(RunCfg("p", path=p, model_arm={"kind": "byte", "at": 0, "sticky": True}))
    return runs


BIG_FILE = 5000


def fault_runs_big(flen, nops, tier):
    """failure points for a file larger than the path writer's stdio buffer: the path writer and the default-buffer
    cookie writer, byte offsets around every multiple of the buffer sizes and a coarse stride in between"""
    stride = 509 if tier == "quick" else 97
    offs = set(range(0, flen, stride)) | {flen - 1, flen - 8, 3, 4}
    for b in range(4096, flen + 4096, 4096):
        offs |= {b - 1, b, b + 1}
    offs = sorted(o for o in offs if 0 <= o < flen)
    runs = []
    for sticky in (1, 0):
        for k in offs:
            runs.append(RunCfg("p", arm="b%d" % k, sticky=sticky))
            if k % 2 == 0:
                runs.append(RunCfg("c", "d", "b%d" % k, sticky))
        for j in range(1, nops + 2):
            runs.append(RunCfg("p", arm="o%d" % j, sticky=sticky))
    runs.append(RunCfg("p", arm="c"))
    return runs


def abort_runs(ops, flen, extra_paths):
    ncalls = len(ops) - 2           # calls between Create and Close
    runs = []
    for upto in range(0, ncalls + 1):
        runs.append(RunCfg("p", upto=upto, end="A"))
        runs.append(RunCfg("c", "d", upto=upto, end="A"))
        runs.append(RunCfg("c", "u", upto=upto, end="A"))
    # abort after the sink failed (all calls issued, abort instead of close)
    for k in sorted(set([0, 4, flen // 2])):
        runs.append(RunCfg("p", arm="b%d" % k, sticky=1, upto=ncalls, end="A"))
        runs.append(RunCfg("c", "u", arm="b%d" % k, sticky=1, upto=ncalls, end="A"))
    for p in extra_paths:
        runs.append(RunCfg("p", path=p, upto=ncalls, end="A", model_arm={"kind": "byte", "at": 0, "sticky": True}))
    return runs


# --------------------------------------------------------------------------------------
# tmpfs (optional)
# --------------------------------------------------------------------------------------

class FullTmpfs:
    """a tmpfs with no free page left (only if this process may mount)"""

    def __init__(self, root):
        self.dir = os.path.join(root, "fullfs-%d" % os.getpid())
        self.ok = False

    def __enter__(self):
        try:
            os.makedirs(self.dir, exist_ok=True)
            r = subprocess.run(["mount", "-t", "tmpfs", "-o", "size=64k,nr_inodes=65536", "tmpfs", self.dir],
                               stdout=subprocess.PIPE, stderr=subprocess.STDOUT, timeout=10)
            if r.returncode == 0:
                fd = os.open(os.path.join(self.dir, "filler"), os.O_WRONLY | os.O_CREAT, 0o600)
                try:
                    while os.write(fd, b"\0" * 4096) > 0:
                        pass
                except OSError:
                    pass
                os.close(fd)
                self.ok = True
        except Exception:
            self.ok = False
        return self

    def __exit__(self, *a):
        if os.path.ismount(self.dir):
            subprocess.run(["umount", "-l", self.dir], stdout=subprocess.PIPE, stderr=subprocess.STDOUT)
        try:
            os.rmdir(self.dir)
        except OSError:
            pass


# --------------------------------------------------------------------------------------
# driver
# --------------------------------------------------------------------------------------

def sweep_stale_dirs():
    """work directories (and tmpfs mounts) of runs that were killed"""
    import shutil
    root = common.scratch_root()
    for name in os.listdir(root):
        if not name.startswith("c18-") or not name[4:].isdigit() or os.path.exists("/proc/" + name[4:]):
            continue
        d = os.path.join(root, name)
        for sub in os.listdir(d) if os.path.isdir(d) else []:
            if sub.startswith("fullfs-") and os.path.ismount(os.path.join(d, sub)):
                subprocess.run(["umount", "-l", os.path.join(d, sub)], stdout=subprocess.PIPE, stderr=subprocess.STDOUT)
        shutil.rmtree(d, ignore_errors=True)


def model_check(chk):
    """the design-level statement: which variants of the writer/sink composition satisfy the property"""
    from concurrent.futures import ThreadPoolExecutor

    def one(item):
        cfg, expect = item
        return cfg, expect, common.run_tlc("MC_Sink", cfg=cfg, workers=2 if expect else 4, want_cases=False, timeout=900, heap="2g")

    out = {}
    with ThreadPoolExecutor(max_workers=min(len(MODELS), nproc())) as ex:
        results = list(ex.map(one, MODELS))
    for cfg, expect, r in results:
        if r.error or r.rc not in (0, 12):
            raise common.InfraError("%s: TLC failed (%s)\n%s" % (cfg, r.error or r.rc, r.out[-2500:]))
        if r.violated != expect:
            if expect is None:
                raise common.InfraError("%s: invariant %s violated in a variant that must satisfy the property\n%s"
                                        % (cfg, r.violated, r.out[-2500:]))
            raise common.InfraError("%s: expected violation of %s, TLC reports %s (the invariants do not bind)" % (cfg, expect, r.violated))
        chk.add_tlc(r)
        out[cfg] = {"expected": expect or "holds", "distinct_states": r.distinct, "states": r.states, "depth": r.depth}
    chk.part("model", **out)


def execute(binary, lines, fdir, np=None):
    def per_chunk(i, ln):
        return ln.replace("@PATH@", os.path.join(fdir, "w%d.parquet" % i)).replace("@DIR@", fdir)
    return common.run_harness_parallel(binary, lines, nproc=np or nproc(), line_for_chunk=per_chunk, per_case_timeout=60.0)


def signature_of(w, v):
    """the verdict name; a sanitizer fault in the prefix sweep is qualified by its kind and innermost carquet frame"""
    if w == "prefix:fault":
        import re
        m = re.search(r'kind \|-> "([^"]+)"', v.get("detail", ""))
        if m:
            return "prefix:fault:" + re.sub(r":(exit|sig)\d+", "", m.group(1))
    return w


def run(chk, tier, replay):
    chk.assumptions += [
        "The complete file of a history = the bytes the fault-free run of the same history hands to the sink (its close must return OK); "
        "an OK close under faults must leave exactly these bytes, or bytes that ParquetFile.tla maps to the promised table",
        "A prefix is `itself a complete Parquet file` iff ParquetFile.ParseFile accepts it (TLA+ reference reader; page bodies of "
        "compressed codecs are not decodable by it: such a verdict would be counted as undecided, none occurred if parts.truncation.undecided = 0)",
        "FILE* writers (carquet_writer_create_file) do not own the stream: failures of the caller's own fclose after carquet_writer_close are outside the property; "
        "bytes must have reached the sink when close returns (close flushes)",
        "Histories continue after a call reported non-OK (an application that only checks close); `OK from close implies all bytes reached the sink` is read unconditionally",
        "Sink failures: device refuses bytes (short write / ENOSPC / EFBIG) at a byte offset or during one stream operation, persistent or one-shot; fclose reporting a deferred error",
        "TLC; Sink.tla/WriterSink.tla/SinkTrace.tla/ParquetFile.tla; harness h_sink copies bytes and return values only",
    ]
    import time
    t0 = time.time()
    model_check(chk)
    tick(t0, "model checking")
    r = common.tlc_ok(common.run_tlc("MC_ThriftSelf", workers=4, want_cases=False), "MC_ThriftSelf")
    if r.violated:
        raise common.InfraError("MC_ThriftSelf self-check failed")
    chk.add_tlc(r)

    binary = common.build_harness("h_sink", extra=WRAP)
    sweep_stale_dirs()
    fdir = os.path.join(common.scratch_root(), "c18-%d" % os.getpid())
    os.makedirs(fdir, exist_ok=True)
    full_link = os.path.join(fdir, "devfull")
    if not os.path.lexists(full_link):
        os.symlink("/dev/full", full_link)
    try:
        with FullTmpfs(fdir) as tfs:
            extra_paths = [full_link] + ([os.path.join(tfs.dir, "out.parquet")] if tfs.ok else [])
            chk.part("sinks", dev_full=True, full_tmpfs=tfs.ok)
            _run(chk, tier, replay, binary, fdir, extra_paths)
    finally:
        for fn in os.listdir(fdir):
            try:
                os.unlink(os.path.join(fdir, fn))
            except OSError:
                pass
        try:
            os.rmdir(fdir)
        except OSError:
            pass


def _run(chk, tier, replay, binary, fdir, extra_paths):
    import time
    t0 = time.time()
    step = 7 if tier == "quick" and not replay else 1
    if replay:
        case = json.load(open(replay))["case"]
        groups = [(case["ops"], case["codec"], case["page"], True, True)]
    else:
        hs = histories(chk, tier)
        if os.environ.get("C18_LIMIT"):          # development knob: fewer histories
            hs = hs[:int(os.environ["C18_LIMIT"])]
        tset, sset = set(trunc_configs(tier)), set(sink_configs(tier))
        groups = []
        for hi, ops in enumerate(hs):
            for cfg in sorted(tset | sset):
                # the first config of each part takes every history, the other configs a share of them
                want_sink = cfg in sset and (cfg == sorted(sset)[0] or hi % 3 == 0)
                want_trunc = cfg in tset and (cfg == sorted(tset)[0] or tier != "quick" or hi % 2 == 0)
                if want_sink or want_trunc:
                    groups.append((ops, cfg[0], cfg[1], want_trunc, want_sink))
        for i in range(0, len(hs), max(1, len(hs) // 3)):
            chk.sample({"history": hs[i]})
        # files larger than the stdio buffer of a path writer (st_blksize, 4096 here): only then do bytes reach the
        # device before close, so only then can a path writer meet a failure that is over by the time it closes
        # (one column, two row groups of > 4 KB each, so that the first row group is on the device before the second)
        # REQUIRED INT32 (WideSchema(1)), 1100 rows per row group = 4.4 KB of PLAIN values per group
        bigs = [h for h in wcommon.gen_histories(chk, [101], [1100], 3, 2, nullmode="beat", simulate=4, workers=4)
                if sum(1 for o in h if o["op"] == "NewRowGroup") >= 1 and sum(o["n"] for o in h if o["op"] == "WriteBatch") >= 2200]
        if tier != "quick":
            bigs += [h for h in wcommon.long_histories(chk, tier)
                     if len(h[0]["cols"]) == 1 and any(o["op"] == "NewRowGroup" for o in h)
                     and sum(o["n"] for o in h if o["op"] == "WriteBatch") >= 2000][:4]
        for ops in bigs[:1 if tier == "quick" else 6]:
            groups.append((ops, 0, 1 << 20, False, True))

    t0 = tick(t0, "histories (%d groups)" % len(groups))
    # ---- phase 1: fault-free runs (reference files)
    ref_cfg = RunCfg("c", "d")
    lines = [run_line("g%dr0" % gi, g[0], g[1], g[2], ref_cfg) for gi, g in enumerate(groups)]
    res, faults, leaky = execute(binary, lines, fdir)
    refs = {}
    for gi, g in enumerate(groups):
        toks = res.get("g%dr0" % gi)
        if toks is None:
            continue
        evs, nops, fb = events_of_run("g%d" % gi, "g%dr0" % gi, g[0], toks, ref_cfg)
        refs[gi] = (evs, nops, fb)

    # the embedded-file history (complete proper prefix), built from carquet's own empty file
    if not replay:
        eh = embedded_history()
        r0, _, _ = execute(binary, [run_line("emb0", eh, 0, 1 << 20, ref_cfg)], fdir, np=1)
        _, _, inner = events_of_run("emb", "emb0", eh, r0.get("emb0", []), ref_cfg)
        if inner:
            ops = [eh[0], {"op": "WriteBatch", "c": 0, "n": 1, "withDefs": False, "defs": [0], "vals": [list(inner)]}, {"op": "Close"}]
            gi = len(groups)
            groups.append((ops, 0, 1 << 20, True, False))
            r1, _, _ = execute(binary, [run_line("g%dr0" % gi, ops, 0, 1 << 20, ref_cfg)], fdir, np=1)
            if r1.get("g%dr0" % gi):
                refs[gi] = events_of_run("g%d" % gi, "g%dr0" % gi, ops, r1["g%dr0" % gi], ref_cfg)

    # content that looks like a file trailer: ... 00 | <small little-endian length> | "PAR1" inside the column data, so that
    # one proper prefix ends in a footer length and the magic, with a "footer" that is an empty Thrift struct (and a second
    # table where the bytes before it are not even a STOP byte). Such a prefix is not a complete Parquet file.
    if not replay:
        par1 = [0x50, 0x41, 0x52, 0x31]
        look = [[{"op": "Create", "cols": [{"name": [118], "type": 1, "rep": 0, "tlen": 0}]},
                 {"op": "WriteBatch", "c": 0, "n": 5, "withDefs": False, "defs": [0] * 5,
                  "vals": [[0, 0, 0, 0], [1, 0, 0, 0], par1, [2, 0, 0, 0], par1]}, {"op": "Close"}],
                [{"op": "Create", "cols": [{"name": [115], "type": 6, "rep": 0, "tlen": 0}]},
                 {"op": "WriteBatch", "c": 0, "n": 3, "withDefs": False, "defs": [0] * 3, "vals": [[], par1, [0, 4, 0, 0, 0] + par1]},
                 {"op": "Close"}]]
        for ops in look:
            gi = len(groups)
            groups.append((ops, 0, 1 << 20, True, False))
            r1, _, _ = execute(binary, [run_line("g%dr0" % gi, ops, 0, 1 << 20, ref_cfg)], fdir, np=1)
            if r1.get("g%dr0" % gi):
                refs[gi] = events_of_run("g%d" % gi, "g%dr0" % gi, ops, r1["g%dr0" % gi], ref_cfg)

    t0 = tick(t0, "reference runs")
    # ---- phase 2: prefix sweeps and fault / abort runs
    lines, plan = [], {}
    ncuts = 0
    # budgets keep the tiers inside their time limits: groups are visited alternately from the small and
    # the large end of the file-size order; a group beyond a budget is skipped for that part (counted)
    run_budget, cut_budget = BUDGET["replay" if replay else tier]
    usable = sorted((gi for gi in range(len(groups)) if gi in refs and refs[gi][2] is not None), key=lambda gi: (len(refs[gi][2]), gi))
    order = []
    while usable:
        order.append(usable.pop(0))
        if usable:
            order.append(usable.pop())
    nruns_planned, skipped = 0, {"sink": 0, "trunc": 0}
    # the sink part prefers many small and medium histories (runs per history ~ 10 x file length): ascending
    # size, every sixth slot taken from the large end; a history that does not fit is skipped, later ones may fit
    asc = [gi for gi in sorted(order, key=lambda gi: (len(refs[gi][2]), gi)) if groups[gi][4]]
    sink_ok, est, slot = set(), 0, 0
    while asc:
        slot += 1
        gi = asc.pop() if slot % 6 == 0 else asc.pop(0)
        cost = int((10 if step == 1 else 1.3) * len(refs[gi][2])) + 200
        if len(refs[gi][2]) >= BIG_FILE:          # planned with their own (coarse) failure points, outside the budget
            sink_ok.add(gi)
        elif est + cost <= run_budget:
            sink_ok.add(gi)
            est += cost
    for gi in order:
        g = groups[gi]
        ops, codec, page, want_trunc, want_sink = g
        fb, nops = refs[gi][2], refs[gi][1]
        plan[gi] = {"pfx": [], "runs": []}
        is_embedded = gi >= len(groups) - 3 and not replay          # the embedded-file and trailer-lookalike tables
        if want_trunc and ncuts + len(fb) > cut_budget and not is_embedded:
            want_trunc = False
            skipped["trunc"] += 1
        if want_sink and gi not in sink_ok:
            want_sink = False
            skipped["sink"] += 1
        if want_trunc:
            width = 256
            for lo in range(0, len(fb), width):
                pid = "g%dx%d" % (gi, lo)
                plan[gi]["pfx"].append(pid)
                lines.append("%s X:@DIR@:%d:%d:64:%s" % (pid, lo, min(len(fb), lo + width), hexs(fb)))
            ncuts += len(fb)
        if want_sink:
            rcs = (fault_runs_big(len(fb), nops, tier) if len(fb) >= BIG_FILE
                   else fault_runs(len(fb), nops, step, tier, extra_paths) + abort_runs(ops, len(fb), extra_paths))
            for ri, rc in enumerate(rcs, start=1):
                rid = "g%dr%d" % (gi, ri)
                if rc.path == extra_paths[0] and rc.end == "A":       # abort removes the name: one symlink per run
                    rc.path = rc.path + "-" + rid
                    os.symlink("/dev/full", rc.path)
                elif rc.path and rc.path != extra_paths[0]:
                    rc.path = rc.path.replace("out.parquet", "out-%s.parquet" % rid)
                plan[gi]["runs"].append((rid, rc))
                lines.append(run_line(rid, ops, codec, page, rc))
            nruns_planned += len(rcs)
    chk.part("plan", groups=len(groups), run_budget=run_budget, cut_budget=cut_budget, groups_beyond_run_budget=skipped["sink"],
             groups_beyond_cut_budget=skipped["trunc"])
    res, faults2, leaky2 = execute(binary, lines, fdir)
    t0 = tick(t0, "harness (%d lines)" % len(lines))
    fault_by = {}
    for f in list(faults) + list(faults2):
        fault_by.setdefault(f.case_id, []).append(f.signature())
    for cid in list(leaky) + list(leaky2):
        fault_by.setdefault(cid, []).append("leak")

    # ---- phase 3: traces
    traces, meta = Traces(), {}
    code_hist, nruns, nfail_points = {}, 0, 0
    kinds = {}
    for gi, g in enumerate(groups):
        if gi not in refs:
            traces.add([{"id": "g%d" % gi, "run": "ref", "e": "Fault", "kind": "reference-run-lost:" + ",".join(fault_by.get("g%dr0" % gi, ["?"]))}])
            continue
        ops, codec, page, want_trunc, want_sink = g
        gid = "g%d" % gi
        meta[gid] = (ops, codec, page)
        evs = list(refs[gi][0])
        for s in fault_by.get(gid + "r0", []):
            evs.append({"id": gid, "run": "ref", "e": "Fault", "kind": s})
        fb = refs[gi][2]
        if gi in plan and plan[gi]["pfx"]:
            toks = []
            for pid in plan[gi]["pfx"]:
                if pid in res:
                    toks += [t for t in res[pid] if t.startswith("X=")]
                for s in fault_by.get(pid, []):
                    evs.append({"id": gid, "run": pid, "e": "Fault", "kind": "prefix-sweep:" + s})
            pe, hist = prefix_events(gid, toks, len(fb))
            for k, v in hist.items():
                code_hist[k] = code_hist.get(k, 0) + v
            evs += pe
            chk.count(("trunc", fb.hex()), len(fb) > 100)
        for rid, rc in (plan.get(gi, {}).get("runs") or []):
            evs.append({"id": gid, "e": "Rerun"})
            toks = res.get(rid)
            if toks is not None:
                revs, _, _ = events_of_run(gid, rid, ops, toks, rc, ref_bytes=fb)
                evs += revs
                nruns += 1
                if rc.arm != "n" or rc.model_arm:
                    nfail_points += 1
                kk = "cookie:" + rc.buf if rc.kind == "c" else ("path:full-device" if rc.path else "path:file")
                kinds[kk] = kinds.get(kk, 0) + 1
                chk.count(("run", gid, fb.hex(), rc.label()), rc.arm != "n" or rc.end == "A" or bool(rc.model_arm))
            for s in fault_by.get(rid, []):
                evs.append({"id": gid, "run": rid + " " + rc.label(), "e": "Fault", "kind": s})
        traces.add(evs)

    t0 = tick(t0, "events")
    verdicts, stats, ress = traces.validate()
    t0 = tick(t0, "trace validation (%d events)" % traces.events)
    for r in ress:
        chk.add_tlc(r)
    chk.cov["traces_validated_against_impl"] += stats["runs"]
    sizes = sorted(len(refs[gi][2]) for gi in plan if plan[gi]["pfx"])
    chk.part("truncation", file_bytes_min_median_max=[sizes[0], sizes[len(sizes) // 2], sizes[-1]] if sizes else [])
    chk.part("truncation", files=sum(1 for gi in plan if plan[gi]["pfx"]), cuts=ncuts, opens=stats["cuts"], opened_prefixes=stats["opened"],
             undecided=stats["undecided"], rejection_codes=code_hist,
             configs=[(wcommon.CODECS[c], p) for c, p in trunc_configs(tier)])
    chk.part("sink", groups=sum(1 for gi in plan if plan[gi]["runs"]), runs=nruns, failure_points=nfail_points, byte_step=step, by_sink=kinds,
             stream_ops_checked_against_Sink_tla=stats["sinkops"], model_drift=stats["drift"], ok_closes_under_faults=stats["okcloses"], ok_closes_judged_by_reference_reader=stats["parsedcloses"],
             ok_closes_undecided=stats["undecidedcloses"],
             failed_calls=stats["failed"], failed_calls_without_sink_failure=stats["spurious"], aborts=stats["aborts"],
             configs=[(wcommon.CODECS[c], p) for c, p in sink_configs(tier)])
    if stats["drift"]:
        common.log("C18: %d logged stream operations disagree with Sink.tla (model drift, not judged)" % stats["drift"])
    infra = [v for v in verdicts if any(w in ("prefix:cuts-missing", "prefix:no-reference-file", "prefix:opened-list-inconsistent", "unknown-event") for w in v["why"])]
    if infra:
        raise common.InfraError("C18 machinery: %s" % json.dumps(infra[:3])[:1500])
    # a fault-free run whose close() fails leaves nothing to compare with: not a C18 statement (C01 judges
    # fault-free histories); the group is skipped by SinkTrace and counted here
    noref = [v for v in verdicts if set(v["why"]) == {"ref:close-failed"}]
    verdicts = [v for v in verdicts if set(v["why"]) != {"ref:close-failed"}]
    if noref:
        common.log("C18: %d groups not judged: close() of the fault-free run returned non-OK (e.g. %s)" % (len(noref), noref[0].get("run")))
    chk.part("sink", groups_without_reference=len(noref))

    def prio(v):            # representative case per signature: full device first, then path writers
        lab = v.get("run", "")
        return (0 if "devfull" in lab else 1 if "r0 " in lab else 2 if " p/" in lab else 3, v.get("id", ""), v.get("l", 0))
    alarms = {}
    for v in sorted(verdicts, key=prio):
        ops, codec, page = meta.get(v["id"], (None, None, None))
        for w in sorted(v["why"]):
            alarms[w] = alarms.get(w, 0) + 1
            chk.violation(signature_of(w, v), "history %s (codec=%s page=%s) run [%s]: event %s rejected by SinkTrace: %s %s" % (
                v["id"], codec, page, v.get("run", ""), v["e"], sorted(v["why"]), v.get("detail", "")[:700]),
                {"id": v["id"], "ops": ops, "codec": codec, "page": page, "run": v.get("run", ""), "event": v["e"],
                 "why": sorted(v["why"]), "detail": v.get("detail", "")})
    if alarms:
        chk.part("alarms", **alarms)
    chk.cov["rule"] = ("truncation: one case per written file (history x codec x page size), every cut 0..len-1 x {fread, mmap, buffer}; "
                       "sink: one case per (history, config, sink kind, stdio buffer, failure point, sticky, ending); failure points = every stream "
                       "operation and every %d-th byte offset plus the offsets around header / footer length / trailing magic; "
                       "distinct = distinct (file bytes, run label); non-trivial = a failure point is armed or the run ends in abort; files > 100 bytes" % step)


class Traces:
    """Groups are streamed into one ndjson file per TLC process (least-filled file first), then
    validated with the deterministic trace specification SinkTrace.tla (one JSON report per process)."""
    KEYS = ["execs", "runs", "events", "failed", "sinkops", "drift", "okcloses", "spurious", "parsedcloses", "undecidedcloses",
            "aborts", "cuts", "opened", "undecided"]

    def __init__(self):
        import tempfile
        self.tdir = tempfile.mkdtemp(prefix="trace-", dir=common.scratch_root())
        self.n = nproc()
        self.files = [open(os.path.join(self.tdir, "t%d.ndjson" % i), "w") for i in range(self.n)]
        self.load = [0] * self.n
        self.events = 0

    def add(self, evs):
        i = self.load.index(min(self.load))
        fh = self.files[i]
        fh.write(json.dumps({"e": "Reset", "id": evs[0].get("id", "")}) + "\n")
        for ev in evs:
            fh.write(json.dumps(ev) + "\n")
        self.load[i] += len(evs) + sum(len(e.get("bytes", ())) + 4 * len(e.get("v", ())) for e in evs) // 200
        self.events += len(evs)

    def validate(self):
        from concurrent.futures import ThreadPoolExecutor
        import shutil
        for fh in self.files:
            fh.close()
        used = [i for i in range(self.n) if self.load[i] > 0]

        def work(i):
            return common.run_tlc("SinkTrace", workers=1, env={"TRACE": os.path.join(self.tdir, "t%d.ndjson" % i)}, timeout=3000, heap="6g",
                                  extra_args=("-checkpoint", "0"))       # a checkpoint would refuse behaviours longer than 65535 states

        verdicts, stats, ress = [], {k: 0 for k in self.KEYS}, []
        try:
            with ThreadPoolExecutor(max_workers=max(1, len(used))) as ex:
                for res in ex.map(work, used):
                    ress.append(res)
                    if res.error or res.rc != 0 or not res.cases:
                        try:
                            with open(os.path.join(common.scratch_root(), "c18-tlc-failure.log"), "w") as fh:
                                fh.write(res.out)
                        except OSError:
                            pass
                        raise common.InfraError("trace validation with SinkTrace failed (rc=%s %s)\n%s" % (res.rc, res.error, res.out[-3000:]))
                    rep = res.cases[-1]
                    vs = [c["verdict"] for c in res.cases if isinstance(c, dict) and "verdict" in c]
                    if "stats" not in rep or rep.get("rejected") != len(vs):
                        raise common.InfraError("SinkTrace report incomplete: %s rejected events announced, %d verdict lines" % (rep.get("rejected"), len(vs)))
                    verdicts.extend(vs)
                    for k in self.KEYS:
                        stats[k] += rep["stats"].get(k, 0)
        finally:
            shutil.rmtree(self.tdir, ignore_errors=True)
        return verdicts, stats, ress
