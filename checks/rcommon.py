"""Reference-written fixture files (TLA+ reference writer, MC_RefGen) shared by C06, C02, C03, C04, C16."""
import json
import os

from vlib import common
from checks import wcommon

CFG = 'CONSTANTS\n Tables = %s\n Mode = "%s"\n Seed = %d\n PerGroup = %d\nINIT Init\nNEXT Next\nINVARIANT Emit\nCHECK_DEADLOCK FALSE\n'


def self_check(chk):
    r = common.run_tlc("MC_RefSelf", workers=8, want_cases=False, timeout=1500)
    if r.violated or r.rc != 0:
        raise common.InfraError("reference writer/reader self-check failed (%s)\n%s" % (r.violated, r.out[-2000:]))
    chk.add_tlc(r)


def gen_files(chk, tables=(1, 2, 3), mode="valid", simulate=None, workers=6, limit=None, per_group=1):
    """`simulate` is kept as a size hint only: layouts are drawn with RandomSubset (seeded by VERIF_SEED)
    inside a breadth-first run (tlc -simulate would evaluate the emitting invariant on every successor)."""
    if simulate:
        per_group = max(1, simulate // (24 * len(tables)))
    cfg = CFG % ("{%s}" % ", ".join(map(str, tables)), mode, common.seed() % 5, per_group)
    r = common.run_tlc("MC_RefGen", constants_text=cfg, workers=workers, timeout=2400, tseed=common.seed())
    if r.rc != 0:
        raise common.InfraError("MC_RefGen failed rc=%s\n%s" % (r.rc, r.out[-2000:]))
    chk.add_tlc(r)
    seen, out = set(), []
    for c in r.cases:
        k = bytes(c["bytes"])
        if k in seen:
            continue
        seen.add(k)
        out.append(c)
        if limit and len(out) >= limit:
            break
    return out


def features(case, leaf=None):
    o = case["opt"]
    f = []
    if o["v2"]:
        f.append("v2")
    if o["encTag"] != 255:
        f.append("enc%d" % o["encTag"])
    if o["codecTag"] != 255:
        f.append("codec%d" % o["codecTag"])
    if o.get("codec", 0) != 0:
        f.append({1: "snappy", 5: "lz4", 2: "gzip-stored", 6: "zstd-raw"}.get(o["codec"], "codec?"))
    if o["useDict"] and (leaf is None or leaf["type"] != 0):
        f.append("dict")
        if not o["dictOffsetField"]:
            f.append("nodictoff")
        if o["extraWidth"]:
            f.append("widebw")
        if o.get("minW0"):
            f.append("idxw0")
        if o.get("mixEnc", "all") != "all":
            f.append("dict-" + o["mixEnc"])
    if o["style"] != "rle" and (leaf is None or leaf["maxDef"] > 0 or leaf["maxRep"] > 0):
        f.append("lvl-" + o["style"])
    if leaf is not None and leaf["maxRep"] > 0:
        f.append("repeated")
    if leaf is not None and leaf["type"] == 3:
        f.append("int96")
    return f


def parse_D(tok, typ, tlen):
    f = tok.split(":")
    return {"delivered": int(f[0]), "error": f[1] == "1",
            "defs": [] if f[2] == "-" else [ord(ch) - 48 for ch in f[2]],
            "vals": wcommon.dec_vals(typ, tlen, f[3]), "calls": int(f[4]), "rem": int(f[5]),
            "reps": [] if len(f) < 7 or f[6] == "-" else [ord(ch) - 48 for ch in f[6]]}


class Fixtures:
    """Writes case files into a scratch dir; use as a context manager."""

    def __init__(self, cases, tag="ref"):
        self.cases = cases
        self.dir = os.path.join(common.scratch_root(), "%s-%d" % (tag, os.getpid()))

    def __enter__(self):
        os.makedirs(self.dir, exist_ok=True)
        self.paths = []
        for i, c in enumerate(self.cases):
            p = os.path.join(self.dir, "r%d.parquet" % i)
            with open(p, "wb") as fh:
                fh.write(bytes(c["bytes"]))
            self.paths.append(p)
        return self

    def __exit__(self, *a):
        for fn in os.listdir(self.dir):
            try:
                os.unlink(os.path.join(self.dir, fn))
            except OSError:
                pass
        try:
            os.rmdir(self.dir)
        except OSError:
            pass
