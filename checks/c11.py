"""C11 - every encoding decodes its own output back to the original sequence.

Deciding method (model checking + conformance, DESIGN.md section 6/C11):
 1. TLC model-checks the carquet-shaped encoder state machine HybridEnc against the format
    (INVARIANT Refine: the stream Flush would write parses back to the consumed values) for every
    Put sequence within bounds, for the flush policy found in the tree ("pad") and for the repaired
    policy ("fill"); and the carquet-shaped streaming decoder HybridDec against the abstract cursor
    (INVARIANT Agree) on every generated call history.
 2. TLC generates the value sequences (every reachable HybridEnc state, run-structured sequences for
    widths 0..32, DELTA / string / BSS / dictionary / PLAIN / bit-packing families) and the
    Get / GetBatch / Skip / HasNext histories with the expected result of every call.
 3. The harness runs carquet's encoder then decoder on each sequence; decode(encode(v)) must be v.
 4. TLC (MC_EncTrace) parses the bytes carquet wrote with the format modules: the end of that parse
    is the exact encoded size, which carquet's reported written / consumed counts must equal.
 5. Histories are replayed on carquet_rle_decoder_*; every call must return what the abstract
    cursor (= the one-shot meaning of the stream) returns.
"""
from vlib import common
from vlib.common import hexs, InfraError
from checks import enc_lib as E

LEVEL = "model_checking"

import time as _time
_t0 = [_time.time()]


def T(what):
    now = _time.time()
    common.log("  stage %-28s %.1fs" % (what, now - _t0[0]))
    _t0[0] = now

# streams 5 and 15 of the catalogue contain zero-length RLE runs with non-zero value bytes: there the
# one-shot and the streaming decoder are wrong in the same way, which is C12's finding (decode
# direction), not a disagreement between streaming and one-shot decoding
C11_STREAMS = [i for i in range(1, 16) if i not in (5, 15)]


def generate(chk, tier):
    thorough = tier != "quick"
    maxlen = 18 if thorough else 13
    jobs = [
        ("refine-pad", dict(module="MC_EncRefine", constants_text=E.refine_cfg(1, [0, 1], 12, "pad", False), workers=1, want_cases=False)),
        ("refine-fill", dict(module="MC_EncRefine", constants_text=E.refine_cfg(1, [0, 1], 14 if thorough else 12, "fill", False), workers=2, want_cases=False)),
        ("refine3-pad", dict(module="MC_EncRefine", constants_text=E.refine_cfg(2, [0, 1, 3], 9, "pad", False), workers=2, want_cases=False)),
        ("refine3-fill", dict(module="MC_EncRefine", constants_text=E.refine_cfg(2, [0, 1, 3], 10 if thorough else 9, "fill", False), workers=2, want_cases=False)),
        ("dec-consume", dict(module="MC_EncHist", constants_text=E.hist_cfg("pos", 2, 5, "consume", False, range(1, 16)), workers=3, want_cases=False)),
        ("dec-skip", dict(module="MC_EncHist", constants_text=E.hist_cfg("pos", 1, 5, "skip", False, range(1, 16)), workers=2, want_cases=False)),
        ("seq-bin", dict(module="MC_EncRefine", constants_text=E.refine_cfg(1, [0, 1], maxlen, "fill", True), workers=4, timeout=2400)),
        ("seq-tern", dict(module="MC_EncRefine", constants_text=E.refine_cfg(2, [0, 1, 3], 9 if thorough else 7, "fill", True), workers=3, timeout=2400)),
        ("hist-pos", dict(module="MC_EncHist", constants_text=E.hist_cfg("pos", 3 if thorough else 2, 8, "consume", True, C11_STREAMS), workers=4, timeout=2400)),
        ("hist-full", dict(module="MC_EncHist", constants_text=E.hist_cfg("full", 0, 8 if thorough else 5, "consume", True, C11_STREAMS), workers=4, timeout=2400)),
    ]
    jobs.insert(0, ("cases", dict(module="MC_EncCases", workers=6, timeout=2400,
                                  constants_text=E.cfg_text({"Families": E.tla_set(E.FAMILIES), "Thorough": "TRUE" if thorough else "FALSE"}))))
    jobs.sort(key=lambda j: 0 if j[0] in ("cases", "seq-bin", "hist-pos", "hist-full") else 1)
    res = E.run_many(jobs, parallel=5)
    T("tlc model checking + generation")
    for name, r in res.items():
        common.log("    job %-14s %.1fs %d states %d cases" % (name, r.wall, r.distinct, len(r.cases)))
    for name, r in res.items():
        expected_violation = name in ("refine-pad", "refine3-pad", "dec-skip")
        if r.error or (r.rc != 0 and not (expected_violation and r.rc == 12)):
            if r.rc == 12 and r.violated:
                continue          # handled below as a model finding
            raise InfraError("TLC job %s failed rc=%s\n%s" % (name, r.rc, r.out[-2500:]))
        chk.add_tlc(r)
    return res


def last_state_field(out, field):
    """pull `field = <<...>>` of the last state of a TLC counterexample (for the evidence text)"""
    i = out.rfind("/\\ %s = " % field)
    if i < 0:
        return None
    j = out.find("\n", i)
    return out[i + len(field) + 6:j].strip()


def run(chk, tier, replay):
    binary = common.build_harness(E.HARNESS)
    if replay:
        return E.replay_file(chk, binary, replay)
    chk.assumptions += [
        "TLA+ format modules (Hybrid, BitPack, Plain, DeltaBP, DeltaLen, DeltaStr, Bss, DictEnc) validated by MC_HybridSelf / MC_EncSelf (round trips, Encodings.md examples)",
        "encoders are called inside their documented domain: values < 2^bit_width, levels 0..32767 at widths <= 15, always-sufficient output capacity, bitpack_32 output sized in whole 8-value groups",
        "streaming HasNext after the last value is only constrained when no bytes follow the last value-bearing run",
    ]
    _t0[0] = _time.time()
    E.selfcheck(chk, tier)
    T('selfcheck')
    res = generate(chk, tier)

    # ---- 1. model checking results on the specification itself
    model = {}
    for name in ("refine-pad", "refine-fill", "refine3-pad", "refine3-fill", "dec-consume", "dec-skip"):
        r = res[name]
        model[name] = {"holds": r.rc == 0 and not r.violated, "states": r.distinct,
                       "counterexample": last_state_field(r.out, "consumed") if r.violated else None}
    chk.part("model_check", **model)
    if not model["refine-fill"]["holds"] or not model["refine3-fill"]["holds"]:
        raise InfraError("HybridEnc with the repaired policy does not refine the format: spec error\n" + res["refine-fill"].out[-1500:])
    if not model["dec-consume"]["holds"]:
        raise InfraError("HybridDec (grammar-conforming variant) disagrees with the abstract cursor: spec error\n" + res["dec-consume"].out[-2000:])

    # ---- 2. round trips
    cases = []
    for name in ("seq-bin", "seq-tern", "cases"):
        cases += [c for c in res[name].cases if c.get("kind") in E.FAMILIES]
    if len(cases) < 1000:
        raise InfraError("case generation produced only %d cases" % len(cases))
    lines, owner = [], {}
    for i, c in enumerate(cases):
        cid = "c%d" % i
        for ln in E.roundtrip_lines(cid, c):
            lines.append(ln)
        owner[cid] = c
    hres, faults, leaky = common.run_harness_leaks(binary, lines, leak_every=256)
    T('harness round trips (%d lines)' % len(lines))
    events, ev_owner = [], {}
    drift = {"pad": 0, "fill": 0, "both": 0, "none": 0}
    per_family = {}
    mismatches = []
    for cid, c in owner.items():
        n = E.case_len(c)
        chk.count(E.case_key(c), n >= 2)
        fam = c["kind"]
        st = per_family.setdefault(fam, {"cases": 0, "mismatch": 0})
        st["cases"] += 1
        mm, evs, info = E.check_roundtrip(cid, c, hres)
        for e in evs:
            events.append(e)
            ev_owner[e["id"]] = (cid, c)
        if mm:
            st["mismatch"] += 1
        for m in mm:
            mismatches.append((m, cid, c))
        if fam == "hyb" and "pad" in c and "bytes" in info:
            got = E.unhex_list(info["bytes"])
            p, f = got == c["pad"]["bytes"], got == c["fill"]["bytes"]
            drift["both" if p and f else "pad" if p else "fill" if f else "none"] += 1
    for idx in (0, len(cases) // 3, 2 * len(cases) // 3):
        c = cases[idx]
        chk.sample({"kind": c["kind"], "n": E.case_len(c), "case": {k: (v if not isinstance(v, list) or len(v) <= 24 else v[:24] + ["..."]) for k, v in c.items() if k not in ("pad", "fill", "bytes", "dict")}})

    # ---- 3. exact encoded size: TLC parses what carquet wrote
    T('compare')
    verdicts, tr = E.trace_validate(events, workers=None)
    T('trace validation (%d events)' % len(events))
    if tr:
        chk.add_tlc(tr)
    chk.cov["traces_validated_against_impl"] += len(verdicts)
    rejected = 0
    for eid, v in verdicts.items():
        cid, c = ev_owner[eid]
        if not v["ok"]:
            rejected += 1
            # C11 only takes the size clause from this parse ("reported written = actual encoded size");
            # a stream the format modules do not accept at all is C12's finding, counted here as evidence
            if v["why"].startswith("length:"):
                mismatches.append((E.Mismatch("%s-enc:encoded-size:%s" % (c["kind"], v["why"][7:]),
                                              "carquet's %s output is %d bytes but the stream the format defines ends after %s" % (
                                                  c["kind"], len(next(e for e in events if e["id"] == eid).get("bytes", [])), v["p"])), cid, c))
    chk.part("encoded_size", streams_parsed_by_tlc=len(verdicts), not_accepted_by_format_modules_see_C12=rejected)

    # which modelled flush policy does the code follow (model drift is evidence, not a verdict)
    matching = "pad" if drift["pad"] and not drift["fill"] and not drift["none"] else \
               "fill" if drift["fill"] and not drift["pad"] and not drift["none"] else \
               "either" if not (drift["pad"] or drift["fill"] or drift["none"]) else "none"
    chk.part("encoder_model", byte_exact=drift, code_follows_policy=matching)
    if matching == "pad" and not model["refine-pad"]["holds"]:
        # TLC's own counterexample on the policy the code follows; replayed below with everything else
        chk.part("model_check", tlc_counterexample_on_code_policy=model["refine-pad"]["counterexample"])

    for m, cid, c in mismatches:
        rep = {"case": {k: v for k, v in c.items() if k not in ("pad", "fill")}, "lines": E.roundtrip_lines(cid, c)}
        chk.violation(m.sig, m.what, rep)
    for cid in leaky:
        base = cid.rstrip("LRGABFD")
        chk.violation("enc:leak", "allocation left after round trip", {"lines": E.roundtrip_lines(base, owner.get(base, {})) if base in owner else cid})
    for f in faults:
        base = f.case_id.rstrip("LRGABFD")
        c = owner.get(base)
        chk.violation(E.fault_signature("enc-roundtrip:%s" % (c["kind"] if c else "?"), f),
                      "fault during encode/decode of a generated sequence: %s" % f.signature(),
                      {"lines": E.roundtrip_lines(base, c) if c else f.case_id, "stderr": getattr(f, "stderr", "")[-1500:]})
    chk.part("roundtrip", **per_family)

    # ---- 4. streaming decoder histories
    streams = {}
    hist_cases = []
    for name in ("hist-pos", "hist-full"):
        for c in res[name].cases:
            if c.get("kind") == "stream":
                streams[c["sid"]] = c
            elif c.get("kind") == "hist":
                hist_cases.append(c)
    hl, hown = [], {}
    for i, c in enumerate(hist_cases):
        s = streams[c["sid"]]
        ops = []
        for o in c["ops"]:
            ops.append(o["op"] if o["op"] in ("G", "H") else "%s%d" % (o["op"], o["k"]))
        ops += ["B%d" % (len(c["drain"]) + 2), "H"]
        hid = "h%d" % i
        hl.append("%s rle_hist %d %s %s" % (hid, s["bw"], hexs(s["bytes"]), " ".join(ops)))
        hown[hid] = c
    hr, hfaults, hleaky = common.run_harness_leaks(binary, hl, leak_every=512)
    T('harness histories (%d lines)' % len(hl))
    nh = bad = spec_disagree = 0
    for hid, c in hown.items():
        s = streams[c["sid"]]
        chk.count(("hist", c["sid"], [(o["op"], o["k"]) for o in c["ops"]]), True)
        got = hr.get(hid)
        if got is None:
            continue
        nh += 1
        exp = []
        for o in c["ops"]:
            if o["op"] == "G":
                exp.append("g%d" % o["vals"][0])
            elif o["op"] == "B":
                exp.append("b%d:%s" % (o["n"], E.csv(o["vals"])))
            elif o["op"] == "S":
                exp.append("s%d" % o["n"])
            else:
                exp.append("h" + o["hn"])
        exp.append("b%d:%s" % (len(c["drain"]), E.csv(c["drain"])))
        exp.append("h" + c["hn"])
        ok = len(got) == len(exp) + 1 and all(e == g or (e == "h?" and g in ("h0", "h1")) for e, g in zip(exp, got))
        if not c["agree"]:
            spec_disagree += 1
        if not ok:
            bad += 1
            k = next((j for j, (e, g) in enumerate(zip(exp, got)) if not (e == g or (e == "h?" and g in ("h0", "h1")))), len(exp))
            opname = (c["ops"][k]["op"] if k < len(c["ops"]) else "drain")
            sig = "rle-dec:streaming-differs-from-one-shot:%s" % opname
            chk.violation(sig, "stream %d (bw %d, bytes %s): history %s expected %s got %s" % (
                c["sid"], s["bw"], hexs(s["bytes"]), hl[int(hid[1:])].split(" ", 4)[4], exp, got), {"line": hl[int(hid[1:])], "expected": exp})
    for f in hfaults:
        chk.violation(E.fault_signature("rle-dec-history", f), "fault in streaming decoder history", {"line": hl[int(f.case_id[1:])] if f.case_id[1:].isdigit() else f.case_id,
                                                                                                     "stderr": getattr(f, "stderr", "")[-1500:]})
    chk.cov["traces_validated_against_impl"] += nh
    chk.part("streaming", histories=nh, streams=len(streams), mismatching=bad,
             histories_where_the_grammar_conforming_decoder_model_disagrees=spec_disagree)
    if hist_cases:
        c = hist_cases[len(hist_cases) // 2]
        chk.sample({"kind": "history", "stream": streams[c["sid"]]["bytes"], "ops": [(o["op"], o["k"]) for o in c["ops"]]})
    chk.cov["rule"] = ("one evaluation = one generated value sequence run through carquet's encoder and decoder (all entry points of the family) "
                       "or one call history replayed on the streaming decoder; distinct non-trivial = distinct (encoding, parameters, sequence) "
                       "with >= 2 values, or distinct (stream, call history)")
