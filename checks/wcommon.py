"""Shared driver for writer histories (C01, C05, C14, C16, C18).

TLC (MC_WriterGen over Writer.tla) generates the write histories; h_file replays them on carquet;
the recorded events are validated by TLC against WriterTrace.tla (which judges the file with the
TLA+ reference reader ParquetFile.tla and the read-back against the promised table).
"""
import json
import os
import struct

from vlib import common
from vlib.common import hexs

CODECS = {0: "UNCOMPRESSED", 1: "SNAPPY", 2: "GZIP", 5: "LZ4", 6: "ZSTD"}
SPEC_DECODABLE = {0, 1, 5}          # codecs whose page bodies the TLA+ reference reader can decode (Snappy.tla, Lz4.tla)

GEN_CFG = """CONSTANTS
  SchemaIds = %(schemas)s
  RowChoices = %(rows)s
  MaxGroups = %(groups)d
  MaxBatches = %(batches)d
  NullMode = "%(nullmode)s"
  AnyOrder = %(anyorder)s
  Sample = %(sample)s
  Replicas = %(replicas)d
  Seed = %(seed)d
INIT Init
NEXT Next
INVARIANTS Inv Emit
CHECK_DEADLOCK FALSE
"""


def gen_histories(chk, schemas, rows, groups, batches, nullmode="all", anyorder=False, simulate=None, depth=60,
                  workers=None, limit=None):
    """Exhaustive (simulate=None) or sampled histories. Sampling does NOT use `tlc -simulate` (which spends its
    time enumerating successors of wide schemas): null patterns, batch sizes and def-level choices are drawn
    with RandomElement inside a breadth-first run, `simulate` draws per schema; reproducible from VERIF_SEED."""
    cfg = GEN_CFG % dict(schemas="{%s}" % ", ".join(map(str, schemas)), rows="{%s}" % ", ".join(map(str, rows)),
                         groups=groups, batches=batches, nullmode=nullmode, anyorder="TRUE" if anyorder else "FALSE",
                         sample="TRUE" if simulate else "FALSE", replicas=max(1, (simulate or 1) // 4), seed=common.seed() % 100000)
    r = common.run_tlc("MC_WriterGen", constants_text=cfg, workers=workers, timeout=2400, tseed=common.seed())
    if r.violated:
        raise common.InfraError("MC_WriterGen: Writer.tla invariant violated: %s\n%s" % (r.violated, r.out[-2000:]))
    if r.rc != 0:
        raise common.InfraError("MC_WriterGen failed rc=%s\n%s" % (r.rc, r.out[-2000:]))
    chk.add_tlc(r)
    seen, out = set(), []
    for c in r.cases:
        k = json.dumps(c, sort_keys=True)
        if k in seen:
            continue
        seen.add(k)
        out.append(c["ops"])
        if limit and len(out) >= limit:
            break
    return out


def enc_vals(typ, vals):
    if typ == 6:
        return b"".join(struct.pack("<I", len(v)) + bytes(v) for v in vals)
    return b"".join(bytes(v) for v in vals)


def dec_vals(typ, tlen, hx):
    """harness value dump -> list of byte lists; garbage marker stays unequal to anything"""
    if hx == "-":
        return []
    if hx.startswith("!"):
        return [[-1]]
    try:
        b = bytes.fromhex(hx)
    except ValueError:
        return [[-2]]          # not a value dump at all (harness printed something else): never equal
    if typ == 6:
        out, p = [], 0
        while p + 4 <= len(b):
            n = struct.unpack_from("<I", b, p)[0]
            out.append(list(b[p + 4:p + 4 + n]))
            p += 4 + n
        return out
    w = {0: 1, 1: 4, 2: 8, 3: 12, 4: 4, 5: 8, 7: tlen}.get(typ, 0)
    if w <= 0:
        return [[-1]]
    return [list(b[i:i + w]) for i in range(0, len(b), w)]


def history_line(cid, ops, codec, page, path, modes=("f",), read=True, dump=True, verify=None, mode_w="p"):
    """One harness line for a write history followed by read-back in the given open modes."""
    cols = ops[0]["cols"]
    toks = [cid]
    for c in cols:
        toks.append("S:%s:%d:%d:%d" % (hexs(c["name"]), c["type"], c["rep"], c["tlen"]))
    toks.append("W:%s:%d:%d:%s" % (path, codec, page, mode_w))
    ngroups = 1
    total = 0
    for op in ops[1:]:
        if op["op"] == "WriteBatch":
            typ = cols[op["c"]]["type"]
            defs = "".join(str(d) for d in op["defs"]) if op["withDefs"] else "-"
            toks.append("B:%d:%d:%s:%s" % (op["c"], op["n"], defs, hexs(enc_vals(typ, op["vals"]))))
            if op["c"] == 0:
                total += op["n"]
        elif op["op"] == "NewRowGroup":
            toks.append("G")
            ngroups += 1
        elif op["op"] == "Close":
            toks.append("C")
    if dump:
        toks.append("F:%s" % path)
    if read:
        for m in modes:
            # "f" | "m" | "b", optionally followed by a piece size: the chunk is then read back by repeated
            # read_batch(piece) calls (D) instead of one call for the whole chunk (R)
            piece = int(m[1:]) if len(m) > 1 else 0
            toks.append("O:%s:%s%s" % (path, m[0], "" if verify is None else ":%d" % verify))
            toks.append("M")
            for g in range(ngroups):
                for c in range(len(cols)):
                    toks.append("K:%d:%d" % (g, c))
                    toks.append("D:%d" % piece if piece else "R:%d" % (total + 3))
            toks.append("Z")
    return " ".join(toks)


def parse_M(tok):
    f = tok.split(":")
    rows, nrg, ncol = int(f[0]), int(f[1]), int(f[2])
    rgs = [] if f[3] == "-" else [int(x) for x in f[3].split(",")]
    leaves = []
    for lf in f[6:]:
        p = lf.split(",")
        name = [] if p[0] in ("-", "?") else list(bytes.fromhex(p[0]))
        leaves.append({"path": [name], "type": int(p[1]), "rep": int(p[2]), "tlen": int(p[3]),
                       "maxDef": int(p[4]), "maxRep": int(p[5])})
    return rows, nrg, ncol, rgs, leaves


def events_of(cid, ops, toks, with_file=True, layout=False):
    """Translate the harness output tokens of one history into trace events (pure re-formatting)."""
    cols = ops[0]["cols"]
    ev = []
    it = iter(toks)
    opi = 1
    cur_open = None
    rgs = []
    k_sel = None
    filebytes = None
    pend_stale = False
    for t in it:
        key, _, val = t.partition("=")
        if key == "W":
            ev.append({"id": cid, "e": "Create", "cols": cols, "ok": val == "ok"})
        elif key == "B":
            op = ops[opi]; opi += 1
            ev.append({"id": cid, "e": "WriteBatch", "c": op["c"], "n": op["n"], "withDefs": op["withDefs"],
                       "defs": op["defs"], "vals": op["vals"], "st": int(val) if val.lstrip("-").isdigit() else -999})
        elif key == "G":
            opi += 1
            ev.append({"id": cid, "e": "NewRowGroup", "st": int(val) if val.lstrip("-").isdigit() else -999})
        elif key == "C":
            opi += 1
            st = val.split(":")[0]
            ev.append({"id": cid, "e": "Close", "st": int(st) if st.lstrip("-").isdigit() else -999})
        elif key == "F":
            if val not in ("absent", "readerr"):
                filebytes = bytes.fromhex(val) if val != "-" else b""
                if with_file:
                    ev.append({"id": cid, "e": "File", "bytes": list(filebytes), "layout": layout})
        elif key == "O":
            cur_open = {"id": cid, "e": "Open", "ok": val == "ok", "rows": -1, "rgs": [], "leaves": [], "mode": ""}
            if val != "ok":
                ev.append(cur_open)
                cur_open = None
        elif key == "M" and cur_open is not None:
            rows, nrg, ncol, rgs, leaves = parse_M(val)
            cur_open.update(rows=rows, rgs=rgs, leaves=leaves)
            ev.append(cur_open)
            cur_open = None
        elif key == "K":
            k_sel = val
        elif key == "L":
            pend_stale = True
        elif key == "D":
            if k_sel is None or not k_sel.startswith("ok"):
                continue
            _, typ, tlen, maxdef, _ = k_sel.split(":")
            k_sel = None
            f = val.split(":")
            # delivered:err:defs:vals -> the shape of an R result (n:defs:reps:vals:remaining); a failed call shows as
            # a wrong count / remaining
            ev.append({"_R": "%s:%s:-:%s:%d" % (f[0], f[2], f[3], int(f[5]) if f[1] == "0" else -1), "_type": int(typ), "_tlen": int(tlen)})
        elif key == "R":
            if k_sel is None or not k_sel.startswith("ok"):
                continue
            _, typ, tlen, maxdef, _ = k_sel.split(":")
            k_sel = None
            # which (file row group, column) was this?  recover from position: count K's so far
            ev.append({"_R": val, "_type": int(typ), "_tlen": int(tlen)})
    # second pass: attach (g, c) to chunk reads using the order K was issued: groups x cols
    out, ri = [], 0
    ncols = len(cols)
    nonempty = None
    for e in ev:
        if e.get("e") == "Open":
            nonempty = [i for i, n in enumerate(e["rgs"]) if n > 0]
            ri = 0
            out.append(e)
        elif "_R" in e:
            # reads were issued for g in range(ngroups) for c in cols; K on a missing group fails
            # and produces no _R, so successful reads enumerate existing groups in order.
            f = e["_R"].split(":")
            g_file, c = divmod(ri, ncols)
            ri += 1
            if nonempty is None or g_file not in nonempty:
                continue          # empty row group: nothing promised about it
            n = int(f[0])
            defs = [] if f[1] == "-" else [ord(ch) - 48 for ch in f[1]]
            vals = dec_vals(e["_type"], e["_tlen"], f[3])
            out.append({"id": cid, "e": "Chunk", "g": nonempty.index(g_file), "c": c, "n": n, "defs": defs,
                        "vals": vals, "rem": int(f[4]), "stale": False})
        else:
            out.append(e)
    if pend_stale:
        out.append({"id": cid, "e": "Fault", "kind": "stale-byte-array"})
    return out, filebytes


def run_histories(chk, histories, configs, modes=("f",), with_file=True, determinism=False, nproc=None, label="w"):
    """Execute histories x configs [(codec, page)], return (executions, meta) where executions is a
    list of event lists ready for WriterTrace and meta maps case id -> (ops, codec, page)."""
    binary = common.build_harness("h_file")
    fdir = os.path.join(common.scratch_root(), "files-%d" % os.getpid())
    os.makedirs(fdir, exist_ok=True)
    lines, meta = [], {}
    for hi, ops in enumerate(histories):
        for (codec, page) in configs:
            cid = "%s%d_%d_%d" % (label, hi, codec, page)
            meta[cid] = (ops, codec, page)
            lines.append(history_line(cid, ops, codec, page, "@PATH@", modes=modes,
                                      dump=True, read=True))
    def per_chunk(i, ln):
        return ln.replace("@PATH@", os.path.join(fdir, "f%d.parquet" % i))
    res, faults, leaky = common.run_harness_parallel(binary, lines, nproc=nproc, line_for_chunk=per_chunk)
    res2 = {}
    if determinism:
        # second run in processes with a perturbed heap; only the file bytes are compared
        def per_chunk2(i, ln):
            return ln.replace("@PATH@", os.path.join(fdir, "g%d.parquet" % i))
        # ... and, inside each process, after a different predecessor than in the first run (reversed order): state
        # kept between writer instances (static / thread-local tables, pools) must not leak into the bytes
        wl = [history_line(cid, meta[cid][0], meta[cid][1], meta[cid][2], "@PATH@", read=False) for cid in reversed(list(meta))]
        res2, _, _ = common.run_harness_parallel(binary, wl, nproc=nproc, leaks=False, line_for_chunk=per_chunk2,
                                                 env={"MALLOC_PERTURB_": "165", "ASAN_OPTIONS": common.ASAN_ENV["ASAN_OPTIONS"] + ":malloc_fill_byte=90:max_malloc_fill_size=4096"})
    execs = []
    files = {}
    for cid, (ops, codec, page) in meta.items():
        toks = res.get(cid)
        if toks is None:
            continue
        evs, fb = events_of(cid, ops, toks, with_file=with_file, layout=codec not in SPEC_DECODABLE)
        files[cid] = fb
        if determinism and cid in res2:
            f2 = [t for t in res2[cid] if t.startswith("F=")]
            if f2 and fb is not None:
                b2 = bytes.fromhex(f2[0][2:]) if f2[0][2:] not in ("-", "absent", "readerr") else b""
                # insert after File / Close
                evs.append({"id": cid, "e": "SameBytes", "same": b2 == fb})
        execs.append(evs)
    for f in faults:
        execs.append([{"id": f.case_id, "e": "Fault", "kind": f.signature()}])
    for cid in leaky:
        execs.append([{"id": cid, "e": "Fault", "kind": "leak"}])
    try:
        for fn in os.listdir(fdir):
            os.unlink(os.path.join(fdir, fn))
        os.rmdir(fdir)
    except OSError:
        pass
    return execs, meta, files, faults


def count_boundary_histories(chk, tier):
    """Tables whose footer lists have lengths around the encoding boundaries of the metadata (Thrift compact list
    header: 15 elements; one-byte varints: 128): number of columns (schema list = columns + 1, chunk list = columns)
    and number of row groups swept across them."""
    widths = [113, 114, 115, 116, 117] + ([127, 128, 129, 130] if tier != "quick" else [128])
    hs = gen_histories(chk, widths, [1, 2], 1, 1, nullmode="runs", simulate=4, workers=4)
    hs += gen_histories(chk, [1], [1], 17 if tier == "quick" else 130, 1, simulate=4, workers=4)
    return hs


def long_histories(chk, tier):
    """Long columns (hundreds to thousands of rows): level runs and bit-packed groups of every length class, pages with
    many values, run headers beyond one varint byte. Null patterns = beat of two square waves (MC_WriterGen "beat")."""
    if tier == "quick":
        return gen_histories(chk, [1, 3, 9, 6, 4, 8], [100, 520, 1100], 2, 3, nullmode="beat", simulate=4, workers=6)
    hs = gen_histories(chk, [1, 3, 9, 6, 4, 8], [100, 520, 1100, 4100], 2, 3, nullmode="beat", simulate=4, workers=8)
    hs += gen_histories(chk, [1, 6, 3], [9000, 20000], 2, 3, nullmode="beat", simulate=8, workers=8)
    return hs


def nontrivial_history(ops):
    nb = sum(1 for o in ops if o["op"] == "WriteBatch")
    nulls = any(0 in o["defs"] for o in ops if o["op"] == "WriteBatch" and o["withDefs"])
    ncols = len(ops[0]["cols"])
    return nb > ncols or nulls
