"""Encodings part of C08: decoder entry points on arbitrary bytes, bit widths 0..255, counts, capacities.

    from checks import c08_encodings
    c08_encodings.run_part(chk, tier)          # called by checks/c08.py

Inputs come from the specification (MC_EncFuzz: the format grammars driven over every short string
of boundary bytes; every alphabet byte substituted at every position of valid streams written by the
format modules, every truncation, one garbage byte appended - each input classified valid / not valid
by the format modules) plus seeded random bytes. The harness (h_enc) calls every decoder entry point
below the page layer with exact-size heap buffers for input and output under AddressSanitizer:

    carquet_rle_decode_all / _decode_levels / _decode_levels_prefixed / rle_decoder get, get_batch, skip
    carquet_decode_plain_* (8 types + the generic switch), carquet_bitunpack_32
    carquet_delta_decode_int32 / _int64, carquet_delta_length_decode, carquet_delta_strings_decode
    carquet_byte_stream_split_decode (float, double, generic), carquet_dictionary_decode_*

Observed (the abstract `fault` variable): crash / ASan report / hang / leak, and the size contract:
returned count <= requested count, reported consumed <= declared input length.
Level: exploration.
"""
import os
import random

from vlib import common
from vlib.common import hexs, InfraError
from checks import enc_lib as E

BOUNDARY_BW = (0, 1, 7, 8, 9, 16, 31, 32, 33, 63, 64, 65, 128, 255)


def _bw_for(i, extra=1):
    """bit widths for input number i: the boundary widths rotate, plus a width that sweeps 0..255"""
    out = {BOUNDARY_BW[i % len(BOUNDARY_BW)], BOUNDARY_BW[(i * 5 + 3) % len(BOUNDARY_BW)]}
    for j in range(extra):
        out.add((i * 7 + j * 101) % 256)
    return sorted(out)


def _counts(i):
    return sorted({(0, 1, 8)[i % 3], (9, 17, 64, 100, 3)[i % 5]})


def hybrid_lines(cid, bs, i, ops_hist=True, bws=None, counts=None):
    hx = hexs(bs)
    lines = []
    for bw in (bws if bws is not None else _bw_for(i)):
        for n in (counts if counts is not None else _counts(i)):
            lines.append("%s.a%d.%d rle_dec %d %d %s" % (cid, bw, n, bw, n, hx))
            lines.append("%s.l%d.%d lvl_dec %d %d %s" % (cid, bw, n, bw, n, hx))
            lines.append("%s.p%d.%d lvlp_dec %d %d %s" % (cid, bw, n, bw, n, hx))
        if ops_hist:
            lines.append("%s.h%d rle_hist %d %s H G B3 S2 G H S9 B1 H B40 G S100 H" % (cid, bw, bw, hx))
    return lines


def other_lines(cid, bs, i):
    hx = hexs(bs)
    n = len(bs)
    lines = []
    cnts = _counts(i)
    for cnt in cnts:
        for t in range(8):
            tlen = (1, 3, 16, 0)[i % 4] if t == 7 else 0
            lines.append("%s.P%d.%d plain_dec %d %d %d %s" % (cid, t, cnt, t, tlen, cnt, hx))
        lines.append("%s.d4.%d d32_dec %d %s" % (cid, cnt, cnt, hx))
        lines.append("%s.d8.%d d64_dec %d %s" % (cid, cnt, cnt, hx))
        lines.append("%s.dl.%d dl_dec %d %s" % (cid, cnt, cnt, hx))
        for cap in sorted({(0, max(0, n - 1), n)[i % 3], n + 1, 4096}):
            lines.append("%s.ds.%d.%d ds_dec %d %d %s" % (cid, cnt, cap, cnt, cap, hx))
        for kind, w in (("f", 4), ("d", 8), ("g", i % 17)):
            lines.append("%s.b%s%d.%d bss_dec %s %d %d %s" % (cid, kind, w, cnt, kind, w, cnt, hx))
    # dictionary: the input is the index stream (first byte = bit width); small dictionaries of 0, 1, 3 entries
    for t, w in ((1, 4), (2, 8), (4, 4), (5, 8)):
        if (i + t) % 2:
            continue
        for dc, dsize in ((0, 0), (1, 1), (3, 3), (3, 2), (-1, 3), (1 << 30, 3))[i % 2::2]:
            dict_hex = hexs([(k * 37) % 256 for k in range(dsize * w)])
            lines.append("%s.D%d.%d.%d dict_dec %d %d %s %s %d" % (cid, t, dc if dc >= 0 else 9, dsize, t, dc, dict_hex, hx, (0, 1, 9, 40)[i % 4]))
    return lines


def bitunpack_lines(cid, bs, i):
    # the packer's unit is a whole group: give exactly bw * ceil(count / 8) bytes when the input allows
    lines = []
    for bw in (1, 3, 8, 9, 17, 32):
        groups = len(bs) // bw
        if groups == 0:
            continue
        for cnt in sorted({8 * groups, max(0, 8 * groups - 3)}):
            lines.append("%s.u%d.%d bp_unp %d %d %s" % (cid, bw, cnt, bw, cnt, hexs(bs[:groups * bw])))
    return lines


def seed_family_lines(cid, c, i):
    """mutated valid stream: its own entry point at the seed's parameters and at neighbouring ones"""
    f, bs, n, bw = c["f"], c["bytes"], c["n"], c["bw"]
    hx = hexs(bs)
    lines = []
    if f == "hyb":
        for b in sorted({bw, max(0, bw - 1), bw + 1, 255 if i % 3 == 0 else 64}):
            for k in sorted({n, max(0, n - 1), n + 1, 0}):
                lines.append("%s.a%d.%d rle_dec %d %d %s" % (cid, b, k, b, k, hx))
                if b <= 16 or b >= 33:
                    lines.append("%s.l%d.%d lvl_dec %d %d %s" % (cid, b, k, b, k, hx))
            lines.append("%s.h%d rle_hist %d %s H B3 S2 G H S7 G B1 H B40 G H" % (cid, b, b, hx))
    elif f == "lvlp":
        for b in sorted({bw, 0, 255} if c["o"] != "pre" else {bw, 9}):
            for k in sorted({n, n + 1, 0}):
                lines.append("%s.p%d.%d lvlp_dec %d %d %s" % (cid, b, k, b, k, hx))
    elif f in ("d32", "d64"):
        for k in sorted({n, max(0, n - 1), n + 1, 0, 1}):
            lines.append("%s.%s.%d %s_dec %d %s" % (cid, f, k, f, k, hx))
        other = "d64" if f == "d32" else "d32"
        lines.append("%s.%s.%d %s_dec %d %s" % (cid, other, n, other, n, hx))
    elif f == "dlen":
        for k in sorted({n, max(0, n - 1), n + 1, 1}):
            lines.append("%s.dl.%d dl_dec %d %s" % (cid, k, k, hx))
    elif f == "dstr":
        need = 4096
        for k in sorted({n, max(1, n - 1), n + 1}):
            for cap in (0, 7, 8, 9, 11, need):
                lines.append("%s.ds.%d.%d ds_dec %d %d %s" % (cid, k, cap, k, cap, hx))
    elif f == "plain6":
        for k in sorted({n, n - 1, n + 1, 0}):
            lines.append("%s.P6.%d plain_dec 6 0 %d %s" % (cid, k, k, hx))
    elif f == "dictidx":
        for t, w in ((1, 4), (5, 8)):
            for dc in (1, 3, 8):
                dict_hex = hexs([(k * 37) % 256 for k in range(dc * w)])
                for k in sorted({n, n + 1, 1}):
                    lines.append("%s.D%d.%d.%d dict_dec %d %d %s %s %d" % (cid, t, dc, k, t, dc, dict_hex, hx, k))
    return lines


def size_contract(op, args, toks):
    """returns a description if the reported size exceeds the declared capacity / input length"""
    try:
        if op in ("rle_dec", "lvl_dec", "lvlp_dec"):
            maxv = int(args[1])
            n = int(toks[0])
            if n > max(maxv, 0):
                return "returned %d values for max_values %d" % (n, maxv)
            if op == "lvlp_dec":
                cons, ilen = int(toks[1]), (0 if args[2] == "-" else len(args[2]) // 2)
                if cons > ilen:
                    return "bytes_consumed %d for %d input bytes" % (cons, ilen)
        elif op == "plain_dec":
            ret, ilen = int(toks[0]), (0 if args[3] == "-" else len(args[3]) // 2)
            if ret > ilen:
                return "returned %d consumed bytes for %d input bytes" % (ret, ilen)
        elif op in ("d32_dec", "d64_dec", "dl_dec", "ds_dec"):
            st, cons = int(toks[0]), int(toks[1])
            hx = args[-1]
            ilen = 0 if hx == "-" else len(hx) // 2
            if st == 0 and cons > ilen:
                return "status OK with bytes_consumed %d for %d input bytes" % (cons, ilen)
    except (ValueError, IndexError):
        return "unparseable result %s" % toks
    return None


def _uleb(bs, p):
    v = sh = 0
    while p < len(bs):
        b = bs[p]
        p += 1
        v |= (b & 0x7F) << sh
        if not b & 0x80:
            return v, p
        sh += 7
    return None, p


def fault_name(op, ln, f):
    """Specific named predicate of the faulting input where one is known, else the sanitizer frame."""
    toks = ln.split(" ")
    try:
        if op == "lvlp_dec":
            bs = E.unhex_list(toks[4])
            if len(bs) >= 4 and int.from_bytes(bytes(bs[:4]), "little") >= 0xFFFFFFFC:
                return "rle-levels-prefixed:length-prefix-wraps-uint32:" + f.kind
        if op in ("d32_dec", "d64_dec", "dl_dec", "ds_dec"):
            bs = E.unhex_list(toks[-1])
            bsz, p = _uleb(bs, 0)
            m, p = _uleb(bs, p)
            if bsz and m and (bsz % m or (bsz // m) % 8):
                return "delta-dec:miniblock-size-not-multiple-of-8-over-read:" + f.kind
        if op == "dict_dec":
            idx = E.unhex_list(toks[5])
            if idx and idx[0] >= 32:
                return "dict-dec:index>=2^31-passes-signed-range-check:" + f.kind
    except (ValueError, IndexError):
        pass
    return "enc-dec:%s:%s" % (op, f.signature())


def run_part(chk, tier):
    binary = common.build_harness(E.HARNESS)
    thorough = tier != "quick"
    r = common.run_tlc("MC_EncFuzz", constants_text=E.cfg_text({"Thorough": "TRUE" if thorough else "FALSE"}),
                       workers=int(os.environ["VERIF_TLC_CAP"]) if os.environ.get("VERIF_TLC_CAP") else None,
                       timeout=3000 if thorough else 600)
    if r.error or r.rc != 0:
        raise InfraError("MC_EncFuzz failed rc=%s\n%s" % (r.rc, r.out[-2500:]))
    chk.add_tlc(r)
    inputs = [c for c in r.cases if c.get("kind") == "fuzz"]
    rng = random.Random(common.seed() * 7919 + 11)
    nrand = 6000 if thorough else 600
    for _ in range(nrand):
        ln = rng.choice((1, 2, 3, 4, 5, 8, 13, 21, 34, 64, 130))
        inputs.append({"kind": "fuzz", "o": "random", "bytes": [rng.randrange(256) if rng.random() < 0.7 else rng.choice((0, 1, 2, 3, 0x80, 0xFF, 0x7F)) for _ in range(ln)], "tags": []})
    lines, meta = [], {}
    for i, c in enumerate(inputs):
        cid = "f%d" % i
        bs = c["bytes"]
        if c["o"] in ("alpha", "random"):
            # every 256 bit widths are swept across the inputs; each input also meets the boundary widths
            ls = hybrid_lines(cid, bs, i)
            if (thorough and (len(bs) <= 3 or i % 4 == 0)) or (not thorough and i % 2 == 0) or c["o"] == "random":
                ls += other_lines(cid, bs, i) + bitunpack_lines(cid, bs, i)
        else:
            ls = seed_family_lines(cid, c, i)
        for ln in ls:
            meta[ln.split(" ", 1)[0]] = i
        lines += ls
    if thorough:
        # all bit widths 0..255 x counts on a fixed set of hostile headers
        for j, bs in enumerate(([0xFF, 0xFF, 0xFF, 0xFF, 0x0F], [0x03] + [0xAA] * 40, [0x10], [0x90], [0xFE, 0x01, 0x55], [0x02, 0xFF, 0xFF, 0xFF, 0xFF, 0x03, 0x01])):
            for ln in hybrid_lines("w%d" % j, bs, j, bws=range(256), counts=(0, 1, 9, 300)):
                meta[ln.split(" ", 1)[0]] = None
                lines.append(ln)
    by_id = {ln.split(" ", 1)[0]: ln for ln in lines}

    def group_of(ln):
        lid, op = ln.split(" ", 2)[:2]
        i = meta.get(lid)
        c = inputs[i] if i is not None else None
        return (op, (c["o"] if c["o"] in ("alpha", "random") else "%s/%s/%s" % (c["f"], c["bw"], c["n"])) if c else "sweep")

    res, faults, leaky, skipped = E.run_grouped(binary, lines, group_of, procs=4 if not thorough else 8)
    stats = {"inputs_from_tlc": sum(1 for c in inputs if c["o"] != "random"), "random_inputs": nrand, "calls": len(lines),
             "valid_by_spec_inputs": 0, "faults": len(faults), "size_contract_breaks": 0,
             "calls_skipped_after_25_identical_faults_in_their_group": skipped}
    per_ep = {}
    for lid, ln in by_id.items():
        toks = ln.split(" ")
        op, args = toks[1], toks[2:]
        i = meta.get(lid)
        c = inputs[i] if i is not None else None
        valid = False
        if c is not None:
            if c["o"] in ("alpha", "random"):
                tags = c.get("tags", [])
                valid = (op in ("rle_dec", "lvl_dec", "rle_hist") and ("hyb%s" % args[0]) in tags) or \
                        (op == "d32_dec" and "d32" in tags) or (op == "d64_dec" and "d64" in tags) or \
                        (op == "dl_dec" and "dlen" in tags) or (op == "ds_dec" and "dstr" in tags)
            else:
                own = {"hyb": ("rle_dec", "lvl_dec", "rle_hist"), "lvlp": ("lvlp_dec",), "d32": ("d32_dec",), "d64": ("d64_dec",),
                       "dlen": ("dl_dec",), "dstr": ("ds_dec",), "plain6": ("plain_dec",), "dictidx": ()}[c["f"]]
                same = (op in own and (c["f"] not in ("hyb", "lvlp") or int(args[0]) == c["bw"]))
                valid = bool(c.get("valid")) and same
        if valid:
            stats["valid_by_spec_inputs"] += 1
        chk.count(("c08enc", op, args), not valid)
        per_ep[op] = per_ep.get(op, 0) + 1
        got = res.get(lid)
        if got is None:
            continue
        bad = size_contract(op, args, got)
        if bad:
            stats["size_contract_breaks"] += 1
            chk.violation("enc-dec:%s:size-contract" % op, "%s: %s" % (ln[:200], bad), {"line": ln})
    for f in faults:
        ln = by_id.get(f.case_id, f.case_id)
        op = ln.split(" ")[1] if " " in ln else "?"
        chk.violation(fault_name(op, ln, f), "%s on input line: %s" % (f.signature(), ln[:300]),
                      {"line": ln, "stderr": getattr(f, "stderr", "")[-2500:]})
    for lid in leaky:
        ln = by_id.get(lid, lid)
        chk.violation("enc-dec:%s:leak" % (ln.split(" ")[1] if " " in ln else "?"), "allocation left after decoder call: %s" % ln[:300], {"line": ln})
    stats["per_entry_point"] = per_ep
    chk.part("encodings", **stats)
    chk.sample({"c08_encodings_input": inputs[len(inputs) // 3]["bytes"], "origin": inputs[len(inputs) // 3]["o"]})
    return stats
