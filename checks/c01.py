"""C01 - write-then-read round trip returns exactly the table that was written.

Deciding method: TLC explores Writer.tla (MC_WriterGen) to generate every write history within the
bounds; the histories are replayed on carquet; the recorded trace (statuses, re-open metadata, full
content of every chunk read back through carquet's reader) is validated by TLC against
WriterTrace.tla, whose acceptance condition is `read-back = TableWritten(history)`.
"""
from vlib import common
from checks import wcommon

LEVEL = "model_checking"


def configs(tier):
    if tier == "quick":
        return [(0, 1 << 20), (1, 64), (6, 64), (5, 128), (2, 128)]
    return [(0, 1 << 20), (0, 64), (1, 64), (1, 4096), (2, 128), (5, 64), (6, 64), (6, 1 << 20)]


def histories(chk, tier):
    hs = []
    if tier == "quick":
        hs += wcommon.gen_histories(chk, [1], [1, 2, 3, 4, 5], 1, 3)                       # shape: all null patterns, all splits
        hs += wcommon.gen_histories(chk, [2, 3, 4, 5, 6, 7, 8], [0, 2, 9], 3, 2, nullmode="runs", simulate=40, depth=40, workers=4)
        # every run-structured null pattern of 9, 10 and 12 rows in one batch: level runs and literal groups of the page's
        # level block end in every way (partly filled literal group followed by a long run, ...)
        hs += wcommon.gen_histories(chk, [1], [9, 10, 12], 1, 1, nullmode="runs")
    else:
        hs += wcommon.gen_histories(chk, [1], [1, 2, 3, 4, 5, 6], 1, 3)
        hs += wcommon.gen_histories(chk, [1], [9, 10, 17], 1, 2, nullmode="runs", limit=20000)
        hs += wcommon.gen_histories(chk, [2, 3], [0, 1, 2], 2, 2, limit=20000)
        hs += wcommon.gen_histories(chk, [2, 3, 4, 5, 6, 7, 8], [0, 1, 2, 9, 17], 3, 3, nullmode="runs", anyorder=True,
                                    simulate=40, depth=60, workers=8)
    return hs


def many_page_histories(chk, tier):
    """One chunk cut into many pages (every write_batch closes a page at page_size 1) and read back by ONE
    read_batch call: every split of the rows into batches, so any bound on 'pages crossed per call' is passed."""
    hs = wcommon.gen_histories(chk, [6], [8] if tier == "quick" else [8, 11], 1, 11)               # REQUIRED BYTE_ARRAY
    hs += wcommon.gen_histories(chk, [9], [7] if tier == "quick" else [7, 9], 1, 9, nullmode="runs")   # OPTIONAL BYTE_ARRAY
    hs = [h for h in hs if sum(1 for o in h if o["op"] == "WriteBatch") >= 6]
    cap = 300 if tier == "quick" else 6000
    return hs if len(hs) <= cap else hs[::len(hs) // cap + 1]


def report(chk, verdicts, meta, prop_filter):
    for v in verdicts:
        why = sorted(v["why"])
        mine = [w for w in why if prop_filter(w)]
        if not mine:
            continue
        ops, codec, page = meta.get(v["id"], (None, None, None))
        for w in mine:
            chk.violation(w, "history %s (codec=%s page=%s): event %s rejected by WriterTrace: %s %s" % (
                v["id"], codec, page, v["e"], why, v.get("detail", "")),
                {"id": v["id"], "ops": ops, "codec": codec, "page": page, "event": v["e"], "why": why})


PW_CFG = ("CONSTANTS\n PerBatchBlocks = %s\n MaxRows = %d\n PageTarget = 76\nINIT Init\nNEXT Next\n"
          "INVARIANT EveryPageDecodes\nCHECK_DEADLOCK FALSE\n")


def design_model(chk, tier):
    """Implementation-shaped model of the page writer (PageWriterImpl.tla): the repaired design must
    satisfy `every page decodes to the rows added to it`; the design of the pinned commit (one level
    block per write_batch) must violate it - otherwise the model has lost its teeth."""
    rows = 6 if tier == "quick" else 8
    r = common.run_tlc("MC_PageWriterImpl", constants_text=PW_CFG % ("FALSE", rows), workers=8, want_cases=False, timeout=2400)
    if r.violated:
        chk.violation("page-writer-design:" + r.violated, "TLC: the page-writer design as implemented violates " + r.violated, r.out[-2500:])
    elif r.rc != 0:
        raise common.InfraError("MC_PageWriterImpl failed\n" + r.out[-1500:])
    chk.add_tlc(r)
    r2 = common.run_tlc("MC_PageWriterImpl", constants_text=PW_CFG % ("TRUE", rows), workers=2, want_cases=False)
    if not r2.violated:
        raise common.InfraError("PageWriterImpl no longer rejects the per-batch level-block design (vacuous model)")
    chk.part("design_model", states=r.distinct, pinned_design_counterexample_found=True)


def run(chk, tier, replay):
    design_model(chk, tier)
    chk.assumptions += ["Write histories stay inside the documented API contract (non-empty batches, balanced columns, non-NULL values pointer)",
                        "Values returned for a nullable column are dense per read_batch call (DESIGN.md section 5)",
                        "TLC; WriterTrace.tla/Writer.tla; harness h_file copies bytes only"]
    hs = histories(chk, tier) + wcommon.count_boundary_histories(chk, tier)
    cfgs = configs(tier)
    # read back twice: the whole chunk in one call (fread) and in pieces of 3 rows (buffer)
    execs, meta, files, faults = wcommon.run_histories(chk, hs, cfgs, modes=("f", "b3"), with_file=False)
    mp = many_page_histories(chk, tier)
    mcfgs = [(0, 1), (1, 1)] if tier == "quick" else [(0, 1), (1, 1), (6, 1), (5, 24)]
    e2, m2, _, _ = wcommon.run_histories(chk, mp, mcfgs, modes=("f", "m", "b2"), with_file=False, label="p")
    execs += e2
    meta.update(m2)
    lg = [h for h in wcommon.long_histories(chk, tier) if len(h) > 2]
    lcfgs = [(0, 1 << 20), (1, 1024), (6, 4096), (2, 64), (5, 300)]
    e3, m3, _, _ = wcommon.run_histories(chk, lg, lcfgs, modes=("f", "m7"), with_file=False, label="l")
    execs += e3
    meta.update(m3)
    hs = hs + mp + lg
    for cid, (ops, codec, page) in meta.items():
        chk.count((ops, codec, page), wcommon.nontrivial_history(ops))
    for i in range(0, len(hs), max(1, len(hs) // 4)):
        chk.sample({"history": hs[i]})
    verdicts, stats, ress = common.validate_traces("WriterTrace", execs)
    for r in ress:
        chk.add_tlc(r)
    chk.cov["traces_validated_against_impl"] += stats["execs"]
    chk.part("trace", events=stats["events"], executions=stats["execs"], failed_calls=stats["failed"],
             histories=len(hs), many_page_histories=len(mp), long_histories=len(lg),
             configs=[(wcommon.CODECS[c], p) for c, p in cfgs], many_page_configs=[(wcommon.CODECS[c], p) for c, p in mcfgs])
    report(chk, verdicts, meta, lambda w: not w.startswith("file:"))
    chk.cov["rule"] = ("histories = reachable Close states of MC_WriterGen (schema catalogue x null patterns x all batch splits x "
                       "row-group cuts x def-levels given/omitted) x (codec, page_size); non-trivial = more batches than columns or >= 1 null; "
                       "distinct = distinct (history, codec, page_size)")
